//! shared helpers: PRNG, wire format, panic capture, output
use std::collections::BTreeMap;
use std::io::Write;
use std::panic::{catch_unwind, AssertUnwindSafe};

/// SplitMix64 — every random choice of a run derives from one state
pub struct Rng(pub u64);
impl Rng {
  pub fn next(&mut self) -> u64 {
    self.0 = self.0.wrapping_add(0x9E3779B97F4A7C15);
    let mut z = self.0;
    z = (z ^ (z >> 30)).wrapping_mul(0xBF58476D1CE4E5B9);
    z = (z ^ (z >> 27)).wrapping_mul(0x94D049BB133111EB);
    z ^ (z >> 31)
  }
  /// uniform in [0,1)
  pub fn unit(&mut self) -> f64 {
    (self.next() >> 11) as f64 / (1u64 << 53) as f64
  }
  pub fn range(&mut self, lo: f64, hi: f64) -> f64 {
    lo + (hi - lo) * self.unit()
  }
  /// log-uniform in [lo,hi], lo>0
  pub fn log_range(&mut self, lo: f64, hi: f64) -> f64 {
    (lo.ln() + (hi.ln() - lo.ln()) * self.unit()).exp()
  }
  pub fn below(&mut self, n: usize) -> usize {
    if n == 0 { 0 } else { (self.next() % n as u64) as usize }
  }
  pub fn between(&mut self, lo: usize, hi: usize) -> usize {
    lo + self.below(hi - lo + 1)
  }
  pub fn coin(&mut self) -> bool {
    self.next() & 1 == 1
  }
  pub fn pick<'a, T>(&mut self, xs: &'a [T]) -> &'a T {
    &xs[self.below(xs.len())]
  }
  /// standard normal (Box–Muller)
  pub fn normal(&mut self) -> f64 {
    let u1 = 1.0 - self.unit();
    let u2 = self.unit();
    (-2.0 * u1.ln()).sqrt() * (std::f64::consts::TAU * u2).cos()
  }
}

pub fn fl(x: f64) -> String {
  format!("x{:016x}", x.to_bits())
}
pub fn fls(xs: &[f64]) -> String {
  xs.iter().map(|x| fl(*x)).collect::<Vec<_>>().join(" ")
}

pub fn silence_panics() {
  std::panic::set_hook(Box::new(|_| {}));
}

/// run `f`, mapping a panic to None
pub fn guard<T>(f: impl FnOnce() -> T) -> Option<T> {
  catch_unwind(AssertUnwindSafe(f)).ok()
}

pub struct Ctx {
  pub rng: Rng,
  pub seed: u64,
  pub n: usize,
  pub thorough: bool,
  pub extra: Vec<String>,
  pub dist: BTreeMap<String, u64>,
  out: std::io::BufWriter<std::io::Stdout>,
}

impl Ctx {
  pub fn new(seed: u64, n: usize, thorough: bool, extra: Vec<String>) -> Self {
    Ctx {
      rng: Rng(seed ^ 0x5bd1e995_9e3779b9),
      seed,
      n,
      thorough,
      extra,
      dist: BTreeMap::new(),
      out: std::io::BufWriter::with_capacity(1 << 20, std::io::stdout()),
    }
  }
  /// correspondence line
  pub fn k(&mut self, op: &str, args: &str, outs: &str) {
    writeln!(self.out, "K {} {} => {}", op, args, outs).unwrap();
  }
  /// predicate result on the real code
  pub fn s(&mut self, pred: &str, pass: bool, sig: &str, detail: &str) {
    writeln!(
      self.out,
      "S {} {} {} | {}",
      pred,
      if pass { "PASS" } else { "FAIL" },
      sig,
      detail
    )
    .unwrap();
  }
  pub fn count(&mut self, key: &str) {
    *self.dist.entry(key.to_string()).or_insert(0) += 1;
  }
  pub fn finish(&mut self) {
    let d = std::mem::take(&mut self.dist);
    for (k, v) in d {
      writeln!(self.out, "D {} {}", k, v).unwrap();
    }
    self.out.flush().unwrap();
  }
}

/// "interesting" finite floats for endpoints
pub fn gen_endpoint(r: &mut Rng) -> f64 {
  match r.below(10) {
    0 => 0.0,
    1 => -0.0,
    2 => 1.0,
    3 => r.range(-1.0, 1.0),
    4 => r.range(-1e3, 1e3),
    5 => r.log_range(1e-9, 1e-5),        // wavelengths (m)
    6 => r.log_range(1e14, 1e16),        // angular frequencies
    7 => -r.log_range(1e-300, 1e300),
    8 => r.log_range(1e-300, 1e300),
    _ => (r.below(21) as f64) - 10.0,
  }
}
