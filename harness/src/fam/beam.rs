//! C13 — beam geometry (angle normalisation, setter histories, Snell conversions), unit conversions
use super::index::{gen_crystal_angle, gen_lambda, gen_temp, pol_tok, setup, CRYSTALS};
use crate::common::*;
use nalgebra::Vector3;
use spdcalc::beam::{direction_from_polar, Beam, BeamWaist, IdlerBeam, PumpBeam, SignalBeam};
use spdcalc::{AutoCalcParam, CrystalConfig, IdlerConfig, PumpConfig, SignalConfig};
use spdcalc::crystal::CrystalSetup;
use spdcalc::dim::ucum::{K, M, RAD, S};
use spdcalc::math::{fwhm_to_sigma, fwhm_to_waist, normalize_angle, normalize_angle_signed, waist_to_fwhm};
use spdcalc::prelude::*;
use spdcalc::utils::*;
use std::f64::consts::{FRAC_PI_2, PI, TAU};

const DEG: f64 = PI / 180.0;
thread_local! {
  static WAIST: std::cell::Cell<Option<(f64, f64, f64)>> = std::cell::Cell::new(None);
}
/// the statement's read-back tolerance 1e-5°
const READBACK_TOL_DEG: f64 = 1e-5;

fn next_up(x: f64) -> f64 {
  f64::from_bits(if x >= 0.0 { x.to_bits() + 1 } else { x.to_bits() - 1 })
}
fn next_down(x: f64) -> f64 {
  f64::from_bits(if x > 0.0 { x.to_bits() - 1 } else if x == 0.0 { (-f64::MIN_POSITIVE).to_bits() } else { x.to_bits() + 1 })
}

/// arbitrary finite angle arguments: ±0, multiples of π, 2π ± 1 ulp, ±400°, huge, tiny
pub fn gen_angle(r: &mut Rng) -> f64 {
  match r.below(16) {
    0 => 0.0,
    1 => -0.0,
    2 => (r.below(13) as f64 - 6.0) * PI,
    3 => (r.below(9) as f64 - 4.0) * FRAC_PI_2,
    4 => *r.pick(&[next_up(TAU), next_down(TAU), next_up(PI), next_down(PI), -next_up(PI), -next_down(PI), -next_up(TAU), -next_down(TAU)]),
    5 => *r.pick(&[400.0 * DEG, -400.0 * DEG, 360.0 * DEG, 180.0 * DEG, -180.0 * DEG, 720.0 * DEG]),
    6 => r.log_range(1e-300, 1e300) * if r.coin() { 1.0 } else { -1.0 },
    7 => -r.log_range(1e-30, 1e-10),
    8 => r.log_range(1e-30, 1e-10),
    9 => r.range(-1e6, 1e6),
    10 => r.range(-100.0, 100.0),
    11 => *r.pick(&[f64::MAX, -f64::MAX, f64::MIN_POSITIVE, -f64::MIN_POSITIVE, 5e-324, 1e16, -1e16]),
    _ => r.range(-TAU, TAU),
  }
}

fn gen_pol(r: &mut Rng) -> PolarizationType {
  if r.coin() {
    PolarizationType::Ordinary
  } else {
    PolarizationType::Extraordinary
  }
}

fn state(b: &Beam) -> String {
  let d = b.direction().into_inner();
  let w = b.waist();
  format!(
    "{} {} {} {} {} {} {} {} {}",
    fl(*(b.phi() / RAD)),
    fl(*(b.theta_internal() / RAD)),
    fl(d.x),
    fl(d.y),
    fl(d.z),
    fl(*(b.frequency() / (RAD / S))),
    pol_tok(b.polarization()),
    fl(*(w.x / M)),
    fl(*(w.y / M))
  )
}

/// congruent modulo 2π (only meaningful while the argument is small enough for f64's 2π to be 2π)
fn congruent(a: f64, x: f64) -> Option<bool> {
  if x.abs() > 1e6 {
    return None;
  }
  Some(((a - x) / 2.0).sin().abs() <= 1e-9)
}

/// the statement's invariant on the real beam: azimuth in [0, 2π], polar angle in (−π, π], direction
/// = unit vector (sinθ cosφ, sinθ sinφ, cosθ), both congruent to the last requested values
fn check_invariant(ctx: &mut Ctx, b: &Beam, req_phi: f64, req_theta: f64, hist: &str) {
  let phi = *(b.phi() / RAD);
  let th = *(b.theta_internal() / RAD);
  let d = b.direction().into_inner();
  let det = format!("history={} phi={:e} theta={:e} dir=({:e},{:e},{:e}) req_phi={:e} req_theta={:e}", hist, phi, th, d.x, d.y, d.z, req_phi, req_theta);
  ctx.s("C13.invariant", phi >= 0.0 && phi <= TAU, "beam/invariant/phi-range", &det);
  ctx.s("C13.invariant", th > -PI && th <= PI, "beam/invariant/theta-range", &det);
  let e = Vector3::new(th.sin() * phi.cos(), th.sin() * phi.sin(), th.cos());
  ctx.s(
    "C13.invariant",
    (d - e).amax() <= 8.0 * f64::EPSILON && (d.norm() - 1.0).abs() <= 8.0 * f64::EPSILON,
    "beam/invariant/direction",
    &det,
  );
  // ω = 2πc/λ through the getters (a cached wavelength must follow every frequency mutation)
  let om = *(b.frequency() / (RAD / S));
  if om.is_finite() && om.abs() > 1e-290 && om.abs() < 1e290 {
    let lam = *(b.vacuum_wavelength() / M);
    let two_pi_c = TAU * 299_792_458.0;
    ctx.s(
      "C13.invariant",
      (om * lam - two_pi_c).abs() <= 4.0 * f64::EPSILON * two_pi_c,
      "beam/invariant/frequency-wavelength",
      &format!("{} omega={:e} vacuum_wavelength={:e}", det, om, lam),
    );
  }
  // history independence: the cached direction equals the crate's own function of the stored angles, bit for bit
  let dd = direction_from_polar(b.phi(), b.theta_internal()).into_inner();
  ctx.s(
    "C13.history_independent",
    dd.x.to_bits() == d.x.to_bits() && dd.y.to_bits() == d.y.to_bits() && dd.z.to_bits() == d.z.to_bits(),
    "beam/history-dependent/direction",
    &det,
  );
  if let Some(ok) = congruent(phi, req_phi) {
    ctx.s("C13.invariant", ok, "beam/invariant/phi-congruent", &det);
  }
  if let Some(ok) = congruent(th, req_theta) {
    ctx.s("C13.invariant", ok, "beam/invariant/theta-congruent", &det);
  }
}

/// one random history of up to `maxlen` setter calls
fn history(ctx: &mut Ctx, maxlen: usize, wild: bool) {
  let c = ctx.rng.pick(&CRYSTALS).clone();
  let (cth, cph, t_c) = (gen_crystal_angle(&mut ctx.rng), gen_crystal_angle(&mut ctx.rng), gen_temp(&mut ctx.rng));
  let cs = setup(&c, cth, cph, t_c);
  let lam = gen_lambda(&mut ctx.rng, &c);
  let pol = gen_pol(&mut ctx.rng);
  let (p0, t0) = (gen_angle(&mut ctx.rng), gen_angle(&mut ctx.rng));
  let w0 = ctx.rng.log_range(1e-6, 1e-3);
  let mut args = format!("new {} {} {} {} {} {}", pol_tok(pol), fl(p0), fl(t0), fl(lam), fl(w0), fl(w0));
  let mut hist = format!("new({},{:e},{:e},{:e})", pol_tok(pol), p0, t0, lam);
  let mut outs: Vec<String> = vec![];
  let made = guard(|| Beam::new(pol, p0 * RAD, t0 * RAD, lam * M, w0 * M));
  let mut beam = match made {
    Some(b) => b,
    None => {
      ctx.k("beam_seq", &args, "PANIC");
      ctx.s("C13.invariant", false, "beam/new/panic", &hist);
      return;
    }
  };
  let (mut req_phi, mut req_theta) = (p0, t0);
  outs.push(state(&beam));
  check_invariant(ctx, &beam, req_phi, req_theta, &hist);
  let len = ctx.rng.between(1, maxlen);
  for _ in 0..len {
    let kind = ctx.rng.below(if wild { 9 } else { 11 }).min(9);
    let mut sext_done: Option<f64> = None;
    ctx.count(&format!("beam_seq/op={}", kind));
    let mut b2 = beam.clone();
    let (tok, res): (String, Option<()>) = match kind {
      0 => {
        let x = gen_angle(&mut ctx.rng);
        req_phi = x;
        (format!("sphi {}", fl(x)), guard(|| { b2.set_phi(x * RAD); }))
      }
      1 => {
        let x = gen_angle(&mut ctx.rng);
        req_theta = x;
        (format!("stheta {}", fl(x)), guard(|| { b2.set_theta_internal(x * RAD); }))
      }
      2 => {
        let (x, y) = (gen_angle(&mut ctx.rng), gen_angle(&mut ctx.rng));
        req_phi = x;
        req_theta = y;
        (format!("sang {} {}", fl(x), fl(y)), guard(|| { b2.set_angles(x * RAD, y * RAD); }))
      }
      3 => {
        let x = if wild { gen_endpoint(&mut ctx.rng) } else { vacuum_freq(gen_lambda(&mut ctx.rng, &c)) };
        (format!("sfreq {}", fl(x)), guard(|| { b2.set_frequency(x * RAD / S); }))
      }
      4 => {
        let x = if wild { gen_endpoint(&mut ctx.rng) } else { gen_lambda(&mut ctx.rng, &c) };
        (format!("swl {}", fl(x)), guard(|| { b2.set_vacuum_wavelength(x * M); }))
      }
      5 => {
        let p = gen_pol(&mut ctx.rng);
        (format!("spol {}", pol_tok(p)), guard(|| { b2.set_polarization(p); }))
      }
      6 => {
        let p = gen_pol(&mut ctx.rng);
        (format!("wpol {}", pol_tok(p)), guard(|| { b2 = b2.clone().with_polarization(p); }))
      }
      7 => {
        let (x, y) = (gen_endpoint(&mut ctx.rng), gen_endpoint(&mut ctx.rng));
        (format!("swaist {} {}", fl(x), fl(y)), guard(|| { b2.set_waist(BeamWaist { x: x * M, y: y * M }); }))
      }
      8 => {
        req_phi = 0.0;
        req_theta = 0.0;
        ("pump".to_string(), guard(|| { b2 = PumpBeam::from(b2.clone()).as_beam(); }))
      }
      _ => {
        // set_theta_external on the statement's domain (sign of the argument is discarded by the code)
        let ext = match ctx.rng.below(6) {
          0 => 0.0,
          1 => 80.0 * DEG,
          2 => -ctx.rng.range(0.0, 80.0 * DEG),
          _ => ctx.rng.range(0.0, 80.0 * DEG),
        };
        // the optimiser's result, obtained from the same public entry point the setter uses
        let t = guard(|| *(Beam::calc_internal_theta_from_external(&beam, (ext * RAD).abs_angle(), &cs) / RAD));
        match t {
          Some(t) => {
            req_theta = t; // the internal angle the setter asks set_angles for (azimuth: unchanged)
            sext_done = Some(ext.abs());
            // K: the search itself on the beam as the history left it
            let n = *cs.crystal.get_indices(beam.vacuum_wavelength(), cs.temperature);
            snell_int_case(ctx, &beam, &cs, &n, *(cs.theta / RAD), *(cs.phi / RAD), beam.polarization(), ext.abs());
            (format!("sext {}", fl(t)), guard(|| { b2.set_theta_external(ext * RAD, &cs); }))
          }
          None => ("sext PANIC".to_string(), None),
        }
      }
    };
    hist.push_str(&format!(";{}", human(&tok)));
    args.push_str(" | ");
    args.push_str(&tok);
    match res {
      Some(()) => {
        beam = b2;
        outs.push(state(&beam));
        let h = hist.clone();
        check_invariant(ctx, &beam, req_phi, req_theta, &h);
        if let Some(e) = sext_done {
          // the Snell clauses of the statement after an arbitrary prior history
          let d0 = format!("crystal={} ctheta={:e} cphi={:e} T={} ext_deg={:e} history={}", c, cth, cph, t_c, e / DEG, h);
          readback_checks(ctx, &beam, &cs, e, &d0);
        }
        if kind == 8 {
          let d = beam.direction().into_inner();
          ctx.s("C13.pump_z", d == Vector3::new(0.0, 0.0, 1.0), "beam/pump-z", &h);
        }
      }
      None => {
        outs.push("PANIC".into());
        ctx.s("C13.invariant", false, "beam/setter/panic", &hist);
        break;
      }
    }
  }
  ctx.k("beam_seq", &args, &outs.join(" | "));
  // history independence of derived quantities: a fresh beam in the same state gives bit-identical results
  let phi = *(beam.phi() / RAD);
  let om = *(beam.frequency() / (RAD / S));
  if !wild && phi < TAU && om.is_finite() && om > 0.0 {
    let r = guard(|| {
      let mut fresh = Beam::new(beam.polarization(), beam.phi(), 0.0 * RAD, 1e-6 * M, beam.waist());
      fresh.set_frequency(beam.frequency());
      let a = *(beam.theta_external(&cs) / RAD);
      let b = *(Beam::calc_external_theta_from_internal(&fresh, beam.theta_internal(), &cs) / RAD);
      let n1 = *beam.refractive_index(beam.frequency(), &cs);
      let n2 = *cs.index_along(fresh.vacuum_wavelength(), beam.direction(), beam.polarization());
      (a, b, n1, n2)
    });
    if let Some((a, b, n1, n2)) = r {
      let same = |x: f64, y: f64| x.to_bits() == y.to_bits() || (x.is_nan() && y.is_nan());
      ctx.s(
        "C13.history_independent",
        same(a, b) && same(n1, n2),
        "beam/history-dependent/derived",
        &format!("crystal={} ctheta={:e} cphi={:e} T={} history={} theta_external={:e} fresh={:e} index={} fresh_index={}", c, cth, cph, t_c, hist, a, b, n1, n2),
      );
    }
  }
}

/// `sang x… x…` → `sang(1.5e0,-3e-1)` (decimal, for replaying a history by hand)
fn human(tok: &str) -> String {
  let mut it = tok.split(' ');
  let name = it.next().unwrap_or("");
  let args: Vec<String> = it
    .map(|t| {
      if t.len() == 17 && t.starts_with('x') {
        u64::from_str_radix(&t[1..], 16).map(|b| format!("{:e}", f64::from_bits(b))).unwrap_or_else(|_| t.to_string())
      } else {
        t.to_string()
      }
    })
    .collect();
  format!("{}({})", name, args.join(","))
}

trait AbsAngle {
  fn abs_angle(self) -> Self;
}
impl AbsAngle for spdcalc::Angle {
  fn abs_angle(self) -> Self {
    (*(self / RAD)).abs() * RAD
  }
}

fn vacuum_freq(lambda: f64) -> f64 {
  *(vacuum_wavelength_to_frequency(lambda * M) / (RAD / S))
}

/// Snell: set external angle, read it back; forward law as K
/// the statement's Snell clauses on a beam whose external angle has just been set to `ext` (≥ 0)
fn readback_checks(ctx: &mut Ctx, beam: &Beam, cs: &CrystalSetup, ext: f64, det0: &str) -> Option<(f64, f64)> {
  let r = guard(|| {
    let ti = *(beam.theta_internal() / RAD);
    let back = *(beam.theta_external(cs) / RAD);
    let ni = *beam.refractive_index(beam.frequency(), cs);
    (ti, back, ni)
  });
  match r {
    None => {
      ctx.s("C13.readback", false, "snell/panic", det0);
      None
    }
    Some((ti, back, ni)) => {
      let det = format!("{} theta_i={:e} readback_deg={:e} n_i={}", det0, ti, back / DEG, ni);
      ctx.s("C13.readback", (back / DEG - ext / DEG).abs() <= READBACK_TOL_DEG, "snell/readback", &det);
      // sin θe = n(θi)·sin θi — to the accuracy the statement's read-back tolerance implies
      ctx.s(
        "C13.snell_identity",
        (ext.sin() - ni * ti.sin()).abs() <= READBACK_TOL_DEG * DEG,
        "snell/identity",
        &det,
      );
      ctx.s("C13.internal_le_external", ti.abs() <= ext.abs(), "snell/internal-le-external", &det);
      Some((ti, back))
    }
  }
}

/// previous internal polar angles of a beam with a history: 0, ±small, ±90°, backward (147°–180°), negative
fn gen_prev_theta(r: &mut Rng, j: usize) -> f64 {
  const FIXED: [f64; 14] = [180.0, 150.0, -172.0, 165.0, 1e-3, -1e-3, 90.0, -90.0, 12.0, -40.0, 95.0, 140.0, 147.5, 179.999];
  if j < FIXED.len() {
    FIXED[j] * DEG
  } else {
    match r.below(4) {
      0 => r.range(147.0, 180.0) * DEG * if r.coin() { 1.0 } else { -1.0 },
      1 => r.range(-0.3, 0.3),
      _ => r.range(-PI, PI),
    }
  }
}

/// Snell: set external angle, read it back; forward law as K.  `prev` = the beam's history before the
/// call: (previous internal polar angle, previous azimuth, previous wavelength); `None` = fresh beam.
fn snell_case(ctx: &mut Ctx, c: &str, cs: &CrystalSetup, ctheta: f64, cphi: f64, t_c: f64, lam: f64, pol: PolarizationType, bphi: f64, ext_deg: f64, prev: Option<(f64, f64, f64)>) {
  let ext = ext_deg * DEG;
  let (mut beam, hist) = match prev {
    None => (Beam::new(pol, bphi * RAD, 0.0 * RAD, lam * M, 100e-6 * M), "fresh".to_string()),
    Some((pt, pp, pl)) => {
      // a beam that has lived: other polarisation, azimuth, wavelength and a non-trivial polar angle first
      let other = if pol == PolarizationType::Ordinary { PolarizationType::Extraordinary } else { PolarizationType::Ordinary };
      let mut b = Beam::new(other, pp * RAD, pt * RAD, pl * M, 50e-6 * M);
      b.set_polarization(pol);
      b.set_vacuum_wavelength(lam * M);
      b.set_phi(bphi * RAD);
      (b, format!("new(theta={:e},phi={:e},lambda={:e});set_polarization;set_vacuum_wavelength;set_phi", pt, pp, pl))
    }
  };
  let n = *cs.crystal.get_indices(beam.vacuum_wavelength(), cs.temperature);
  let det0 = format!(
    "crystal={} ctheta={:e} cphi={:e} T={} lambda={:e} pol={} bphi={:e} ext_deg={:e} prev_theta_deg={:e} history={}",
    c, ctheta, cphi, t_c, lam, pol_tok(pol), bphi, ext_deg, *(beam.theta_internal() / RAD) / DEG, hist
  );
  ctx.count(&format!("snell/crystal={}", c.split('{').next().unwrap_or(c)));
  ctx.count(&format!("snell/history={}", if prev.is_some() { "prefixed" } else { "fresh" }));
  // K: the internal-from-external search itself (cost closure + bounded 1-D Nelder–Mead), on this very beam
  snell_int_case(ctx, &beam, cs, &n, ctheta, cphi, pol, ext);
  if guard(|| { beam.set_theta_external(ext * RAD, cs); }).is_none() {
    ctx.s("C13.readback", false, "snell/panic", &det0);
    return;
  }
  if let Some((ti, back)) = readback_checks(ctx, &beam, cs, ext, &det0) {
    // K: forward Snell at the stored internal angle (= Beam::theta_external)
    ctx.k(
      "snell_ext",
      &format!(
        "{} {} {} {} {} {} {} {}",
        fl(n.x), fl(n.y), fl(n.z), fl(ctheta), fl(cphi), fl(*(beam.phi() / RAD)), pol_tok(pol), fl(ti)
      ),
      &fl(back),
    );
  }
}

fn snell_int_case(ctx: &mut Ctx, beam: &Beam, cs: &CrystalSetup, n: &Vector3<f64>, ctheta: f64, cphi: f64, pol: PolarizationType, ext: f64) {
  let ti = guard(|| *(Beam::calc_internal_theta_from_external(beam, ext * RAD, cs) / RAD));
  ctx.k(
    "snell_int",
    &format!(
      "{} {} {} {} {} {} {} {}",
      fl(n.x), fl(n.y), fl(n.z), fl(ctheta), fl(cphi), fl(*(beam.phi() / RAD)), pol_tok(pol), fl(ext)
    ),
    &ti.map(fl).unwrap_or_else(|| "PANIC".into()),
  );
}

/// the statement on a finished setup: position = −L/(2n), n = index along z at the BEAM's own λ and
/// polarisation (whatever `pm_type` says), for both beams; plus the `waist_pos` correspondence line
fn waist_check(ctx: &mut Ctx, spdc: &SPDC, route: &str, det: &str) {
  let zdir = nalgebra::Unit::new_normalize(Vector3::z());
  let cs = &spdc.crystal_setup;
  let len = *(cs.length / M);
  for (who, beam, z) in [
    ("signal", spdc.signal.clone().as_beam(), *(spdc.signal_waist_position / M)),
    ("idler", spdc.idler.clone().as_beam(), *(spdc.idler_waist_position / M)),
  ] {
    // quantifier domain: wavelengths inside the crystal's window (an optimum idler derived from a re-tuned signal may leave it)
    let (lo, hi) = super::index::window(&cs.crystal);
    let bl = *(beam.vacuum_wavelength() / M);
    if !(bl >= lo && bl <= hi) {
      ctx.count(&format!("waist/outside-window={}", who));
      continue;
    }
    let nz = *cs.index_along(beam.vacuum_wavelength(), zdir, beam.polarization());
    let expect = -len / (2.0 * nz);
    ctx.s(
      "C13.waist_position",
      (z - expect).abs() <= 4.0 * f64::EPSILON * expect.abs(),
      &format!("waist-position/{}", who),
      &format!(
        "{} route={} beam={} beam_lambda={:e} beam_pol={} pm_type_now={} L={:e} z={:e} expect={:e} n_z={}",
        det, route, who, *(beam.vacuum_wavelength() / M), pol_tok(beam.polarization()), cs.pm_type, len, z, expect, nz
      ),
    );
    // K: the model's −L/(2 n_z) from the principal indices at the beam's own wavelength and the beam's own polarisation
    let n = *cs.crystal.get_indices(beam.vacuum_wavelength(), cs.temperature);
    if n.x.is_finite() && n.y.is_finite() && n.z.is_finite() {
      ctx.k(
        "waist_pos",
        &format!("{} {} {} {} {} {} {}", fl(n.x), fl(n.y), fl(n.z), fl(*(cs.theta / RAD)), fl(*(cs.phi / RAD)), fl(len), pol_tok(beam.polarization())),
        &fl(z),
      );
    }
  }
}

fn conv_case(ctx: &mut Ctx) {
  let r = &mut ctx.rng;
  let c = match r.below(4) {
    0 => *r.pick(&[-273.15, 0.0, 20.0, 24.5, -50.0, 200.0]),
    1 => r.range(-273.15, 1000.0),
    2 => gen_endpoint(r),
    _ => r.range(-50.0, 200.0),
  };
  let k = *(from_celsius_to_kelvin(c) / K);
  let back = from_kelvin_to_celsius(k * K);
  let lam = match r.below(3) {
    0 => r.log_range(100e-9, 20e-6),
    1 => gen_endpoint(r),
    _ => r.log_range(1e-12, 1e3),
  };
  let nn = match r.below(3) {
    0 => 1.0,
    1 => r.range(1.0, 4.0),
    _ => gen_endpoint(r),
  };
  let om = *(vacuum_wavelength_to_frequency(lam * M) / (RAD / S));
  let lam_back = *(frequency_to_vacuum_wavelength(om * RAD / S) / M);
  let f = match r.below(3) {
    0 => r.log_range(1e-9, 1e-2),
    _ => gen_endpoint(r),
  };
  let sig = fwhm_to_sigma(f);
  let w = fwhm_to_waist(f);
  let f_back = waist_to_fwhm(w);
  ctx.k("c2k", &fl(c), &fl(k));
  ctx.k("k2c", &fl(k), &fl(back));
  ctx.k("vac_wl2freq", &fl(lam), &fl(om));
  ctx.k("freq2vac_wl", &fl(om), &fl(lam_back));
  ctx.k("wl2freq", &format!("{} {}", fl(lam), fl(nn)), &fl(*(wavelength_to_frequency(lam * M, spdcalc::RIndex::new(nn)) / (RAD / S))));
  ctx.k("freq2wl", &format!("{} {}", fl(om), fl(nn)), &fl(*(frequency_to_wavelength(om * RAD / S, spdcalc::RIndex::new(nn)) / M)));
  let wn = *(frequency_to_wavenumber(om * RAD / S, spdcalc::RIndex::new(nn)) / (RAD / M));
  ctx.k("freq2wn", &format!("{} {}", fl(om), fl(nn)), &fl(wn));
  ctx.k("wn2freq", &format!("{} {}", fl(wn), fl(nn)), &fl(*(wavenumber_to_frequency(wn * RAD / M, spdcalc::RIndex::new(nn)) / (RAD / S))));
  ctx.k("fwhm2sigma", &fl(f), &fl(sig));
  ctx.k("fwhm2waist", &fl(f), &fl(w));
  ctx.k("waist2fwhm", &fl(w), &fl(f_back));

  // S: the statement's conversion clauses (finite, non-zero arguments where a quotient is involved)
  let det = format!("c={:e} lambda={:e} fwhm={:e}", c, lam, f);
  if c.abs() < 1e300 {
    ctx.s("C13.conversions", (back - c).abs() <= 4.0 * f64::EPSILON * c.abs().max(273.15), "conv/celsius-kelvin", &det);
  }
  if lam != 0.0 && lam.abs() > 1e-290 && lam.abs() < 1e290 {
    let two_pi_c = TAU * 299_792_458.0;
    ctx.s(
      "C13.conversions",
      (om * lam - two_pi_c).abs() <= 4.0 * f64::EPSILON * two_pi_c && (lam_back - lam).abs() <= 4.0 * f64::EPSILON * lam.abs(),
      "conv/frequency-wavelength",
      &det,
    );
  }
  if f.abs() < 1e290 && (f == 0.0 || f.abs() > 1e-290) {
    let kk = 2.0 * (2.0 * 2.0_f64.ln()).sqrt();
    ctx.s(
      "C13.conversions",
      (sig * kk - f).abs() <= 4.0 * f64::EPSILON * f.abs() && (f_back - f).abs() <= 4.0 * f64::EPSILON * f.abs(),
      "conv/fwhm",
      &det,
    );
  }
}

pub fn run(ctx: &mut Ctx) {
  let both = [PolarizationType::Ordinary, PolarizationType::Extraordinary];

  // ---------------------------------------------------------------- fmod / angle normalisation
  let specials = [
    0.0, -0.0, PI, -PI, TAU, -TAU, next_up(TAU), next_down(TAU), -next_up(TAU), -next_down(TAU), next_up(PI), next_down(PI),
    -next_up(PI), -next_down(PI), 3.0 * PI, -3.0 * PI, 400.0 * DEG, -400.0 * DEG, 1e-20, -1e-20, -1e-300, 5e-324, -5e-324,
    f64::MAX, -f64::MAX, 1e300, -1e300, 1e16, 6.0, 7.0, -7.0, 2.0 * TAU, -2.0 * TAU, 1e-17 - PI,
  ];
  let mut angle_case = |ctx: &mut Ctx, x: f64| {
    let a = *(normalize_angle(x * RAD) / RAD);
    let b = *(normalize_angle_signed(x * RAD) / RAD);
    ctx.k("norm_angle", &fl(x), &fl(a));
    ctx.k("norm_angle_signed", &fl(x), &fl(b));
    ctx.k("fmod", &format!("{} {}", fl(x), fl(TAU)), &fl(x % TAU));
    let det = format!("x={:e} normalized={:e} signed={:e}", x, a, b);
    ctx.s("C13.normalize", a >= 0.0 && a <= TAU, "normalize/range", &det);
    ctx.s("C13.normalize", b > -PI && b <= PI, "normalize/signed-range", &det);
    if let (Some(c1), Some(c2)) = (congruent(a, x), congruent(b, x)) {
      ctx.s("C13.normalize", c1 && c2, "normalize/congruent", &det);
    }
  };
  for x in specials.iter() {
    angle_case(ctx, *x);
  }
  for _ in 0..ctx.n {
    let x = gen_angle(&mut ctx.rng);
    angle_case(ctx, x);
    // general fmod
    let (a, b) = (gen_endpoint(&mut ctx.rng), gen_endpoint(&mut ctx.rng));
    ctx.k("fmod", &format!("{} {}", fl(a), fl(b)), &fl(a % b));
    let (p, t) = (gen_angle(&mut ctx.rng), gen_angle(&mut ctx.rng));
    let d = direction_from_polar(p * RAD, t * RAD).into_inner();
    ctx.k("dir_from_polar", &format!("{} {}", fl(p), fl(t)), &fls(&[d.x, d.y, d.z]));
  }

  // ---------------------------------------------------------------- histories of setter calls
  let nh = ctx.n / 4;
  for i in 0..nh {
    history(ctx, 50, i % 3 == 0);
  }

  // ---------------------------------------------------------------- Snell conversions
  let n_s = if ctx.thorough { 60 } else { 5 };
  for c in CRYSTALS.iter() {
    for o in 0..(if ctx.thorough { 5 } else { 3 }) {
      let (ctheta, cphi) = if o == 0 { (0.0, 0.0) } else { (gen_crystal_angle(&mut ctx.rng), gen_crystal_angle(&mut ctx.rng)) };
      let t_c = gen_temp(&mut ctx.rng);
      let cs = setup(c, ctheta, cphi, t_c);
      for pol in both.iter() {
        for j in 0..n_s {
          let ext_deg = match j {
            0 => 0.0,
            1 => 80.0,
            2 => 13.0,
            _ => ctx.rng.range(0.0, 80.0),
          };
          let bphi = match ctx.rng.below(4) {
            0 => 0.0,
            1 => *ctx.rng.pick(&[FRAC_PI_2, PI, 3.0 * FRAC_PI_2]),
            _ => ctx.rng.range(0.0, TAU),
          };
          let lam = gen_lambda(&mut ctx.rng, c);
          if j < 4 {
            snell_case(ctx, &c.to_string(), &cs, ctheta, cphi, t_c, lam, *pol, bphi, ext_deg, None);
          }
          // the same request on a beam with a history (previous polar angle anywhere in (−π, π])
          let prev = (gen_prev_theta(&mut ctx.rng, j + 5 * o), ctx.rng.range(0.0, TAU), gen_lambda(&mut ctx.rng, c));
          snell_case(ctx, &c.to_string(), &cs, ctheta, cphi, t_c, lam, *pol, bphi, ext_deg, Some(prev));
        }
      }
      // the search outside the statement's domain (negative, −0, beyond 90°): correspondence only
      for ext in [-0.0, -0.3, 1.5, 1.6, 2.0, -2.0, 1e-300, FRAC_PI_2] {
        let lam = gen_lambda(&mut ctx.rng, c);
        let pol = gen_pol(&mut ctx.rng);
        let beam = Beam::new(pol, ctx.rng.range(0.0, TAU) * RAD, 0.0 * RAD, lam * M, 100e-6 * M);
        let n = *cs.crystal.get_indices(beam.vacuum_wavelength(), cs.temperature);
        snell_int_case(ctx, &beam, &cs, &n, ctheta, cphi, pol, ext);
      }
      // forward Snell on internal angles (K) and the automatic waist position
      for pol in both.iter() {
        for _ in 0..n_s {
          let lam = gen_lambda(&mut ctx.rng, c);
          let bphi = ctx.rng.range(0.0, TAU);
          let ti = ctx.rng.range(-0.5, 0.5);
          let beam = Beam::new(*pol, bphi * RAD, ti * RAD, lam * M, 100e-6 * M);
          let n = *cs.crystal.get_indices(beam.vacuum_wavelength(), cs.temperature);
          let te = *(beam.theta_external(&cs) / RAD);
          ctx.k(
            "snell_ext",
            &format!(
              "{} {} {} {} {} {} {} {}",
              fl(n.x), fl(n.y), fl(n.z), fl(ctheta), fl(cphi), fl(*(beam.phi() / RAD)), pol_tok(*pol), fl(*(beam.theta_internal() / RAD))
            ),
            &fl(te),
          );
          // wavevector = direction · n·ω/c
          let om = *(beam.frequency() / (RAD / S));
          let nb = *beam.refractive_index(beam.frequency(), &cs);
          let kv = beam.wavevector(beam.frequency(), &cs);
          let kv = *(kv / (RAD / M));
          let d = beam.direction().into_inner();
          ctx.k("wavevector", &format!("{} {} {} {} {}", fl(d.x), fl(d.y), fl(d.z), fl(om), fl(nb)), &fls(&[kv.x, kv.y, kv.z]));
          // optimal waist position
          let len = if ctx.rng.below(3) == 0 { ctx.rng.log_range(1e-30, 1e30) } else { ctx.rng.log_range(1e-4, 5e-2) };
          let mut cs2 = cs.clone();
          cs2.length = len * M;
          let n2 = *cs2.crystal.get_indices(lam * M, cs2.temperature);
          let z = *(cs2.optimal_waist_position(lam * M, *pol) / M);
          ctx.k(
            "waist_pos",
            &format!("{} {} {} {} {} {} {}", fl(n2.x), fl(n2.y), fl(n2.z), fl(ctheta), fl(cphi), fl(len), pol_tok(*pol)),
            &fl(z),
          );
          let nz = *cs2.index_along(lam * M, nalgebra::Unit::new_normalize(Vector3::z()), *pol);
          ctx.s(
            "C13.waist_position",
            (z - (-len / (2.0 * nz))).abs() <= 4.0 * f64::EPSILON * z.abs(),
            "waist-position",
            &format!("crystal={} ctheta={:e} cphi={:e} lambda={:e} L={:e} pol={} z={:e} n_z={}", c, ctheta, cphi, lam, len, pol_tok(*pol), z, nz),
          );
        }
      }
    }
  }

  // ---------------------------------------------------------------- every API route to set_theta_external
  for (ci, c) in CRYSTALS.iter().enumerate() {
    for pol in both.iter() {
      for j in 0..(if ctx.thorough { 12 } else { 2 }) {
        let (ctheta, cphi) = (gen_crystal_angle(&mut ctx.rng), gen_crystal_angle(&mut ctx.rng));
        let t_c = gen_temp(&mut ctx.rng);
        let mut cs = setup(c, ctheta, cphi, t_c);
        cs.pm_type = if *pol == PolarizationType::Ordinary { PMType::Type2_e_oe } else { PMType::Type2_e_eo };
        let (lo, hi) = super::index::window(c);
        // pump λp, signal 2λp (degenerate), both inside the window
        let lp = ctx.rng.range(lo.max(hi / 4.0), hi / 2.0);
        let ls = 2.0 * lp;
        let ext_deg = if j == 0 { 80.0 } else { ctx.rng.range(0.0, 80.0) };
        let bphi_deg = *ctx.rng.pick(&[0.0, 90.0, 180.0, 270.0, 37.0, 359.0]);
        for route in 0..6usize {
          let det0 = format!(
            "crystal={} ctheta={:e} cphi={:e} T={} lambda={:e} pol={} bphi_deg={} ext_deg={:e} route={}",
            c, ctheta, cphi, t_c, ls, pol_tok(*pol), bphi_deg, ext_deg,
            ["signal-wrapper", "idler-wrapper", "pump-wrapper", "signal-config", "idler-config", "spdc-config"][route]
          );
          ctx.count(&format!("snell/route={}", route));
          let fresh = || Beam::new(*pol, bphi_deg * DEG * RAD, 0.0 * RAD, ls * M, 100e-6 * M);
          let made: Option<(Beam, CrystalSetup)> = guard(|| match route {
            0 => {
              let mut b = SignalBeam::new(fresh());
              b.set_theta_external(ext_deg * DEG * RAD, &cs);
              Some((b.as_beam(), cs.clone()))
            }
            1 => {
              let mut b = IdlerBeam::new(fresh());
              b.set_theta_external(ext_deg * DEG * RAD, &cs);
              Some((b.as_beam(), cs.clone()))
            }
            2 => {
              let mut b = PumpBeam::new(fresh());
              b.set_theta_external(ext_deg * DEG * RAD, &cs);
              Some((b.as_beam(), cs.clone()))
            }
            3 => {
              let cfg = SignalConfig { wavelength_nm: ls * 1e9, phi_deg: bphi_deg, theta_deg: None, theta_external_deg: Some(ext_deg), waist_um: 100.0, waist_position_um: AutoCalcParam::default() };
              cfg.try_as_beam(&cs).ok().map(|b| (b.as_beam(), cs.clone()))
            }
            4 => {
              // the idler of e->oe is extraordinary, of e->eo ordinary
              let mut cs_i = cs.clone();
              cs_i.pm_type = if *pol == PolarizationType::Ordinary { PMType::Type2_e_eo } else { PMType::Type2_e_oe };
              let cfg = IdlerConfig { wavelength_nm: ls * 1e9, phi_deg: bphi_deg, theta_deg: None, theta_external_deg: Some(ext_deg), waist_um: 100.0, waist_position_um: AutoCalcParam::default() };
              cfg.try_as_beam(&cs_i).ok().map(|b| (b.as_beam(), cs_i))
            }
            _ => {
              let cfg = SPDCConfig {
                crystal: CrystalConfig {
                  kind: c.clone(),
                  pm_type: cs.pm_type,
                  phi_deg: cphi / DEG,
                  theta_deg: AutoCalcParam::Param(ctheta / DEG),
                  length_um: 2000.0,
                  temperature_c: t_c,
                  counter_propagation: false,
                },
                pump: PumpConfig { wavelength_nm: lp * 1e9, waist_um: 100.0, bandwidth_nm: 5.0, average_power_mw: 1.0, spectrum_threshold: None },
                signal: SignalConfig { wavelength_nm: ls * 1e9, phi_deg: bphi_deg, theta_deg: None, theta_external_deg: Some(ext_deg), waist_um: 100.0, waist_position_um: AutoCalcParam::default() },
                ..SPDCConfig::default()
              };
              cfg.try_as_spdc().ok().map(|spdc| {
                // the automatic waist position of the statement, through the config route
                let nz = *spdc.crystal_setup.index_along(spdc.signal.vacuum_wavelength(), nalgebra::Unit::new_normalize(Vector3::z()), spdc.signal.polarization());
                let z = *(spdc.signal_waist_position / M);
                let len = *(spdc.crystal_setup.length / M);
                (spdc.signal.clone().as_beam(), spdc.crystal_setup.clone(), z, len, nz)
              }).map(|(b, cs2, z, len, nz)| {
                WAIST.with(|w| w.set(Some((z, len, nz))));
                (b, cs2)
              })
            }
          })
          .flatten();
          match made {
            None => ctx.s("C13.readback", false, "snell/route-failed", &det0),
            Some((b, cs_used)) => {
              // the route must have produced the requested polarisation, then the statement's clauses
              if b.polarization() == *pol {
                readback_checks(ctx, &b, &cs_used, ext_deg * DEG, &det0);
              }
              if route == 5 {
                if let Some((z, len, nz)) = WAIST.with(|w| w.take()) {
                  ctx.s("C13.waist_position", (z - (-len / (2.0 * nz))).abs() <= 4.0 * f64::EPSILON * z.abs(), "waist-position/config", &format!("{} z={:e} L={:e} n_z={}", det0, z, len, nz));
                }
              }
            }
          }
        }
        let _ = ci;
      }
    }
  }

  // ---------------------------------------------------------------- automatic waist positions: both beams, every route
  {
    let pm_types = [PMType::Type0_o_oo, PMType::Type0_e_ee, PMType::Type1_e_oo, PMType::Type2_e_eo, PMType::Type2_e_oe];
    let check = waist_check;
    for c in CRYSTALS.iter() {
      for (pi, pm) in pm_types.iter().enumerate() {
        for j in 0..(if ctx.thorough { 6 } else { 1 }) {
          let (lo, hi) = super::index::window(c);
          // a NON-degenerate pair inside the window: λs = r·λp, λi = λp·r/(r−1)
          let lp = ctx.rng.range(lo.max(hi / 6.0), hi / 2.45);
          let r = ctx.rng.range(1.7, 1.95);
          let (ls, li) = (lp * r, lp * r / (r - 1.0));
          let ctheta_deg = ctx.rng.range(5.0, 90.0);
          let cphi_deg = *ctx.rng.pick(&[0.0, 90.0, 37.0]);
          let t_c = gen_temp(&mut ctx.rng);
          let len_um = ctx.rng.log_range(100.0, 50_000.0);
          let det = format!(
            "crystal={} pm_type={} ctheta_deg={:e} cphi_deg={} T={} L_um={:e} lambda_p={:e} lambda_s={:e} lambda_i={:e}",
            c, pm, ctheta_deg, cphi_deg, t_c, len_um, lp, ls, li
          );
          let base = |sig_pos: AutoCalcParam<f64>, idler: AutoCalcParam<IdlerConfig>| SPDCConfig {
            crystal: CrystalConfig {
              kind: c.clone(),
              pm_type: *pm,
              phi_deg: cphi_deg,
              theta_deg: AutoCalcParam::Param(ctheta_deg),
              length_um: len_um,
              temperature_c: t_c,
              counter_propagation: false,
            },
            pump: PumpConfig { wavelength_nm: lp * 1e9, waist_um: 100.0, bandwidth_nm: 5.0, average_power_mw: 1.0, spectrum_threshold: None },
            signal: SignalConfig { wavelength_nm: ls * 1e9, phi_deg: 0.0, theta_deg: Some(if j % 2 == 0 { 0.0 } else { 1.5 }), theta_external_deg: None, waist_um: 100.0, waist_position_um: sig_pos },
            idler,
            ..SPDCConfig::default()
          };
          let idler_cfg = |pos: AutoCalcParam<f64>| {
            AutoCalcParam::Param(IdlerConfig { wavelength_nm: li * 1e9, phi_deg: 180.0, theta_deg: Some(if j % 2 == 0 { 0.0 } else { 1.2 }), theta_external_deg: None, waist_um: 80.0, waist_position_um: pos })
          };
          let routes: Vec<(&str, Option<SPDC>)> = vec![
            // config: everything "auto"
            ("config-auto", guard(|| base(AutoCalcParam::default(), AutoCalcParam::default()).try_as_spdc().ok()).flatten()),
            // config: explicit idler with its own "auto" position, explicit signal position replaced at runtime below
            ("config-idler-auto", guard(|| base(AutoCalcParam::default(), idler_cfg(AutoCalcParam::default())).try_as_spdc().ok()).flatten()),
            // runtime: explicit positions first, then assign_optimal_waist_positions
            ("assign", guard(|| {
              base(AutoCalcParam::Param(123.0), idler_cfg(AutoCalcParam::Param(45.0))).try_as_spdc().ok().map(|mut s| {
                s.assign_optimal_waist_positions();
                s
              })
            }).flatten()),
            ("assign-auto-idler", guard(|| {
              base(AutoCalcParam::Param(123.0), AutoCalcParam::default()).try_as_spdc().ok().map(|mut s| {
                s.assign_optimal_waist_positions();
                s
              })
            }).flatten()),
            ("with", guard(|| base(AutoCalcParam::Param(7.0), idler_cfg(AutoCalcParam::Param(9.0))).try_as_spdc().ok().map(|s| s.with_optimal_waist_positions())).flatten()),
            // try_as_optimum (poling off: re-optimises the crystal angle and the idler, then positions both)
            ("try_as_optimum", guard(|| base(AutoCalcParam::Param(7.0), idler_cfg(AutoCalcParam::Param(9.0))).try_as_spdc().ok().and_then(|s| s.try_as_optimum().ok())).flatten()),
          ];
          for (name, made) in routes {
            match made {
              Some(spdc) => {
                ctx.count(&format!("waist/route={}", name));
                check(ctx, &spdc, name, &det);
              }
              None => ctx.count(&format!("waist/route-unavailable={}", name)),
            }
          }
          let _ = pi;
        }
      }
    }
  }

  // ---------------------------------------------------------------- automatic waist positions on SPDC objects whose
  // pieces of state were set INDEPENDENTLY of each other (beam polarisations vs pm_type, wavelengths, crystal fields …)
  {
    let pm_types = [PMType::Type0_o_oo, PMType::Type0_e_ee, PMType::Type1_e_oo, PMType::Type2_e_eo, PMType::Type2_e_oe];
    let flip = |p: PolarizationType| if p == PolarizationType::Ordinary { PolarizationType::Extraordinary } else { PolarizationType::Ordinary };
    const N_MUT: usize = 18;
    for (cidx, c) in CRYSTALS.iter().enumerate() {
      for j in 0..(if ctx.thorough { 10 } else { 2 }) {
        // quick tier: one type-2 and one other PM type per crystal
        let pm = if j == 0 { pm_types[3 + cidx % 2] } else { *ctx.rng.pick(&pm_types) };
        let (lo, hi) = super::index::window(c);
        let lp = ctx.rng.range(lo.max(hi / 6.0), hi / 2.45);
        let r = ctx.rng.range(1.7, 1.95);
        let (ls, li) = (lp * r, lp * r / (r - 1.0));
        let ctheta_deg = ctx.rng.range(5.0, 90.0);
        let cphi_deg = *ctx.rng.pick(&[0.0, 90.0, 37.0]);
        let t_c = gen_temp(&mut ctx.rng);
        let len_um = ctx.rng.log_range(100.0, 50_000.0);
        let det = format!(
          "crystal={} pm_type={} ctheta_deg={:e} cphi_deg={} T={} L_um={:e} lambda_p={:e} lambda_s={:e} lambda_i={:e}",
          c, pm, ctheta_deg, cphi_deg, t_c, len_um, lp, ls, li
        );
        let cfg = SPDCConfig {
          crystal: CrystalConfig {
            kind: c.clone(),
            pm_type: pm,
            phi_deg: cphi_deg,
            theta_deg: AutoCalcParam::Param(ctheta_deg),
            length_um: len_um,
            temperature_c: t_c,
            counter_propagation: false,
          },
          pump: PumpConfig { wavelength_nm: lp * 1e9, waist_um: 100.0, bandwidth_nm: 5.0, average_power_mw: 1.0, spectrum_threshold: None },
          signal: SignalConfig { wavelength_nm: ls * 1e9, phi_deg: 0.0, theta_deg: Some(if j % 2 == 0 { 0.0 } else { 1.5 }), theta_external_deg: None, waist_um: 100.0, waist_position_um: AutoCalcParam::Param(123.0) },
          idler: AutoCalcParam::Param(IdlerConfig { wavelength_nm: li * 1e9, phi_deg: 180.0, theta_deg: Some(if j % 2 == 0 { 0.0 } else { 1.2 }), theta_external_deg: None, waist_um: 80.0, waist_position_um: AutoCalcParam::Param(45.0) }),
          ..SPDCConfig::default()
        };
        let spdc0 = match guard(|| cfg.try_as_spdc().ok()).flatten() {
          Some(s) => s,
          None => {
            ctx.count("waist/state/base-unavailable");
            continue;
          }
        };
        for m in 0..N_MUT {
          // random draws first (outside the guard), so that the stream does not depend on the code under test
          let pm2 = {
            let k = ctx.rng.below(4) as usize;
            *pm_types.iter().filter(|p| **p != pm).nth(k).unwrap_or(&pm_types[0])
          };
          let (ps, pi_) = (gen_pol(&mut ctx.rng), gen_pol(&mut ctx.rng));
          let lam2 = ctx.rng.range(lo.max(hi / 6.0), hi * 0.95);
          let len2 = ctx.rng.log_range(1e-5, 1e-1);
          let ang2 = (gen_crystal_angle(&mut ctx.rng), gen_crystal_angle(&mut ctx.rng));
          let t2 = gen_temp(&mut ctx.rng);
          let c2 = ctx.rng.pick(&CRYSTALS).clone();
          let c2_ok = {
            let (l2, h2) = super::index::window(&c2);
            [lp, ls, li].iter().all(|l| *l >= l2 && *l <= h2)
          };
          let mut mdesc = String::new();
          let mutated: Option<SPDC> = guard(|| {
            let mut s = spdc0.clone();
            match m {
              0 => {
                let p = flip(s.signal.polarization());
                s.signal.set_polarization(p);
                mdesc = format!("signal.set_polarization({})", pol_tok(p));
              }
              1 => {
                let p = flip(s.idler.polarization());
                s.idler.set_polarization(p);
                mdesc = format!("idler.set_polarization({})", pol_tok(p));
              }
              2 => {
                let (p, q) = (flip(s.signal.polarization()), flip(s.idler.polarization()));
                s.signal.set_polarization(p);
                s.idler.set_polarization(q);
                mdesc = format!("signal.set_polarization({});idler.set_polarization({})", pol_tok(p), pol_tok(q));
              }
              3 => {
                s.crystal_setup.pm_type = pm2;
                mdesc = format!("crystal_setup.pm_type:={}", pm2);
              }
              4 => {
                // own beams handed to SPDC::new, polarisations chosen freely
                let sb = SignalBeam::new(Beam::new(ps, s.signal.phi(), s.signal.theta_internal(), ls * M, 100e-6 * M));
                let ib = IdlerBeam::new(Beam::new(pi_, s.idler.phi(), s.idler.theta_internal(), li * M, 80e-6 * M));
                s = SPDC::new(
                  s.crystal_setup.clone(), sb, ib, s.pump.clone(), s.pump_bandwidth, s.pump_average_power, s.pump_spectrum_threshold,
                  s.pp.clone(), 1e-3 * M, 2e-3 * M, s.deff,
                );
                mdesc = format!("SPDC::new(signal_pol={},idler_pol={})", pol_tok(ps), pol_tok(pi_));
              }
              5 => {
                let b = s.signal.clone().as_beam().with_polarization(flip(s.signal.polarization()));
                s.signal = b.into();
                mdesc = "signal:=signal.with_polarization(flipped)".to_string();
              }
              6 => {
                s.signal.set_vacuum_wavelength(lam2 * M);
                mdesc = format!("signal.set_vacuum_wavelength({:e})", lam2);
              }
              7 => {
                s.idler.set_frequency(vacuum_wavelength_to_frequency(lam2 * M));
                mdesc = format!("idler.set_frequency(of_lambda={:e})", lam2);
              }
              8 => {
                s.crystal_setup.length = len2 * M;
                mdesc = format!("crystal_setup.length:={:e}", len2);
              }
              9 => {
                s.crystal_setup.theta = ang2.0 * RAD;
                s.crystal_setup.phi = ang2.1 * RAD;
                mdesc = format!("crystal_setup.theta:={:e};crystal_setup.phi:={:e}", ang2.0, ang2.1);
              }
              10 => {
                s.crystal_setup.temperature = from_celsius_to_kelvin(t2);
                mdesc = format!("crystal_setup.temperature_c:={}", t2);
              }
              11 => {
                if c2_ok {
                  s.crystal_setup.crystal = c2.clone();
                }
                mdesc = format!("crystal_setup.crystal:={}", if c2_ok { c2.to_string() } else { "unchanged".to_string() });
              }
              12 => {
                s = s.with_swapped_signal_idler();
                mdesc = "with_swapped_signal_idler".to_string();
              }
              13 => {
                s = s.with_swapped_signal_idler();
                let p = flip(s.signal.polarization());
                s.signal.set_polarization(p);
                mdesc = format!("with_swapped_signal_idler;signal.set_polarization({})", pol_tok(p));
              }
              14 => {
                s.crystal_setup.counter_propagation = true;
                mdesc = "crystal_setup.counter_propagation:=true".to_string();
              }
              15 => {
                s.signal.set_angles(0.7 * RAD, 0.05 * RAD);
                s.idler.set_theta_internal(-0.04 * RAD);
                mdesc = "signal.set_angles(0.7,0.05);idler.set_theta_internal(-0.04)".to_string();
              }
              16 => {
                let p = flip(s.pump.polarization());
                s.pump.set_polarization(p);
                s.crystal_setup.pm_type = pm2;
                let q = flip(s.idler.polarization());
                s.idler.set_polarization(q);
                mdesc = format!("pump.set_polarization({});crystal_setup.pm_type:={};idler.set_polarization({})", pol_tok(p), pm2, pol_tok(q));
              }
              _ => {
                mdesc = "none".to_string();
              }
            }
            s
          });
          let s = match mutated {
            Some(s) => s,
            None => {
              ctx.s("C13.waist_position", false, "waist-position/state/panic", &format!("{} state_change={}", det, m));
              continue;
            }
          };
          let det_m = format!("{} state_change={}", det, mdesc);
          let routes: Vec<(&str, Option<SPDC>)> = vec![
            ("assign", guard(|| {
              let mut t = s.clone();
              t.assign_optimal_waist_positions();
              t
            })),
            ("with", guard(|| s.clone().with_optimal_waist_positions())),
            ("with-then-swap", guard(|| s.clone().with_optimal_waist_positions().with_swapped_signal_idler())),
            ("swap-then-assign", guard(|| {
              let mut t = s.clone().with_swapped_signal_idler();
              t.assign_optimal_waist_positions();
              t
            })),
            ("try_as_optimum", guard(|| s.clone().try_as_optimum().ok()).flatten()),
            ("optimum-idler-then-with", guard(|| s.clone().with_optimum_idler().ok().map(|t| t.with_optimal_waist_positions())).flatten()),
          ];
          for (name, made) in routes {
            match made {
              Some(spdc) => {
                ctx.count(&format!("waist/state/route={}", name));
                waist_check(ctx, &spdc, name, &det_m);
              }
              None => ctx.count(&format!("waist/state/route-unavailable={}", name)),
            }
          }
          ctx.count(&format!("waist/state/change={}", m));
        }
      }
    }
  }

  // ---------------------------------------------------------------- Snell on high-index expression crystals (n up to ≈ 3.9)
  // at steep external angles: "for every crystal" includes user-supplied CrystalType::Expr
  {
    let n_x = if ctx.thorough { 48 } else { 8 };
    for i in 0..n_x {
      // (label without blanks, JSON, wavelength range in metres)
      let (label, json, lrange): (String, String, (f64, f64)) = match i % 4 {
        0 => (
          "Expr{ZnGeP2:no=sqrt(4.47330+5.26576*l^2/(l^2-0.13381)+1.49085*l^2/(l^2-662.55));ne=sqrt(4.63318+5.34215*l^2/(l^2-0.14255)+1.45795*l^2/(l^2-662.55))}".to_string(),
          r#"{ "no": "sqrt(4.47330+5.26576*l^2/(l^2-0.13381)+1.49085*l^2/(l^2-662.55))", "ne": "sqrt(4.63318+5.34215*l^2/(l^2-0.14255)+1.45795*l^2/(l^2-662.55))" }"#.to_string(),
          (2.0e-6, 8.0e-6),
        ),
        1 | 2 => {
          // uniaxial, positive or negative, base index 2.8 … 3.85, mild dispersion
          let a = (ctx.rng.range(2.8, 3.85) * 1e4).round() / 1e4;
          let d = (ctx.rng.range(0.01, 0.12) * 1e4).round() / 1e4;
          let (no, ne) = if i % 4 == 1 { (a, a + d) } else { (a + d, a) };
          (
            format!("Expr{{no={}+0.02/l^2;ne={}+0.03/l^2}}", no, ne),
            format!(r#"{{ "no": "{}+0.02/l^2", "ne": "{}+0.03/l^2" }}"#, no, ne),
            (1.0e-6, 5.0e-6),
          )
        }
        _ => {
          let a = (ctx.rng.range(2.8, 3.6) * 1e4).round() / 1e4;
          let d1 = (ctx.rng.range(0.01, 0.1) * 1e4).round() / 1e4;
          let d2 = (ctx.rng.range(0.01, 0.15) * 1e4).round() / 1e4;
          (
            format!("Expr{{nx={}+0.02/l^2;ny={}+0.02/l^2;nz={}+0.03/l^2}}", a, a + d1, a + d1 + d2),
            format!(r#"{{ "nx": "{}+0.02/l^2", "ny": "{}+0.02/l^2", "nz": "{}+0.03/l^2" }}"#, a, a + d1, a + d1 + d2),
            (1.0e-6, 5.0e-6),
          )
        }
      };
      let c = match CrystalType::from_string(&json) {
        Ok(c) => c,
        Err(_) => {
          ctx.s("C13.readback", false, "snell/route-failed", &format!("crystal={} route=CrystalType::from_string", label));
          continue;
        }
      };
      for o in 0..2 {
        let (ctheta, cphi) = if o == 0 && i % 8 < 4 { (0.0, 0.0) } else { (gen_crystal_angle(&mut ctx.rng), gen_crystal_angle(&mut ctx.rng)) };
        let t_c = gen_temp(&mut ctx.rng);
        let cs = setup(&c, ctheta, cphi, t_c);
        for pol in both.iter() {
          for j in 0..5 {
            let ext_deg = match j {
              0 => 80.0,
              1 => ctx.rng.range(68.0, 80.0),
              2 => ctx.rng.range(50.0, 80.0),
              3 => ctx.rng.range(0.0, 80.0),
              _ => *ctx.rng.pick(&[0.0, 70.0, 75.0, 60.0, 13.0]),
            };
            let bphi = match ctx.rng.below(3) {
              0 => 0.0,
              1 => *ctx.rng.pick(&[FRAC_PI_2, PI, 3.0 * FRAC_PI_2]),
              _ => ctx.rng.range(0.0, TAU),
            };
            let lam = ctx.rng.log_range(lrange.0, lrange.1);
            if j % 2 == 0 {
              snell_case(ctx, &label, &cs, ctheta, cphi, t_c, lam, *pol, bphi, ext_deg, None);
            } else {
              let prev = (gen_prev_theta(&mut ctx.rng, 14 + j), ctx.rng.range(0.0, TAU), ctx.rng.log_range(lrange.0, lrange.1));
              snell_case(ctx, &label, &cs, ctheta, cphi, t_c, lam, *pol, bphi, ext_deg, Some(prev));
            }
          }
        }
      }
    }
  }

  // ---------------------------------------------------------------- ONE beam and ONE setup, one parameter changed per step
  {
    let steps = if ctx.thorough { 30 } else { 5 };
    let mut c = CRYSTALS[0].clone();
    let (mut ctheta, mut cphi, mut t_c) = (0.5, 0.2, 20.0);
    let mut cs = setup(&c, ctheta, cphi, t_c);
    let mut ext_deg = 20.0;
    let mut beam = Beam::new(PolarizationType::Extraordinary, 0.3 * RAD, 0.0 * RAD, 1200e-9 * M, 100e-6 * M);
    for kind in 0..8usize {
      for _ in 0..steps {
        match kind {
          0 => {
            c = ctx.rng.pick(&CRYSTALS).clone();
            cs.crystal = c.clone();
          }
          1 => {
            t_c = gen_temp(&mut ctx.rng);
            cs.temperature = from_celsius_to_kelvin(t_c);
          }
          2 => {
            beam.set_vacuum_wavelength(ctx.rng.range(1000e-9, 1500e-9) * M); // inside every window
          }
          3 => {
            ctheta = gen_crystal_angle(&mut ctx.rng);
            cs.theta = ctheta * RAD;
          }
          4 => {
            cphi = gen_crystal_angle(&mut ctx.rng);
            cs.phi = cphi * RAD;
          }
          5 => {
            beam.set_phi(ctx.rng.range(0.0, TAU) * RAD);
          }
          6 => {
            beam.set_polarization(gen_pol(&mut ctx.rng));
          }
          _ => ext_deg = ctx.rng.range(0.0, 80.0),
        }
        let det0 = format!(
          "crystal={} ctheta={:e} cphi={:e} T={} lambda={:e} pol={} bphi={:e} ext_deg={:e} prev_theta={:e} scan_kind={}",
          c, ctheta, cphi, t_c, *(beam.vacuum_wavelength() / M), pol_tok(beam.polarization()), *(beam.phi() / RAD), ext_deg, *(beam.theta_internal() / RAD), kind
        );
        let n = *cs.crystal.get_indices(beam.vacuum_wavelength(), cs.temperature);
        snell_int_case(ctx, &beam, &cs, &n, ctheta, cphi, beam.polarization(), ext_deg * DEG);
        if guard(|| { beam.set_theta_external(ext_deg * DEG * RAD, &cs); }).is_none() {
          ctx.s("C13.readback", false, "snell/panic", &det0);
          break;
        }
        readback_checks(ctx, &beam, &cs, ext_deg * DEG, &det0);
      }
    }
  }

  // ---------------------------------------------------------------- exact boundary angles of crystal and beam azimuth
  {
    let b_angles = [0.0, -0.0, FRAC_PI_2, -FRAC_PI_2, PI, -PI, TAU];
    let n_c = if ctx.thorough { CRYSTALS.len() } else { 3 };
    for c in CRYSTALS.iter().take(n_c) {
      let lam = gen_lambda(&mut ctx.rng, c);
      for th in b_angles.iter() {
        for ph in b_angles.iter() {
          let cs = setup(c, *th, *ph, 20.0);
          for bphi in [0.0, FRAC_PI_2, PI, 3.0 * FRAC_PI_2, next_down(TAU)] {
            let pol = gen_pol(&mut ctx.rng);
            let ext_deg = *ctx.rng.pick(&[0.0, 80.0, 13.0, 1e-6, 45.0]);
            snell_case(ctx, &c.to_string(), &cs, *th, *ph, 20.0, lam, pol, bphi, ext_deg, None);
          }
        }
      }
    }
  }

  // ---------------------------------------------------------------- unit conversions
  for _ in 0..ctx.n {
    conv_case(ctx);
  }
}
