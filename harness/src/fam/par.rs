//! C15 — parallel evaluation is independent of thread count and work splitting.
//!
//! Part 1 drives `rayon::iter::plumbing::Producer::{split_at, into_iter}` on the REAL producers
//! (`Steps(..).into_par_iter()`, `Steps2D(..).into_par_iter()`): single splits (K split1/split2) and
//! whole split trees (K tree1/tree2), with the statement as S predicate (leaves = sequential).
//! Part 2 runs the real rayon call sites under explicit thread pools.
use crate::common::*;
use rayon::iter::plumbing::Producer;
use rayon::prelude::*;
use spdcalc::dim::ucum::{M, RAD, S};
use spdcalc::prelude::*;
use spdcalc::JSIUnits;
use std::sync::mpsc;
use std::time::{Duration, Instant};

// ------------------------------------------------------------------------------------------------
// split trees

#[derive(Clone, Debug)]
pub enum Tree {
  Leaf,
  Node(usize, Box<Tree>, Box<Tree>),
}

impl Tree {
  /// preorder token list `n<k>` / `l`, comma separated (what `Driver/Grid.lean: parseTree` reads)
  fn write(&self, out: &mut String) {
    // iterative preorder (trees may be deep chains)
    let mut stack: Vec<&Tree> = vec![self];
    let mut first = true;
    while let Some(t) = stack.pop() {
      if !first {
        out.push(',');
      }
      first = false;
      match t {
        Tree::Leaf => out.push('l'),
        Tree::Node(k, l, r) => {
          out.push('n');
          out.push_str(&k.to_string());
          stack.push(r);
          stack.push(l);
        }
      }
    }
  }
  fn text(&self) -> String {
    let mut s = String::new();
    self.write(&mut s);
    s
  }
  fn depth(&self) -> usize {
    // iterative
    let mut best = 0;
    let mut stack: Vec<(&Tree, usize)> = vec![(self, 0)];
    while let Some((t, d)) = stack.pop() {
      best = best.max(d);
      if let Tree::Node(_, l, r) = t {
        stack.push((l, d + 1));
        stack.push((r, d + 1));
      }
    }
    best
  }
  fn nodes(&self) -> usize {
    let mut n = 0;
    let mut stack: Vec<&Tree> = vec![self];
    while let Some(t) = stack.pop() {
      if let Tree::Node(_, l, r) = t {
        n += 1;
        stack.push(l);
        stack.push(r);
      }
    }
    n
  }
  /// does some node split at 0 or at the full length (allowed by the Producer contract)?
  fn has_degenerate(&self, len: usize) -> bool {
    match self {
      Tree::Leaf => false,
      Tree::Node(k, l, r) => *k == 0 || *k == len || l.has_degenerate(*k) || r.has_degenerate(len - *k),
    }
  }
}

/// every tree over a producer of length `len` whose splits are proper (1 ≤ k ≤ len−1)
fn all_trees(len: usize, memo: &mut Vec<Option<Vec<Tree>>>) -> Vec<Tree> {
  if let Some(Some(v)) = memo.get(len) {
    return v.clone();
  }
  let mut v = vec![Tree::Leaf];
  for k in 1..len {
    let ls = all_trees(k, memo);
    let rs = all_trees(len - k, memo);
    for l in ls.iter() {
      for r in rs.iter() {
        v.push(Tree::Node(k, Box::new(l.clone()), Box::new(r.clone())));
      }
    }
  }
  if memo.len() <= len {
    memo.resize(len + 1, None);
  }
  memo[len] = Some(v.clone());
  v
}

#[derive(Clone, Copy, PartialEq, Debug)]
enum Shape {
  Uniform,  // k uniform in 1..len-1
  Bisect,   // k = len/2 (what rayon's bridge requests), pruned at random
  Edge,     // k ∈ {1, len-1}: 1-element halves
  Contract, // k uniform in 0..=len: includes the degenerate splits the Producer contract allows
}

/// random split tree over a producer of length `len`; `budget` bounds the number of nodes
fn random_tree(r: &mut Rng, len: usize, shape: Shape, stop: f64, budget: &mut usize, depth: usize) -> Tree {
  if *budget == 0 || depth > std::env::var("VH_DEPTH").ok().and_then(|s| s.parse().ok()).unwrap_or(400) || r.unit() < stop {
    return Tree::Leaf;
  }
  let k = match shape {
    Shape::Uniform => {
      if len < 2 {
        return Tree::Leaf;
      }
      r.between(1, len - 1)
    }
    Shape::Bisect => {
      if len < 2 {
        return Tree::Leaf;
      }
      len / 2
    }
    Shape::Edge => {
      if len < 2 {
        return Tree::Leaf;
      }
      if r.coin() { 1 } else { len - 1 }
    }
    Shape::Contract => match r.below(6) {
      0 => 0,
      1 => len,
      _ => r.between(0, len),
    },
  };
  *budget -= 1;
  let l = random_tree(r, k, shape, stop, budget, depth + 1);
  let rt = random_tree(r, len - k, shape, stop, budget, depth + 1);
  Tree::Node(k, Box::new(l), Box::new(rt))
}

#[derive(Clone, Copy, PartialEq)]
enum Drain {
  Forward,
  Reverse,
  Mixed(u64),
}

/// drain an iterator completely in the given manner, returning its items in sequence order
fn drain<I: DoubleEndedIterator>(mut it: I, how: Drain) -> Vec<I::Item> {
  match how {
    Drain::Forward => it.collect(),
    Drain::Reverse => {
      let mut v: Vec<I::Item> = it.rev().collect();
      v.reverse();
      v
    }
    Drain::Mixed(seed) => {
      let mut r = Rng(seed);
      let mut front = Vec::new();
      let mut back = Vec::new();
      loop {
        let x = if r.coin() { it.next().map(|v| front.push(v)) } else { it.next_back().map(|v| back.push(v)) };
        if x.is_none() {
          break;
        }
      }
      back.reverse();
      front.extend(back);
      front
    }
  }
}

/// leaves of a split tree over a real producer, each drained sequentially, concatenated;
/// `lens` records for every leaf (offset at which it starts, `ExactSizeIterator::len()` it reports
/// when fresh, number of items it delivered).
fn leaves<P>(p: P, t: &Tree, how: Drain, out: &mut Vec<P::Item>, lens: &mut Vec<(usize, usize, usize)>)
where
  P: Producer,
{
  match t {
    Tree::Leaf => {
      let it = p.into_iter();
      let reported = it.len();
      let v = drain(it, how);
      lens.push((out.len(), reported, v.len()));
      out.extend(v);
    }
    Tree::Node(k, l, r) => {
      let (a, b) = p.split_at(*k);
      leaves(a, l, how, out, lens);
      leaves(b, r, how, out, lens);
    }
  }
}

fn rel_close(a: f64, b: f64, tol: f64, scale: f64) -> bool {
  if a.to_bits() == b.to_bits() || a == b {
    return true;
  }
  (a - b).abs() <= tol * scale.max(f64::MIN_POSITIVE)
}

fn flat(v: &[(f64, f64)]) -> Vec<f64> {
  v.iter().flat_map(|p| [p.0, p.1]).collect()
}

fn bits_eq(a: &[f64], b: &[f64]) -> bool {
  a.len() == b.len() && a.iter().zip(b).all(|(x, y)| x.to_bits() == y.to_bits())
}

fn kclass(k: usize, len: usize) -> &'static str {
  if k == 0 {
    "k=0"
  } else if k == len {
    "k=len"
  } else if k > len {
    "k>len"
  } else {
    "inner"
  }
}

// ------------------------------------------------------------------------------------------------
// 1-D

fn args1(a: f64, b: f64, n: usize) -> String {
  format!("{} {} {}", fl(a), fl(b), n)
}

fn split1_case(ctx: &mut Ctx, a: f64, b: f64, n: usize, k: usize) {
  ctx.count(&format!("split1/{}", kclass(k, n)));
  let s = Steps(a, b, n);
  let r = guard(|| {
    let (l, rt) = s.into_par_iter().split_at(k);
    let (li, ri) = (l.into_iter(), rt.into_iter());
    let (ll, rl) = (li.len(), ri.len());
    let mut v: Vec<f64> = li.collect();
    let nl = v.len();
    v.extend(ri);
    (ll, rl, nl, v)
  });
  let out = match &r {
    Some((ll, rl, _, v)) => format!("{} {} {}", ll, rl, fls(v)).trim_end().to_string(),
    None => "PANIC".into(),
  };
  ctx.k("split1", &format!("{} {}", args1(a, b, n), k), &out);
  // S: the statement, for every index the Producer contract allows (0 ≤ k ≤ len)
  if k <= n && a.abs() < 1e150 && b.abs() < 1e150 {
    let seq: Vec<f64> = s.into_iter().collect();
    let scale = a.abs().max(b.abs());
    let detail = format!("a={:e} b={:e} n={} k={}", a, b, n, k);
    match r {
      None => ctx.s("C15.split", false, &format!("split1/{}/panic", kclass(k, n)), &detail),
      Some((ll, rl, nl, v)) => {
        let ok_len = ll == k && rl == n - k && nl == k && v.len() == n;
        let mut worst = 0.0f64;
        let ok_val = v.len() == seq.len()
          && v.iter().zip(seq.iter()).all(|(x, y)| {
            if scale > 0.0 && x.is_finite() && y.is_finite() {
              worst = worst.max((x - y).abs() / scale);
            }
            rel_close(*x, *y, 1e-14, scale)
          });
        let sig = if !ok_len {
          format!("split1/{}/lengths", kclass(k, n))
        } else if !ok_val {
          format!("split1/{}/values", kclass(k, n))
        } else {
          "split1/ok".to_string()
        };
        ctx.s("C15.split", ok_len && ok_val, &sig, &format!("{} lens=({},{}) worst_rel={:.3e}", detail, ll, rl, worst));
      }
    }
  }
}

fn tree1_case(ctx: &mut Ctx, a: f64, b: f64, n: usize, t: &Tree, kind: &str, emit_k: bool) {
  ctx.count(&format!("tree1/{}", kind));
  let s = Steps(a, b, n);
  let run = |how: Drain| {
    guard(|| {
      let mut out = Vec::new();
      let mut lens = Vec::new();
      leaves(s.into_par_iter(), t, how, &mut out, &mut lens);
      (out, lens)
    })
  };
  let fwd = run(Drain::Forward);
  let text = t.text();
  if emit_k {
    let out = match &fwd {
      Some((v, _)) => fls(v),
      None => "PANIC".into(),
    };
    ctx.k("tree1", &format!("{} {}", args1(a, b, n), text), &out);
  }
  if a.abs() < 1e150 && b.abs() < 1e150 {
    let degenerate = t.has_degenerate(n);
    let cls = if degenerate { "contract" } else { "proper" };
    let shown = if text.len() > 300 { format!("{}…", &text[..300]) } else { text.clone() };
    let detail = format!("a={:e} b={:e} n={} depth={} nodes={} tree={}", a, b, n, t.depth(), t.nodes(), shown);
    let seq: Vec<f64> = s.into_iter().collect();
    let scale = a.abs().max(b.abs());
    match fwd {
      None => ctx.s("C15.tree", false, &format!("tree1/{}/panic", cls), &detail),
      Some((v, lens)) => {
        let mut worst = 0.0f64;
        let ok_val = v.len() == seq.len()
          && v.iter().zip(seq.iter()).all(|(x, y)| {
            if scale > 0.0 && x.is_finite() && y.is_finite() {
              worst = worst.max((x - y).abs() / scale);
            }
            rel_close(*x, *y, 1e-14, scale)
          });
        // positions: every leaf reports its own point count and starts where the previous ended
        let mut off = 0;
        let mut ok_pos = true;
        for (o, reported, got) in lens.iter() {
          if *o != off || reported != got {
            ok_pos = false;
          }
          off += got;
        }
        ok_pos = ok_pos && off == n;
        // double-ended contract: reverse and mixed draining of the leaves give the same sequence
        let rev = run(Drain::Reverse).map(|x| x.0);
        let mix = run(Drain::Mixed(ctx.seed ^ (n as u64) << 8)).map(|x| x.0);
        let ok_de = rev.as_deref().map(|r| bits_eq(r, &v)).unwrap_or(false) && mix.as_deref().map(|r| bits_eq(r, &v)).unwrap_or(false);
        let sig = if !ok_val {
          format!("tree1/{}/values", cls)
        } else if !ok_pos {
          format!("tree1/{}/positions", cls)
        } else if !ok_de {
          format!("tree1/{}/double-ended", cls)
        } else {
          "tree1/ok".to_string()
        };
        ctx.s("C15.tree", ok_val && ok_pos && ok_de, &sig, &format!("{} worst_rel={:.3e}", detail, worst));
      }
    }
  }
}

// ------------------------------------------------------------------------------------------------
// 2-D

fn args2(x: (f64, f64, usize), y: (f64, f64, usize)) -> String {
  format!("{} {} {} {} {} {}", fl(x.0), fl(x.1), x.2, fl(y.0), fl(y.1), y.2)
}

fn split2_case(ctx: &mut Ctx, x: (f64, f64, usize), y: (f64, f64, usize), k: usize) {
  let n = x.2 * y.2;
  ctx.count(&format!("split2/{}", kclass(k, n)));
  let s = Steps2D(x, y);
  let r = guard(|| {
    let (l, rt) = s.into_par_iter().split_at(k);
    let (li, ri) = (l.into_iter(), rt.into_iter());
    let (ll, rl) = (li.len(), ri.len());
    let mut v: Vec<(f64, f64)> = li.collect();
    let nl = v.len();
    v.extend(ri);
    (ll, rl, nl, v)
  });
  let out = match &r {
    Some((ll, rl, _, v)) => format!("{} {} {}", ll, rl, fls(&flat(v))).trim_end().to_string(),
    None => "PANIC".into(),
  };
  ctx.k("split2", &format!("{} {}", args2(x, y), k), &out);
  if k <= n {
    let seq: Vec<(f64, f64)> = s.into_iter().collect();
    let detail = format!("x=({:e},{:e},{}) y=({:e},{:e},{}) k={}", x.0, x.1, x.2, y.0, y.1, y.2, k);
    match r {
      None => ctx.s("C15.split", false, &format!("split2/{}/panic", kclass(k, n)), &detail),
      Some((ll, rl, nl, v)) => {
        let ok_len = ll == k && rl == n - k && nl == k && v.len() == n;
        let ok_val = bits_eq(&flat(&v), &flat(&seq));
        let sig = if !ok_len {
          format!("split2/{}/lengths", kclass(k, n))
        } else if !ok_val {
          format!("split2/{}/values", kclass(k, n))
        } else {
          "split2/ok".to_string()
        };
        ctx.s("C15.split", ok_len && ok_val, &sig, &format!("{} lens=({},{})", detail, ll, rl));
      }
    }
  }
}

fn tree2_case(ctx: &mut Ctx, x: (f64, f64, usize), y: (f64, f64, usize), t: &Tree, kind: &str, emit_k: bool) {
  ctx.count(&format!("tree2/{}", kind));
  let n = x.2 * y.2;
  let s = Steps2D(x, y);
  let run = |how: Drain| {
    guard(|| {
      let mut out = Vec::new();
      let mut lens = Vec::new();
      leaves(s.into_par_iter(), t, how, &mut out, &mut lens);
      (out, lens)
    })
  };
  let fwd = run(Drain::Forward);
  let text = t.text();
  if emit_k {
    let out = match &fwd {
      Some((v, _)) => fls(&flat(v)),
      None => "PANIC".into(),
    };
    ctx.k("tree2", &format!("{} {}", args2(x, y), text), &out);
  }
  let cls = if t.has_degenerate(n) { "contract" } else { "proper" };
  let shown = if text.len() > 300 { format!("{}…", &text[..300]) } else { text.clone() };
  let detail = format!("x=({:e},{:e},{}) y=({:e},{:e},{}) depth={} nodes={} tree={}", x.0, x.1, x.2, y.0, y.1, y.2, t.depth(), t.nodes(), shown);
  let seq: Vec<(f64, f64)> = s.into_iter().collect();
  match fwd {
    None => ctx.s("C15.tree", false, &format!("tree2/{}/panic", cls), &detail),
    Some((v, lens)) => {
      let fv = flat(&v);
      let ok_val = bits_eq(&fv, &flat(&seq));
      let mut off = 0;
      let mut ok_pos = true;
      for (o, reported, got) in lens.iter() {
        if *o != off || reported != got {
          ok_pos = false;
        }
        off += got;
      }
      ok_pos = ok_pos && off == n;
      let rev = run(Drain::Reverse).map(|p| flat(&p.0));
      let mix = run(Drain::Mixed(ctx.seed ^ (n as u64) << 8)).map(|p| flat(&p.0));
      let ok_de = rev.as_deref().map(|r| bits_eq(r, &fv)).unwrap_or(false) && mix.as_deref().map(|r| bits_eq(r, &fv)).unwrap_or(false);
      let sig = if !ok_val {
        format!("tree2/{}/values", cls)
      } else if !ok_pos {
        format!("tree2/{}/positions", cls)
      } else if !ok_de {
        format!("tree2/{}/double-ended", cls)
      } else {
        "tree2/ok".to_string()
      };
      ctx.s("C15.tree", ok_val && ok_pos && ok_de, &sig, &detail);
    }
  }
}

// ------------------------------------------------------------------------------------------------
// thread pools

fn pool(k: usize) -> rayon::ThreadPool {
  rayon::ThreadPoolBuilder::new().num_threads(k).build().unwrap()
}

/// run `f` inside a rayon pool of `k` threads, in a child thread, with a wall-clock cap.
/// Ok(Some(v)) = value, Ok(None) = panicked, Err(()) = did not complete within the cap.
fn in_pool<T: Send + 'static>(k: usize, cap: Duration, f: impl FnOnce() -> T + Send + 'static) -> Result<Option<T>, ()> {
  let (tx, rx) = mpsc::channel();
  std::thread::Builder::new()
    .stack_size(16 << 20)
    .spawn(move || {
      let r = guard(move || pool(k).install(f));
      let _ = tx.send(r);
    })
    .unwrap();
  match rx.recv_timeout(cap) {
    Ok(r) => Ok(r),
    Err(_) => Err(()),
  }
}

fn cbits(v: &[Complex<f64>]) -> Vec<f64> {
  v.iter().flat_map(|z| [z.re, z.im]).collect()
}
fn jbits(v: &[JSIUnits<f64>]) -> Vec<f64> {
  v.iter().map(|x| *(*x / JSIUnits::new(1.))).collect()
}

fn crel(a: Complex<f64>, b: Complex<f64>) -> f64 {
  if a == b {
    return 0.0;
  }
  (a - b).norm() / a.norm().max(b.norm())
}

#[derive(Clone, Copy, Debug)]
enum RangeKind {
  Wavelength,
  Frequency,
  SumDiff,
  FlatWavelength,
  FlatFrequency,
}

/// all `*_range` functions of `JointSpectrum` on one range, as flat lists of f64:
/// (jsa, jsa_normalized, jsi, jsi_normalized) and the four singles variants
fn eval_ranges<T: IntoSignalIdlerIterator + Clone>(sp: &spdcalc::jsa::JointSpectrum, r: T, singles: bool) -> (Vec<f64>, Vec<f64>) {
  let mut out = Vec::new();
  out.extend(cbits(&sp.jsa_range(r.clone())));
  out.extend(cbits(&sp.jsa_normalized_range(r.clone())));
  out.extend(jbits(&sp.jsi_range(r.clone())));
  out.extend(sp.jsi_normalized_range(r.clone()));
  let mut sing = Vec::new();
  if singles {
    sing.extend(jbits(&sp.jsi_singles_range(r.clone())));
    sing.extend(jbits(&sp.jsi_singles_idler_range(r.clone())));
    sing.extend(sp.jsi_singles_normalized_range(r.clone()));
    sing.extend(sp.jsi_singles_idler_normalized_range(r));
  }
  (out, sing)
}

fn eval_kind(sp: &spdcalc::jsa::JointSpectrum, kind: RangeKind, ws: WavelengthSpace, singles: bool) -> (Vec<f64>, Vec<f64>) {
  match kind {
    RangeKind::Wavelength => eval_ranges(sp, ws, singles),
    RangeKind::Frequency => eval_ranges(sp, ws.as_frequency_space(), singles),
    RangeKind::SumDiff => eval_ranges(sp, ws.as_sum_diff_space(), singles),
    RangeKind::FlatWavelength => {
      let flat: Vec<Wavelength> = ws.as_steps().into_iter().flat_map(|(s, i)| [s, i]).collect();
      eval_ranges(sp, SignalIdlerWavelengthArray(flat), singles)
    }
    RangeKind::FlatFrequency => {
      let flat: Vec<Frequency> = ws.as_frequency_space().as_steps().into_iter().flat_map(|(s, i)| [s, i]).collect();
      eval_ranges(sp, SignalIdlerFrequencyArray(flat), singles)
    }
  }
}

/// worst element-wise relative difference of two arrays made of blocks of `block` elements (one block
/// per range function), with its position and the reference value there (∞ if lengths differ).
/// Elements below 1e-3 of their block's peak (far tails of the spectrum, where the quadrature sum
/// cancels by many orders of magnitude and no summation order is accurate to 1e-12 of the result)
/// are measured relative to 1e-3·peak instead of their own magnitude.
fn worst_rel(a: &[f64], b: &[f64], block: usize) -> (f64, usize, f64) {
  if a.len() != b.len() {
    return (f64::INFINITY, 0, 0.0);
  }
  let mut w = (0.0f64, 0usize, 0.0f64);
  for (i, (x, y)) in a.iter().zip(b).enumerate() {
    if x.to_bits() == y.to_bits() || x == y {
      continue;
    }
    let lo = if block == 0 { 0 } else { (i / block) * block };
    let hi = if block == 0 { a.len() } else { (lo + block).min(a.len()) };
    let peak = a[lo..hi].iter().fold(0.0f64, |m, v| m.max(v.abs()));
    let e = (x - y).abs() / x.abs().max(y.abs()).max(1e-3 * peak);
    if !(e <= w.0) {
      w = (if e.is_nan() { f64::INFINITY } else { e }, i, *x);
    }
  }
  w
}

use spdcalc::{Frequency, Wavelength};

fn pools_part(ctx: &mut Ctx) {
  let pools: Vec<usize> = if ctx.thorough { vec![1, 2, 3, 4, 8, 16] } else { vec![1, 2, 4] };
  let reps = if ctx.thorough { 5 } else { 1 };
  let cap = Duration::from_secs(if ctx.thorough { 600 } else { 240 });

  // ---- (a) traversal of the grids themselves through rayon (collect / enumerate)
  let grids1: Vec<(f64, f64, usize)> = {
    let mut g = vec![(0.0, 1.0, 0), (3.3, 4.0, 1), (0.0, 0.9, 10), (-1.0, 1.0, 201), (1400e-9, 1600e-9, 1000)];
    let extra = if ctx.thorough { 12 } else { 3 };
    for _ in 0..extra {
      let a = gen_endpoint(&mut ctx.rng);
      let b = gen_endpoint(&mut ctx.rng);
      if a.abs() < 1e150 && b.abs() < 1e150 {
        g.push((a, b, ctx.rng.below(if ctx.thorough { 10_000 } else { 2_000 })));
      }
    }
    g
  };
  for &(a, b, n) in grids1.iter() {
    let seq: Vec<f64> = Steps(a, b, n).into_iter().collect();
    let scale = a.abs().max(b.abs());
    for &k in pools.iter() {
      for rep in 0..reps {
        let r = in_pool(k, cap, move || {
          let v: Vec<f64> = Steps(a, b, n).into_par_iter().collect();
          let e: Vec<(usize, f64)> = Steps(a, b, n).into_par_iter().enumerate().collect();
          let rv: Vec<f64> = Steps(a, b, n).into_par_iter().rev().collect();
          (v, e, rv)
        });
        let detail = format!("a={:e} b={:e} n={} threads={} rep={}", a, b, n, k, rep);
        ctx.count("pool/steps-traversal");
        match r {
          Err(()) => ctx.s("C15.traverse", false, "steps/par-collect/timeout", &detail),
          Ok(None) => ctx.s("C15.traverse", false, "steps/par-collect/panic", &detail),
          Ok(Some((v, e, rv))) => {
            let close = |x: &[f64], y: &[f64]| x.len() == y.len() && x.iter().zip(y).all(|(p, q)| rel_close(*p, *q, 1e-14, scale));
            let ev: Vec<f64> = e.iter().map(|p| p.1).collect();
            let mut rr = rv.clone();
            rr.reverse();
            let ok = close(&v, &seq) && close(&ev, &seq) && e.iter().enumerate().all(|(i, p)| p.0 == i) && close(&rr, &seq);
            ctx.s("C15.traverse", ok, if ok { "steps/par-collect/ok" } else { "steps/par-collect/differs" }, &detail);
          }
        }
      }
    }
  }
  let grids2: Vec<((f64, f64, usize), (f64, f64, usize))> = {
    let mut g = vec![
      ((0.0, 1.0, 0), (0.0, 1.0, 5)),
      ((0.0, 1.0, 1), (2.0, 3.0, 1)),
      ((2.0, 3.0, 2), (2.0, 3.0, 2)),
      ((0.0, 100.0, 11), (0.0, 10.0, 6)),
      ((1400e-9, 1600e-9, 100), (1500e-9, 1700e-9, 37)),
    ];
    let extra = if ctx.thorough { 10 } else { 2 };
    for _ in 0..extra {
      let e: Vec<f64> = (0..4).map(|_| gen_endpoint(&mut ctx.rng)).collect();
      let m = if ctx.thorough { 120 } else { 40 };
      g.push(((e[0], e[1], ctx.rng.below(m)), (e[2], e[3], ctx.rng.below(m))));
    }
    g
  };
  for &(x, y) in grids2.iter() {
    let seq = flat(&Steps2D(x, y).into_iter().collect::<Vec<_>>());
    for &k in pools.iter() {
      for rep in 0..reps {
        let r = in_pool(k, cap, move || {
          let v: Vec<(f64, f64)> = Steps2D(x, y).into_par_iter().collect();
          let e: Vec<(usize, (f64, f64))> = Steps2D(x, y).into_par_iter().enumerate().collect();
          let rv: Vec<(f64, f64)> = Steps2D(x, y).into_par_iter().rev().collect();
          (v, e, rv)
        });
        let detail = format!("x=({:e},{:e},{}) y=({:e},{:e},{}) threads={} rep={}", x.0, x.1, x.2, y.0, y.1, y.2, k, rep);
        ctx.count("pool/steps2d-traversal");
        match r {
          Err(()) => ctx.s("C15.traverse", false, "steps2d/par-collect/timeout", &detail),
          Ok(None) => ctx.s("C15.traverse", false, "steps2d/par-collect/panic", &detail),
          Ok(Some((v, e, rv))) => {
            let ev: Vec<(f64, f64)> = e.iter().map(|p| p.1).collect();
            let mut rr = rv.clone();
            rr.reverse();
            let ok = bits_eq(&flat(&v), &seq) && bits_eq(&flat(&ev), &seq) && e.iter().enumerate().all(|(i, p)| p.0 == i) && bits_eq(&flat(&rr), &seq);
            ctx.s("C15.traverse", ok, if ok { "steps2d/par-collect/ok" } else { "steps2d/par-collect/differs" }, &detail);
          }
        }
      }
    }
  }

  // ---- (b) every `*_range` function: bit-identical arrays for every pool size
  let spdc = SPDC::default();
  let shapes: Vec<(usize, usize, bool)> = if ctx.thorough {
    vec![(1, 1, true), (2, 3, true), (7, 5, true), (16, 16, false), (33, 20, false)]
  } else {
    vec![(2, 3, true), (9, 8, false)]
  };
  let kinds = [RangeKind::Wavelength, RangeKind::Frequency, RangeKind::SumDiff, RangeKind::FlatWavelength, RangeKind::FlatFrequency];
  // Per-point evaluation is sequential (hence the arrays must be bit-identical) for every function
  // under a Gauss–Legendre integrator, and for the jsa/jsi functions under Simpson with divs < 128.
  // The singles functions under Simpson evaluate each point by `simpson2d`, itself a parallel
  // quadrature sum: those arrays fall under the statement's reductions clause (1e-12 relative).
  for &(nx, ny, singles) in shapes.iter() {
    let l0 = ctx.rng.range(1500e-9, 1540e-9);
    let l1 = ctx.rng.range(1560e-9, 1600e-9);
    for kind in kinds.iter().copied() {
      for (iname, integ) in [("gauss-legendre6", Integrator::GaussLegendre { degree: 6 }), ("simpson50", Integrator::default())] {
        let par_per_point = iname == "simpson50";
        let mut reference: Option<(Vec<f64>, Vec<f64>)> = None;
        for &k in pools.iter() {
          for rep in 0..reps {
            let sp = spdc.clone();
            let r = in_pool(k, cap, move || {
              let spectrum = sp.joint_spectrum(integ);
              let ws = WavelengthSpace::new((l0 * M, l1 * M, nx), (l0 * M, l1 * M, ny));
              eval_kind(&spectrum, kind, ws, singles)
            });
            let detail = format!("kind={:?} nx={} ny={} l0={:e} l1={:e} singles={} integrator={} threads={} rep={}", kind, nx, ny, l0, l1, singles, iname, k, rep);
            ctx.count("pool/range");
            match r {
              Err(()) => ctx.s("C15.range", false, "range/timeout", &detail),
              Ok(None) => ctx.s("C15.range", false, "range/panic", &detail),
              Ok(Some((v, sg))) => {
                let ok_len = v.len() == nx * ny * 6 && sg.len() == if singles { nx * ny * 4 } else { 0 };
                match &reference {
                  None => {
                    ctx.s("C15.range", ok_len, if ok_len { "range/ok" } else { "range/length" }, &detail);
                    reference = Some((v, sg));
                  }
                  Some((v0, sg0)) => {
                    let ok = bits_eq(v0, &v) && (par_per_point || bits_eq(sg0, &sg));
                    ctx.s("C15.range", ok, if ok { "range/ok" } else { "range/not-bit-identical" }, &detail);
                    if par_per_point && singles {
                      let (e, at, val) = worst_rel(sg0, &sg, nx * ny);
                      let ok = e <= 1e-12;
                      ctx.count(if e == 0.0 { "pool/singles-range-bit-identical" } else { "pool/singles-range-differs-within-1e-12" });
                      ctx.s("C15.reduce", ok, if ok { "reduce/singles_range/ok" } else { "reduce/singles_range/differs" }, &format!("{} worst_rel={:.3e} at={} value={:e} peak={:e}", detail, e, at, val, sg0.iter().take(nx * ny).fold(0.0f64, |m, x| m.max(x.abs()))));
                    }
                  }
                }
              }
            }
          }
        }
      }
    }
  }

  // ---- (c) parallel reductions: 1e-12 relative to the single-thread result
  type F1 = fn(f64) -> Complex<f64>;
  let f1s: [(&str, F1, f64, f64); 4] = [
    ("poly", |x| Complex::new(1.0 + x + 0.5 * x * x * x, 2.0 - x * x), -1.0, 2.0),
    ("gauss", |x| Complex::new((-x * x).exp(), x * (-0.5 * x * x).exp() + 1.0), -3.0, 2.5),
    ("cis", |x| Complex::from_polar(1.0 + 0.1 * x, 0.7 * x), 0.0, 1.5),
    ("sinc", |x| Complex::new(if x == 0.0 { 1.0 } else { x.sin() / x }, 1.0 / (1.0 + x * x)), -2.0, 2.0),
  ];
  let divs1: Vec<usize> = if ctx.thorough { vec![128, 130, 131, 200, 1000, 10_000] } else { vec![130, 200] };
  for (name, f, a, b) in f1s.iter().copied() {
    for &divs in divs1.iter() {
      let mut reference: Option<Complex<f64>> = None;
      for &k in pools.iter() {
        for rep in 0..reps {
          let r = in_pool(k, cap, move || Integrator::Simpson { divs }.integrate(f, a, b));
          let detail = format!("f={} a={} b={} divs={} threads={} rep={}", name, a, b, divs, k, rep);
          ctx.count("pool/reduce-simpson1d");
          reduce_verdict(ctx, "simpson1d", r, &mut reference, &detail);
        }
      }
    }
  }
  type F2 = fn(f64, f64) -> Complex<f64>;
  let f2s: [(&str, F2); 3] = [
    ("poly", |x, y| Complex::new(1.0 + x * y + x * x, 2.0 + y * y * y - x)),
    ("gauss", |x, y| Complex::new((-x * x - 0.5 * y * y).exp(), 1.0 + 0.3 * (x + y).sin())),
    ("cis", |x, y| Complex::from_polar(1.0 + 0.1 * x * y, 0.4 * x - 0.3 * y)),
  ];
  let divs2: Vec<usize> = if ctx.thorough { vec![4, 6, 50, 128, 200, 400] } else { vec![4, 50, 130] };
  for (name, f) in f2s.iter().copied() {
    for &divs in divs2.iter() {
      let mut reference: Option<Complex<f64>> = None;
      for &k in pools.iter() {
        for rep in 0..reps {
          let r = in_pool(k, cap, move || Integrator::Simpson { divs }.integrate2d(f, -1.0, 1.5, 0.25, 2.0));
          let detail = format!("f={} rect=(-1,1.5)x(0.25,2) divs={} threads={} rep={}", name, divs, k, rep);
          ctx.count("pool/reduce-simpson2d");
          reduce_verdict(ctx, "simpson2d", r, &mut reference, &detail);
        }
      }
    }
  }
  // counts_* and hom_rate on the default setup
  let res: Vec<usize> = if ctx.thorough { vec![5, 12, 20] } else { vec![6] };
  for &n in res.iter() {
    for which in ["coincidences", "singles_signal", "singles_idler"] {
      let mut reference: Option<Complex<f64>> = None;
      let nn = if which == "coincidences" { n * 2 } else { n };
      for &k in pools.iter() {
        for rep in 0..reps {
          let sp = spdc.clone();
          let r = in_pool(k, cap, move || {
            let range = sp.optimum_range(nn);
            let integ = Integrator::Simpson { divs: 10 };
            let c = match which {
              "coincidences" => sp.counts_coincidences(range, integ),
              "singles_signal" => sp.counts_singles_signal(range, integ),
              _ => sp.counts_singles_idler(range, integ),
            };
            Complex::new(*(c / spdcalc::dim::ucum::HZ), 0.0)
          });
          let detail = format!("setup=default which={} resolution={} integrator=simpson10 threads={} rep={}", which, nn, k, rep);
          ctx.count("pool/reduce-counts");
          reduce_verdict(ctx, &format!("counts_{}", which), r, &mut reference, &detail);
        }
      }
    }
    // hom_rate: arrays computed once (sequentially), then the parallel sum under each pool
    let nh = n * 3;
    let range = spdc.optimum_range(nh);
    let spectrum = spdc.joint_spectrum(Integrator::default());
    let jsa: Vec<Complex<f64>> = range.as_steps().into_iter().map(|(ws, wi)| spectrum.jsa(ws, wi)).collect();
    let jsa_sw: Vec<Complex<f64>> = range.as_steps().into_iter().map(|(ws, wi)| spectrum.jsa(wi, ws)).collect();
    for tau in [0.0, 1.3e-13, -4.0e-13] {
      let mut reference: Option<Complex<f64>> = None;
      for &k in pools.iter() {
        for rep in 0..reps {
          let (j1, j2) = (jsa.clone(), jsa_sw.clone());
          let r = in_pool(k, cap, move || Complex::new(spdcalc::hom_rate(range, &j1, &j2, tau * S, None), 0.0));
          let detail = format!("setup=default resolution={} tau={:e} threads={} rep={}", nh, tau, k, rep);
          ctx.count("pool/reduce-hom");
          reduce_verdict(ctx, "hom_rate", r, &mut reference, &detail);
        }
      }
    }
  }

  // ---- (d) nested parallel regions complete (no deadlock), on every pool size including 1
  let nested_pools: Vec<usize> = if ctx.thorough { vec![1, 2, 3, 4, 8, 16] } else { vec![1, 2] };
  for &k in nested_pools.iter() {
    for (name, n) in [("simpson200-in-jsi_range", if ctx.thorough { 12 } else { 6 }), ("simpson2d-in-jsi_singles_range", if ctx.thorough { 5 } else { 3 }), ("simpson2d-in-counts_singles", 3)] {
      let sp = spdc.clone();
      let t0 = Instant::now();
      let r = in_pool(k, cap, move || {
        let l0 = 1520e-9;
        let l1 = 1580e-9;
        let ws = WavelengthSpace::new((l0 * M, l1 * M, n), (l0 * M, l1 * M, n));
        match name {
          "simpson200-in-jsi_range" => sp.joint_spectrum(Integrator::Simpson { divs: 200 }).jsi_range(ws).len(),
          "simpson2d-in-jsi_singles_range" => sp.joint_spectrum(Integrator::Simpson { divs: 16 }).jsi_singles_range(ws).len(),
          _ => {
            let c = sp.counts_singles_signal(sp.optimum_range(n), Integrator::Simpson { divs: 16 });
            if (*(c / spdcalc::dim::ucum::HZ)).is_nan() { 0 } else { n * n }
          }
        }
      });
      let detail = format!("case={} n={} threads={} cap_s={} took_s={:.2}", name, n, k, cap.as_secs(), t0.elapsed().as_secs_f64());
      ctx.count("pool/nested");
      match r {
        Err(()) => ctx.s("C15.nested", false, "nested/timeout", &detail),
        Ok(None) => ctx.s("C15.nested", false, "nested/panic", &detail),
        Ok(Some(len)) => ctx.s("C15.nested", len == n * n, if len == n * n { "nested/ok" } else { "nested/length" }, &detail),
      }
    }
  }
  let _ = RAD;
}

fn reduce_verdict(ctx: &mut Ctx, what: &str, r: Result<Option<Complex<f64>>, ()>, reference: &mut Option<Complex<f64>>, detail: &str) {
  match r {
    Err(()) => ctx.s("C15.reduce", false, &format!("reduce/{}/timeout", what), detail),
    Ok(None) => ctx.s("C15.reduce", false, &format!("reduce/{}/panic", what), detail),
    Ok(Some(v)) => match reference {
      None => {
        // first pool is the 1-thread pool: the reference
        let ok = v.re.is_finite() && v.im.is_finite();
        ctx.s("C15.reduce", ok, &format!("reduce/{}/{}", what, if ok { "ok" } else { "non-finite" }), &format!("{} value=({:e},{:e})", detail, v.re, v.im));
        *reference = Some(v);
      }
      Some(r0) => {
        let e = crel(*r0, v);
        let ok = e <= 1e-12;
        ctx.s("C15.reduce", ok, &format!("reduce/{}/{}", what, if ok { "ok" } else { "differs" }), &format!("{} rel={:.3e} value=({:e},{:e})", detail, e, v.re, v.im));
      }
    },
  }
}

// ------------------------------------------------------------------------------------------------

pub fn run(ctx: &mut Ctx) {
  let which = ctx.extra.first().cloned().unwrap_or_else(|| "all".into());
  if which == "all" || which == "split" {
    split_part(ctx);
  }
  if which == "all" || which == "pools" {
    pools_part(ctx);
  }
}

fn split_part(ctx: &mut Ctx) {
  // ---- single splits, exhaustive: every len ≤ 64 and every k ∈ 0..=len+1
  let lmax = if ctx.thorough { 64 } else { 24 };
  let fixed = [(0.0, 0.9), (3.3, 4.0), (1.0, -1.0), (2.5, 2.5), (1400e-9, 1600e-9)];
  for n in 0..=lmax {
    for k in 0..=n + 1 {
      let (a, b) = fixed[(n + k) % fixed.len()];
      split1_case(ctx, a, b, n, k);
      if ctx.thorough || n <= 12 {
        let a2 = gen_endpoint(&mut ctx.rng);
        let b2 = gen_endpoint(&mut ctx.rng);
        split1_case(ctx, a2, b2, n, k);
      }
    }
  }
  // 2-D: every (nx, ny) with nx·ny ≤ 64 (thorough) and every k ∈ 0..=len+1
  let pmax = if ctx.thorough { 64 } else { 20 };
  for nx in 0..=pmax {
    for ny in 0..=pmax {
      if (nx * ny > pmax) || (nx == 0 && ny > 3) || (ny == 0 && nx > 3) {
        continue;
      }
      let x = (0.0, 1.0, nx);
      let y = (10.0, -3.0, ny);
      for k in 0..=nx * ny + 1 {
        split2_case(ctx, x, y, k);
      }
    }
  }
  for _ in 0..ctx.n / 4 {
    let e: Vec<f64> = (0..4).map(|_| gen_endpoint(&mut ctx.rng)).collect();
    let nx = ctx.rng.below(9);
    let ny = ctx.rng.below(9);
    let k = ctx.rng.below(nx * ny + 2);
    split2_case(ctx, (e[0], e[1], nx), (e[2], e[3], ny), k);
  }

  // ---- all proper trees for small lengths
  let mut memo: Vec<Option<Vec<Tree>>> = Vec::new();
  let t1max = if ctx.thorough { 8 } else { 6 };
  for n in 0..=t1max {
    let ts = all_trees(n, &mut memo);
    for (i, t) in ts.iter().enumerate() {
      let (a, b) = fixed[(n + i) % fixed.len()];
      tree1_case(ctx, a, b, n, t, "all-small", true);
    }
  }
  let shapes2: &[(usize, usize)] = if ctx.thorough { &[(0, 3), (1, 1), (2, 1), (1, 3), (2, 2), (5, 1), (3, 2), (2, 3), (7, 1), (4, 2), (2, 4), (3, 3)] } else { &[(0, 3), (1, 1), (1, 3), (2, 2), (3, 2), (2, 3)] };
  for &(nx, ny) in shapes2.iter() {
    let ts = all_trees(nx * ny, &mut memo);
    for t in ts.iter() {
      tree2_case(ctx, (0.0, 1.0, nx), (10.0, -3.0, ny), t, "all-small", true);
    }
  }
  // trees that use the degenerate splits allowed by the contract (k = 0, k = len), small, bounded depth
  for n in 0..=4usize {
    for k1 in [0usize, n] {
      for k2 in 0..=k1.max(n - k1) {
        // split at k1, then split the non-empty side again at k2 (and the empty side at 0)
        let (l, r) = if k1 == 0 {
          (Tree::Node(0, Box::new(Tree::Leaf), Box::new(Tree::Leaf)), Tree::Node(k2, Box::new(Tree::Leaf), Box::new(Tree::Leaf)))
        } else {
          (Tree::Node(k2, Box::new(Tree::Leaf), Box::new(Tree::Leaf)), Tree::Node(0, Box::new(Tree::Leaf), Box::new(Tree::Leaf)))
        };
        let t = Tree::Node(k1, Box::new(l), Box::new(r));
        tree1_case(ctx, 0.0, 0.9, n, &t, "degenerate-small", true);
        tree1_case(ctx, 1600e-9, 1400e-9, n, &t, "degenerate-small", true);
        if n == 4 {
          tree2_case(ctx, (0.0, 1.0, 2), (10.0, -3.0, 2), &t, "degenerate-small", true);
        }
      }
    }
  }

  // ---- random trees
  let big = if ctx.thorough { 10_000 } else { 600 };
  let shapes = [Shape::Uniform, Shape::Bisect, Shape::Edge, Shape::Contract];
  for i in 0..ctx.n {
    let shape = shapes[i % shapes.len()];
    let n = match ctx.rng.below(4) {
      0 => ctx.rng.below(13),
      1 => ctx.rng.below(65),
      2 => ctx.rng.below(400),
      _ => ctx.rng.below(big + 1),
    };
    let stop = *ctx.rng.pick(&[0.0, 0.02, 0.1, 0.3]);
    let mut budget = if shape == Shape::Contract { 200 } else { 20_000 };
    let t = random_tree(&mut ctx.rng, n, shape, stop, &mut budget, 0);
    let a = gen_endpoint(&mut ctx.rng);
    let b = gen_endpoint(&mut ctx.rng);
    // K lines of big cases are long: emit them for moderate sizes, keep S on all
    let emit = n <= 2_000 || i % 8 == 0;
    tree1_case(ctx, a, b, n, &t, &format!("random/{:?}", shape), emit);
  }
  for i in 0..ctx.n {
    let shape = shapes[i % shapes.len()];
    let m = match ctx.rng.below(3) {
      0 => 5,
      1 => 20,
      _ => if ctx.thorough { 100 } else { 30 },
    };
    let nx = ctx.rng.below(m + 1);
    let ny = ctx.rng.below(m + 1);
    let stop = *ctx.rng.pick(&[0.0, 0.02, 0.1, 0.3]);
    let mut budget = if shape == Shape::Contract { 200 } else { 20_000 };
    let t = random_tree(&mut ctx.rng, nx * ny, shape, stop, &mut budget, 0);
    let e: Vec<f64> = (0..4).map(|_| gen_endpoint(&mut ctx.rng)).collect();
    let emit = nx * ny <= 1_500 || i % 8 == 0;
    tree2_case(ctx, (e[0], e[1], nx), (e[2], e[3], ny), &t, &format!("random/{:?}", shape), emit);
  }
}
