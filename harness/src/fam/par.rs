//! C15 — parallel evaluation is independent of thread count and work splitting.
//!
//! Part 1 drives `rayon::iter::plumbing::Producer::{split_at, into_iter}` on the REAL producers
//! (`Steps(..).into_par_iter()`, `Steps2D(..).into_par_iter()`): single splits (K split1/split2) and
//! whole split trees (K tree1/tree2), with the statement as S predicate (leaves = sequential).
//! Part 2 runs the real rayon call sites under explicit thread pools.
use crate::common::*;
use rayon::iter::plumbing::Producer;
use rayon::prelude::*;
use spdcalc::dim::ucum::{M, RAD, S};
use spdcalc::prelude::*;
use spdcalc::JSIUnits;
use std::sync::mpsc;
use std::time::{Duration, Instant};

// ------------------------------------------------------------------------------------------------
// split trees

#[derive(Clone, Debug)]
pub enum Tree {
  Leaf,
  Node(usize, Box<Tree>, Box<Tree>),
}

impl Tree {
  /// preorder token list `n<k>` / `l`, comma separated (what `Driver/Grid.lean: parseTree` reads)
  fn write(&self, out: &mut String) {
    // iterative preorder (trees may be deep chains)
    let mut stack: Vec<&Tree> = vec![self];
    let mut first = true;
    while let Some(t) = stack.pop() {
      if !first {
        out.push(',');
      }
      first = false;
      match t {
        Tree::Leaf => out.push('l'),
        Tree::Node(k, l, r) => {
          out.push('n');
          out.push_str(&k.to_string());
          stack.push(r);
          stack.push(l);
        }
      }
    }
  }
  fn text(&self) -> String {
    let mut s = String::new();
    self.write(&mut s);
    s
  }
  fn depth(&self) -> usize {
    // iterative
    let mut best = 0;
    let mut stack: Vec<(&Tree, usize)> = vec![(self, 0)];
    while let Some((t, d)) = stack.pop() {
      best = best.max(d);
      if let Tree::Node(_, l, r) = t {
        stack.push((l, d + 1));
        stack.push((r, d + 1));
      }
    }
    best
  }
  fn nodes(&self) -> usize {
    let mut n = 0;
    let mut stack: Vec<&Tree> = vec![self];
    while let Some(t) = stack.pop() {
      if let Tree::Node(_, l, r) = t {
        n += 1;
        stack.push(l);
        stack.push(r);
      }
    }
    n
  }
  /// does some node split at 0 or at the full length (allowed by the Producer contract)?
  fn has_degenerate(&self, len: usize) -> bool {
    match self {
      Tree::Leaf => false,
      Tree::Node(k, l, r) => *k == 0 || *k == len || l.has_degenerate(*k) || r.has_degenerate(len - *k),
    }
  }
}

/// every tree over a producer of length `len` whose splits are proper (1 ≤ k ≤ len−1)
fn all_trees(len: usize, memo: &mut Vec<Option<Vec<Tree>>>) -> Vec<Tree> {
  if let Some(Some(v)) = memo.get(len) {
    return v.clone();
  }
  let mut v = vec![Tree::Leaf];
  for k in 1..len {
    let ls = all_trees(k, memo);
    let rs = all_trees(len - k, memo);
    for l in ls.iter() {
      for r in rs.iter() {
        v.push(Tree::Node(k, Box::new(l.clone()), Box::new(r.clone())));
      }
    }
  }
  if memo.len() <= len {
    memo.resize(len + 1, None);
  }
  memo[len] = Some(v.clone());
  v
}

#[derive(Clone, Copy, PartialEq, Debug)]
enum Shape {
  Uniform,  // k uniform in 1..len-1
  Bisect,   // k = len/2 (what rayon's bridge requests), pruned at random
  Edge,     // k ∈ {1, len-1}: 1-element halves
  Contract, // k uniform in 0..=len: includes the degenerate splits the Producer contract allows
}

/// random split tree over a producer of length `len`; `budget` bounds the number of nodes
fn random_tree(r: &mut Rng, len: usize, shape: Shape, stop: f64, budget: &mut usize, depth: usize, max_depth: usize) -> Tree {
  if *budget == 0 || depth > max_depth || r.unit() < stop {
    return Tree::Leaf;
  }
  let k = match shape {
    Shape::Uniform => {
      if len < 2 {
        return Tree::Leaf;
      }
      r.between(1, len - 1)
    }
    Shape::Bisect => {
      if len < 2 {
        return Tree::Leaf;
      }
      len / 2
    }
    Shape::Edge => {
      if len < 2 {
        return Tree::Leaf;
      }
      if r.coin() { 1 } else { len - 1 }
    }
    Shape::Contract => match r.below(6) {
      0 => 0,
      1 => len,
      _ => r.between(0, len),
    },
  };
  *budget -= 1;
  let l = random_tree(r, k, shape, stop, budget, depth + 1, max_depth);
  let rt = random_tree(r, len - k, shape, stop, budget, depth + 1, max_depth);
  Tree::Node(k, Box::new(l), Box::new(rt))
}

#[derive(Clone, Copy, PartialEq)]
enum Drain {
  Forward,
  Reverse,
  Mixed(u64),
}

/// drain an iterator completely in the given manner, returning its items in sequence order
fn drain<I: DoubleEndedIterator>(mut it: I, how: Drain) -> Vec<I::Item> {
  match how {
    Drain::Forward => it.collect(),
    Drain::Reverse => {
      let mut v: Vec<I::Item> = it.rev().collect();
      v.reverse();
      v
    }
    Drain::Mixed(seed) => {
      let mut r = Rng(seed);
      let mut front = Vec::new();
      let mut back = Vec::new();
      loop {
        let x = if r.coin() { it.next().map(|v| front.push(v)) } else { it.next_back().map(|v| back.push(v)) };
        if x.is_none() {
          break;
        }
      }
      back.reverse();
      front.extend(back);
      front
    }
  }
}

/// leaves of a split tree over a real producer, each drained sequentially, concatenated;
/// `lens` records for every leaf (offset at which it starts, `ExactSizeIterator::len()` it reports
/// when fresh, number of items it delivered).
fn leaves<P>(p: P, t: &Tree, how: Drain, out: &mut Vec<P::Item>, lens: &mut Vec<(usize, usize, usize)>)
where
  P: Producer,
{
  match t {
    Tree::Leaf => {
      let it = p.into_iter();
      let reported = it.len();
      let v = drain(it, how);
      lens.push((out.len(), reported, v.len()));
      out.extend(v);
    }
    Tree::Node(k, l, r) => {
      let (a, b) = p.split_at(*k);
      leaves(a, l, how, out, lens);
      leaves(b, r, how, out, lens);
    }
  }
}

/// moderate-magnitude endpoint (adaptor runs): zeros, ±, wavelength- and frequency-like
fn gen_small(r: &mut Rng) -> f64 {
  match r.below(6) {
    0 => 0.0,
    1 => -0.0,
    2 => r.range(-1.0, 1.0),
    3 => r.log_range(1e-9, 1e-5),
    4 => r.log_range(1e14, 1e16),
    _ => (r.below(21) as f64) - 10.0,
  }
}

fn rel_close(a: f64, b: f64, tol: f64, scale: f64) -> bool {
  if a.to_bits() == b.to_bits() || a == b {
    return true;
  }
  (a - b).abs() <= tol * scale.max(f64::MIN_POSITIVE)
}

fn flat(v: &[(f64, f64)]) -> Vec<f64> {
  v.iter().flat_map(|p| [p.0, p.1]).collect()
}

fn bits_eq(a: &[f64], b: &[f64]) -> bool {
  a.len() == b.len() && a.iter().zip(b).all(|(x, y)| x.to_bits() == y.to_bits())
}

fn kclass(k: usize, len: usize) -> &'static str {
  if k == 0 {
    "k=0"
  } else if k == len {
    "k=len"
  } else if k > len {
    "k>len"
  } else {
    "inner"
  }
}

// ------------------------------------------------------------------------------------------------
// 1-D

fn args1(a: f64, b: f64, n: usize) -> String {
  format!("{} {} {}", fl(a), fl(b), n)
}

fn split1_case(ctx: &mut Ctx, a: f64, b: f64, n: usize, k: usize) {
  ctx.count(&format!("split1/{}", kclass(k, n)));
  let s = Steps(a, b, n);
  let r = guard(|| {
    let (l, rt) = s.into_par_iter().split_at(k);
    let (li, ri) = (l.into_iter(), rt.into_iter());
    let (ll, rl) = (li.len(), ri.len());
    let mut v: Vec<f64> = li.collect();
    let nl = v.len();
    v.extend(ri);
    (ll, rl, nl, v)
  });
  let out = match &r {
    Some((ll, rl, _, v)) => format!("{} {} {}", ll, rl, fls(v)).trim_end().to_string(),
    None => "PANIC".into(),
  };
  ctx.k("split1", &format!("{} {}", args1(a, b, n), k), &out);
  // S: the statement, for every index the Producer contract allows (0 ≤ k ≤ len)
  if k <= n && a.abs() < 1e150 && b.abs() < 1e150 {
    let seq: Vec<f64> = s.into_iter().collect();
    let scale = a.abs().max(b.abs());
    let detail = format!("a={:e} b={:e} n={} k={}", a, b, n, k);
    match r {
      None => ctx.s("C15.split", false, &format!("split1/{}/panic", kclass(k, n)), &detail),
      Some((ll, rl, nl, v)) => {
        let ok_len = ll == k && rl == n - k && nl == k && v.len() == n;
        let mut worst = 0.0f64;
        let ok_val = v.len() == seq.len()
          && v.iter().zip(seq.iter()).all(|(x, y)| {
            if scale > 0.0 && x.is_finite() && y.is_finite() {
              worst = worst.max((x - y).abs() / scale);
            }
            rel_close(*x, *y, 1e-14, scale)
          });
        let sig = if !ok_len {
          format!("split1/{}/lengths", kclass(k, n))
        } else if !ok_val {
          format!("split1/{}/values", kclass(k, n))
        } else {
          "split1/ok".to_string()
        };
        ctx.s("C15.split", ok_len && ok_val, &sig, &format!("{} lens=({},{}) worst_rel={:.3e}", detail, ll, rl, worst));
      }
    }
  }
}

fn tree1_case(ctx: &mut Ctx, a: f64, b: f64, n: usize, t: &Tree, kind: &str, emit_k: bool) {
  ctx.count(&format!("tree1/{}", kind));
  let s = Steps(a, b, n);
  let run = |how: Drain| {
    guard(|| {
      let mut out = Vec::new();
      let mut lens = Vec::new();
      leaves(s.into_par_iter(), t, how, &mut out, &mut lens);
      (out, lens)
    })
  };
  let fwd = run(Drain::Forward);
  let text = t.text();
  if emit_k {
    let out = match &fwd {
      Some((v, _)) => fls(v),
      None => "PANIC".into(),
    };
    ctx.k("tree1", &format!("{} {}", args1(a, b, n), text), &out);
  }
  if a.abs() < 1e150 && b.abs() < 1e150 {
    let degenerate = t.has_degenerate(n);
    let cls = if degenerate { "contract" } else { "proper" };
    let shown = if text.len() > 300 { format!("{}…", &text[..300]) } else { text.clone() };
    let detail = format!("a={:e} b={:e} n={} depth={} nodes={} tree={}", a, b, n, t.depth(), t.nodes(), shown);
    let seq: Vec<f64> = s.into_iter().collect();
    let scale = a.abs().max(b.abs());
    match fwd {
      None => ctx.s("C15.tree", false, &format!("tree1/{}/panic", cls), &detail),
      Some((v, lens)) => {
        let mut worst = 0.0f64;
        let ok_val = v.len() == seq.len()
          && v.iter().zip(seq.iter()).all(|(x, y)| {
            if scale > 0.0 && x.is_finite() && y.is_finite() {
              worst = worst.max((x - y).abs() / scale);
            }
            rel_close(*x, *y, 1e-14, scale)
          });
        // positions: every leaf reports its own point count and starts where the previous ended
        let mut off = 0;
        let mut ok_pos = true;
        for (o, reported, got) in lens.iter() {
          if *o != off || reported != got {
            ok_pos = false;
          }
          off += got;
        }
        ok_pos = ok_pos && off == n;
        // double-ended contract: reverse and mixed draining of the leaves give the same sequence
        let rev = run(Drain::Reverse).map(|x| x.0);
        let mix = run(Drain::Mixed(ctx.seed ^ (n as u64) << 8)).map(|x| x.0);
        let ok_de = rev.as_deref().map(|r| bits_eq(r, &v)).unwrap_or(false) && mix.as_deref().map(|r| bits_eq(r, &v)).unwrap_or(false);
        let sig = if !ok_val {
          format!("tree1/{}/values", cls)
        } else if !ok_pos {
          format!("tree1/{}/positions", cls)
        } else if !ok_de {
          format!("tree1/{}/double-ended", cls)
        } else {
          "tree1/ok".to_string()
        };
        ctx.s("C15.tree", ok_val && ok_pos && ok_de, &sig, &format!("{} worst_rel={:.3e}", detail, worst));
      }
    }
  }
}

// ------------------------------------------------------------------------------------------------
// 2-D

fn args2(x: (f64, f64, usize), y: (f64, f64, usize)) -> String {
  format!("{} {} {} {} {} {}", fl(x.0), fl(x.1), x.2, fl(y.0), fl(y.1), y.2)
}

fn split2_case(ctx: &mut Ctx, x: (f64, f64, usize), y: (f64, f64, usize), k: usize) {
  let n = x.2 * y.2;
  ctx.count(&format!("split2/{}", kclass(k, n)));
  let s = Steps2D(x, y);
  let r = guard(|| {
    let (l, rt) = s.into_par_iter().split_at(k);
    let (li, ri) = (l.into_iter(), rt.into_iter());
    let (ll, rl) = (li.len(), ri.len());
    let mut v: Vec<(f64, f64)> = li.collect();
    let nl = v.len();
    v.extend(ri);
    (ll, rl, nl, v)
  });
  let out = match &r {
    Some((ll, rl, _, v)) => format!("{} {} {}", ll, rl, fls(&flat(v))).trim_end().to_string(),
    None => "PANIC".into(),
  };
  ctx.k("split2", &format!("{} {}", args2(x, y), k), &out);
  if k <= n {
    let seq: Vec<(f64, f64)> = s.into_iter().collect();
    let detail = format!("x=({:e},{:e},{}) y=({:e},{:e},{}) k={}", x.0, x.1, x.2, y.0, y.1, y.2, k);
    match r {
      None => ctx.s("C15.split", false, &format!("split2/{}/panic", kclass(k, n)), &detail),
      Some((ll, rl, nl, v)) => {
        let ok_len = ll == k && rl == n - k && nl == k && v.len() == n;
        let ok_val = bits_eq(&flat(&v), &flat(&seq));
        let sig = if !ok_len {
          format!("split2/{}/lengths", kclass(k, n))
        } else if !ok_val {
          format!("split2/{}/values", kclass(k, n))
        } else {
          "split2/ok".to_string()
        };
        ctx.s("C15.split", ok_len && ok_val, &sig, &format!("{} lens=({},{})", detail, ll, rl));
      }
    }
  }
}

fn tree2_case(ctx: &mut Ctx, x: (f64, f64, usize), y: (f64, f64, usize), t: &Tree, kind: &str, emit_k: bool) {
  ctx.count(&format!("tree2/{}", kind));
  let n = x.2 * y.2;
  let s = Steps2D(x, y);
  let run = |how: Drain| {
    guard(|| {
      let mut out = Vec::new();
      let mut lens = Vec::new();
      leaves(s.into_par_iter(), t, how, &mut out, &mut lens);
      (out, lens)
    })
  };
  let fwd = run(Drain::Forward);
  let text = t.text();
  if emit_k {
    let out = match &fwd {
      Some((v, _)) => fls(&flat(v)),
      None => "PANIC".into(),
    };
    ctx.k("tree2", &format!("{} {}", args2(x, y), text), &out);
  }
  let cls = if t.has_degenerate(n) { "contract" } else { "proper" };
  let shown = if text.len() > 300 { format!("{}…", &text[..300]) } else { text.clone() };
  let detail = format!("x=({:e},{:e},{}) y=({:e},{:e},{}) depth={} nodes={} tree={}", x.0, x.1, x.2, y.0, y.1, y.2, t.depth(), t.nodes(), shown);
  let seq: Vec<(f64, f64)> = s.into_iter().collect();
  match fwd {
    None => ctx.s("C15.tree", false, &format!("tree2/{}/panic", cls), &detail),
    Some((v, lens)) => {
      let fv = flat(&v);
      let ok_val = bits_eq(&fv, &flat(&seq));
      let mut off = 0;
      let mut ok_pos = true;
      for (o, reported, got) in lens.iter() {
        if *o != off || reported != got {
          ok_pos = false;
        }
        off += got;
      }
      ok_pos = ok_pos && off == n;
      let rev = run(Drain::Reverse).map(|p| flat(&p.0));
      let mix = run(Drain::Mixed(ctx.seed ^ (n as u64) << 8)).map(|p| flat(&p.0));
      let ok_de = rev.as_deref().map(|r| bits_eq(r, &fv)).unwrap_or(false) && mix.as_deref().map(|r| bits_eq(r, &fv)).unwrap_or(false);
      let sig = if !ok_val {
        format!("tree2/{}/values", cls)
      } else if !ok_pos {
        format!("tree2/{}/positions", cls)
      } else if !ok_de {
        format!("tree2/{}/double-ended", cls)
      } else {
        "tree2/ok".to_string()
      };
      ctx.s("C15.tree", ok_val && ok_pos && ok_de, &sig, &detail);
    }
  }
}

// ------------------------------------------------------------------------------------------------
// thread pools

fn pool(k: usize) -> rayon::ThreadPool {
  rayon::ThreadPoolBuilder::new().num_threads(k).build().unwrap()
}

/// run `f` inside a rayon pool of `k` threads, in a child thread, with a wall-clock cap.
/// Ok(Some(v)) = value, Ok(None) = panicked, Err(()) = did not complete within the cap.
/// After the first timeout (a hang has been demonstrated and reported) later calls get a short cap, and after the
/// third they are not started any more: a run against a deadlocking tree must itself end in bounded time.
static TIMEOUTS: std::sync::atomic::AtomicUsize = std::sync::atomic::AtomicUsize::new(0);
fn in_pool<T: Send + 'static>(k: usize, cap: Duration, f: impl FnOnce() -> T + Send + 'static) -> Result<Option<T>, ()> {
  let seen = TIMEOUTS.load(std::sync::atomic::Ordering::SeqCst);
  if seen >= 3 {
    return Err(());
  }
  let cap = if seen >= 1 { cap.min(Duration::from_secs(20)) } else { cap };
  let (tx, rx) = mpsc::channel();
  std::thread::Builder::new()
    .stack_size(16 << 20)
    .spawn(move || {
      let r = guard(move || pool(k).install(f));
      let _ = tx.send(r);
    })
    .unwrap();
  match rx.recv_timeout(cap) {
    Ok(r) => Ok(r),
    Err(_) => {
      TIMEOUTS.fetch_add(1, std::sync::atomic::Ordering::SeqCst);
      Err(())
    }
  }
}

fn cbits(v: &[Complex<f64>]) -> Vec<f64> {
  v.iter().flat_map(|z| [z.re, z.im]).collect()
}
fn jbits(v: &[JSIUnits<f64>]) -> Vec<f64> {
  v.iter().map(|x| *(*x / JSIUnits::new(1.))).collect()
}

fn crel(a: Complex<f64>, b: Complex<f64>) -> f64 {
  if a == b {
    return 0.0;
  }
  (a - b).norm() / a.norm().max(b.norm())
}

#[derive(Clone, Copy, Debug)]
enum RangeKind {
  Wavelength,
  Frequency,
  SumDiff,
  FlatWavelength,
  FlatFrequency,
}

/// all `*_range` functions of `JointSpectrum` on one range, as flat lists of f64:
/// (jsa, jsa_normalized, jsi, jsi_normalized) and the four singles variants
fn eval_ranges<T: IntoSignalIdlerIterator + Clone>(sp: &spdcalc::jsa::JointSpectrum, r: T, singles: bool) -> (Vec<f64>, Vec<f64>) {
  let mut out = Vec::new();
  out.extend(cbits(&sp.jsa_range(r.clone())));
  out.extend(cbits(&sp.jsa_normalized_range(r.clone())));
  out.extend(jbits(&sp.jsi_range(r.clone())));
  out.extend(sp.jsi_normalized_range(r.clone()));
  let mut sing = Vec::new();
  if singles {
    sing.extend(jbits(&sp.jsi_singles_range(r.clone())));
    sing.extend(jbits(&sp.jsi_singles_idler_range(r.clone())));
    sing.extend(sp.jsi_singles_normalized_range(r.clone()));
    sing.extend(sp.jsi_singles_idler_normalized_range(r));
  }
  (out, sing)
}

fn eval_kind(sp: &spdcalc::jsa::JointSpectrum, kind: RangeKind, ws: WavelengthSpace, singles: bool) -> (Vec<f64>, Vec<f64>) {
  match kind {
    RangeKind::Wavelength => eval_ranges(sp, ws, singles),
    RangeKind::Frequency => eval_ranges(sp, ws.as_frequency_space(), singles),
    RangeKind::SumDiff => eval_ranges(sp, ws.as_sum_diff_space(), singles),
    RangeKind::FlatWavelength => {
      let flat: Vec<Wavelength> = ws.as_steps().into_iter().flat_map(|(s, i)| [s, i]).collect();
      eval_ranges(sp, SignalIdlerWavelengthArray(flat), singles)
    }
    RangeKind::FlatFrequency => {
      let flat: Vec<Frequency> = ws.as_frequency_space().as_steps().into_iter().flat_map(|(s, i)| [s, i]).collect();
      eval_ranges(sp, SignalIdlerFrequencyArray(flat), singles)
    }
  }
}

/// worst element-wise relative difference of two arrays made of blocks of `block` elements (one block
/// per range function), with its position and the reference value there (∞ if lengths differ).
/// Elements below 1e-3 of their block's peak (far tails of the spectrum, where the quadrature sum
/// cancels by many orders of magnitude and no summation order is accurate to 1e-12 of the result)
/// are measured relative to 1e-3·peak instead of their own magnitude.
fn worst_rel(a: &[f64], b: &[f64], block: usize) -> (f64, usize, f64) {
  if a.len() != b.len() {
    return (f64::INFINITY, 0, 0.0);
  }
  let mut w = (0.0f64, 0usize, 0.0f64);
  for (i, (x, y)) in a.iter().zip(b).enumerate() {
    if x.to_bits() == y.to_bits() || x == y {
      continue;
    }
    let lo = if block == 0 { 0 } else { (i / block) * block };
    let hi = if block == 0 { a.len() } else { (lo + block).min(a.len()) };
    let peak = a[lo..hi].iter().fold(0.0f64, |m, v| m.max(v.abs()));
    let e = (x - y).abs() / x.abs().max(y.abs()).max(1e-3 * peak);
    if !(e <= w.0) {
      w = (if e.is_nan() { f64::INFINITY } else { e }, i, *x);
    }
  }
  w
}

use spdcalc::{Frequency, Wavelength};

fn pools_part(ctx: &mut Ctx) {
  let pools: Vec<usize> = if ctx.thorough { vec![1, 2, 3, 4, 8, 16] } else { vec![1, 2, 4, 8] };
  let reps = if ctx.thorough { 5 } else { 2 };
  let cap = Duration::from_secs(if ctx.thorough { 600 } else { 240 });

  // ---- (a) traversal of the grids themselves through rayon (collect / enumerate)
  let grids1: Vec<(f64, f64, usize)> = {
    let mut g = vec![(0.0, 1.0, 0), (3.3, 4.0, 1), (1.0, -1.0, 2), (2.5, 2.5, 7), (0.0, 0.9, 10), (-1.0, 1.0, 201), (1400e-9, 1600e-9, 1000)];
    let extra = if ctx.thorough { 12 } else { 3 };
    for _ in 0..extra {
      let a = gen_endpoint(&mut ctx.rng);
      let b = gen_endpoint(&mut ctx.rng);
      if a.abs() < 1e150 && b.abs() < 1e150 {
        g.push((a, b, ctx.rng.below(if ctx.thorough { 10_000 } else { 2_000 })));
      }
    }
    g
  };
  for &(a, b, n) in grids1.iter() {
    let seq: Vec<f64> = Steps(a, b, n).into_iter().collect();
    let scale = a.abs().max(b.abs());
    for &k in pools.iter() {
      for rep in 0..reps {
        let r = in_pool(k, cap, move || {
          let v: Vec<f64> = Steps(a, b, n).into_par_iter().collect();
          let e: Vec<(usize, f64)> = Steps(a, b, n).into_par_iter().enumerate().collect();
          let rv: Vec<f64> = Steps(a, b, n).into_par_iter().rev().collect();
          (v, e, rv)
        });
        let detail = format!("a={:e} b={:e} n={} threads={} rep={}", a, b, n, k, rep);
        ctx.count("pool/steps-traversal");
        match r {
          Err(()) => ctx.s("C15.traverse", false, "steps/par-collect/timeout", &detail),
          Ok(None) => ctx.s("C15.traverse", false, "steps/par-collect/panic", &detail),
          Ok(Some((v, e, rv))) => {
            let close = |x: &[f64], y: &[f64]| x.len() == y.len() && x.iter().zip(y).all(|(p, q)| rel_close(*p, *q, 1e-14, scale));
            let ev: Vec<f64> = e.iter().map(|p| p.1).collect();
            let mut rr = rv.clone();
            rr.reverse();
            let ok = close(&v, &seq) && close(&ev, &seq) && e.iter().enumerate().all(|(i, p)| p.0 == i) && close(&rr, &seq);
            ctx.s("C15.traverse", ok, if ok { "steps/par-collect/ok" } else { "steps/par-collect/differs" }, &detail);
          }
        }
      }
    }
  }
  let grids2: Vec<((f64, f64, usize), (f64, f64, usize))> = {
    let mut g = vec![
      ((0.0, 1.0, 0), (0.0, 1.0, 5)),
      ((0.0, 1.0, 1), (2.0, 3.0, 1)),
      ((1.0, -1.0, 3), (2.5, 2.5, 2)),
      ((0.0, 1.0, 2), (0.0, 1.0, 1)),
      ((2.0, 3.0, 2), (2.0, 3.0, 2)),
      ((0.0, 100.0, 11), (0.0, 10.0, 6)),
      ((1400e-9, 1600e-9, 100), (1500e-9, 1700e-9, 37)),
    ];
    let extra = if ctx.thorough { 10 } else { 2 };
    for _ in 0..extra {
      let e: Vec<f64> = (0..4).map(|_| gen_endpoint(&mut ctx.rng)).collect();
      let m = if ctx.thorough { 120 } else { 40 };
      g.push(((e[0], e[1], ctx.rng.below(m)), (e[2], e[3], ctx.rng.below(m))));
    }
    g
  };
  for &(x, y) in grids2.iter() {
    let seq = flat(&Steps2D(x, y).into_iter().collect::<Vec<_>>());
    for &k in pools.iter() {
      for rep in 0..reps {
        let r = in_pool(k, cap, move || {
          let v: Vec<(f64, f64)> = Steps2D(x, y).into_par_iter().collect();
          let e: Vec<(usize, (f64, f64))> = Steps2D(x, y).into_par_iter().enumerate().collect();
          let rv: Vec<(f64, f64)> = Steps2D(x, y).into_par_iter().rev().collect();
          (v, e, rv)
        });
        let detail = format!("x=({:e},{:e},{}) y=({:e},{:e},{}) threads={} rep={}", x.0, x.1, x.2, y.0, y.1, y.2, k, rep);
        ctx.count("pool/steps2d-traversal");
        match r {
          Err(()) => ctx.s("C15.traverse", false, "steps2d/par-collect/timeout", &detail),
          Ok(None) => ctx.s("C15.traverse", false, "steps2d/par-collect/panic", &detail),
          Ok(Some((v, e, rv))) => {
            let ev: Vec<(f64, f64)> = e.iter().map(|p| p.1).collect();
            let mut rr = rv.clone();
            rr.reverse();
            let ok = bits_eq(&flat(&v), &seq) && bits_eq(&flat(&ev), &seq) && e.iter().enumerate().all(|(i, p)| p.0 == i) && bits_eq(&flat(&rr), &seq);
            ctx.s("C15.traverse", ok, if ok { "steps2d/par-collect/ok" } else { "steps2d/par-collect/differs" }, &detail);
          }
        }
      }
    }
  }

  // ---- (b) every `*_range` function: bit-identical arrays for every pool size
  let spdc = SPDC::default();
  let shapes: Vec<(usize, usize, bool)> = if ctx.thorough {
    vec![(0, 3, true), (1, 1, true), (1, 2, true), (2, 1, true), (2, 3, true), (7, 5, true), (16, 16, false), (33, 20, false), (64, 48, false)]
  } else {
    vec![(0, 3, true), (1, 2, true), (2, 3, true), (9, 8, false), (20, 20, false)]
  };
  let kinds = [RangeKind::Wavelength, RangeKind::Frequency, RangeKind::SumDiff, RangeKind::FlatWavelength, RangeKind::FlatFrequency];
  // Per-point evaluation is sequential (hence the arrays must be bit-identical) for every function
  // under a Gauss–Legendre integrator, and for the jsa/jsi functions under Simpson with divs < 128.
  // The singles functions under Simpson evaluate each point by `simpson2d`, itself a parallel
  // quadrature sum: those arrays fall under the statement's reductions clause (1e-12 relative).
  for &(nx, ny, singles) in shapes.iter() {
    let l0 = ctx.rng.range(1500e-9, 1540e-9);
    let l1 = ctx.rng.range(1560e-9, 1600e-9);
    for kind in kinds.iter().copied() {
      for (iname, integ) in [("gauss-legendre6", Integrator::GaussLegendre { degree: 6 }), ("simpson50", Integrator::default())] {
        let par_per_point = iname == "simpson50";
        let mut reference: Option<(Vec<f64>, Vec<f64>)> = None;
        for &k in pools.iter() {
          for rep in 0..reps {
            let sp = spdc.clone();
            let r = in_pool(k, cap, move || {
              let spectrum = sp.joint_spectrum(integ);
              let ws = WavelengthSpace::new((l0 * M, l1 * M, nx), (l0 * M, l1 * M, ny));
              eval_kind(&spectrum, kind, ws, singles)
            });
            let detail = format!("kind={:?} nx={} ny={} l0={:e} l1={:e} singles={} integrator={} threads={} rep={}", kind, nx, ny, l0, l1, singles, iname, k, rep);
            ctx.count("pool/range");
            match r {
              Err(()) => ctx.s("C15.range", false, "range/timeout", &detail),
              Ok(None) => ctx.s("C15.range", false, "range/panic", &detail),
              Ok(Some((v, sg))) => {
                let ok_len = v.len() == nx * ny * 6 && sg.len() == if singles { nx * ny * 4 } else { 0 };
                match &reference {
                  None => {
                    ctx.s("C15.range", ok_len, if ok_len { "range/ok" } else { "range/length" }, &detail);
                    reference = Some((v, sg));
                  }
                  Some((v0, sg0)) => {
                    let ok = bits_eq(v0, &v) && (par_per_point || bits_eq(sg0, &sg));
                    ctx.s("C15.range", ok, if ok { "range/ok" } else { "range/not-bit-identical" }, &detail);
                    if par_per_point && singles {
                      let (e, at, val) = worst_rel(sg0, &sg, nx * ny);
                      let ok = e <= 1e-12;
                      ctx.count(if e == 0.0 { "pool/singles-range-bit-identical" } else { "pool/singles-range-differs-within-1e-12" });
                      ctx.s("C15.reduce", ok, if ok { "reduce/singles_range/ok" } else { "reduce/singles_range/differs" }, &format!("{} worst_rel={:.3e} at={} value={:e} peak={:e}", detail, e, at, val, sg0.iter().take(nx * ny).fold(0.0f64, |m, x| m.max(x.abs()))));
                    }
                  }
                }
              }
            }
          }
        }
      }
    }
  }

  // ---- (c) parallel reductions: 1e-12 relative to the single-thread result
  let f1s: [(&str, F1, f64, f64); 4] = [
    ("poly", |x| Complex::new(1.0 + x + 0.5 * x * x * x, 2.0 - x * x), -1.0, 2.0),
    ("gauss", |x| Complex::new((-x * x).exp(), x * (-0.5 * x * x).exp() + 1.0), -3.0, 2.5),
    ("cis", |x| Complex::from_polar(1.0 + 0.1 * x, 0.7 * x), 0.0, 1.5),
    ("sinc", |x| Complex::new(if x == 0.0 { 1.0 } else { x.sin() / x }, 1.0 / (1.0 + x * x)), -2.0, 2.0),
  ];
  let divs1: Vec<usize> = if ctx.thorough { vec![128, 130, 131, 200, 1000, 10_000] } else { vec![130, 200] };
  for (name, f, a, b) in f1s.iter().copied() {
    for &divs in divs1.iter() {
      let mut reference: Option<Complex<f64>> = None;
      for &k in pools.iter() {
        for rep in 0..reps {
          let r = in_pool(k, cap, move || Integrator::Simpson { divs }.integrate(f, a, b));
          let detail = format!("f={} a={} b={} divs={} threads={} rep={}", name, a, b, divs, k, rep);
          ctx.count("pool/reduce-simpson1d");
          reduce_verdict(ctx, "simpson1d", r, &mut reference, &detail);
        }
      }
    }
  }
  let f2s: [(&str, F2); 3] = [
    ("poly", |x, y| Complex::new(1.0 + x * y + x * x, 2.0 + y * y * y - x)),
    ("gauss", |x, y| Complex::new((-x * x - 0.5 * y * y).exp(), 1.0 + 0.3 * (x + y).sin())),
    ("cis", |x, y| Complex::from_polar(1.0 + 0.1 * x * y, 0.4 * x - 0.3 * y)),
  ];
  let divs2: Vec<usize> = if ctx.thorough { vec![4, 6, 50, 128, 200, 400] } else { vec![4, 50, 130] };
  for (name, f) in f2s.iter().copied() {
    for &divs in divs2.iter() {
      let mut reference: Option<Complex<f64>> = None;
      for &k in pools.iter() {
        for rep in 0..reps {
          let r = in_pool(k, cap, move || Integrator::Simpson { divs }.integrate2d(f, -1.0, 1.5, 0.25, 2.0));
          let detail = format!("f={} rect=(-1,1.5)x(0.25,2) divs={} threads={} rep={}", name, divs, k, rep);
          ctx.count("pool/reduce-simpson2d");
          reduce_verdict(ctx, "simpson2d", r, &mut reference, &detail);
        }
      }
    }
  }
  // counts_* and hom_rate on the default setup
  let res: Vec<usize> = if ctx.thorough { vec![5, 12, 20] } else { vec![6] };
  for &n in res.iter() {
    for which in ["coincidences", "singles_signal", "singles_idler"] {
      let mut reference: Option<Complex<f64>> = None;
      let nn = if which == "coincidences" { n * 2 } else { n };
      for &k in pools.iter() {
        for rep in 0..reps {
          let sp = spdc.clone();
          let r = in_pool(k, cap, move || {
            let range = sp.optimum_range(nn);
            let integ = Integrator::Simpson { divs: 10 };
            let c = match which {
              "coincidences" => sp.counts_coincidences(range, integ),
              "singles_signal" => sp.counts_singles_signal(range, integ),
              _ => sp.counts_singles_idler(range, integ),
            };
            Complex::new(*(c / spdcalc::dim::ucum::HZ), 0.0)
          });
          let detail = format!("setup=default which={} resolution={} integrator=simpson10 threads={} rep={}", which, nn, k, rep);
          ctx.count("pool/reduce-counts");
          reduce_verdict(ctx, &format!("counts_{}", which), r, &mut reference, &detail);
        }
      }
    }
    // hom_rate: arrays computed once (sequentially), then the parallel sum under each pool
    let nh = n * 3;
    let range = spdc.optimum_range(nh);
    let spectrum = spdc.joint_spectrum(Integrator::default());
    let jsa: Vec<Complex<f64>> = range.as_steps().into_iter().map(|(ws, wi)| spectrum.jsa(ws, wi)).collect();
    let jsa_sw: Vec<Complex<f64>> = range.as_steps().into_iter().map(|(ws, wi)| spectrum.jsa(wi, ws)).collect();
    for tau in [0.0, 1.3e-13, -4.0e-13] {
      let mut reference: Option<Complex<f64>> = None;
      for &k in pools.iter() {
        for rep in 0..reps {
          let (j1, j2) = (jsa.clone(), jsa_sw.clone());
          let r = in_pool(k, cap, move || Complex::new(spdcalc::hom_rate(range, &j1, &j2, tau * S, None), 0.0));
          let detail = format!("setup=default resolution={} tau={:e} threads={} rep={}", nh, tau, k, rep);
          ctx.count("pool/reduce-hom");
          reduce_verdict(ctx, "hom_rate", r, &mut reference, &detail);
        }
      }
    }
  }

  // ---- (d) nested parallel regions complete (no deadlock), on every pool size including 1
  let nested_pools: Vec<usize> = if ctx.thorough { vec![1, 2, 3, 4, 8, 16] } else { vec![1, 2, 4] };
  for &k in nested_pools.iter() {
    for (name, n) in [("simpson200-in-jsi_range", if ctx.thorough { 12 } else { 6 }), ("simpson2d-in-jsi_singles_range", if ctx.thorough { 5 } else { 3 }), ("simpson2d-in-counts_singles", 3)] {
      let sp = spdc.clone();
      let t0 = Instant::now();
      let r = in_pool(k, cap, move || {
        let l0 = 1520e-9;
        let l1 = 1580e-9;
        let ws = WavelengthSpace::new((l0 * M, l1 * M, n), (l0 * M, l1 * M, n));
        match name {
          "simpson200-in-jsi_range" => sp.joint_spectrum(Integrator::Simpson { divs: 200 }).jsi_range(ws).len(),
          "simpson2d-in-jsi_singles_range" => sp.joint_spectrum(Integrator::Simpson { divs: 16 }).jsi_singles_range(ws).len(),
          _ => {
            let c = sp.counts_singles_signal(sp.optimum_range(n), Integrator::Simpson { divs: 16 });
            if (*(c / spdcalc::dim::ucum::HZ)).is_nan() { 0 } else { n * n }
          }
        }
      });
      let detail = format!("case={} n={} threads={} cap_s={} took_s={:.2}", name, n, k, cap.as_secs(), t0.elapsed().as_secs_f64());
      ctx.count("pool/nested");
      match r {
        Err(()) => ctx.s("C15.nested", false, "nested/timeout", &detail),
        Ok(None) => ctx.s("C15.nested", false, "nested/panic", &detail),
        Ok(Some(len)) => ctx.s("C15.nested", len == n * n, if len == n * n { "nested/ok" } else { "nested/length" }, &detail),
      }
    }
  }
  let _ = RAD;
}

fn reduce_verdict(ctx: &mut Ctx, what: &str, r: Result<Option<Complex<f64>>, ()>, reference: &mut Option<Complex<f64>>, detail: &str) {
  match r {
    Err(()) => ctx.s("C15.reduce", false, &format!("reduce/{}/timeout", what), detail),
    Ok(None) => ctx.s("C15.reduce", false, &format!("reduce/{}/panic", what), detail),
    Ok(Some(v)) => match reference {
      None => {
        // first pool is the 1-thread pool: the reference
        let ok = v.re.is_finite() && v.im.is_finite();
        ctx.s("C15.reduce", ok, &format!("reduce/{}/{}", what, if ok { "ok" } else { "non-finite" }), &format!("{} value=({:e},{:e})", detail, v.re, v.im));
        *reference = Some(v);
      }
      Some(r0) => {
        // HOM rate = ½(1 − Σ/N): measured against max(|rate|, ½), see the sweep sub-run
        let e = if what.contains("hom_rate") {
          let d = ((v.re - r0.re).powi(2) + (v.im - r0.im).powi(2)).sqrt();
          let m = (v.re.hypot(v.im)).max(r0.re.hypot(r0.im)).max(0.5);
          if d == 0.0 { 0.0 } else { d / m }
        } else {
          crel(*r0, v)
        };
        let ok = e <= 1e-12;
        ctx.s("C15.reduce", ok, &format!("reduce/{}/{}", what, if ok { "ok" } else { "differs" }), &format!("{} rel={:.3e} value=({:e},{:e})", detail, e, v.re, v.im));
      }
    },
  }
}

// ------------------------------------------------------------------------------------------------
// dense sweep: every parallel reduction × small grids (sides 1..12 and a few non-square / larger
// ones) × EVERY pool size 1..=16, against the 1-thread result at 1e-12.  Small grids on many threads
// are where hand-rolled work partitioning (per-worker blocks, chunking by `current_num_threads()`)
// goes wrong; `install` makes `rayon::current_num_threads()` inside the crate see the pool size.

type F1 = fn(f64) -> Complex<f64>;
type F2 = fn(f64, f64) -> Complex<f64>;

const SWEEP_F1: [(&str, F1, f64, f64); 2] = [
  ("poly", |x| Complex::new(1.0 + x + 0.5 * x * x * x, 2.0 - x * x), -1.0, 2.0),
  ("cis", |x| Complex::from_polar(1.0 + 0.1 * x, 0.7 * x), 0.0, 1.5),
];
const SWEEP_F2: [(&str, F2); 2] = [
  ("poly", |x, y| Complex::new(1.0 + x * y + x * x, 2.0 + y * y * y - x)),
  ("gauss", |x, y| Complex::new((-x * x - 0.5 * y * y).exp(), 1.0 + 0.3 * (x + y).sin())),
];

struct SweepData {
  spdc: SPDC,
  spectrum: spdcalc::jsa::JointSpectrum,
  spectrum_gl: spdcalc::jsa::JointSpectrum,
  x: (Frequency, Frequency),
  y: (Frequency, Frequency),
  grids: Vec<(usize, usize)>,
  amp: Vec<Complex<f64>>,
  amp_sw: Vec<Complex<f64>>,
  taus: Vec<f64>,
  hom_cases: Vec<(usize, usize, f64)>,
  lines: Vec<(f64, f64, usize)>,
  planes: Vec<((f64, f64, usize), (f64, f64, usize))>,
  integrators: Vec<(&'static str, Integrator, bool, bool)>,
  divs1: Vec<usize>,
  divs2: Vec<usize>,
  /// Simpson 1-D rules with their sample points x_i = a + i·dx: (a, b, requested divs, nodes)
  jump1: Vec<(f64, f64, usize, Vec<f64>)>,
  /// Simpson 2-D rules with the sample points of each axis (`Steps(a, b, divs+1)` traversed sequentially)
  jump2: Vec<((f64, f64, f64, f64), usize, Vec<f64>, Vec<f64>)>,
  /// entry counts of flat (signal, idler) lists, odd ones included
  flat_lens: Vec<usize>,
}

/// number of nodes ≤ x (a staircase that jumps by one exactly ON every sample point)
fn stair(nodes: &[f64], x: f64) -> f64 {
  nodes.partition_point(|n| *n <= x) as f64
}

/// how many times a Simpson rule samples its integrand (tells the effective division count without
/// re-implementing the rule's rounding of `divs`)
fn sample_count_1d(divs: usize, a: f64, b: f64) -> usize {
  let c = std::sync::atomic::AtomicUsize::new(0);
  let _ = Integrator::Simpson { divs }.integrate(|_x: f64| { c.fetch_add(1, std::sync::atomic::Ordering::Relaxed); Complex::new(0.0, 0.0) }, a, b);
  c.into_inner()
}
fn sample_count_2d(divs: usize, r: (f64, f64, f64, f64)) -> usize {
  let c = std::sync::atomic::AtomicUsize::new(0);
  let _ = Integrator::Simpson { divs }.integrate2d(|_x: f64, _y: f64| { c.fetch_add(1, std::sync::atomic::Ordering::Relaxed); Complex::new(0.0, 0.0) }, r.0, r.1, r.2, r.3);
  c.into_inner()
}

#[derive(Clone, Debug)]
enum Val {
  /// a reduction: compared with the 1-thread value at 1e-12 relative
  Num(Complex<f64>),
  /// an array that must be bit-identical to the 1-thread array
  Bits(Vec<u64>),
  /// a traversal already compared with the sequential one inside the pool
  Flag(bool),
  /// an array each of whose elements is itself a parallel reduction (blocks of `.1` elements per
  /// function): element-wise 1e-12 relative (peak-floored, see `worst_rel`)
  Arr(Vec<f64>, usize),
}

/// exact-size contract of a producer's sequential iterator (rayon's Enumerate/Zip/Rev adaptors call
/// `len()` on partially consumed iterators): after j pulls from either end it reports n − j
fn exact_size<I: DoubleEndedIterator + ExactSizeIterator>(mut it: I, n: usize) -> bool {
  let mut ok = it.len() == n;
  let mut left = n;
  for j in 0..n + 2 {
    let v = if j % 3 == 1 { it.next_back() } else { it.next() };
    if v.is_some() {
      left -= 1;
    }
    ok = ok && it.len() == left;
  }
  ok && left == 0
}

/// rayon adaptors driven through a custom producer: every pipeline must deliver what the same
/// operation on the sequential traversal `seq` delivers (`eq` = the statement's point equality)
fn adaptors<T, P>(tag: &str, mk: &(dyn Fn() -> P + Sync), seq: &[T], eq: &(dyn Fn(&T, &T) -> bool + Sync), out: &mut Vec<(String, Option<Val>)>)
where
  T: Copy + Send + Sync + 'static,
  P: IndexedParallelIterator<Item = T>,
{
  let n = seq.len();
  let same = |a: &[T], b: &[T]| a.len() == b.len() && a.iter().zip(b).all(|(x, y)| eq(x, y));
  let mut ks = vec![0usize, 1, n / 2, n.saturating_sub(1), n, n + 1];
  ks.sort();
  ks.dedup();
  let mut push = |name: String, r: Option<bool>| out.push((format!("what=adaptor/{} {}", name, tag), r.map(Val::Flag)));
  push("len".into(), guard(|| mk().len() == n && mk().opt_len() == Some(n)));
  push("rev".into(), guard(|| {
    let v: Vec<T> = mk().rev().collect();
    let mut e = seq.to_vec();
    e.reverse();
    same(&v, &e)
  }));
  push("enumerate".into(), guard(|| {
    let v: Vec<(usize, T)> = mk().enumerate().collect();
    v.len() == n && v.iter().enumerate().all(|(i, p)| p.0 == i && eq(&p.1, &seq[i]))
  }));
  push("enumerate.rev".into(), guard(|| {
    let v: Vec<(usize, T)> = mk().enumerate().rev().collect();
    v.len() == n && v.iter().enumerate().all(|(i, p)| p.0 == n - 1 - i && eq(&p.1, &seq[n - 1 - i]))
  }));
  push("rev.enumerate".into(), guard(|| {
    let v: Vec<(usize, T)> = mk().rev().enumerate().collect();
    v.len() == n && v.iter().enumerate().all(|(i, p)| p.0 == i && eq(&p.1, &seq[n - 1 - i]))
  }));
  for &k in ks.iter() {
    push(format!("skip({})", k), guard(|| same(&mk().skip(k).collect::<Vec<T>>(), &seq[k.min(n)..])));
    push(format!("take({})", k), guard(|| same(&mk().take(k).collect::<Vec<T>>(), &seq[..k.min(n)])));
    push(format!("skip({}).take(2)", k), guard(|| {
      let lo = k.min(n);
      same(&mk().skip(k).take(2).collect::<Vec<T>>(), &seq[lo..(lo + 2).min(n)])
    }));
    push(format!("take({}).rev", k), guard(|| {
      let mut e = seq[..k.min(n)].to_vec();
      e.reverse();
      same(&mk().take(k).rev().collect::<Vec<T>>(), &e)
    }));
    push(format!("zip(0..{})", k), guard(|| {
      let v: Vec<(T, usize)> = mk().zip((0..k).into_par_iter()).collect();
      v.len() == k.min(n) && v.iter().enumerate().all(|(i, p)| p.1 == i && eq(&p.0, &seq[i]))
    }));
  }
  push("zip(self)".into(), guard(|| {
    let v: Vec<(T, T)> = mk().zip(mk()).collect();
    v.len() == n && v.iter().enumerate().all(|(i, p)| eq(&p.0, &seq[i]) && eq(&p.1, &seq[i]))
  }));
  push("zip(self.rev)".into(), guard(|| {
    let v: Vec<(T, T)> = mk().zip(mk().rev()).collect();
    v.len() == n && v.iter().enumerate().all(|(i, p)| eq(&p.0, &seq[i]) && eq(&p.1, &seq[n - 1 - i]))
  }));
  push("chain(self)".into(), guard(|| {
    let v: Vec<T> = mk().chain(mk()).collect();
    let mut e = seq.to_vec();
    e.extend_from_slice(seq);
    same(&v, &e)
  }));
  push("chain(self).skip(n-1).take(2)".into(), guard(|| {
    let v: Vec<T> = mk().chain(mk()).skip(n.saturating_sub(1)).take(2).collect();
    let mut e = seq.to_vec();
    e.extend_from_slice(seq);
    let lo = n.saturating_sub(1).min(e.len());
    same(&v, &e[lo..(lo + 2).min(e.len())])
  }));
  push("interleave(self)".into(), guard(|| {
    let v: Vec<T> = mk().interleave(mk()).collect();
    let e: Vec<T> = seq.iter().flat_map(|x| [*x, *x]).collect();
    same(&v, &e)
  }));
  for m in [1usize, 2, 3, n.max(1), n + 1] {
    push(format!("with_min_len({})", m), guard(|| same(&mk().with_min_len(m).collect::<Vec<T>>(), seq)));
    push(format!("with_max_len({})", m), guard(|| same(&mk().with_max_len(m).collect::<Vec<T>>(), seq)));
    push(format!("step_by({})", m), guard(|| {
      let e: Vec<T> = seq.iter().step_by(m).copied().collect();
      same(&mk().step_by(m).collect::<Vec<T>>(), &e)
    }));
    push(format!("chunks({})", m), guard(|| {
      let v: Vec<Vec<T>> = mk().chunks(m).collect();
      let e: Vec<Vec<T>> = seq.chunks(m).map(|c| c.to_vec()).collect();
      v.len() == e.len() && v.iter().zip(e.iter()).all(|(a, b)| same(a, b))
    }));
    push(format!("with_max_len({}).enumerate.skip(1)", m), guard(|| {
      let v: Vec<(usize, T)> = mk().with_max_len(m).enumerate().skip(1).collect();
      v.len() == n.saturating_sub(1) && v.iter().enumerate().all(|(i, p)| p.0 == i + 1 && eq(&p.1, &seq[i + 1]))
    }));
  }
  push("collect_into_vec".into(), guard(|| {
    let mut v: Vec<T> = Vec::new();
    mk().collect_into_vec(&mut v);
    same(&v, seq)
  }));
  push("fold.collect-lengths".into(), guard(|| {
    let parts: Vec<usize> = mk().fold(|| 0usize, |acc, _| acc + 1).collect();
    parts.iter().sum::<usize>() == n && mk().count() == n
  }));
  if n > 0 {
    let j = (2 * n) / 3;
    push("position_first".into(), guard(|| {
      // first position whose point equals sequential point j (earlier duplicates count too)
      let e = seq.iter().position(|x| eq(x, &seq[j]));
      mk().position_first(|x| eq(&x, &seq[j])) == e
    }));
    push("find_last/enumerate".into(), guard(|| mk().enumerate().find_last(|p| p.0 <= j).map(|p| p.0 == j && eq(&p.1, &seq[j])).unwrap_or(false)));
  }
}

/// every reduction / range evaluation / traversal on every grid, each guarded:
/// (label, value or None = panicked)
fn sweep_all(d: &SweepData) -> Vec<(String, Option<Val>)> {
  let mut out: Vec<(String, Option<Val>)> = Vec::new();
  let re = |x: f64| Val::Num(Complex::new(x, 0.0));
  let bits = |v: Vec<f64>| Val::Bits(v.iter().map(|x| x.to_bits()).collect());
  let hz = spdcalc::dim::ucum::HZ;
  for &(nx, ny) in d.grids.iter() {
    let range = FrequencySpace::new((d.x.0, d.x.1, nx), (d.y.0, d.y.1, ny));
    let len = nx * ny;
    let (j1, j2) = (&d.amp[..len], &d.amp_sw[..len]);
    let g = format!("nx={} ny={}", nx, ny);
    // HOM rate on synthetic amplitude arrays (cheap): every delay, with and without a given norm
    for (i, &tau) in d.taus.iter().enumerate() {
      out.push((format!("what=hom_rate {} tau={:e} norm=none", g, tau), guard(|| re(spdcalc::hom_rate(range, j1, j2, tau * S, None)))));
      if i == 1 {
        out.push((format!("what=hom_rate {} tau={:e} norm=2.5", g, tau), guard(|| re(spdcalc::hom_rate(range, j1, j2, tau * S, Some(2.5))))));
      }
    }
    let series = guard(|| spdcalc::hom_rate_series(range, j1, j2, d.taus.iter().map(|t| *t * S)));
    for (i, &tau) in d.taus.iter().enumerate() {
      out.push((format!("what=hom_rate_series {} tau={:e}", g, tau), series.as_ref().and_then(|v| v.get(i).copied()).map(&re)));
    }
    // the real amplitudes through the SPDC entry points
    if len <= 64 {
      let sp = &d.spdc;
      let series = guard(|| sp.hom_rate_series(d.taus.iter().map(|t| *t * S), range, Integrator::default()));
      for (i, &tau) in d.taus.iter().enumerate() {
        out.push((format!("what=SPDC::hom_rate_series {} tau={:e}", g, tau), series.as_ref().and_then(|v| v.get(i).copied()).map(&re)));
      }
      out.push((format!("what=SPDC::hom_visibility {}", g), guard(|| re(sp.hom_visibility(range, Integrator::default()).1))));
    }
    // grid traversal and range evaluation through rayon (arrays: bit-identical for every pool size)
    {
      let st = *range.steps();
      let raw = Steps2D((*(st.0 .0 / (RAD / S)), *(st.0 .1 / (RAD / S)), nx), (*(st.1 .0 / (RAD / S)), *(st.1 .1 / (RAD / S)), ny));
      out.push((format!("what=steps2d_par_collect {}", g), guard(|| {
        let seq = flat(&raw.into_iter().collect::<Vec<_>>());
        let par: Vec<(f64, f64)> = raw.into_par_iter().collect();
        let en: Vec<(usize, (f64, f64))> = raw.into_par_iter().enumerate().collect();
        let pe: Vec<(f64, f64)> = en.iter().map(|p| p.1).collect();
        Val::Flag(bits_eq(&flat(&par), &seq) && bits_eq(&flat(&pe), &seq) && en.iter().enumerate().all(|(i, p)| p.0 == i))
      })));
      let (a, b) = (raw.0 .0, raw.0 .1);
      out.push((format!("what=steps_par_collect a={:e} b={:e} n={}", a, b, len), guard(|| {
        let seq: Vec<f64> = Steps(a, b, len).into_iter().collect();
        let en: Vec<(usize, f64)> = Steps(a, b, len).into_par_iter().enumerate().collect();
        let scale = a.abs().max(b.abs());
        Val::Flag(en.len() == seq.len() && en.iter().enumerate().all(|(i, p)| p.0 == i && rel_close(p.1, seq[i], 1e-14, scale)))
      })));
    }
    if len <= 150 {
      let sp = &d.spectrum;
      out.push((format!("what=jsa_range {} integrator=simpson50", g), guard(|| bits(cbits(&sp.jsa_range(range))))));
      out.push((format!("what=jsi_range {} integrator=simpson50 space=sumdiff", g), guard(|| bits(jbits(&sp.jsi_range(range.as_sum_diff_space()))))));
      out.push((format!("what=jsi_normalized_range {} integrator=simpson50 space=wavelength", g), guard(|| bits(sp.jsi_normalized_range(range.as_wavelength_space())))));
    }
    if len <= 40 {
      let sp = &d.spectrum_gl;
      out.push((format!("what=jsi_singles_range {} integrator=gauss-legendre6", g), guard(|| bits(jbits(&sp.jsi_singles_range(range))))));
    }
    // count rates (division widths need ≥ 2 points per axis)
    if nx >= 2 && ny >= 2 && len <= 150 {
      let sp = &d.spdc;
      out.push((format!("what=counts_coincidences {} integrator=simpson10", g), guard(|| re(*(sp.counts_coincidences(range, Integrator::Simpson { divs: 10 }) / hz)))));
      out.push((format!("what=counts_singles_signal {} integrator=simpson8", g), guard(|| re(*(sp.counts_singles_signal(range, Integrator::Simpson { divs: 8 }) / hz)))));
      out.push((format!("what=counts_singles_idler {} integrator=simpson8", g), guard(|| re(*(sp.counts_singles_idler(range, Integrator::Simpson { divs: 8 }) / hz)))));
      if len <= 36 {
        let e = guard(|| sp.efficiencies(range, Integrator::Simpson { divs: 8 }));
        out.push((format!("what=efficiencies.symmetric {} integrator=simpson8", g), e.as_ref().map(|e| re(e.symmetric))));
        out.push((format!("what=efficiencies.coincidences {} integrator=simpson8", g), e.as_ref().map(|e| re(*(e.coincidences / hz)))));
      }
    }
  }
  // unequal signal / idler spans, rectangular grids up to 100×100, non-zero delays of both signs: the
  // parallel sum against the 1-thread pool (label compare) AND against a sequential point-by-point
  // evaluation of the same sum over the sequentially traversed grid
  for &(nx, ny, ratio) in d.hom_cases.iter() {
    let len = nx * ny;
    if len > d.amp.len() {
      continue;
    }
    let yc = (d.y.0 + d.y.1) / 2.0;
    let half = (d.y.1 - d.y.0) / 2.0 * ratio;
    let range = FrequencySpace::new((d.x.0, d.x.1, nx), (yc - half, yc + half, ny));
    let (j1, j2) = (&d.amp[..len], &d.amp_sw[..len]);
    let norm: f64 = j1.iter().map(|z| z.norm_sqr()).sum();
    let pts: Vec<(f64, f64)> = range.as_steps().into_iter().map(|(ws, wi)| (*(ws / (RAD / S)), *(wi / (RAD / S)))).collect();
    let taus = [1.3e-13, -4.0e-13, 2.1e-12];
    let series = guard(|| spdcalc::hom_rate_series(range, j1, j2, taus.iter().map(|t| *t * S)));
    for (ti, &tau) in taus.iter().enumerate() {
      let g = format!("nx={} ny={} idler_span_ratio={} tau={:e}", nx, ny, ratio, tau);
      let v = guard(|| spdcalc::hom_rate(range, j1, j2, tau * S, None));
      out.push((format!("what=hom_rate/unequal-spans {}", g), v.map(re)));
      // sequential evaluation of  ½ (1 − Σ Re(conj(f_si) f_is e^{i (ωi − ωs) τ}) / Σ |f_si|²)
      let mut acc = 0.0;
      for (k, (ws, wi)) in pts.iter().enumerate() {
        acc += (j1[k].conj() * j2[k] * Complex::from_polar(1.0, (wi - ws) * tau)).re;
      }
      let oracle = 0.5 * (1.0 - acc / norm);
      let near = |x: f64| (x - oracle).abs() <= 1e-12 * oracle.abs().max(0.5);
      out.push((format!("what=hom_rate/vs-sequential-sum {} sequential={:e} got={:e}", g, oracle, v.unwrap_or(f64::NAN)), Some(Val::Flag(v.map(near).unwrap_or(false)))));
      let sv = series.as_ref().and_then(|s| s.get(ti).copied());
      out.push((format!("what=hom_rate_series/vs-sequential-sum {} sequential={:e} got={:e}", g, oracle, sv.unwrap_or(f64::NAN)), Some(Val::Flag(sv.map(near).unwrap_or(false)))));
    }
  }
  // amplitude scales down to 1e-30 and up to 1e+30 (the statement has no range restriction)
  for &(nx, ny) in [(5usize, 5usize), (6, 6), (3, 7), (11, 11)].iter() {
    for scale in [1e-30, 1e30] {
      let len = nx * ny;
      if len > d.amp.len() {
        continue;
      }
      let range = FrequencySpace::new((d.x.0, d.x.1, nx), (d.y.0, d.y.1, ny));
      let j1: Vec<Complex<f64>> = d.amp[..len].iter().map(|z| *z * scale).collect();
      let j2: Vec<Complex<f64>> = d.amp_sw[..len].iter().map(|z| *z * scale).collect();
      out.push((format!("what=hom_rate nx={} ny={} tau=1.3e-13 amplitude_scale={:e}", nx, ny, scale), guard(|| re(spdcalc::hom_rate(range, &j1, &j2, 1.3e-13 * S, None)))));
    }
  }
  // rayon adaptors through the two producers: counts 0, 1, 2 and larger, ascending / descending / equal endpoints
  for &(a, b, n) in d.lines.iter() {
    let seq: Vec<f64> = Steps(a, b, n).into_iter().collect();
    let scale = a.abs().max(b.abs());
    out.push((format!("what=exact-size/producer-iterator steps=({:e},{:e},{})", a, b, n), guard(|| Val::Flag(exact_size(Producer::into_iter(Steps(a, b, n).into_par_iter()), n) && exact_size(Steps(a, b, n).into_iter(), n)))));
    adaptors(&format!("steps=({:e},{:e},{})", a, b, n), &|| Steps(a, b, n).into_par_iter(), &seq, &|x: &f64, y: &f64| rel_close(*x, *y, 1e-14, scale), &mut out);
  }
  for &(x, y) in d.planes.iter() {
    let seq: Vec<(f64, f64)> = Steps2D(x, y).into_iter().collect();
    out.push((format!("what=exact-size/producer-iterator steps2d=({:e},{:e},{})x({:e},{:e},{})", x.0, x.1, x.2, y.0, y.1, y.2), guard(|| {
      let n = x.2 * y.2;
      let (l, r) = Steps2D(x, y).into_par_iter().split_at(n / 2);
      Val::Flag(exact_size(Producer::into_iter(Steps2D(x, y).into_par_iter()), n) && exact_size(Producer::into_iter(l), n / 2) && exact_size(Producer::into_iter(r), n - n / 2))
    })));
    adaptors(
      &format!("steps2d=({:e},{:e},{})x({:e},{:e},{})", x.0, x.1, x.2, y.0, y.1, y.2),
      &|| Steps2D(x, y).into_par_iter(),
      &seq,
      &|p: &(f64, f64), q: &(f64, f64)| p.0.to_bits() == q.0.to_bits() && p.1.to_bits() == q.1.to_bits(),
      &mut out,
    );
    // `Iterator2D` is `Copy` and `new_partition` is public: windows of the grid, copies after partial consumption
    let len = seq.len();
    let it_eq = |v: &[(f64, f64)], e: &[(f64, f64)]| bits_eq(&flat(v), &flat(e));
    let tag = format!("steps2d=({:e},{:e},{})x({:e},{:e},{})", x.0, x.1, x.2, y.0, y.1, y.2);
    for (lo, hi) in [(0usize, len), (0, 0), (len, len), (len / 3, len / 3), (len / 3, (2 * len) / 3 + 1), (1, len)] {
      if lo > hi || hi > len {
        continue;
      }
      out.push((format!("what=iter2d/new_partition lo={} hi={} {}", lo, hi, tag), guard(|| {
        let it = spdcalc::utils::Iterator2D::new_partition(Steps2D(x, y), lo, hi);
        let fwd: Vec<(f64, f64)> = it.collect();
        let mut bwd: Vec<(f64, f64)> = it.rev().collect();
        bwd.reverse();
        Val::Flag(it.len() == hi - lo && it_eq(&fwd, &seq[lo..hi]) && it_eq(&bwd, &seq[lo..hi]))
      })));
    }
    out.push((format!("what=iter2d/copy-after-partial {}", tag), guard(|| {
      let mut it = Steps2D(x, y).into_iter();
      let k = len / 2;
      let head: Vec<(f64, f64)> = it.by_ref().take(k).collect();
      let copy = it; // Copy: both continue from the same state, independently
      let rest1: Vec<(f64, f64)> = it.collect();
      let mut rest2: Vec<(f64, f64)> = copy.rev().collect();
      rest2.reverse();
      let xy_ok = (0..len).all(|i| { let p = copy.get_xy(i); p.0.to_bits() == seq[i].0.to_bits() && p.1.to_bits() == seq[i].1.to_bits() });
      Val::Flag(it_eq(&head, &seq[..k]) && it_eq(&rest1, &seq[k..]) && it_eq(&rest2, &seq[k..]) && xy_ok)
    })));
  }
  // every integrator variant inside a parallel region (range evaluation and count rates on a 3×3 / 2×2 grid)
  {
    let range = FrequencySpace::new((d.x.0, d.x.1, 3), (d.y.0, d.y.1, 3));
    let small = FrequencySpace::new((d.x.0, d.x.1, 2), (d.y.0, d.y.1, 2));
    let hz = spdcalc::dim::ucum::HZ;
    for &(name, integ, par1d, do2d) in d.integrators.iter() {
      let sp = match guard(|| d.spdc.joint_spectrum(integ)) {
        Some(sp) => sp,
        None => {
          out.push((format!("what=integrator/joint_spectrum integrator={}", name), None));
          continue;
        }
      };
      // 1-D quadrature per point: sequential unless Simpson switches to its parallel branch
      let v1 = guard(|| {
        let mut v = cbits(&sp.jsa_range(range));
        v.extend(jbits(&sp.jsi_range(range.as_wavelength_space())));
        v.extend(sp.jsi_normalized_range(range.as_sum_diff_space()));
        v
      });
      out.push((format!("what=integrator/range1d integrator={}", name), v1.map(|v| if par1d { Val::Arr(v, 9) } else { bits(v) })));
      out.push((format!("what=integrator/counts_coincidences integrator={}", name), guard(|| re(*(d.spdc.counts_coincidences(range, integ) / hz)))));
      if do2d {
        // 2-D quadrature per point: Simpson is a parallel sum, everything else sequential
        let is_simpson = matches!(integ, Integrator::Simpson { .. });
        let v2 = guard(|| {
          let mut v = jbits(&sp.jsi_singles_range(small));
          v.extend(sp.jsi_singles_idler_normalized_range(small.as_wavelength_space()));
          v
        });
        out.push((format!("what=integrator/range2d integrator={}", name), v2.map(|v| if is_simpson { Val::Arr(v, 4) } else { bits(v) })));
        out.push((format!("what=integrator/counts_singles_signal integrator={}", name), guard(|| re(*(d.spdc.counts_singles_signal(small, integ) / hz)))));
      }
    }
  }
  for &divs in d.divs1.iter() {
    for (name, f, a, b) in SWEEP_F1.iter().copied() {
      out.push((format!("what=simpson1d f={} a={} b={} divs={}", name, a, b, divs), guard(|| Val::Num(Integrator::Simpson { divs }.integrate(f, a, b)))));
    }
  }
  for &divs in d.divs2.iter() {
    for (name, f) in SWEEP_F2.iter().copied() {
      out.push((format!("what=simpson2d f={} rect=(-1,1.5)x(0.25,2) divs={}", name, divs), guard(|| Val::Num(Integrator::Simpson { divs }.integrate2d(f, -1.0, 1.5, 0.25, 2.0)))));
    }
  }
  // piecewise integrands whose jumps sit exactly ON sample points (filter edge, top-hat window, staircase / binning): a
  // quadrature sum is independent of the schedule only if the abscissae themselves are
  for (a, b, divs, nodes) in d.jump1.iter() {
    let (a, b, divs) = (*a, *b, *divs);
    let m = nodes.len();
    let tag = format!("a={} b={} divs={} nodes={}", a, b, divs, m);
    out.push((format!("what=simpson1d/jump f=staircase {}", tag), guard(|| Val::Num(Integrator::Simpson { divs }.integrate(|x: f64| Complex::new(stair(nodes, x), 0.0), a, b)))));
    for e in [m / 3 + 1, m / 2, (4 * m) / 5] {
      let edge = nodes[e.min(m - 1)];
      out.push((format!("what=simpson1d/jump f=long-pass-edge edge_index={} edge={:e} {}", e, edge, tag), guard(|| Val::Num(Integrator::Simpson { divs }.integrate(|x: f64| if x >= edge { Complex::new(1.0 + 0.25 * x, 0.5) } else { Complex::new(0.0, 0.0) }, a, b)))));
    }
    let (lo, hi) = (nodes[m / 4], nodes[(3 * m) / 4 + 1 - (m % 2)]);
    out.push((format!("what=simpson1d/jump f=top-hat window=({:e},{:e}) {}", lo, hi, tag), guard(|| Val::Num(Integrator::Simpson { divs }.integrate(|x: f64| if x >= lo && x <= hi { Complex::new(1.0, -x) } else { Complex::new(0.0, 0.0) }, a, b)))));
  }
  for (r, divs, xs, ys) in d.jump2.iter() {
    let (r, divs) = (*r, *divs);
    let tag = format!("rect=({},{})x({},{}) divs={} nodes={}x{}", r.0, r.1, r.2, r.3, divs, xs.len(), ys.len());
    out.push((format!("what=simpson2d/jump f=staircase {}", tag), guard(|| Val::Num(Integrator::Simpson { divs }.integrate2d(|x: f64, y: f64| Complex::new(stair(xs, x), stair(ys, y)), r.0, r.1, r.2, r.3)))));
    let (ex, ey) = (xs[xs.len() / 3 + 1], ys[(2 * ys.len()) / 3]);
    out.push((format!("what=simpson2d/jump f=quadrant-edge edge=({:e},{:e}) {}", ex, ey, tag), guard(|| Val::Num(Integrator::Simpson { divs }.integrate2d(|x: f64, y: f64| if x >= ex && y <= ey { Complex::new(1.0 + 0.25 * x, y) } else { Complex::new(0.0, 0.0) }, r.0, r.1, r.2, r.3)))));
  }
  // flat (signal, idler) lists of every length, ODD ones included (a trailing unpaired entry): the parallel traversal
  // delivers what the sequential traversal delivers, and the range functions return the sequentially evaluated array
  for &n in d.flat_lens.iter() {
    let wl: Vec<Wavelength> = (0..n).map(|i| (1500e-9 + 0.37e-9 * (i as f64) + if i % 2 == 1 { 55e-9 } else { 0.0 }) * M).collect();
    let fr: Vec<Frequency> = wl.iter().map(|l| spdcalc::utils::vacuum_wavelength_to_frequency(*l)).collect();
    let same = |p: &[(Frequency, Frequency)], q: &[(Frequency, Frequency)]| p.len() == q.len() && p.iter().zip(q).all(|(x, y)| (*(x.0 / (RAD / S))).to_bits() == (*(y.0 / (RAD / S))).to_bits() && (*(x.1 / (RAD / S))).to_bits() == (*(y.1 / (RAD / S))).to_bits());
    out.push((format!("what=flat-array/par-traversal kind=wavelength entries={}", n), guard(|| {
      let seq: Vec<(Frequency, Frequency)> = SignalIdlerWavelengthArray(wl.clone()).into_signal_idler_iterator().collect();
      let par: Vec<(Frequency, Frequency)> = SignalIdlerWavelengthArray(wl.clone()).into_signal_idler_par_iterator().collect();
      Val::Flag(same(&par, &seq))
    })));
    out.push((format!("what=flat-array/par-traversal kind=frequency entries={}", n), guard(|| {
      let seq: Vec<(Frequency, Frequency)> = SignalIdlerFrequencyArray(fr.clone()).into_signal_idler_iterator().collect();
      let par: Vec<(Frequency, Frequency)> = SignalIdlerFrequencyArray(fr.clone()).into_signal_idler_par_iterator().collect();
      Val::Flag(same(&par, &seq))
    })));
    if n <= 40 {
      let sp = &d.spectrum;
      let spg = &d.spectrum_gl;
      out.push((format!("what=flat-array/range-vs-sequential kind=wavelength entries={} integrator=simpson50", n), guard(|| {
        let pts: Vec<(Frequency, Frequency)> = SignalIdlerWavelengthArray(wl.clone()).into_signal_idler_iterator().collect();
        let a = cbits(&sp.jsa_range(SignalIdlerWavelengthArray(wl.clone())));
        let e = cbits(&pts.iter().map(|p| sp.jsa(p.0, p.1)).collect::<Vec<_>>());
        let b = sp.jsi_normalized_range(SignalIdlerWavelengthArray(wl.clone()));
        let f: Vec<f64> = pts.iter().map(|p| sp.jsi_normalized(p.0, p.1)).collect();
        Val::Flag(bits_eq(&a, &e) && bits_eq(&b, &f))
      })));
      out.push((format!("what=flat-array/range-vs-sequential kind=frequency entries={} integrator=simpson50", n), guard(|| {
        let pts: Vec<(Frequency, Frequency)> = SignalIdlerFrequencyArray(fr.clone()).into_signal_idler_iterator().collect();
        let a = jbits(&sp.jsi_range(SignalIdlerFrequencyArray(fr.clone())));
        let e = jbits(&pts.iter().map(|p| sp.jsi(p.0, p.1)).collect::<Vec<_>>());
        let b = cbits(&sp.jsa_normalized_range(SignalIdlerFrequencyArray(fr.clone())));
        let f = cbits(&pts.iter().map(|p| sp.jsa_normalized(p.0, p.1)).collect::<Vec<_>>());
        Val::Flag(bits_eq(&a, &e) && bits_eq(&b, &f))
      })));
      if n <= 9 {
        out.push((format!("what=flat-array/singles-range kind=frequency entries={} integrator=gauss-legendre6", n), guard(|| {
          let mut v = jbits(&spg.jsi_singles_range(SignalIdlerFrequencyArray(fr.clone())));
          v.extend(spg.jsi_singles_idler_normalized_range(SignalIdlerWavelengthArray(wl.clone())));
          bits(v)
        })));
      }
    }
  }
  out
}

fn sweep_part(ctx: &mut Ctx) {
  let spdc = SPDC::default();
  let base = *spdc.optimum_range(10).steps();
  let mut grids: Vec<(usize, usize)> = (1..=12).map(|n| (n, n)).collect();
  grids.extend([(1, 7), (2, 1), (3, 7), (7, 2), (13, 5), (5, 11), (17, 9), (16, 16), (20, 17)]);
  if ctx.thorough {
    grids.extend([(13, 13), (14, 14), (15, 15), (9, 4), (4, 9), (19, 3), (23, 11), (31, 8), (32, 32)]);
  }
  // two extra seeded shapes
  for _ in 0..2 {
    grids.push((ctx.rng.between(1, 14), ctx.rng.between(1, 14)));
  }
  // (nx, ny, idler span / signal span)
  let mut hom_cases: Vec<(usize, usize, f64)> = vec![(2, 2, 0.5), (3, 5, 0.87), (7, 4, 1.13), (12, 12, 2.0), (16, 9, 1.13), (40, 25, 0.87), (100, 100, 1.13), (64, 100, 0.5), (100, 37, 2.0), (1, 9, 1.13), (9, 1, 0.87)];
  if ctx.thorough {
    hom_cases.extend([(5, 5, 1.0), (30, 30, 1.5), (100, 100, 0.87), (100, 100, 2.0), (99, 101, 0.5), (17, 80, 1.3), (80, 17, 0.7)]);
  }
  hom_cases.push((ctx.rng.between(2, 60), ctx.rng.between(2, 60), ctx.rng.range(0.5, 2.0)));
  let maxlen = grids.iter().map(|g| g.0 * g.1).chain(hom_cases.iter().map(|g| g.0 * g.1)).max().unwrap_or(0);
  let amp: Vec<Complex<f64>> = (0..maxlen).map(|_| Complex::from_polar(0.5 + ctx.rng.unit(), std::f64::consts::TAU * ctx.rng.unit())).collect();
  let amp_sw: Vec<Complex<f64>> = (0..maxlen).map(|_| Complex::from_polar(0.5 + ctx.rng.unit(), std::f64::consts::TAU * ctx.rng.unit())).collect();
  let data = std::sync::Arc::new(SweepData {
    spectrum: spdc.joint_spectrum(Integrator::default()),
    spectrum_gl: spdc.joint_spectrum(Integrator::GaussLegendre { degree: 6 }),
    spdc,
    x: (base.0 .0, base.0 .1),
    y: (base.1 .0, base.1 .1),
    grids,
    amp,
    amp_sw,
    taus: vec![0.0, 1.3e-13, -4.0e-13],
    hom_cases,
    lines: {
      let mut l = vec![(0.0, 0.9, 0), (3.3, 4.0, 1), (0.0, 0.9, 2), (1.0, -1.0, 2), (2.5, 2.5, 3), (1.0, -1.0, 5), (1400e-9, 1600e-9, 16), (-0.0, 0.9, 65)];
      if ctx.thorough {
        l.extend([(0.0, 1.0, 3), (1600e-9, 1400e-9, 33), (2.5, 2.5, 128), (-3.0, 7.0, 1000)]);
      }
      l.push((gen_small(&mut ctx.rng), gen_small(&mut ctx.rng), ctx.rng.between(0, 40)));
      l
    },
    planes: {
      let mut l = vec![
        ((0.0, 1.0, 0), (10.0, -3.0, 3)),
        ((0.0, 1.0, 1), (10.0, -3.0, 1)),
        ((1.0, 0.0, 1), (10.0, -3.0, 2)),
        ((1.0, 0.0, 2), (2.5, 2.5, 1)),
        ((0.0, 1.0, 2), (10.0, -3.0, 2)),
        ((1.0, -1.0, 3), (2.5, 2.5, 5)),
        ((1400e-9, 1600e-9, 8), (1700e-9, 1500e-9, 8)),
      ];
      if ctx.thorough {
        l.extend([((0.0, 1.0, 40), (10.0, -3.0, 25)), ((0.0, 1.0, 1), (10.0, -3.0, 17)), ((0.0, 1.0, 17), (10.0, -3.0, 1))]);
      }
      l.push(((gen_small(&mut ctx.rng), gen_small(&mut ctx.rng), ctx.rng.between(0, 9)), (gen_small(&mut ctx.rng), gen_small(&mut ctx.rng), ctx.rng.between(0, 9))));
      l
    },
    integrators: {
      // (name, integrator, 1-D quadrature runs Simpson's parallel branch, also use for 2-D quadrature)
      let mut l: Vec<(&'static str, Integrator, bool, bool)> = vec![
        ("simpson50", Integrator::Simpson { divs: 50 }, false, false),
        ("simpson8", Integrator::Simpson { divs: 8 }, false, true),
        ("simpson9-odd", Integrator::Simpson { divs: 9 }, false, false),
        ("simpson129-odd", Integrator::Simpson { divs: 129 }, true, false),
        ("simpson130", Integrator::Simpson { divs: 130 }, true, false),
        ("simpson201-odd", Integrator::Simpson { divs: 201 }, true, false),
        ("gauss-legendre2", Integrator::GaussLegendre { degree: 2 }, false, true),
        ("gauss-legendre7", Integrator::GaussLegendre { degree: 7 }, false, true),
        ("adaptive-simpson", Integrator::AdaptiveSimpson { tolerance: 1e-6, max_depth: 8 }, false, true),
        ("clenshaw-curtis", Integrator::ClenshawCurtis { tolerance: 1e-6 }, false, false),
      ];
      if ctx.thorough {
        l.extend([
          ("simpson128", Integrator::Simpson { divs: 128 }, false, false),
          ("simpson400", Integrator::Simpson { divs: 400 }, true, false),
          ("simpson16", Integrator::Simpson { divs: 16 }, false, true),
          ("gauss-legendre20", Integrator::GaussLegendre { degree: 20 }, false, false),
          ("gauss-legendre11", Integrator::GaussLegendre { degree: 11 }, false, true),
          ("adaptive-simpson-tight", Integrator::AdaptiveSimpson { tolerance: 1e-8, max_depth: 9 }, false, false),
          ("clenshaw-curtis-tight", Integrator::ClenshawCurtis { tolerance: 1e-9 }, false, false),
        ]);
      }
      l
    },
    divs1: if ctx.thorough { vec![128, 129, 130, 131, 132, 135, 144, 150, 160, 200, 256, 1000] } else { vec![128, 130, 131, 144, 200] },
    divs2: if ctx.thorough { vec![4, 6, 8, 10, 12, 14, 16, 18, 20, 24, 32, 64] } else { vec![4, 6, 8, 10, 12, 16, 24] },
    jump1: {
      // both sides of the switch to the parallel branch (effective divs 128), odd requests, one large rule
      let mut divs: Vec<usize> = vec![50, 128, 130, 131, 144, 200, 1000];
      if ctx.thorough {
        divs.extend([129, 132, 160, 256, 513, 4000]);
      }
      divs.push(ctx.rng.between(130, 700));
      let mut ivs: Vec<(f64, f64)> = vec![(0.1, 0.7), (-1.0, 2.0), (0.0, 1.5)];
      ivs.push((ctx.rng.range(-3.0, 0.5), ctx.rng.range(0.6, 9.0)));
      let mut l = Vec::new();
      for &dv in divs.iter() {
        for &(a, b) in ivs.iter() {
          let m = sample_count_1d(dv, a, b);
          if m < 5 {
            continue;
          }
          let dx = (b - a) / ((m - 1) as f64);
          l.push((a, b, dv, (0..m).map(|i| a + (i as f64) * dx).collect::<Vec<f64>>()));
        }
      }
      l
    },
    jump2: {
      let mut divs: Vec<usize> = vec![8, 16, 24, 40];
      if ctx.thorough {
        divs.extend([9, 64, 130]);
      }
      let rects = [(-1.0, 1.5, 0.25, 2.0), (0.1, 0.7, -0.3, 0.9)];
      let mut l = Vec::new();
      for &dv in divs.iter() {
        for &r in rects.iter() {
          let m = (sample_count_2d(dv, r) as f64).sqrt().round() as usize;
          if m < 5 {
            continue;
          }
          l.push((r, dv, Steps(r.0, r.1, m).into_iter().collect::<Vec<f64>>(), Steps(r.2, r.3, m).into_iter().collect::<Vec<f64>>()));
        }
      }
      l
    },
    flat_lens: {
      let mut l = vec![0, 1, 2, 3, 4, 5, 7, 8, 9, 15, 16, 17, 33, 63, 64, 65, 257, 1001];
      if ctx.thorough {
        l.extend([6, 31, 32, 39, 40, 127, 129, 4097, 20001]);
      }
      l.push(ctx.rng.between(0, 300));
      l
    },
  });
  let cap = Duration::from_secs(if ctx.thorough { 900 } else { 300 });
  let reps = if ctx.thorough { 3 } else { 1 };
  let mut reference: Option<Vec<(String, Option<Val>)>> = None;
  // pool sizes 1..16, then the 1-thread pool once more: results must not depend on what ran before
  // (history independence; rep=99 marks that last run)
  let mut schedule: Vec<(usize, usize)> = Vec::new();
  for k in 1..=16usize {
    for rep in 0..reps {
      if k == 1 && rep > 0 {
        continue;
      }
      schedule.push((k, rep));
    }
  }
  schedule.push((1, 99));
  {
    for (k, rep) in schedule {
      let d = data.clone();
      let r = in_pool(k, cap, move || sweep_all(&d));
      match r {
        Err(()) => ctx.s("C15.reduce", false, "sweep/timeout", &format!("threads={} rep={} cap_s={}", k, rep, cap.as_secs())),
        Ok(None) => ctx.s("C15.reduce", false, "sweep/panic", &format!("threads={} rep={}", k, rep)),
        Ok(Some(v)) => {
          let r0 = if k == 1 && rep == 0 { v.clone() } else { reference.clone().unwrap_or_default() };
          for ((label, val), (_, v0)) in v.iter().zip(r0.iter()) {
            let what = label.split(' ').next().unwrap_or("").trim_start_matches("what=").split('(').next().unwrap_or("").to_string();
            ctx.count(&format!("sweep/{}", what));
            let tail = format!("{} threads={} rep={}", label, k, rep);
            match (val, v0) {
              (None, _) => ctx.s("C15.reduce", false, &format!("sweep/{}/panic", what), &tail),
              (Some(_), None) => {} // the 1-thread run itself failed: reported for threads=1
              (Some(Val::Flag(ok)), _) => ctx.s(if what.starts_with("hom_rate") { "C15.reduce" } else { "C15.traverse" }, *ok, &format!("sweep/{}/{}", what, if *ok { "ok" } else { "differs" }), &tail),
              (Some(Val::Bits(b)), Some(Val::Bits(b0))) => {
                let ok = b == b0;
                ctx.s("C15.range", ok, &format!("sweep/{}/{}", what, if ok { "ok" } else { "not-bit-identical" }), &tail);
              }
              (Some(Val::Arr(a, block)), Some(Val::Arr(a0, _))) => {
                let (e, at, val) = worst_rel(a0, a, *block);
                let ok = e <= 1e-12;
                ctx.s("C15.reduce", ok, &format!("sweep/{}/{}", what, if ok { "ok" } else { "differs" }), &format!("{} worst_rel={:.3e} at={} value={:e}", tail, e, at, val));
              }
              (Some(Val::Num(z)), Some(Val::Num(z0))) => {
                let finite = z.re.is_finite() && z.im.is_finite();
                // a HOM rate is ½(1 − Σ/N): the parallel reduction is Σ/N (of order 1), of which the rate is an
                // affine function that cancels near a dip (|rate| ≪ 1); the statement's 1e-12 is relative to the
                // reduction, so the rate is measured against max(|rate|, ½) (seed 11: rate −2.1e-4, |Δ| = 1 ulp of 1)
                let e = if what.contains("hom_rate") {
                  let d = ((z.re - z0.re).powi(2) + (z.im - z0.im).powi(2)).sqrt();
                  let m = (z.re.hypot(z.im)).max(z0.re.hypot(z0.im)).max(0.5);
                  if d == 0.0 { 0.0 } else { d / m }
                } else {
                  crel(*z0, *z)
                };
                let ok = finite && e <= 1e-12;
                ctx.s("C15.reduce", ok, &format!("sweep/{}/{}", what, if ok { "ok" } else if !finite { "non-finite" } else { "differs" }), &format!("{} rel={:.3e} value=({:e},{:e}) one_thread=({:e},{:e})", tail, e, z.re, z.im, z0.re, z0.im));
              }
              _ => ctx.s("C15.reduce", false, &format!("sweep/{}/kind-mismatch", what), &tail),
            }
          }
          if k == 1 && rep == 0 {
            reference = Some(v);
          }
        }
      }
    }
  }
}

// ------------------------------------------------------------------------------------------------

pub fn run(ctx: &mut Ctx) {
  let which = ctx.extra.first().cloned().unwrap_or_else(|| "all".into());
  if which == "all" || which == "split" {
    split_part(ctx);
  }
  if which == "all" || which == "pools" {
    pools_part(ctx);
  }
  if which == "all" || which == "sweep" {
    sweep_part(ctx);
  }
}

fn split_part(ctx: &mut Ctx) {
  // ---- single splits, exhaustive: every len ≤ 64 and every k ∈ 0..=len+1
  let lmax = if ctx.thorough { 64 } else { 24 };
  let fixed = [(0.0, 0.9), (3.3, 4.0), (1.0, -1.0), (2.5, 2.5), (1400e-9, 1600e-9)];
  for n in 0..=lmax {
    for k in 0..=n + 1 {
      let (a, b) = fixed[(n + k) % fixed.len()];
      split1_case(ctx, a, b, n, k);
      if ctx.thorough || n <= 12 {
        let a2 = gen_endpoint(&mut ctx.rng);
        let b2 = gen_endpoint(&mut ctx.rng);
        split1_case(ctx, a2, b2, n, k);
      }
    }
  }
  // 2-D: every (nx, ny) with nx·ny ≤ 64 (thorough) and every k ∈ 0..=len+1
  let pmax = if ctx.thorough { 64 } else { 20 };
  for nx in 0..=pmax {
    for ny in 0..=pmax {
      if (nx * ny > pmax) || (nx == 0 && ny > 3) || (ny == 0 && nx > 3) {
        continue;
      }
      let x = (0.0, 1.0, nx);
      let y = (10.0, -3.0, ny);
      for k in 0..=nx * ny + 1 {
        split2_case(ctx, x, y, k);
      }
    }
  }
  for _ in 0..ctx.n / 4 {
    let e: Vec<f64> = (0..4).map(|_| gen_endpoint(&mut ctx.rng)).collect();
    let nx = ctx.rng.below(9);
    let ny = ctx.rng.below(9);
    let k = ctx.rng.below(nx * ny + 2);
    split2_case(ctx, (e[0], e[1], nx), (e[2], e[3], ny), k);
  }

  // ---- exact-size contract: `len()` before and after every pull of a front/back script (ties the model's `len`)
  for n in 0..=(if ctx.thorough { 12usize } else { 6 }) {
    for rep in 0..3 {
      let (a, b) = fixed[(n + rep) % fixed.len()];
      let sc: String = (0..n + 3).map(|_| if ctx.rng.coin() { 'F' } else { 'B' }).collect();
      let mut it = Steps(a, b, n).into_iter();
      let mut lens = vec![it.len().to_string()];
      for c in sc.chars() {
        if c == 'F' { it.next(); } else { it.next_back(); }
        lens.push(it.len().to_string());
      }
      ctx.k("steps_lens", &format!("{} {}", args1(a, b, n), sc), &lens.join(" "));
      let (nx, ny) = (n % 4, n / 2);
      let (x, y) = ((0.0, 1.0, nx), (10.0, -3.0, ny));
      let sc: String = (0..nx * ny + 3).map(|_| if ctx.rng.coin() { 'F' } else { 'B' }).collect();
      let mut it = Steps2D(x, y).into_iter();
      let mut lens = vec![it.len().to_string()];
      for c in sc.chars() {
        if c == 'F' { it.next(); } else { it.next_back(); }
        lens.push(it.len().to_string());
      }
      ctx.k("steps2d_lens", &format!("{} {}", args2(x, y), sc), &lens.join(" "));
    }
  }

  // ---- all proper trees for small lengths
  let mut memo: Vec<Option<Vec<Tree>>> = Vec::new();
  let t1max = if ctx.thorough { 8 } else { 6 };
  for n in 0..=t1max {
    let ts = all_trees(n, &mut memo);
    for (i, t) in ts.iter().enumerate() {
      let (a, b) = fixed[(n + i) % fixed.len()];
      tree1_case(ctx, a, b, n, t, "all-small", true);
    }
  }
  let shapes2: &[(usize, usize)] = if ctx.thorough { &[(0, 3), (1, 1), (2, 1), (1, 3), (2, 2), (5, 1), (3, 2), (2, 3), (7, 1), (4, 2), (2, 4), (3, 3)] } else { &[(0, 3), (1, 1), (1, 3), (2, 2), (3, 2), (2, 3)] };
  for &(nx, ny) in shapes2.iter() {
    let ts = all_trees(nx * ny, &mut memo);
    for t in ts.iter() {
      tree2_case(ctx, (0.0, 1.0, nx), (10.0, -3.0, ny), t, "all-small", true);
    }
  }
  // trees that use the degenerate splits allowed by the contract (k = 0, k = len), small, bounded depth
  for n in 0..=4usize {
    for k1 in [0usize, n] {
      for k2 in 0..=k1.max(n - k1) {
        // split at k1, then split the non-empty side again at k2 (and the empty side at 0)
        let (l, r) = if k1 == 0 {
          (Tree::Node(0, Box::new(Tree::Leaf), Box::new(Tree::Leaf)), Tree::Node(k2, Box::new(Tree::Leaf), Box::new(Tree::Leaf)))
        } else {
          (Tree::Node(k2, Box::new(Tree::Leaf), Box::new(Tree::Leaf)), Tree::Node(0, Box::new(Tree::Leaf), Box::new(Tree::Leaf)))
        };
        let t = Tree::Node(k1, Box::new(l), Box::new(r));
        tree1_case(ctx, 0.0, 0.9, n, &t, "degenerate-small", true);
        tree1_case(ctx, 1600e-9, 1400e-9, n, &t, "degenerate-small", true);
        if n == 4 {
          tree2_case(ctx, (0.0, 1.0, 2), (10.0, -3.0, 2), &t, "degenerate-small", true);
        }
      }
    }
  }

  // ---- random trees.  Depth is capped at 400 (rayon's bridge halves, so it never exceeds
  // ⌈log2 len⌉ ≤ 14 here); `depth=<n>` as an extra argument raises the cap for experiments.
  let max_depth: usize = ctx.extra.iter().find_map(|a| a.strip_prefix("depth=").and_then(|v| v.parse().ok())).unwrap_or(400);
  let big = if ctx.thorough { 10_000 } else { 600 };
  let shapes = [Shape::Uniform, Shape::Bisect, Shape::Edge, Shape::Contract];
  for i in 0..ctx.n {
    let shape = shapes[i % shapes.len()];
    let n = match ctx.rng.below(4) {
      0 => ctx.rng.below(13),
      1 => ctx.rng.below(65),
      2 => ctx.rng.below(400),
      _ => ctx.rng.below(big + 1),
    };
    let stop = *ctx.rng.pick(&[0.0, 0.02, 0.1, 0.3]);
    let mut budget = if shape == Shape::Contract { 200 } else { 20_000 };
    let t = random_tree(&mut ctx.rng, n, shape, stop, &mut budget, 0, max_depth);
    let a = gen_endpoint(&mut ctx.rng);
    let b = gen_endpoint(&mut ctx.rng);
    // K lines of big cases are long: emit them for moderate sizes, keep S on all
    let emit = n <= 2_000 || i % 8 == 0;
    tree1_case(ctx, a, b, n, &t, &format!("random/{:?}", shape), emit);
  }
  for i in 0..ctx.n {
    let shape = shapes[i % shapes.len()];
    let m = match ctx.rng.below(3) {
      0 => 5,
      1 => 20,
      _ => if ctx.thorough { 100 } else { 30 },
    };
    let nx = ctx.rng.below(m + 1);
    let ny = ctx.rng.below(m + 1);
    let stop = *ctx.rng.pick(&[0.0, 0.02, 0.1, 0.3]);
    let mut budget = if shape == Shape::Contract { 200 } else { 20_000 };
    let t = random_tree(&mut ctx.rng, nx * ny, shape, stop, &mut budget, 0, max_depth);
    let e: Vec<f64> = (0..4).map(|_| gen_endpoint(&mut ctx.rng)).collect();
    let emit = nx * ny <= 1_500 || i % 8 == 0;
    tree2_case(ctx, (e[0], e[1], nx), (e[2], e[3], ny), &t, &format!("random/{:?}", shape), emit);
  }
}
