//! C19 — apodization windows and poling domains (`src/spdc/periodic_poling.rs`, `config/apodization.rs`)
//!
//! K ops: apod, apod_cfg, pp_seq, num_domains, domains, domain_lengths.
//! S predicates: the statement (windows even / centre 1 / range, Gaussian half maximum, interpolation,
//! domain count / fractions / duty-cycle relation / orientation, update methods).
use crate::common::*;
use spdcalc::dim::ucum::M;
use spdcalc::{Apodization, ApodizationConfig, PeriodicPoling, Sign};
use std::f64::consts::PI;

fn apod_wire(w: &Apodization) -> String {
  match w {
    Apodization::Off => "off".into(),
    Apodization::Gaussian { fwhm } => format!("gaussian {}", fl(*(*fwhm / M))),
    Apodization::Bartlett(a) => format!("bartlett {}", fl(*a)),
    Apodization::Blackman(a) => format!("blackman {}", fl(*a)),
    Apodization::Connes(a) => format!("connes {}", fl(*a)),
    Apodization::Cosine(a) => format!("cosine {}", fl(*a)),
    Apodization::Hamming(a) => format!("hamming {}", fl(*a)),
    Apodization::Welch(a) => format!("welch {}", fl(*a)),
    Apodization::Interpolate(v) => {
      let mut s = format!("interp {}", v.len());
      for x in v {
        s.push(' ');
        s.push_str(&fl(*x));
      }
      s
    }
  }
}

fn apod_desc(w: &Apodization) -> String {
  match w {
    Apodization::Off => "kind=Off".into(),
    Apodization::Gaussian { fwhm } => format!("kind=Gaussian fwhm={:e}", *(*fwhm / M)),
    Apodization::Interpolate(v) => format!("kind=Interpolate values=[{}]", v.iter().map(|x| format!("{:e}", x)).collect::<Vec<_>>().join(";")),
    Apodization::Bartlett(a)
    | Apodization::Blackman(a)
    | Apodization::Connes(a)
    | Apodization::Cosine(a)
    | Apodization::Hamming(a)
    | Apodization::Welch(a) => format!("kind={} a={:e}", w.kind(), a),
  }
}

fn six(kind: usize, a: f64) -> Apodization {
  match kind % 6 {
    0 => Apodization::Bartlett(a),
    1 => Apodization::Blackman(a),
    2 => Apodization::Connes(a),
    3 => Apodization::Cosine(a),
    4 => Apodization::Hamming(a),
    _ => Apodization::Welch(a),
  }
}

fn gen_len(r: &mut Rng) -> f64 {
  match r.below(6) {
    0 => 1000e-6,
    1 => 20_000e-6,
    2 => r.log_range(1e-9, 1e3), // far outside the usual millimetres: the statement has no range restriction
    _ => r.log_range(50e-6, 50e-3),
  }
}

fn gen_width(r: &mut Rng) -> f64 {
  match r.below(6) {
    0 => 1.,
    1 => r.range(0.2, 1.0),
    2 => r.range(1.0, 5.0),
    3 => -r.range(0.3, 3.0),
    _ => r.log_range(0.05, 20.),
  }
}

fn gen_values(r: &mut Rng) -> Vec<f64> {
  let n = match r.below(6) {
    0 => 0,
    1 => 1,
    2 => 2,
    _ => r.between(3, 24),
  };
  match r.below(4) {
    0 => (0..n).map(|i| if i * 2 < n { 0. } else { 1. }).collect(),
    1 => (0..n).map(|_| r.range(-1., 1.)).collect(),
    _ => (0..n).map(|_| r.unit()).collect(),
  }
}

fn gen_apod(r: &mut Rng, len: f64) -> Apodization {
  match r.below(10) {
    0 => Apodization::Off,
    1 | 2 => Apodization::Gaussian { fwhm: r.log_range(0.05, 5.) * len * M },
    3 => Apodization::Interpolate(gen_values(r)),
    _ => six(r.below(6), gen_width(r)),
  }
}

fn gen_z(r: &mut Rng) -> f64 {
  match r.below(12) {
    0 => 0.,
    1 => -0.,
    2 => 1.,
    3 => -1.,
    4 => r.range(-1e-9, 1e-9),
    5 => 1. - r.log_range(1e-16, 1e-3),
    6 => -1. + r.log_range(1e-16, 1e-3),
    7 => *r.pick(&[1.0000000000000002, -1.0000000000000002, 1.5, -2., 1e300, f64::INFINITY, f64::NEG_INFINITY]),
    _ => r.range(-1., 1.),
  }
}

fn ic(w: &Apodization, z: f64, len: f64) -> Option<f64> {
  let w = w.clone();
  guard(move || w.integration_constant(z, len * M))
}

pub fn run(ctx: &mut Ctx) {
  windows_k(ctx);
  windows_s(ctx);
  interpolation_s(ctx);
  domains(ctx);
  state_machine(ctx);
  spdc_level(ctx);
  window_routes(ctx);
  domain_counts(ctx);
  history(ctx);
}

// ------------------------------------------------------------------ windows: correspondence

fn windows_k(ctx: &mut Ctx) {
  // a fixed lattice first: every kind × a few widths × edge positions
  let zs = [-1., -0.75, -0.5, -1e-3, -0., 0., 1e-3, 0.25, 0.5, 1., 1.0000000000000002, -1.5];
  for kind in 0..6 {
    for &a in &[1., 0.5, 2., -1.] {
      for &z in &zs {
        apod_case(ctx, &six(kind, a), z, 1e-3);
      }
    }
  }
  for &z in &zs {
    apod_case(ctx, &Apodization::Off, z, 1e-3);
    apod_case(ctx, &Apodization::Gaussian { fwhm: 500e-6 * M }, z, 1e-3);
    apod_case(ctx, &Apodization::Interpolate(vec![]), z, 1e-3);
    apod_case(ctx, &Apodization::Interpolate(vec![0.3]), z, 1e-3);
    apod_case(ctx, &Apodization::Interpolate(vec![0., 0., 0., 0., 0., 0., 1., 1., 1., 1., 1., 1.]), z, 1e-3);
  }
  for _ in 0..ctx.n {
    let len = gen_len(&mut ctx.rng);
    let w = gen_apod(&mut ctx.rng, len);
    let z = gen_z(&mut ctx.rng);
    apod_case(ctx, &w, z, len);
  }
  // config ↔ runtime mapping
  for _ in 0..ctx.n / 4 {
    let len = gen_len(&mut ctx.rng);
    let w = gen_apod(&mut ctx.rng, len);
    let cfg: ApodizationConfig = w.clone().into();
    let back: Apodization = cfg.clone().into();
    ctx.k("apod_cfg", &apod_wire(&w), &apod_wire(&back));
    // window kinds map onto the same kind in both directions (parameters are tied by the K op above)
    let ok = back.kind() == w.kind();
    let cfg_kind_ok = match (&w, &cfg) {
      (Apodization::Off, ApodizationConfig::Off)
      | (Apodization::Gaussian { .. }, ApodizationConfig::Gaussian { .. })
      | (Apodization::Bartlett(_), ApodizationConfig::Bartlett(_))
      | (Apodization::Blackman(_), ApodizationConfig::Blackman(_))
      | (Apodization::Connes(_), ApodizationConfig::Connes(_))
      | (Apodization::Cosine(_), ApodizationConfig::Cosine(_))
      | (Apodization::Hamming(_), ApodizationConfig::Hamming(_))
      | (Apodization::Welch(_), ApodizationConfig::Welch(_))
      | (Apodization::Interpolate(_), ApodizationConfig::Interpolate(_)) => true,
      _ => false,
    };
    ctx.s("C19.config", ok && cfg_kind_ok, "config/window-mapping", &apod_desc(&w));
  }
}

static HIST_IC: std::sync::Mutex<Vec<(Apodization, f64, f64, Option<f64>)>> = std::sync::Mutex::new(Vec::new());
static HIST_DOM: std::sync::Mutex<Vec<(f64, Apodization, f64, Option<Vec<(f64, f64)>>)>> = std::sync::Mutex::new(Vec::new());

fn apod_case(ctx: &mut Ctx, w: &Apodization, z: f64, len: f64) {
  let r = ic(w, z, len);
  {
    let mut h = HIST_IC.lock().unwrap();
    if h.len() < 4000 {
      h.push((w.clone(), z, len, r));
    }
  }
  ctx.count(&format!("apod/{}/{}", w.kind(), if r.is_some() { "ok" } else { "panic" }));
  ctx.k("apod", &format!("{} {} {}", fl(z), fl(len), apod_wire(w)), &r.map(fl).unwrap_or("PANIC".into()));
}

// ------------------------------------------------------------------ windows: the statement

fn windows_s(ctx: &mut Ctx) {
  const SLACK: f64 = 1e-15;
  let nz = if ctx.thorough { 4001 } else { 401 };
  // the seven built-in kinds at width parameter 1 (Gaussian: any FWHM)
  for kind in 0..7 {
    let reps = if kind == 6 { 6 } else { 1 };
    for _ in 0..reps {
      let len = gen_len(&mut ctx.rng);
      let w = if kind == 6 { Apodization::Gaussian { fwhm: ctx.rng.log_range(0.02, 10.) * len * M } } else { six(kind, 1.) };
      let desc = format!("{} L={:e}", apod_desc(&w), len);
      // centre
      let c = ic(&w, 0., len);
      ctx.s("C19.window", c.map(|v| (v - 1.).abs() <= SLACK).unwrap_or(false), "window/centre", &format!("{} z=0 value={:?}", desc, c));
      let mut even_ok = true;
      let mut range_ok = true;
      let mut why = String::new();
      for j in 0..nz + 40 {
        let z = if j < nz { j as f64 / (nz - 1) as f64 } else { gen_z(&mut ctx.rng).abs().min(1.) };
        match (ic(&w, z, len), ic(&w, -z, len)) {
          (Some(p), Some(q)) => {
            if (p - q).abs() > SLACK {
              even_ok = false;
              why = format!("z={:e} w(z)={:e} w(-z)={:e}", z, p, q);
            }
            if !(p >= -SLACK && p <= 1. + SLACK) {
              range_ok = false;
              why = format!("z={:e} w(z)={:e}", z, p);
            }
          }
          _ => {
            even_ok = false;
            why = format!("z={:e} panics", z);
          }
        }
      }
      ctx.s("C19.window", even_ok, "window/even", &format!("{} {}", desc, why));
      ctx.s("C19.window", range_ok, "window/range", &format!("{} {}", desc, why));
      ctx.count(&format!("window/{}", w.kind()));
    }
  }
  // no apodization: weight 1 everywhere (also through PeriodicPoling::Off)
  let mut ok = true;
  for _ in 0..200 {
    let z = ctx.rng.range(-1., 1.);
    let len = gen_len(&mut ctx.rng);
    ok &= ic(&Apodization::Off, z, len) == Some(1.);
    ok &= PeriodicPoling::Off.integration_constant(z, len * M) == 1.;
    ok &= PeriodicPoling::new(10e-6 * M, Apodization::Off).integration_constant(z, len * M) == 1.;
  }
  ctx.s("C19.window", ok, "window/off", "kind=Off");
  // Gaussian: one half at ± half the FWHM, i.e. z = ± fwhm / L (z is the position in units of L/2)
  for _ in 0..(if ctx.thorough { 2000 } else { 200 }) {
    let len = gen_len(&mut ctx.rng);
    let ratio = ctx.rng.log_range(1e-3, 1.0);
    let fwhm = ratio * len;
    let z = (fwhm / len).min(1.);
    let w = Apodization::Gaussian { fwhm: fwhm * M };
    let p = ic(&w, z, len);
    let q = ic(&w, -z, len);
    let ok = match (p, q) {
      (Some(p), Some(q)) => (p - 0.5).abs() <= 1e-12 && (q - 0.5).abs() <= 1e-12,
      _ => false,
    };
    ctx.s("C19.gaussian", ok, "gaussian/half-maximum", &format!("kind=Gaussian fwhm={:e} L={:e} z={:e} value={:?}", fwhm, len, z, p));
  }
}

/// every profile length n = 1 … 600: the end samples at exactly z = ∓1 and every sample at its abscissa
/// z_j = −1 + 2j/(n−1)  (the index arithmetic is length dependent)
fn interpolation_all_lengths(ctx: &mut Ctx) {
  for n in 1..=600usize {
    let v: Vec<f64> = (0..n).map(|j| 0.1 + 0.8 * ((j as f64 * 0.6180339887498949).fract())).collect();
    let w = Apodization::Interpolate(v.clone());
    let first = ic(&w, -1., 1e-3);
    let last = ic(&w, 1., 1e-3);
    let ok_ends = first == Some(v[0]) && last == Some(v[n - 1]);
    ctx.s("C19.interp", ok_ends, "interp/ends", &format!("kind=Interpolate n={} first={:?} last={:?} expected=({:e},{:e})", n, first, last, v[0], v[n - 1]));
    if n <= 64 || n % 7 == 0 || ctx.thorough {
      apod_case(ctx, &w, 1., 1e-3);
      apod_case(ctx, &w, -1., 1e-3);
    }
    if n >= 2 {
      let mut ok = true;
      let mut why = String::new();
      for j in 0..n {
        let z = (-1. + 2. * j as f64 / (n as f64 - 1.)).clamp(-1., 1.);
        let slope = if j + 1 < n { (v[j + 1] - v[j]).abs() } else { (v[j] - v[j - 1]).abs() }.max(if j > 0 { (v[j] - v[j - 1]).abs() } else { 0. }) * (n as f64 - 1.) / 2.;
        match ic(&w, z, 1e-3) {
          Some(x) if (x - v[j]).abs() <= 1e-12 + slope * 1e-15 => {}
          other => {
            ok = false;
            why = format!("j={} z={:e} got={:?} expected={:e}", j, z, other, v[j]);
          }
        }
      }
      ctx.s("C19.interp", ok, "interp/piecewise-linear", &format!("kind=Interpolate n={} at=sample-abscissae {}", n, why));
    }
  }
  ctx.count("interp/all-lengths-1..600");
}

fn interpolation_s(ctx: &mut Ctx) {
  interpolation_all_lengths(ctx);
  for _ in 0..(if ctx.thorough { 3000 } else { 300 }) {
    let v = gen_values(&mut ctx.rng);
    let n = v.len();
    let w = Apodization::Interpolate(v.clone());
    let desc = apod_desc(&w);
    let scale = v.iter().fold(1e-300f64, |m, x| m.max(x.abs()));
    let tol = 1e-12 * scale;
    if n == 0 {
      // no samples: weight 1
      let z = ctx.rng.range(-1., 1.);
      ctx.s("C19.interp", ic(&w, z, 1e-3) == Some(1.), "interp/empty", &format!("{} z={:e}", desc, z));
      continue;
    }
    let first = ic(&w, -1., 1e-3);
    let last = ic(&w, 1., 1e-3);
    let ok_ends = first.map(|x| (x - v[0]).abs() <= tol).unwrap_or(false) && last.map(|x| (x - v[n - 1]).abs() <= tol).unwrap_or(false);
    ctx.s("C19.interp", ok_ends, "interp/ends", &format!("{} first={:?} last={:?}", desc, first, last));
    if n >= 2 {
      // samples sit at z_j = -1 + 2j/(n-1); between consecutive samples the profile is linear
      let mut ok = true;
      let mut why = String::new();
      for j in 0..n - 1 {
        let t = match ctx.rng.below(4) {
          0 => 0.,
          1 => 0.5,
          _ => ctx.rng.unit(),
        };
        let z = (-1. + 2. * (j as f64 + t) / (n as f64 - 1.)).clamp(-1., 1.);
        let expect = v[j] * (1. - t) + v[j + 1] * t;
        // a position error of a few ulp in z moves the value by slope × δz
        let slope = (v[j + 1] - v[j]).abs() * (n as f64 - 1.) / 2.;
        match ic(&w, z, 1e-3) {
          Some(x) if (x - expect).abs() <= tol + slope * 1e-15 => {}
          other => {
            ok = false;
            why = format!("j={} t={:e} z={:e} got={:?} expected={:e}", j, t, z, other, expect);
          }
        }
      }
      ctx.s("C19.interp", ok, "interp/piecewise-linear", &format!("{} {}", desc, why));
    }
    ctx.count(&format!("interp/n={}", if n <= 2 { n.to_string() } else { "3+".into() }));
  }
}

// ------------------------------------------------------------------ poling domains

fn gen_period_for(r: &mut Rng, len: f64, max_domains: f64) -> f64 {
  // period giving 1 … max_domains domains
  let nd = r.log_range(0.6, max_domains);
  let p = len / nd;
  if r.below(5) == 0 {
    -p
  } else {
    p
  }
}

/// the statement's per-entry clauses on one domain list (fractions in [0,1] summing to 1, sin(πd) = |a| at the
/// domain's centre, (½,½) for a = 1, orientation flipping at the crystal centre) — for window values in [-1,1]
fn list_clauses(ctx: &mut Ctx, desc: &str, w: &Apodization, len: f64, d: &[(f64, f64)]) {
  let n = d.len();
  let mut ok_frac = true;
  let mut ok_duty = true;
  let mut ok_orient = true;
  let mut why = String::new();
  for (j, (p, q)) in d.iter().enumerate() {
    let zc = -1. + (2. * j as f64 + 1.) / n as f64;
    let a = match ic(w, zc.clamp(-1., 1.), len) {
      Some(a) => a,
      None => continue,
    };
    if !(a.abs() <= 1.) {
      continue; // outside the statement's hypothesis (window values in [-1,1])
    }
    if !(*p >= 0. && *p <= 1. && *q >= 0. && *q <= 1. && (p + q - 1.).abs() <= 1e-15) {
      ok_frac = false;
      why = format!("j={} pair=({:e},{:e})", j, p, q);
    }
    let narrow = p.min(*q);
    // sin(π d) = |a|; the formula acos(1-2a²)/2π is conditioned like 1e-16/|a| (and 1e-8 absolutely near a = 0)
    if ((PI * narrow).sin() - a.abs()).abs() > 5e-8 {
      ok_duty = false;
      why = format!("j={} a={:e} d={:e} sin(pi d)={:e}", j, a, narrow, (PI * narrow).sin());
    }
    if a == 1. && !(*p == 0.5 && *q == 0.5) {
      ok_duty = false;
      why = format!("j={} a=1 pair=({:e},{:e})", j, p, q);
    }
    // the narrower fraction comes first in the first half of the crystal, second in the second half
    if (zc < -1e-12 && p > q) || (zc > 1e-12 && p < q) {
      ok_orient = false;
      why = format!("j={} zc={:e} pair=({:e},{:e})", j, zc, p, q);
    }
  }
  ctx.s("C19.domains", ok_frac, "domains/fractions", &format!("{} {}", desc, why));
  ctx.s("C19.domains", ok_duty, "domains/duty-cycle", &format!("{} {}", desc, why));
  ctx.s("C19.domains", ok_orient, "domains/orientation", &format!("{} {}", desc, why));
}

fn domains(ctx: &mut Ctx) {
  let cases = ctx.n / 2;
  for i in 0..cases {
    let len = gen_len(&mut ctx.rng);
    let big = i % 40 == 0;
    let period = match ctx.rng.below(8) {
      0 => len / ctx.rng.between(1, 200) as f64, // exact multiples
      _ => gen_period_for(&mut ctx.rng, len, if big { 1e5 } else if ctx.thorough { 3000. } else { 400. }),
    };
    // windows with values in [-1, 1] over the crystal (the statement's hypothesis): widths ≥ 1 for the
    // kinds that leave [0,1] otherwise; interpolation samples in [-1,1]
    let w = match ctx.rng.below(10) {
      0 | 1 => Apodization::Off,
      2 | 3 => Apodization::Gaussian { fwhm: ctx.rng.log_range(0.05, 5.) * len * M },
      4 => Apodization::Interpolate(gen_values(&mut ctx.rng)),
      _ => six(ctx.rng.below(6), if ctx.rng.coin() { 1. } else { ctx.rng.range(1., 4.) }),
    };
    let pp = PeriodicPoling::new(period * M, w.clone());
    let nd = pp.num_domains(len * M);
    ctx.k("num_domains", &format!("{} {}", fl(len), fl(period)), &nd.to_string());
    let pp2 = pp.clone();
    let doms = guard(move || pp2.poling_domains(len * M));
    if nd <= 500 {
      HIST_DOM.lock().unwrap().push((period, w.clone(), len, doms.clone()));
    }
    let args = format!("{} {} {}", fl(len), fl(period), apod_wire(&w));
    let out = match &doms {
      Some(d) => format!("{} {}", d.len(), fls(&d.iter().flat_map(|p| [p.0, p.1]).collect::<Vec<_>>())),
      None => "PANIC".into(),
    };
    ctx.k("domains", &args, out.trim_end());
    if i % 3 == 0 {
      let pp3 = pp.clone();
      let lens = guard(move || pp3.poling_domain_lengths(len * M));
      let out = match &lens {
        Some(d) => format!("{} {}", d.len(), fls(&d.iter().flat_map(|p| [*(p.0 / M), *(p.1 / M)]).collect::<Vec<_>>())),
        None => "PANIC".into(),
      };
      ctx.k("domain_lengths", &args, out.trim_end());
    }
    ctx.count(&format!("domains/n<=1e{}", (nd.max(1) as f64).log10().ceil() as usize));

    // ---- S: the statement
    let desc = format!("{} L={:e} period={:e}", apod_desc(&w), len, period);
    let expect_n = (len / period.abs()).ceil() as usize;
    let d = match doms {
      Some(d) => d,
      None => {
        ctx.s("C19.domains", false, "domains/panic", &desc);
        continue;
      }
    };
    ctx.s("C19.domains", d.len() == expect_n && nd == expect_n, "domains/count", &format!("{} n={} expected={}", desc, d.len(), expect_n));
    list_clauses(ctx, &desc, &w, len, &d);
  }
  // the crate's own examples
  let pp = PeriodicPoling::new(10e-6 * M, Apodization::Off);
  ctx.s("C19.domains", pp.poling_domains(1000e-6 * M) == vec![(0.5, 0.5); 100], "domains/no-apodization-50-percent", "kind=Off L=1e-3 period=1e-5");
}

// ------------------------------------------------------------------ update methods

fn state_wire(pp: &PeriodicPoling) -> String {
  let keff = {
    let p2 = pp.clone();
    guard(move || p2.k_eff().value_unsafe).map(fl).unwrap_or("PANIC".into())
  };
  match pp {
    PeriodicPoling::Off => format!("off {} {}", fl(*(pp.signed_period() / M)), keff),
    PeriodicPoling::On { period, sign, apodization } => format!(
      "on {} {} {} {} {}",
      if *sign == Sign::POSITIVE { "+" } else { "-" },
      fl(*(*period / M)),
      fl(*(pp.signed_period() / M)),
      keff,
      apod_wire(apodization)
    ),
  }
}

fn gen_period(r: &mut Rng) -> f64 {
  match r.below(12) {
    0 => 0.,
    1 => -0.,
    2 => f64::INFINITY,
    3 => -r.log_range(1e-7, 1e-3),
    4 => -46.578592559e-6,
    5 => r.log_range(1e-300, 1e300),
    6 => -r.log_range(1e-300, 1e300),
    _ => r.log_range(1e-7, 1e-3),
  }
}

/// periods of one op sequence: mostly drawn from a small pool of magnitudes with random signs, so that exact
/// repeats (±Λ, same sign) and pure sign flips of the stored magnitude occur often
fn gen_pool(r: &mut Rng) -> Vec<f64> {
  let mut pool = vec![10e-6, 7.5e-6, 46.1e-6];
  pool.truncate(r.between(1, 3));
  pool.push(r.log_range(1e-7, 1e-3));
  pool
}

fn gen_period_pooled(r: &mut Rng, pool: &[f64]) -> f64 {
  if r.below(4) == 0 {
    gen_period(r)
  } else {
    let m = *r.pick(pool);
    if r.coin() {
      m
    } else {
      -m
    }
  }
}

fn state_machine(ctx: &mut Ctx) {
  for _ in 0..ctx.n / 2 {
    let nops = ctx.rng.between(1, 12);
    let pool = gen_pool(&mut ctx.rng);
    let mut pp = PeriodicPoling::Off;
    let mut args: Vec<String> = vec![];
    let mut outs: Vec<String> = vec![];
    for _ in 0..nops {
      let before = pp.clone();
      // the period mutators twice as often as the window mutators
      let which = *ctx.rng.pick(&[0usize, 1, 1, 2, 2, 2, 3, 4]);
      let period = gen_period_pooled(&mut ctx.rng, &pool);
      if let PeriodicPoling::On { period: p0, sign: s0, .. } = &before {
        if which <= 2 && period != 0. {
          let m0 = *(*p0 / M);
          let same_sign = (*s0 == Sign::NEGATIVE) == (period < 0.);
          ctx.count(&format!(
            "pp/history/{}",
            if m0 == period.abs() { if same_sign { "same-period-again" } else { "sign-flip-same-magnitude" } } else { "new-magnitude" }
          ));
        }
      }
      let w = gen_apod(&mut ctx.rng, 1e-3);
      let opname;
      match which {
        0 => {
          opname = "new";
          pp = PeriodicPoling::new(period * M, w.clone());
          args.push(format!("N {} {}", fl(period), apod_wire(&w)));
        }
        1 => {
          opname = "with_period";
          pp = pp.with_period(period * M);
          args.push(format!("W {}", fl(period)));
        }
        2 => {
          opname = "assign_period";
          pp.assign_period(period * M);
          args.push(format!("A {}", fl(period)));
        }
        3 => {
          opname = "set_apodization";
          pp.set_apodization(w.clone());
          args.push(format!("S {}", apod_wire(&w)));
        }
        _ => {
          opname = "with_apodization";
          pp = pp.with_apodization(w.clone());
          args.push(format!("T {}", apod_wire(&w)));
        }
      }
      outs.push(state_wire(&pp));
      ctx.count(&format!("pp/{}/{}", opname, if matches!(before, PeriodicPoling::Off) { "off" } else { "on" }));

      // ---- S: the statement, for non-zero finite requested periods
      let desc = format!("op={} period={:e} {} before={}", opname, period, apod_desc(&w), state_wire(&before).replace(' ', ","));
      let sp = *(pp.signed_period() / M);
      if let PeriodicPoling::On { period: p, sign, apodization } = &pp {
        let mag = *(*p / M);
        // sign convention: positive stored magnitude, negative period ⇔ negative sign
        if mag != 0. && !mag.is_nan() {
          let ok = mag > 0. && ((*sign == Sign::NEGATIVE) == (sp < 0.)) && sp.abs() == mag;
          ctx.s("C19.state", ok, "state/sign-convention", &format!("{} after={}", desc, state_wire(&pp).replace(' ', ",")));
          let two_pi = std::f64::consts::TAU;
          let k = pp.k_eff().value_unsafe;
          ctx.s("C19.state", (k - two_pi / sp).abs() <= 4. * f64::EPSILON * k.abs(), "state/k-eff", &format!("{} k_eff={:e}", desc, k));
        }
        match which {
          0 | 1 | 2 if !(which == 2 && matches!(before, PeriodicPoling::Off)) && period != 0. && !period.is_nan() => {
            // changing the period: requested signed period is what is stored, apodization is kept
            let ok_p = sp == period;
            let kept = match (which, &before) {
              (0, _) => apodization == &w,
              (_, PeriodicPoling::Off) => apodization == &Apodization::Off,
              (_, PeriodicPoling::On { apodization: a0, .. }) => apodization == a0,
            };
            ctx.s("C19.state", ok_p, "state/period-update", &format!("{} signed_period={:e}", desc, sp));
            ctx.s("C19.state", kept, "state/period-update-keeps-apodization", &desc);
          }
          3 | 4 => {
            // changing the apodization keeps period and sign
            if let PeriodicPoling::On { period: p0, sign: s0, .. } = &before {
              let ok = (*(*p0 / M) == mag || (mag.is_nan() && (*p0 / M).is_nan())) && (s0 == sign || mag == 0.) && apodization == &w;
              ctx.s("C19.state", ok, "state/apodization-update-keeps-period", &format!("{} after={}", desc, state_wire(&pp).replace(' ', ",")));
            }
          }
          _ => {}
        }
      } else {
        // off stays off under the apodization setters and assign_period; signed period is +∞, k_eff 0
        let ok = sp == f64::INFINITY && pp.k_eff().value_unsafe == 0. && pp.apodization() == &Apodization::Off;
        ctx.s("C19.state", ok && matches!(before, PeriodicPoling::Off), "state/off", &desc);
      }
    }
    ctx.k("pp_seq", &args.join(" "), &outs.join(" | "));
  }
}

/// `SPDC::assign_poling_period` / `with_poling_period` (unsigned period, sign computed from Δk): the stored
/// magnitude is the requested one, the sign convention holds, the window is kept — over histories that repeat
/// magnitudes and flip signs
fn spdc_level(ctx: &mut Ctx) {
  use spdcalc::SPDC;
  let mut spdc = SPDC::default();
  let expected_sign = PeriodicPoling::compute_sign(&spdc.signal, &spdc.pump, &spdc.crystal_setup);
  let pool = [10e-6, 7.5e-6, 46.1e-6];
  for i in 0..(if ctx.thorough { 400 } else { 60 }) {
    let before = spdc.pp.clone();
    let m = *ctx.rng.pick(&pool);
    let period = if ctx.rng.coin() { m } else { -m };
    let opname;
    match ctx.rng.below(5) {
      0 => {
        opname = "pp.assign_period";
        spdc.pp.assign_period(period * M);
        if matches!(before, PeriodicPoling::Off) {
          continue;
        }
      }
      1 => {
        opname = "pp.set_apodization";
        let w = gen_apod(&mut ctx.rng, 1e-3);
        spdc.pp.set_apodization(w.clone());
        if let (PeriodicPoling::On { period: p0, sign: s0, .. }, PeriodicPoling::On { period: p1, sign: s1, apodization }) = (&before, &spdc.pp) {
          ctx.s("C19.state", p0 == p1 && s0 == s1 && apodization == &w, "state/apodization-update-keeps-period", &format!("op=spdc.{} step={} {}", opname, i, apod_desc(&w)));
        }
        continue;
      }
      2 => {
        opname = "with_poling_period";
        spdc = spdc.with_poling_period(period * M);
      }
      _ => {
        opname = "assign_poling_period";
        spdc.assign_poling_period(period * M);
      }
    }
    let desc = format!("op=spdc.{} step={} period={:e} before={}", opname, i, period, state_wire(&before).replace(' ', ","));
    match &spdc.pp {
      PeriodicPoling::On { period: p, sign, apodization } => {
        let mag = *(*p / M);
        let sp = *(spdc.pp.signed_period() / M);
        let want_neg = if opname == "pp.assign_period" { period < 0. } else { expected_sign == Sign::NEGATIVE };
        let ok = mag > 0. && mag == period.abs() && (*sign == Sign::NEGATIVE) == want_neg && (sp < 0.) == want_neg && sp.abs() == mag;
        ctx.s("C19.state", ok, "state/period-update", &format!("{} after={}", desc, state_wire(&spdc.pp).replace(' ', ",")));
        let k = spdc.pp.k_eff().value_unsafe;
        ctx.s("C19.state", (k - std::f64::consts::TAU / sp).abs() <= 4. * f64::EPSILON * k.abs(), "state/k-eff", &format!("{} k_eff={:e}", desc, k));
        let kept = match &before {
          PeriodicPoling::Off => apodization == &Apodization::Off,
          PeriodicPoling::On { apodization: a0, .. } => apodization == a0,
        };
        ctx.s("C19.state", kept, "state/period-update-keeps-apodization", &desc);
      }
      PeriodicPoling::Off => ctx.s("C19.state", false, "state/period-update", &format!("{} after=off", desc)),
    }
    ctx.count(&format!("pp/spdc/{}", opname));
  }
}

/// the same windows reached through every route: the enum, `ApodizationConfig → Apodization`, JSON with each alias
/// of the kind, and the `PeriodicPoling::integration_constant` / `apodization()` wrappers — the statement's window
/// clauses must hold on each
fn window_routes(ctx: &mut Ctx) {
  const SLACK: f64 = 1e-15;
  let names = ["Bartlett", "Blackman", "Connes", "Cosine", "Hamming", "Welch"];
  let mut routes: Vec<(String, Apodization, Option<Apodization>)> = vec![];
  for (k, name) in names.iter().enumerate() {
    let direct = six(k, 1.);
    let cfg = match k {
      0 => ApodizationConfig::Bartlett(1.),
      1 => ApodizationConfig::Blackman(1.),
      2 => ApodizationConfig::Connes(1.),
      3 => ApodizationConfig::Cosine(1.),
      4 => ApodizationConfig::Hamming(1.),
      _ => ApodizationConfig::Welch(1.),
    };
    routes.push((format!("config/{}", name), cfg.into(), Some(direct.clone())));
    for alias in [name.to_string(), name.to_lowercase()] {
      for param in ["1", "1.0", "1e0"] {
        let js = format!("{{\"kind\":\"{}\",\"parameter\":{}}}", alias, param);
        match serde_json::from_str::<Apodization>(&js) {
          Ok(w) => routes.push((format!("json/{}", js.replace(' ', "")), w, Some(direct.clone()))),
          Err(e) => ctx.s("C19.config", false, "config/window-mapping", &format!("json={} error={}", js.replace(' ', ""), e.to_string().replace(' ', "_"))),
        }
      }
    }
  }
  for _ in 0..4 {
    let len = gen_len(&mut ctx.rng);
    let fwhm_um = (ctx.rng.log_range(0.01, 1.) * len * 1e6 * 1e4).round() / 1e4; // survives the 4-decimal config rounding
    if fwhm_um <= 0. {
      continue;
    }
    let direct = Apodization::Gaussian { fwhm: fwhm_um * 1e-6 * M };
    routes.push(("config/Gaussian".into(), ApodizationConfig::Gaussian { fwhm_um }.into(), Some(direct.clone())));
    for alias in ["Gaussian", "gaussian"] {
      let js = format!("{{\"kind\":\"{}\",\"parameter\":{{\"fwhm_um\":{:e}}}}}", alias, fwhm_um);
      match serde_json::from_str::<Apodization>(&js) {
        Ok(w) => routes.push((format!("json/{}", js), w, Some(direct.clone()))),
        Err(e) => ctx.s("C19.config", false, "config/window-mapping", &format!("json={} error={}", js, e.to_string().replace(' ', "_"))),
      }
    }
    // and back: runtime → config → runtime keeps the kind and (for values on the config grid) the width
    let back: Apodization = ApodizationConfig::from(direct.clone()).into();
    routes.push(("roundtrip/Gaussian".into(), back, Some(direct)));
  }
  for alias in ["Off", "off", "none", "None"] {
    let js = format!("{{\"kind\":\"{}\"}}", alias);
    match serde_json::from_str::<Apodization>(&js) {
      Ok(w) => routes.push((format!("json/{}", js), w, Some(Apodization::Off))),
      Err(e) => ctx.s("C19.config", false, "config/window-mapping", &format!("json={} error={}", js, e.to_string().replace(' ', "_"))),
    }
  }
  let vals = vec![0.25, 0.5, 1.0, 0.75];
  for alias in ["Interpolate", "interpolate"] {
    let js = format!("{{\"kind\":\"{}\",\"parameter\":[0.25,0.5,1.0,0.75]}}", alias);
    match serde_json::from_str::<Apodization>(&js) {
      Ok(w) => routes.push((format!("json/{}", js), w, Some(Apodization::Interpolate(vals.clone())))),
      Err(e) => ctx.s("C19.config", false, "config/window-mapping", &format!("json={} error={}", js, e.to_string().replace(' ', "_"))),
    }
  }
  for (route, w, expect) in routes {
    let desc = format!("route={} {}", route, apod_desc(&w));
    if let Some(e) = &expect {
      let same = match (&w, e) {
        (Apodization::Gaussian { fwhm: x }, Apodization::Gaussian { fwhm: y }) => ((*x / M) - (*y / M)).abs() <= 1e-12 * (*y / M).abs(),
        (x, y) => x == y,
      };
      ctx.s("C19.config", same, "config/window-mapping", &format!("{} expected_kind={}", desc, e.kind()));
    }
    let len = match &w {
      Apodization::Gaussian { fwhm } => *(*fwhm / M) * ctx.rng.range(1., 20.),
      _ => gen_len(&mut ctx.rng),
    };
    let sign = if ctx.rng.coin() { 1. } else { -1. };
    let pp = PeriodicPoling::new(sign * 10e-6 * M, w.clone());
    let via_pp = |z: f64| {
      let p2 = pp.clone();
      guard(move || p2.integration_constant(z, len * M))
    };
    ctx.s("C19.window", pp.apodization() == &w, "window/wrapper", &desc);
    match &w {
      Apodization::Off => {
        let z = ctx.rng.range(-1., 1.);
        ctx.s("C19.window", via_pp(z) == Some(1.) && ic(&w, z, len) == Some(1.), "window/off", &desc);
      }
      Apodization::Interpolate(v) if !v.is_empty() => {
        let ok = via_pp(-1.) == Some(v[0]) && via_pp(1.) == Some(v[v.len() - 1]) && ic(&w, -1., len) == Some(v[0]);
        ctx.s("C19.interp", ok, "interp/ends", &desc);
      }
      _ => {
        let mut ok_c = via_pp(0.).map(|v| (v - 1.).abs() <= SLACK).unwrap_or(false);
        ok_c &= ic(&w, 0., len).map(|v| (v - 1.).abs() <= SLACK).unwrap_or(false);
        ctx.s("C19.window", ok_c, "window/centre", &desc);
        let mut ok = true;
        let mut why = String::new();
        for j in 0..=40 {
          let z = j as f64 / 40.;
          match (via_pp(z), via_pp(-z), ic(&w, z, len)) {
            (Some(p), Some(q), Some(d)) if (p - q).abs() <= SLACK && p >= -SLACK && p <= 1. + SLACK && p == d => {}
            other => {
              ok = false;
              why = format!("z={:e} got={:?}", z, other);
            }
          }
        }
        ctx.s("C19.window", ok, "window/even-range", &format!("{} {}", desc, why));
        if let Apodization::Gaussian { fwhm } = &w {
          let z = *(*fwhm / M) / len;
          let ok = via_pp(z).map(|v| (v - 0.5).abs() <= 1e-12).unwrap_or(false) && via_pp(-z).map(|v| (v - 0.5).abs() <= 1e-12).unwrap_or(false);
          ctx.s("C19.gaussian", ok, "gaussian/half-maximum", &format!("{} L={:e} z={:e}", desc, len, z));
        }
      }
    }
    ctx.count(&format!("routes/{}", route.split('/').next().unwrap_or("")));
  }
  // the Gaussian exactly as wide as the crystal: half maximum exactly at the crystal faces z = ±1
  for _ in 0..20 {
    let len = gen_len(&mut ctx.rng);
    let w = Apodization::Gaussian { fwhm: len * M };
    let ok = ic(&w, 1., len).map(|v| (v - 0.5).abs() <= 1e-12).unwrap_or(false) && ic(&w, -1., len).map(|v| (v - 0.5).abs() <= 1e-12).unwrap_or(false);
    ctx.s("C19.gaussian", ok, "gaussian/half-maximum", &format!("kind=Gaussian fwhm={:e} L={:e} z=1", len, len));
  }
}

// ------------------------------------------------------------------ domain counts: whole periods + a fraction

/// `L = |Λ|·(N + f)` with N whole periods (every decade up to the statement's 10^5 domains, weighted to the top)
/// and a remainder f that is log-uniform down to 1e-9, just below 1, uniform, or exactly 0; the poling description
/// is reached through every constructor / mutator. The count of `num_domains`, `poling_domains` and
/// `poling_domain_lengths` must be ⌈L/Λ⌉: against the same float division as the statement's formula for every
/// case, and against N + 1 wherever the exact quotient is unambiguous (1e-9 ≤ f ≤ 1 − 1e-9: the two roundings of
/// `|Λ|·(N+f)` and the one of the division move the quotient by < 4e-11 for N ≤ 10^5).
fn domain_counts(ctx: &mut Ctx) {
  let cases = if ctx.thorough { ctx.n / 3 } else { ctx.n / 2 };
  for i in 0..cases {
    let mag = match ctx.rng.below(8) {
      0 => 1e-6,
      1 => ctx.rng.log_range(1e-12, 1e3), // no range restriction in the statement
      _ => ctx.rng.log_range(0.2e-6, 200e-6),
    };
    let period = if ctx.rng.below(3) == 0 { -mag } else { mag };
    let whole: usize = match ctx.rng.below(12) {
      0 => 0,
      1 => ctx.rng.between(1, 9),
      2 => ctx.rng.between(10, 999),
      3 => ctx.rng.between(1_000, 29_999),
      4 => *ctx.rng.pick(&[1, 9, 99, 999, 9_999, 32_767, 32_768, 65_535, 65_536, 99_998, 99_999]),
      5 | 6 => ctx.rng.log_range(1., 99_999.) as usize,
      _ => ctx.rng.between(30_000, 99_999),
    };
    let (fclass, frac) = match ctx.rng.below(10) {
      0 => ("zero", 0.),
      1 | 2 => ("uniform", ctx.rng.unit()),
      3 | 4 => ("near-one", 1. - ctx.rng.log_range(1e-9, 0.5)),
      _ => ("small", ctx.rng.log_range(1e-9, 0.5)),
    };
    let (fclass, frac) = if whole == 0 && frac == 0. { ("small", ctx.rng.log_range(1e-12, 0.5)) } else { (fclass, frac) };
    let len = mag * (whole as f64 + frac);
    let w = match ctx.rng.below(8) {
      0 | 1 | 2 => Apodization::Off,
      3 => Apodization::Gaussian { fwhm: ctx.rng.log_range(0.05, 5.) * len * M },
      4 => Apodization::Interpolate((0..ctx.rng.between(2, 12)).map(|_| ctx.rng.unit()).collect()),
      _ => six(ctx.rng.below(6), 1.),
    };
    // every way to arrive at (period, window)
    let other = period * *ctx.rng.pick(&[-1., 1.000001, 0.999999, 3.7, 0.5, -2.]);
    let route = ctx.rng.below(6);
    let (rname, w) = match route {
      5 => ("off.with_period", Apodization::Off),
      _ => (["new", "with_period", "assign_period", "with_apodization", "set_apodization"][route], w),
    };
    let w2 = w.clone();
    let built = guard(move || match route {
      0 => PeriodicPoling::new(period * M, w2),
      1 => PeriodicPoling::new(other * M, w2).with_period(period * M),
      2 => {
        let mut x = PeriodicPoling::new(other * M, w2);
        x.assign_period(period * M);
        x
      }
      3 => PeriodicPoling::new(period * M, Apodization::Hamming(2.)).with_apodization(w2),
      4 => {
        let mut x = PeriodicPoling::new(period * M, Apodization::Interpolate(vec![0.25, 1.]));
        x.set_apodization(w2);
        x
      }
      _ => PeriodicPoling::Off.with_period(period * M),
    });
    let desc = format!("route={} {} L={:e} period={:e} whole={} frac={:e}", rname, apod_desc(&w), len, period, whole, frac);
    let pp = match built {
      Some(pp) => pp,
      None => {
        ctx.s("C19.domains", false, "domains/panic", &desc);
        continue;
      }
    };
    let pp1 = pp.clone();
    let nd = match guard(move || pp1.num_domains(len * M)) {
      Some(nd) => nd,
      None => {
        ctx.s("C19.domains", false, "domains/panic", &desc);
        continue;
      }
    };
    ctx.k("num_domains", &format!("{} {}", fl(len), fl(period)), &nd.to_string());
    ctx.count(&format!("counts/whole<=1e{}", (whole.max(1) as f64).log10().ceil() as usize));
    ctx.count(&format!("counts/frac/{}", fclass));
    ctx.count(&format!("counts/route/{}", rname));
    // the statement's formula in the same arithmetic
    let expect_n = (len / mag).ceil() as usize;
    ctx.s("C19.domains", nd == expect_n, "domains/count", &format!("{} n={} expected={}", desc, nd, expect_n));
    // the exact ⌈L/Λ⌉ where rounding cannot matter
    let unambiguous = frac >= 1e-9 && frac <= 1. - 1e-9;
    if unambiguous {
      ctx.s("C19.domains", nd == whole + 1, "domains/count/whole-plus-fraction", &format!("{} n={} expected={}", desc, nd, whole + 1));
    }
    // the lists
    let every = if ctx.thorough { 25 } else { 5 };
    if whole <= 3_000 || i % every == 0 {
      let pp2 = pp.clone();
      let doms = guard(move || pp2.poling_domains(len * M));
      let pp3 = pp.clone();
      let lens = guard(move || pp3.poling_domain_lengths(len * M));
      match (doms, lens) {
        (Some(d), Some(l)) => {
          let want = if unambiguous { whole + 1 } else { expect_n };
          ctx.s(
            "C19.domains",
            d.len() == want && l.len() == want,
            "domains/count",
            &format!("{} domains={} lengths={} expected={}", desc, d.len(), l.len(), want),
          );
          list_clauses(ctx, &desc, &w, len, &d);
          ctx.count("counts/lists");
        }
        _ => ctx.s("C19.domains", false, "domains/panic", &desc),
      }
    }
  }
}

/// history independence: the recorded window values and domain lists are recomputed in reversed order at the
/// end of the run and must be bit-identical
fn history(ctx: &mut Ctx) {
  let h1: Vec<_> = HIST_IC.lock().unwrap().drain(..).collect();
  let mut ok = true;
  let mut why = String::new();
  let n1 = h1.len();
  for (w, z, len, r0) in h1.into_iter().rev() {
    let r = ic(&w, z, len);
    let same = match (r, r0) {
      (Some(x), Some(y)) => x.to_bits() == y.to_bits() || (x.is_nan() && y.is_nan()),
      (None, None) => true,
      _ => false,
    };
    if !same {
      ok = false;
      why = format!("{} z={:e} L={:e} first={:?} again={:?}", apod_desc(&w), z, len, r0, r);
    }
  }
  ctx.s("C19.history", ok, "history/window/changed", &format!("calls={} {}", n1, why));
  let h2: Vec<_> = HIST_DOM.lock().unwrap().drain(..).collect();
  let mut ok = true;
  let mut why = String::new();
  let n2 = h2.len();
  for (period, w, len, d0) in h2.into_iter().rev() {
    let pp = PeriodicPoling::new(period * M, w.clone());
    let d = guard(move || pp.poling_domains(len * M));
    let same = match (&d, &d0) {
      (Some(x), Some(y)) => x.len() == y.len() && x.iter().zip(y.iter()).all(|(p, q)| p.0.to_bits() == q.0.to_bits() && p.1.to_bits() == q.1.to_bits()),
      (None, None) => true,
      _ => false,
    };
    if !same {
      ok = false;
      why = format!("{} L={:e} period={:e}", apod_desc(&w), len, period);
    }
  }
  ctx.s("C19.history", ok, "history/domains/changed", &format!("calls={} {}", n2, why));
}
