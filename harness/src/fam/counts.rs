//! C08 — fibre-coupled coincidences never exceed singles; rates and efficiencies consistent.
use super::optimum::{build, cfg_str, fr, gen_config, GenOpts, Meta};
use crate::common::*;
use spdcalc::dim::ucum::{HZ, M, RAD, S};
use spdcalc::prelude::*;
use spdcalc::utils::{frequency_to_wavenumber, vacuum_wavelength_to_frequency};
use spdcalc::{
  efficiencies_from_counts, fwhm_to_spectral_width, get_counts_correction, phasematch_singles_fiber_coupling, Efficiencies, Frequency,
  JSIUnits, PerMeter3, PeriodicPoling,
};

// ------------------------------------------------------------------------------------------------
// K: the singles integrand through low-order rules
// ------------------------------------------------------------------------------------------------

/// the primitive quantities `phasematch_singles_fiber_coupling` reads from the setup, via public getters
fn primitives(s: &SPDC, ws: Frequency, wi: Frequency) -> Vec<f64> {
  let cs = &s.crystal_setup;
  let wp = ws + wi;
  let n_p = s.pump.refractive_index(wp, cs);
  let n_s = s.signal.refractive_index(ws, cs);
  let n_i = s.idler.refractive_index(wi, cs);
  let w = s.pump.waist();
  vec![
    cs.length.value_unsafe,
    s.signal.theta_internal().value_unsafe,
    s.signal.phi().value_unsafe,
    s.signal.theta_external(cs).value_unsafe,
    s.signal.waist().x_by_y().value_unsafe,
    (w.x * w.x).value_unsafe,
    (w.y * w.y).value_unsafe,
    s.signal.direction().z.signum(),
    s.idler.direction().z.signum(),
    *n_s,
    frequency_to_wavenumber(wp, n_p).value_unsafe,
    frequency_to_wavenumber(ws, n_s).value_unsafe,
    frequency_to_wavenumber(wi, n_i).value_unsafe,
    s.signal_waist_position.value_unsafe,
    s.pump.walkoff_angle(cs).value_unsafe,
    s.pp.k_eff().value_unsafe,
  ]
}

fn singles_value(s: &SPDC, ws: Frequency, wi: Frequency, integ: Integrator) -> Option<f64> {
  guard(|| *(phasematch_singles_fiber_coupling(ws, wi, s, integ) / PerMeter3::new(1.)))
}

fn singles_k(ctx: &mut Ctx, s: &SPDC, ws: Frequency, wi: Frequency) {
  let prim = match guard(|| primitives(s, ws, wi)) {
    Some(p) => p,
    None => return,
  };
  let l = s.crystal_setup.length;
  for degree in [2usize, 3, 4, 5, 7] {
    let quad = gauss_quad::GaussLegendre::new(degree).unwrap();
    let nodes: Vec<f64> = quad.iter().map(|(x, _)| *x).collect();
    let weights: Vec<f64> = quad.iter().map(|(_, w)| *w).collect();
    let apod: Vec<f64> = nodes.iter().map(|z| s.pp.integration_constant(*z, l)).collect();
    if let Some(v) = singles_value(s, ws, wi, Integrator::GaussLegendre { degree }) {
      ctx.k("singles_gl", &format!("{} | {} | {} | {}", fls(&prim), fls(&nodes), fls(&weights), fls(&apod)), &fl(v));
      ctx.count(&format!("singles-k/gl{}", degree));
    }
  }
  for divs in [4usize, 6] {
    let nodes: Vec<f64> = Steps(-1., 1., divs + 1).into_iter().collect();
    let apod: Vec<f64> = nodes.iter().map(|z| s.pp.integration_constant(*z, l)).collect();
    let d = 2.0 / (divs as f64);
    if let Some(v) = singles_value(s, ws, wi, Integrator::Simpson { divs }) {
      ctx.k("singles_simpson", &format!("{} | {} | {} {} | {}", fls(&prim), fls(&nodes), fl(d), fl(d), fls(&apod)), &fl(v));
      ctx.count(&format!("singles-k/simpson{}", divs));
    }
  }
}

// ------------------------------------------------------------------------------------------------
// phase-matched setups
// ------------------------------------------------------------------------------------------------

/// focusing parameter ξ = L / (2 z_R), z_R = π w² n / λ
fn xi(b: &Beam, s: &SPDC) -> f64 {
  let n = *b.refractive_index(b.frequency(), &s.crystal_setup);
  let lam = b.vacuum_wavelength().value_unsafe;
  let w2 = b.waist().x_by_y().value_unsafe;
  let zr = std::f64::consts::PI * w2 * n / lam;
  s.crystal_setup.length.value_unsafe / (2.0 * zr)
}

fn dkz(s: &SPDC, ws: Frequency, wi: Frequency) -> f64 {
  s.delta_k(ws, wi).value_unsafe.z
}

/// anti-diagonal detuning at which |Δk_z| L/2 first reaches π (first zero of the sinc)
fn first_zero(s: &SPDC) -> Option<f64> {
  let (w0s, w0i) = (s.signal.frequency(), s.idler.frequency());
  let half_l = 0.5 * s.crystal_setup.length.value_unsafe;
  let f = |v: f64| (dkz(s, w0s - v * RAD / S, w0i + v * RAD / S) * half_l).abs();
  let cap = 0.2 * fr(w0s).min(fr(w0i));
  let mut hi = 1e9;
  while f(hi) < std::f64::consts::PI {
    hi *= 1.4;
    if hi > cap {
      return None;
    }
  }
  let mut lo = hi / 1.4;
  for _ in 0..40 {
    let mid = 0.5 * (lo + hi);
    if f(mid) < std::f64::consts::PI {
      lo = mid;
    } else {
      hi = mid;
    }
  }
  Some(hi)
}

struct Pm {
  s: SPDC,
  meta: Meta,
  cfg: String,
  xi_p: f64,
  xi_s: f64,
  xi_i: f64,
  d_pm: f64,
  sigma: f64,
  /// further key=value tokens of the detail (how the setup was assembled when not by the configuration alone)
  extra: String,
}

impl Pm {
  /// largest displacement of a collection focus from the crystal centre, in Rayleigh ranges of that beam:
  /// |z0|/z_R = 2·ξ·|z0|/L
  fn zr(&self) -> f64 {
    let l = self.s.crystal_setup.length;
    let zs = (self.s.signal_waist_position / l).value_unsafe.abs();
    let zi = (self.s.idler_waist_position / l).value_unsafe.abs();
    (2.0 * self.xi_s * zs).max(2.0 * self.xi_i * zi)
  }
  fn tokens(&self) -> String {
    let xm = self.xi_p.max(self.xi_s).max(self.xi_i);
    format!(
      "{}{} thr={} zs_um={:.3} zi_um={:.3} zoff_s={:.3} zoff_i={:.3} zr={:.4} xi_p={:.4} xi_s={:.4} xi_i={:.4} xi_max={:.4} xi_si={:.4} d_pm={:e} sigma={:e} cfg={}",
      self.meta.tokens(),
      self.extra,
      self.s.pump_spectrum_threshold,
      self.s.signal_waist_position.value_unsafe * 1e6,
      self.s.idler_waist_position.value_unsafe * 1e6,
      (self.s.signal_waist_position / self.s.crystal_setup.length).value_unsafe.abs(),
      (self.s.idler_waist_position / self.s.crystal_setup.length).value_unsafe.abs(),
      self.zr(),
      self.xi_p,
      self.xi_s,
      self.xi_i,
      xm,
      self.xi_s.max(self.xi_i),
      self.d_pm,
      self.sigma,
      self.cfg
    )
  }
}

/// "phase-matched" = built with the crate's own optimum calls (auto crystal angle or auto poling period, auto idler,
/// auto waist positions) and |Δk_z| L/2 < π at the centre
fn make_pm(ctx: &mut Ctx, cfg: serde_json::Value, meta: Meta) -> Option<Pm> {
  let s = match build(&cfg) {
    Some(s) => s,
    None => {
      ctx.count("skip/config-err-or-panic");
      return None;
    }
  };
  pm_of(ctx, s, meta, cfg_str(&cfg), String::new())
}

/// the phase-matching test and the derived quantities for a setup that already exists
fn pm_of(ctx: &mut Ctx, s: SPDC, meta: Meta, cfg: String, extra: String) -> Option<Pm> {
  let (w0s, w0i) = (s.signal.frequency(), s.idler.frequency());
  let centre = guard(|| dkz(&s, w0s, w0i) * 0.5 * s.crystal_setup.length.value_unsafe);
  match centre {
    Some(x) if x.abs() < std::f64::consts::PI => {}
    _ => {
      ctx.count("skip/not-phase-matched");
      return None;
    }
  }
  let d_pm = match guard(|| first_zero(&s)).flatten() {
    Some(d) => d,
    None => {
      ctx.count("skip/no-first-zero");
      return None;
    }
  };
  let sigma = fr(fwhm_to_spectral_width(s.pump.vacuum_wavelength(), s.pump_bandwidth));
  let (xi_p, xi_s, xi_i) = (xi(&s.pump, &s), xi(&s.signal, &s), xi(&s.idler, &s));
  Some(Pm { cfg, s, meta, xi_p, xi_s, xi_i, d_pm, sigma, extra })
}

fn gen_pm(ctx: &mut Ctx, opts: &GenOpts) -> Option<Pm> {
  let (mut cfg, meta) = gen_config(&mut ctx.rng, opts);
  // the crate's optimum calls decide angle / period / idler / waist positions
  if meta.poling {
    cfg["periodic_poling"]["poling_period_um"] = serde_json::json!("auto");
  } else {
    cfg["crystal"]["theta_deg"] = serde_json::json!("auto");
  }
  cfg["signal"]["waist_position_um"] = serde_json::json!("auto");
  // the pump-spectrum threshold below which both spectra are cut to zero
  let thr = *ctx.rng.pick(&[1e-2, 1e-2, 1e-4, 0.1, 0.25]);
  cfg["pump"]["spectrum_threshold"] = serde_json::json!(thr);
  make_pm(ctx, cfg, meta)
}

/// phase-matched setups whose collection foci are explicit and clearly different: one arm or both displaced to
/// ±(0.5 … 5)·L from the crystal centre (the fields are set on the built setup; `zs_um` / `zi_um` in the detail)
fn gen_displaced(ctx: &mut Ctx, opts: &GenOpts) -> Option<Pm> {
  let mut p = gen_pm(ctx, opts)?;
  let l = p.s.crystal_setup.length;
  let mut pick = |ctx: &mut Ctx| {
    let f = ctx.rng.log_range(0.5, 5.0) * if ctx.rng.below(4) == 0 { 1.0 } else { -1.0 };
    l * ((f * 100.0).round() / 100.0)
  };
  match ctx.rng.below(3) {
    0 => p.s.signal_waist_position = pick(ctx),
    1 => p.s.idler_waist_position = pick(ctx),
    _ => {
      p.s.signal_waist_position = pick(ctx);
      p.s.idler_waist_position = pick(ctx);
    }
  }
  // half of them "moderately focused": idler focusing ξ_i ∈ [0.25, 0.55] (below the D9 region), signal waist larger
  // (ξ_s = ξ_i·(0.15 … 1)), pump waist comparable to the idler's, all within the statement's 20–300 µm; the signal focus
  // displaced by (1 … 5)·L
  if ctx.rng.below(4) < 3 {
    let w_for = |b: &Beam, s: &SPDC, x: f64| -> f64 {
      let n = *b.refractive_index(b.frequency(), &s.crystal_setup);
      let lam = b.vacuum_wavelength().value_unsafe;
      (s.crystal_setup.length.value_unsafe * lam / (2.0 * std::f64::consts::PI * n * x)).sqrt()
    };
    let xi_i = ctx.rng.range(0.25, 0.55);
    let xi_s = xi_i * ctx.rng.range(0.15, 1.0);
    let wi = w_for(&p.s.idler, &p.s, xi_i);
    let ws = w_for(&p.s.signal, &p.s, xi_s);
    let wp = (wi * ctx.rng.range(0.5, 1.5)).clamp(20e-6, 300e-6);
    if (20e-6..=300e-6).contains(&wi) && (20e-6..=300e-6).contains(&ws) {
      p.s.idler.set_waist(wi * M);
      p.s.signal.set_waist(ws * M);
      p.s.pump.set_waist(wp * M);
      p.s.signal_waist_position = l * (-(ctx.rng.range(1.0, 5.0) * 100.0).round() / 100.0);
      p.meta.wi_um = (wi * 1e7).round() / 10.0;
      p.meta.ws_um = (ws * 1e7).round() / 10.0;
      p.meta.wp_um = (wp * 1e7).round() / 10.0;
      p.xi_i = xi(&p.s.idler, &p.s);
      p.xi_s = xi(&p.s.signal, &p.s);
      p.xi_p = xi(&p.s.pump, &p.s);
      ctx.count("displaced-collection-focus/moderately-focused");
    }
  } else if ctx.rng.coin() {
    let ws = p.s.signal.waist().x.value_unsafe;
    let wi = (ws * ctx.rng.range(0.4, 1.0)).max(20e-6);
    p.s.idler.set_waist(wi * M);
    p.meta.wi_um = (wi * 1e7).round() / 10.0;
    p.xi_i = xi(&p.s.idler, &p.s);
  }
  ctx.count("displaced-collection-focus");
  Some(p)
}

/// counter-propagating phase-matched setups: poled (auto period — sub-micron), both orientations (signal forward with
/// the idler leaving through the entrance face, and the exchanged one), collinear or slightly tilted, any crystal/type,
/// waists and lengths over the statement's ranges
fn gen_cp(ctx: &mut Ctx, opts: &GenOpts) -> Option<Pm> {
  let (mut cfg, mut meta) = gen_config(&mut ctx.rng, opts);
  cfg["crystal"]["counter_propagation"] = serde_json::json!(true);
  if cfg["crystal"]["theta_deg"].is_string() {
    cfg["crystal"]["theta_deg"] = serde_json::json!(if ctx.rng.coin() { 90.0 } else { 0.0 });
  }
  cfg["periodic_poling"] = serde_json::json!({"poling_period_um": "auto", "apodization": {"kind": "Off"}});
  cfg["idler"] = serde_json::json!("auto");
  let backward = ctx.rng.coin();
  let collinear = ctx.rng.below(10) < 7;
  let tilt = if collinear { 0.0 } else { (ctx.rng.range(0.05, 3.0) * 100.0).round() / 100.0 };
  let sig = cfg["signal"].as_object_mut().unwrap();
  sig.remove("theta_external_deg");
  sig.insert("theta_deg".into(), serde_json::json!(if backward { 180.0 - tilt } else { tilt }));
  sig.insert("waist_position_um".into(), serde_json::json!("auto"));
  let thr = *ctx.rng.pick(&[1e-2, 1e-2, 1e-4, 0.1, 0.25]);
  cfg["pump"]["spectrum_threshold"] = serde_json::json!(thr);
  meta.cp = true;
  meta.poling = true;
  meta.collinear = collinear;
  meta.idler_explicit = false;
  meta.idler_conj = true;
  meta.wi_um = meta.ws_um;
  meta.apod = "Off".into();
  ctx.count(if backward { "counter-propagating/signal-backward" } else { "counter-propagating/signal-forward" });
  make_pm(ctx, cfg, meta)
}

/// Setups whose `counter_propagation` FLAG DISAGREES WITH THE BEAM DIRECTIONS, both ways.  The flag only steers the
/// crate's "auto" constructors (optimum idler, try_as_optimum, optimum_range); the spectra themselves are functions of
/// the beams.  A source ASSEMBLED BY HAND through the public constructors (`SPDC::new`, `CrystalSetup { .. }`,
/// `Beam::new`, `PeriodicPoling::new`) or EDITED IN PLACE (public field) is a setup like any other:
///   kind 0 / 1: signal and idler leave through opposite faces, flag not set (by hand / flag cleared in place);
///   kind 2 / 3: both photons forward, flag set (by hand / set in place).
/// `cp=` in the detail is the GEOMETRY (so that the counter-propagating signatures and region apply to it), `flag=` the field.
fn gen_flag_mismatch(ctx: &mut Ctx, opts: &GenOpts) -> Option<Pm> {
  let kind = ctx.rng.below(4);
  let base = if kind < 2 { gen_cp(ctx, opts)? } else { gen_pm(ctx, opts)? };
  let flag = kind >= 2;
  let by_hand = kind % 2 == 0;
  let s0 = &base.s;
  let s = if by_hand {
    let built = guard(|| {
      let c = &s0.crystal_setup;
      let cs = spdcalc::CrystalSetup {
        crystal: c.crystal.clone(),
        pm_type: c.pm_type,
        phi: c.phi,
        theta: c.theta,
        length: c.length,
        temperature: c.temperature,
        counter_propagation: flag,
      };
      let mk = |b: &Beam| Beam::new(b.polarization(), b.phi(), b.theta_internal(), b.vacuum_wavelength(), b.waist());
      let pp = match &s0.pp {
        PeriodicPoling::Off => PeriodicPoling::Off,
        PeriodicPoling::On { apodization, .. } => PeriodicPoling::new(s0.pp.signed_period(), apodization.clone()),
      };
      SPDC::new(
        cs,
        mk(&s0.signal).into(),
        mk(&s0.idler).into(),
        mk(&s0.pump).into(),
        s0.pump_bandwidth,
        s0.pump_average_power,
        s0.pump_spectrum_threshold,
        pp,
        s0.signal_waist_position,
        s0.idler_waist_position,
        s0.deff,
      )
    });
    match built {
      Some(s) => s,
      None => {
        ctx.count("skip/hand-assembly-panic");
        return None;
      }
    }
  } else {
    let mut s = s0.clone();
    s.crystal_setup.counter_propagation = flag;
    s
  };
  let opposite = s.signal.direction().z.signum() != s.idler.direction().z.signum();
  if opposite == flag {
    // (a configuration whose beams do not have the geometry its generator intended: not a mismatch)
    ctx.count("flag-mismatch/skip-geometry-agrees-with-flag");
    return None;
  }
  let mut meta = base.meta.clone();
  meta.cp = opposite;
  ctx.count(&format!("flag-mismatch/{}/flag={}", if by_hand { "assembled-by-hand" } else { "edited-in-place" }, flag as u8));
  let extra = format!(
    " flag={} geometry={} assembled={} signal_theta_deg={} idler_theta_deg={} signed_period_um={:e}",
    flag as u8,
    if opposite { "counter-propagating" } else { "co-propagating" },
    if by_hand { "SPDC::new(CrystalSetup{..},Beam::new..,PeriodicPoling::new)" } else { "crystal_setup.counter_propagation-assigned-in-place" },
    s.signal.theta_internal().value_unsafe.to_degrees(),
    s.idler.theta_internal().value_unsafe.to_degrees(),
    s.pp.signed_period().value_unsafe * 1e6
  );
  pm_of(ctx, s, meta, base.cfg.clone(), extra)
}

/// sources with a heralding efficiency close to one: short poled crystal, wide pump, small collection waists
fn gen_high_eff(ctx: &mut Ctx) -> Option<Pm> {
  let l = (ctx.rng.log_range(300.0, 2000.0)).round();
  let wp = (ctx.rng.log_range(150.0, 400.0)).round();
  let wc = (ctx.rng.log_range(25.0, 50.0)).round();
  let thr = *ctx.rng.pick(&[1e-2, 1e-2, 1e-4, 0.1, 0.25]);
  let bw = (ctx.rng.log_range(0.2, 5.0) * 100.0).round() / 100.0;
  let mut cfg = d9_setup(wp, wc, wc, l);
  cfg["idler"] = serde_json::json!("auto");
  cfg["pump"]["bandwidth_nm"] = serde_json::json!(bw);
  cfg["pump"]["spectrum_threshold"] = serde_json::json!(thr);
  let mut meta = fixed_meta("KTP", "Type2_e_eo", true, l, wp, wc, wc);
  meta.idler_explicit = false;
  let mut p = make_pm(ctx, cfg, meta)?;
  // half of them with the signal focus moved by 0.08 … 0.35 Rayleigh ranges (either side of the automatic position):
  // near-unity heralding leaves no room for an idler mode evaluated at the wrong focus
  if ctx.rng.coin() {
    let zr_target = ctx.rng.range(0.08, 0.35) * if ctx.rng.coin() { 1.0 } else { -1.0 };
    let z_r = p.s.crystal_setup.length / (2.0 * p.xi_s);
    p.s.signal_waist_position = p.s.signal_waist_position + z_r * zr_target;
    ctx.count("high-efficiency-setups/displaced-signal-focus");
  }
  Some(p)
}

// ------------------------------------------------------------------------------------------------
// S: pointwise inequality, rates, efficiencies
// ------------------------------------------------------------------------------------------------

fn integ_name(i: &Integrator) -> String {
  match i {
    Integrator::Simpson { divs } => format!("simpson{}", divs),
    Integrator::GaussLegendre { degree } => format!("gl{}", degree),
    _ => "other".into(),
  }
}

fn ju(x: JSIUnits<f64>) -> f64 {
  *(x / JSIUnits::new(1.))
}

/// sum-frequency offsets (per photon, in units of the pump width σ) that probe the wings of the pump spectrum:
/// the pump amplitude is α = exp(−(2u/σ)²); with threshold `thr` both spectra are cut where α < thr.  Offsets with
/// α = thr^¾ (middle of the band thr ≤ α < √thr), α = 1.2·thr (just inside the contour) and α = thr/2 (beyond it).
fn wing_offsets(thr: f64) -> Vec<f64> {
  let mut v = Vec::new();
  if thr > 0.0 && thr < 0.6 {
    for alpha in [thr.powf(0.75), 1.2 * thr, 0.5 * thr] {
      let u = 0.5 * (-alpha.ln()).sqrt();
      v.push(u);
      v.push(-u);
    }
  }
  v
}

/// grid of frequency pairs inside the support: u along the pump (sum) direction — the core of the envelope plus
/// the wings out to beyond the threshold contour —, v along the anti-diagonal through the main lobe and the first
/// side lobes
fn support_points(p: &Pm, nu: usize, nv: usize) -> Vec<(f64, f64, Frequency, Frequency)> {
  let (w0s, w0i) = (p.s.signal.frequency(), p.s.idler.frequency());
  let mut us: Vec<f64> = (0..nu).map(|iu| if nu == 1 { 0.0 } else { -0.35 + 0.7 * (iu as f64) / ((nu - 1) as f64) }).collect();
  us.extend(wing_offsets(p.s.pump_spectrum_threshold));
  let mut pts = Vec::new();
  for uu in us {
    let u = uu * p.sigma;
    for iv in 0..nv {
      let t = if nv == 1 { 0.0 } else { -1.6 + 3.2 * (iv as f64) / ((nv - 1) as f64) };
      let v = t * p.d_pm;
      pts.push((u / p.sigma, t, w0s + (u - v) * RAD / S, w0i + (u + v) * RAD / S));
    }
  }
  pts
}

fn pointwise(ctx: &mut Ctx, p: &Pm, integ: Integrator, nu: usize, nv: usize) {
  let name = integ_name(&integ);
  let js = match guard(|| p.s.joint_spectrum(integ)) {
    Some(j) => j,
    None => {
      ctx.count("skip/joint-spectrum-panic");
      return;
    }
  };
  let pts = support_points(p, nu, nv);
  let flat: Vec<Frequency> = pts.iter().flat_map(|q| [q.2, q.3]).collect();
  let arr = || SignalIdlerFrequencyArray(flat.clone());
  let r = guard(|| (js.jsi_range(arr()), js.jsi_singles_range(arr()), js.jsi_singles_idler_range(arr())));
  let (c, ss, si) = match r {
    Some(x) => x,
    None => {
      ctx.s("C08.pointwise", false, "pointwise/panic", &format!("{} integ={}", p.tokens(), name));
      return;
    }
  };
  let mut centre_ratio = f64::NAN;
  let mut negative = false;
  let mut nonfinite = false;
  let mut nonzero = 0usize;
  let mut ratios: Vec<(f64, usize)> = Vec::new();
  for (k, q) in pts.iter().enumerate() {
    let (cv, sv, iv) = (ju(c[k]), ju(ss[k]), ju(si[k]));
    if !(cv.is_finite() && sv.is_finite() && iv.is_finite()) {
      nonfinite = true;
      continue;
    }
    if cv < 0.0 || sv < 0.0 || iv < 0.0 {
      negative = true;
    }
    let m = sv.min(iv);
    if cv > 0.0 {
      nonzero += 1;
    }
    let ratio = if m > 0.0 { cv / m } else if cv > 0.0 { f64::INFINITY } else { 0.0 };
    if q.0.abs() < 1e-12 && q.1.abs() < 1e-12 {
      centre_ratio = ratio;
    }
    ratios.push((ratio, k));
  }
  ratios.sort_by(|a, b| b.0.partial_cmp(&a.0).unwrap());
  let worst_any = ratios.first().map(|r| r.0).unwrap_or(0.0);
  // The statement is about a *converged* longitudinal integration.  A point that exceeds the bound is counted only
  // if the integration is converged there: the three intensities recomputed with the refined rule (Simpson-800 for
  // Simpson-200, Gauss–Legendre-120 for Gauss–Legendre-40) agree to 1e-3.  Far out on the side lobes of long
  // non-collinear crystals neither named rule is converged and the quotient of two quadrature errors is arbitrary.
  let refined = match integ {
    Integrator::Simpson { .. } => Integrator::Simpson { divs: 800 },
    _ => Integrator::GaussLegendre { degree: 120 },
  };
  let mut violation: Option<(f64, usize, f64)> = None;
  let mut unconverged = 0usize;
  let mut within_quadrature_error = 0usize;
  let exceeding: Vec<(f64, usize)> = ratios.iter().cloned().filter(|r| r.0 > 1.0 + 1e-9).collect();
  if !exceeding.is_empty() {
    if let Some(jr) = guard(|| p.s.joint_spectrum(refined)) {
      for (ratio, k) in exceeding.iter().take(4) {
        let q = &pts[*k];
        let one = || SignalIdlerFrequencyArray(vec![q.2, q.3]);
        let r = guard(|| (ju(jr.jsi(q.2, q.3)), ju(jr.jsi_singles(q.2, q.3)), ju(jr.jsi_singles_idler_range(one())[0])));
        if let Some((c2, s2, i2)) = r {
          let agree = |a: f64, b: f64| (a - b).abs() <= 1e-3 * b.abs();
          if agree(ju(c[*k]), c2) && agree(ju(ss[*k]), s2) && agree(ju(si[*k]), i2) {
            let refined_ratio = c2 / s2.min(i2);
            if refined_ratio > 1.0 + 1e-9 {
              violation = Some((*ratio, *k, refined_ratio));
              break;
            }
            // converged to 1e-3 but the excess itself is smaller than the quadrature error and disappears under
            // refinement (heralding ratio ≈ 1, excess ~1e-6): not a violation
            within_quadrature_error += 1;
            continue;
          }
        }
        unconverged += 1;
      }
    }
  }
  if unconverged > 0 {
    ctx.count(&format!("pointwise/exceeding-points-not-converged/{}", name));
  }
  if within_quadrature_error > 0 {
    ctx.count(&format!("pointwise/excess-within-quadrature-error/{}", name));
  }
  ctx.count(&format!("pointwise/setups/{}", name));
  let (worst, at, refined_ratio) = match violation {
    Some((r, k, rr)) => (r, (pts[k].0, pts[k].1), rr),
    None => {
      // largest ratio among the points that do not exceed (or the largest unconverged one, reported for information)
      let best = ratios.iter().find(|r| r.0 <= 1.0 + 1e-9).cloned();
      match best {
        Some((r, k)) => (r, (pts[k].0, pts[k].1), f64::NAN),
        None => (worst_any, (f64::NAN, f64::NAN), f64::NAN),
      }
    }
  };
  let d = format!(
    "{} integ={} points={} nonzero={} ratio_max={:.6} at_u={:.3} at_v={:.3} ratio_centre={:.6} ratio_refined={:.6} exceeding={} unconverged={}",
    p.tokens(),
    name,
    pts.len(),
    nonzero,
    worst,
    at.0,
    at.1,
    centre_ratio,
    refined_ratio,
    exceeding.len(),
    unconverged
  );
  // failures of counter-propagating setups carry their own signatures (never matched by the D9 region)
  let cp = if p.meta.cp { "/counter-propagating" } else { "" };
  if nonfinite {
    ctx.s("C08.pointwise", false, &format!("pointwise/non-finite{}", cp), &d);
  } else if negative {
    ctx.s("C08.pointwise", false, &format!("pointwise/negative{}", cp), &d);
  } else if let Some((r, _, _)) = violation {
    // coincidences where a singles intensity is exactly zero is a different failure from the D9 excess
    let sig = if r.is_infinite() { "pointwise/coincidences-where-singles-vanish" } else { "pointwise/jsi-exceeds-singles" };
    ctx.s("C08.pointwise", false, &format!("{}{}", sig, cp), &d);
  } else {
    ctx.s("C08.pointwise", true, "pointwise/ok", &d);
  }
}

fn rates(ctx: &mut Ctx, p: &Pm, integ: Integrator, n: usize, wing: bool) {
  let name = format!("{}{}", integ_name(&integ), if wing { "/wing-grid" } else { "" });
  let (w0s, w0i) = (p.s.signal.frequency(), p.s.idler.frequency());
  // core grid: the main lobe inside the pump envelope.  wing grid: a square whose corners lie 15 % beyond the pump
  // threshold contour α = thr (α = exp(−(Δ_sum/σ)²)), so that with n = 7 the pairs with |x+y| = 4/3, 5/3 fall in
  // the band thr ≤ α < √thr and the corners outside the support
  let thr = p.s.pump_spectrum_threshold;
  let a = if wing && thr > 0.0 && thr < 1.0 {
    0.575 * p.sigma * (-thr.ln()).sqrt()
  } else {
    (1.3 * p.d_pm).min(2.0 * p.sigma)
  } * RAD
    / S;
  let range = FrequencySpace::new((w0s - a, w0s + a, n), (w0i - a, w0i + a, n));
  // JointSpectrum::new unwraps try_as_optimum of the setup (and of its swap): when no optimum exists that is C17/C04
  let buildable = guard(|| {
    let _ = p.s.joint_spectrum(integ);
    let _ = p.s.clone().with_swapped_signal_idler().joint_spectrum(integ);
  });
  if buildable.is_none() {
    ctx.count("skip/joint-spectrum-panic");
    return;
  }
  let e = match guard(|| p.s.efficiencies(range, integ)) {
    Some(e) => e,
    None => {
      ctx.s("C08.rates", false, "rates/panic", &format!("{} integ={}", p.tokens(), name));
      return;
    }
  };
  let (c, rs, ri) = (*(e.coincidences / HZ), *(e.signal_singles / HZ), *(e.idler_singles / HZ));
  // jsi / min(singles) at the central pair (part of the region description of the findings D9z)
  let ratio_centre = guard(|| {
    let js = p.s.joint_spectrum(integ);
    let cc = ju(js.jsi(w0s, w0i));
    let m = ju(js.jsi_singles(w0s, w0i)).min(ju(js.jsi_singles_idler_range(SignalIdlerFrequencyArray(vec![w0s, w0i]))[0]));
    if m > 0.0 { cc / m } else if cc > 0.0 { f64::INFINITY } else { 0.0 }
  })
  .unwrap_or(f64::NAN);
  let d = format!(
    "{} integ={} grid={}x{} ratio_centre={:.6} C={:e} Rs={:e} Ri={:e} eff_sym={:.6} eff_s={:.6} eff_i={:.6}",
    p.tokens(),
    name,
    n,
    n,
    ratio_centre,
    c,
    rs,
    ri,
    e.symmetric,
    e.signal,
    e.idler
  );
  let fin = c.is_finite() && rs.is_finite() && ri.is_finite();
  let cp = if p.meta.cp { "/counter-propagating" } else { "" };
  if !fin {
    ctx.s("C08.rates", false, &format!("rates/non-finite{}", cp), &d);
  } else if c < 0.0 || rs < 0.0 || ri < 0.0 {
    ctx.s("C08.rates", false, &format!("rates/negative{}", cp), &d);
  } else {
    let in01 = |x: f64| (0.0..=1.0 + 1e-9).contains(&x);
    let ok = in01(e.symmetric) && in01(e.signal) && in01(e.idler);
    ctx.s("C08.rates", ok, &if ok { "rates/ok".to_string() } else { format!("rates/efficiency-outside-unit-interval{}", cp) }, &d);
  }

  // K: the three rates from the arrays the real range functions return, and the correction factor
  // (only for the sequential Gauss–Legendre rule: Simpson's rule sums in parallel, so a second evaluation of the
  //  spectra can differ from the one inside counts_* by re-association, up to 1e-12 where the integrand cancels)
  if !matches!(integ, Integrator::GaussLegendre { .. }) {
    return;
  }
  let js = p.s.joint_spectrum(integ);
  let arrs = guard(|| (js.jsi_range(range), js.jsi_singles_range(range), js.jsi_singles_idler_range(range)));
  if let Some((cj, sj, ij)) = arrs {
    let corr = get_counts_correction(&p.s);
    let st = range.as_steps();
    let grid = format!(
      "{} {} {} {} {} {}",
      fl(fr(st.0 .0)),
      fl(fr(st.0 .1)),
      st.0 .2,
      fl(fr(st.1 .0)),
      fl(fr(st.1 .1)),
      st.1 .2
    );
    let tok = |v: &Vec<JSIUnits<f64>>| fls(&v.iter().map(|x| ju(*x)).collect::<Vec<_>>());
    ctx.k("counts", &format!("{} {} | {}", fl(corr), grid, tok(&cj)), &fl(c));
    ctx.k("counts", &format!("{} {} | {}", fl(corr), grid, tok(&sj)), &fl(rs));
    ctx.k("counts", &format!("{} {} | {}", fl(corr), grid, tok(&ij)), &fl(ri));
    ctx.k(
      "efficiencies",
      &format!("{} {} | {} | {} | {}", fl(corr), grid, tok(&cj), tok(&sj), tok(&ij)),
      &format!("{} {} {} {} {} {}", fl(e.symmetric), fl(e.signal), fl(e.idler), fl(c), fl(rs), fl(ri)),
    );
    // correction factor from its ingredients
    let s = &p.s;
    let cs = &s.crystal_setup;
    let ing = [
      s.pump.vacuum_wavelength().value_unsafe,
      s.signal.vacuum_wavelength().value_unsafe,
      s.idler.vacuum_wavelength().value_unsafe,
      *s.signal.refractive_index(s.signal.frequency(), cs),
      *s.idler.refractive_index(s.idler.frequency(), cs),
      *s.pump.refractive_index(s.pump.frequency(), cs),
      *s.signal.group_index(cs, PeriodicPoling::Off),
      *s.idler.group_index(cs, PeriodicPoling::Off),
    ];
    ctx.k("counts_corr", &fls(&ing), &fl(corr));
  }
}


// ------------------------------------------------------------------------------------------------
// S: the rates must not depend on what was computed before on this thread
// ------------------------------------------------------------------------------------------------

/// `SPDC::efficiencies` called back to back for (setup, A), (setup, B), (setup with ONE parameter changed, A),
/// (setup, A): each result must equal the rates formed from freshly evaluated spectra of that very setup and
/// integrator (correction × Σ value·dω², 1e-9), and the last must repeat the first (1e-12).
fn history_rates(ctx: &mut Ctx, p: &Pm) {
  use spdcalc::dim::f64prefixes::MICRO;
  let (w0s, w0i) = (p.s.signal.frequency(), p.s.idler.frequency());
  let a = (1.2 * p.d_pm).min(1.5 * p.sigma) * RAD / S;
  let range = FrequencySpace::new((w0s - a, w0s + a, 4), (w0i - a, w0i + a, 4));
  let ia = Integrator::GaussLegendre { degree: 40 };
  let ib = *ctx.rng.pick(&[Integrator::GaussLegendre { degree: 6 }, Integrator::Simpson { divs: 10 }, Integrator::Simpson { divs: 50 }]);
  let mut s2 = p.s.clone();
  let which = match ctx.rng.below(5) {
    0 => {
      s2.deff = s2.deff * 1.5;
      "deff"
    }
    1 => {
      s2.crystal_setup.temperature = s2.crystal_setup.temperature + 7.0 * spdcalc::dim::ucum::K;
      "temperature"
    }
    2 => {
      let w = s2.signal.waist().x * 1.25;
      s2.signal.set_waist(w);
      "signal-waist"
    }
    3 => {
      s2.pump_average_power = s2.pump_average_power * 3.0;
      "pump-power"
    }
    _ => {
      s2.crystal_setup.length = s2.crystal_setup.length + 50.0 * MICRO * M;
      "length"
    }
  };
  let seq: Vec<(&SPDC, Integrator)> = vec![(&p.s, ia), (&p.s, ib), (&s2, ia), (&p.s, ia)];
  // 1. the calls, back to back
  let res = guard(|| seq.iter().map(|(s, i)| s.efficiencies(range, *i)).collect::<Vec<_>>());
  let res = match res {
    Some(r) => r,
    None => {
      ctx.count("skip/history-panic");
      return;
    }
  };
  // 2. afterwards: fresh spectra
  let dw2 = {
    let st = range.as_steps();
    ((fr(st.0 .1) - fr(st.0 .0)) / 3.0) * ((fr(st.1 .1) - fr(st.1 .0)) / 3.0)
  };
  let rel = |x: f64, y: f64, eps: f64| x == y || (x - y).abs() <= eps * x.abs().max(y.abs());
  let mut ok = true;
  let mut why = String::new();
  for (k, (s, i)) in seq.iter().enumerate() {
    let fresh = guard(|| {
      let js = s.joint_spectrum(*i);
      let corr = get_counts_correction(s);
      let sum = |v: Vec<JSIUnits<f64>>| corr * v.iter().map(|x| ju(*x) * dw2).sum::<f64>();
      (sum(js.jsi_range(range)), sum(js.jsi_singles_range(range)), sum(js.jsi_singles_idler_range(range)))
    });
    if let Some((c, rs, ri)) = fresh {
      let e = &res[k];
      let got = (*(e.coincidences / HZ), *(e.signal_singles / HZ), *(e.idler_singles / HZ));
      if !(rel(got.0, c, 1e-9) && rel(got.1, rs, 1e-9) && rel(got.2, ri, 1e-9)) {
        ok = false;
        why = format!("call{}:got=({:e},{:e},{:e})_fresh=({:e},{:e},{:e})", k, got.0, got.1, got.2, c, rs, ri);
      }
    }
  }
  let (f, l) = (&res[0], &res[3]);
  if !(rel(*(f.coincidences / HZ), *(l.coincidences / HZ), 1e-12)
    && rel(*(f.signal_singles / HZ), *(l.signal_singles / HZ), 1e-12)
    && rel(*(f.idler_singles / HZ), *(l.idler_singles / HZ), 1e-12)
    && rel(f.symmetric, l.symmetric, 1e-12))
  {
    ok = false;
    why = "repeat-of-first-call-differs".into();
  }
  ctx.count(&format!("history/changed-{}", which));
  ctx.s(
    "C08.history",
    ok,
    if ok { "history/ok" } else { "history/rates-depend-on-history" },
    &format!("{} changed={} integ_b={} why={}", p.tokens(), which, integ_name(&ib), if ok { "-".to_string() } else { why }),
  );
}


// ------------------------------------------------------------------------------------------------
// S: every API route gives the same rates; exact boundary values
// ------------------------------------------------------------------------------------------------

/// methods, free functions, the wavelength-space route and the point-wise accessors agree with `SPDC::efficiencies`
/// and the `*_range` arrays (sequential Gauss–Legendre rule: 1e-12 for the parallel grid sums, bit-equal per point)
fn routes(ctx: &mut Ctx, p: &Pm) {
  let integ = Integrator::GaussLegendre { degree: 40 };
  let (w0s, w0i) = (p.s.signal.frequency(), p.s.idler.frequency());
  let a = (1.1 * p.d_pm).min(1.5 * p.sigma) * RAD / S;
  let range = FrequencySpace::new((w0s - a, w0s + a, 3), (w0i - a, w0i + a, 4));
  let r = guard(|| {
    let e = p.s.efficiencies(range, integ);
    let m = (p.s.counts_coincidences(range, integ), p.s.counts_singles_signal(range, integ), p.s.counts_singles_idler(range, integ));
    let f = (
      spdcalc::counts_coincidences(&p.s, range, integ),
      spdcalc::counts_singles_signal(&p.s, range, integ),
      spdcalc::counts_singles_idler(&p.s, range, integ),
    );
    let ef = spdcalc::efficiencies(&p.s, range, integ);
    let wl = range.as_wavelength_space();
    let e_wl = p.s.efficiencies(wl, integ);
    let e_wl_f = p.s.efficiencies(FrequencySpace::from(wl), integ);
    let js = p.s.joint_spectrum(integ);
    let arr = (js.jsi_range(range), js.jsi_singles_range(range));
    let pts: Vec<(Frequency, Frequency)> = range.as_steps().into_iter().collect();
    // the idler singles are the signal singles of the setup with signal and idler exchanged — exchanged by hand here
    // from the public fields (beams, phase-matching type, BOTH waist positions), not through with_swapped_signal_idler
    let s = &p.s;
    let mut cs = s.crystal_setup.clone();
    cs.pm_type = cs.pm_type.inverse();
    let hand = SPDC::new(
      cs,
      s.idler.clone().as_beam().into(),
      s.signal.clone().as_beam().into(),
      s.pump.clone(),
      s.pump_bandwidth,
      s.pump_average_power,
      s.pump_spectrum_threshold,
      s.pp.clone(),
      s.idler_waist_position,
      s.signal_waist_position,
      s.deff,
    );
    let jh = hand.joint_spectrum(integ);
    let idl = js.jsi_singles_idler_range(range);
    let rel12 = |x: f64, y: f64| x == y || (x - y).abs() <= 1e-12 * x.abs().max(y.abs());
    let idler_ok = pts.iter().enumerate().all(|(k, (ws, wi))| rel12(ju(jh.jsi_singles(*wi, *ws)), ju(idl[k])));
    let st = range.as_steps();
    let dw2 = ((fr(st.0 .1) - fr(st.0 .0)) / 2.0) * ((fr(st.1 .1) - fr(st.1 .0)) / 3.0);
    let ri_hand = get_counts_correction(s) * pts.iter().map(|(ws, wi)| ju(jh.jsi_singles(*wi, *ws)) * dw2).sum::<f64>();
    let idler_rate_ok = {
      let got = *(e.idler_singles / HZ);
      got == ri_hand || (got - ri_hand).abs() <= 1e-9 * got.abs().max(ri_hand.abs())
    };
    let point_ok = pts.iter().enumerate().all(|(k, (ws, wi))| ju(js.jsi(*ws, *wi)).to_bits() == ju(arr.0[k]).to_bits() && ju(js.jsi_singles(*ws, *wi)).to_bits() == ju(arr.1[k]).to_bits());
    (e, m, f, ef, e_wl, e_wl_f, point_ok, idler_ok, idler_rate_ok)
  });
  let (e, m, f, ef, e_wl, e_wl_f, point_ok, idler_ok, idler_rate_ok) = match r {
    Some(x) => x,
    None => {
      ctx.count("skip/joint-spectrum-panic");
      return;
    }
  };
  let rel = |x: f64, y: f64| x == y || (x.is_nan() && y.is_nan()) || (x - y).abs() <= 1e-12 * x.abs().max(y.abs());
  let hz = |x: spdcalc::dim::ucum::Hertz<f64>| *(x / HZ);
  let mut bad: Vec<&str> = Vec::new();
  if !(rel(hz(m.0), hz(e.coincidences)) && rel(hz(m.1), hz(e.signal_singles)) && rel(hz(m.2), hz(e.idler_singles))) {
    bad.push("counts-methods");
  }
  if !(rel(hz(f.0), hz(e.coincidences)) && rel(hz(f.1), hz(e.signal_singles)) && rel(hz(f.2), hz(e.idler_singles))) {
    bad.push("counts-free-functions");
  }
  if !(rel(ef.symmetric, e.symmetric) && rel(ef.signal, e.signal) && rel(ef.idler, e.idler) && rel(hz(ef.coincidences), hz(e.coincidences))) {
    bad.push("efficiencies-free-function");
  }
  if !(rel(hz(e_wl.coincidences), hz(e_wl_f.coincidences)) && rel(hz(e_wl.signal_singles), hz(e_wl_f.signal_singles)) && rel(hz(e_wl.idler_singles), hz(e_wl_f.idler_singles)) && rel(e_wl.symmetric, e_wl_f.symmetric)) {
    bad.push("wavelength-space");
  }
  if !point_ok {
    bad.push("point-vs-range");
  }
  if !idler_ok {
    bad.push("idler-singles-are-not-the-singles-of-the-exchanged-setup");
  }
  if !idler_rate_ok {
    bad.push("idler-singles-rate-is-not-that-of-the-exchanged-setup");
  }
  let ok = bad.is_empty();
  ctx.s("C08.routes", ok, if ok { "routes/ok" } else { "routes/differ" }, &format!("{} which={}", p.tokens(), if ok { "-".to_string() } else { bad.join("+") }));
}

/// a pair whose pump amplitude is *exactly* the threshold is inside the support for coincidences and singles alike
/// (C ≤ S there, and S > 0 if C > 0); one ulp above the threshold both vanish
fn boundary(ctx: &mut Ctx, p: &Pm) {
  let integ = Integrator::GaussLegendre { degree: 40 };
  let (w0s, w0i) = (p.s.signal.frequency(), p.s.idler.frequency());
  let u = ctx.rng.range(0.2, 0.9) * p.sigma;
  let (ws, wi) = (w0s + u * RAD / S, w0i + u * RAD / S);
  let alpha = spdcalc::pump_spectral_amplitude(ws + wi, &p.s);
  if !(alpha > 0.0 && alpha < 1.0) {
    return;
  }
  let eval = |thr: f64| {
    let mut s = p.s.clone();
    s.pump_spectrum_threshold = thr;
    guard(move || {
      let js = s.joint_spectrum(integ);
      (ju(js.jsi(ws, wi)), ju(js.jsi_singles(ws, wi)), ju(js.jsi_singles_idler_range(SignalIdlerFrequencyArray(vec![ws, wi]))[0]))
    })
  };
  let above = f64::from_bits(alpha.to_bits() + 1);
  if let (Some(at), Some(ab)) = (eval(alpha), eval(above)) {
    let cp = if p.meta.cp { "/counter-propagating" } else { "" };
    let in_d9 = p.xi_s.max(p.xi_i) >= 0.6 || p.zr() >= 0.4;
    let ok_at = at.0 >= 0.0 && ((at.0 == 0.0) || (at.1 > 0.0 && at.2 > 0.0)) && (in_d9 || at.0 <= at.1.min(at.2) * (1.0 + 1e-9));
    let ok_above = ab.0 == 0.0 && ab.1 == 0.0 && ab.2 == 0.0;
    let ok = ok_at && ok_above;
    let sig = if ok { "boundary/ok".to_string() } else if !ok_above { format!("boundary/nonzero-beyond-threshold{}", cp) } else { format!("boundary/threshold-pair{}", cp) };
    ctx.s(
      "C08.boundary",
      ok,
      &sig,
      &format!("{} alpha={:e} at=({:e},{:e},{:e}) above=({:e},{:e},{:e})", p.tokens(), alpha, at.0, at.1, at.2, ab.0, ab.1, ab.2),
    );
  }
}

// ------------------------------------------------------------------------------------------------
// S: rates over ANY grid — grids far outside the usual window
// ------------------------------------------------------------------------------------------------

/// a grid as the caller hands it to `SPDC::efficiencies` (anything `Into<FrequencySpace>`)
#[derive(Clone, Copy)]
enum AnyRange {
  F(FrequencySpace),
  W(WavelengthSpace),
  SD(SumDiffFrequencySpace),
}

impl AnyRange {
  fn freq(&self) -> FrequencySpace {
    match self {
      AnyRange::F(f) => *f,
      AnyRange::W(w) => FrequencySpace::from(*w),
      AnyRange::SD(d) => FrequencySpace::from(*d),
    }
  }
  fn efficiencies(&self, s: &SPDC, integ: Integrator) -> Efficiencies {
    match self {
      AnyRange::F(f) => s.efficiencies(*f, integ),
      AnyRange::W(w) => s.efficiencies(*w, integ),
      AnyRange::SD(d) => s.efficiencies(*d, integ),
    }
  }
}

/// "rates summed over any grid are non-negative and finite and all three heralding efficiencies lie in [0, 1]": grids
/// that reach zero frequency, negative frequencies, beyond the pump frequency, huge spans, grids entirely off the
/// support (where the Sellmeier equations are undefined, beyond the pump frequency, outside the pump envelope),
/// wavelength-space grids from the UV to far beyond the transparency window, and grids with a single point on a side.
/// `kind` names the shape.
fn far_grids(ctx: &mut Ctx, p: &Pm) -> Vec<(String, AnyRange)> {
  use spdcalc::dim::f64prefixes::MICRO;
  let (w0s, w0i) = (fr(p.s.signal.frequency()), fr(p.s.idler.frequency()));
  let wp = fr(p.s.pump.frequency());
  let f = |x: f64| x * RAD / S;
  let fs = |a: (f64, f64, usize), b: (f64, f64, usize)| AnyRange::F(FrequencySpace::new((f(a.0), f(a.1), a.2), (f(b.0), f(b.1), b.2)));
  let odd = |ctx: &mut Ctx| *ctx.rng.pick(&[3usize, 5, 7, 9, 21]);
  let any = |ctx: &mut Ctx| *ctx.rng.pick(&[2usize, 3, 4, 6, 8, 11]);
  let mut v: Vec<(String, AnyRange)> = Vec::new();
  // everything energy conservation allows: [0, ω_p]²
  let n = odd(ctx);
  v.push(("zero-to-pump".into(), fs((0.0, wp, n), (0.0, wp, n))));
  // from zero frequency to twice the centre frequency of each photon (odd n: the central pair is on the grid)
  let n = odd(ctx);
  v.push(("zero-to-twice-centre".into(), fs((0.0, 2.0 * w0s, n), (0.0, 2.0 * w0i, n))));
  // a marginal scan: one axis from zero to the pump frequency, the other stays around the centre
  let a = (1.3 * p.d_pm).min(2.0 * p.sigma);
  let n = *ctx.rng.pick(&[5usize, 9, 21, 41]);
  if ctx.rng.coin() {
    v.push(("signal-axis-from-zero".into(), fs((0.0, if ctx.rng.coin() { wp } else { 2.0 * w0s }, n), (w0i - a, w0i + a, 3))));
  } else {
    v.push(("idler-axis-from-zero".into(), fs((w0s - a, w0s + a, 3), (0.0, if ctx.rng.coin() { wp } else { 2.0 * w0i }, n))));
  }
  match ctx.rng.below(6) {
    0 => {
      // negative frequencies
      let n = odd(ctx);
      v.push(("negative-to-pump".into(), fs((-wp, wp, n), (-wp, wp, n))));
    }
    1 => {
      let n = any(ctx);
      v.push(("negative-half-to-beyond-pump".into(), fs((-0.5 * wp, 1.5 * wp, n), (-0.5 * wp, 1.5 * wp, n))));
    }
    2 => {
      // beyond the pump frequency
      let n = any(ctx);
      v.push(("centre-to-beyond-pump".into(), fs((w0s, 3.0 * wp, n), (w0i, 3.0 * wp, n))));
    }
    3 => {
      // huge spans
      let n = odd(ctx);
      let h = *ctx.rng.pick(&[1e3, 1e6, 1e12]);
      v.push(("huge-span".into(), fs((w0s - h * wp, w0s + h * wp, n), (w0i - h * wp, w0i + h * wp, n))));
    }
    4 => {
      // wavelength space from the UV to the far infrared (beyond every Sellmeier range)
      let n = any(ctx);
      let (lo, hi) = (0.2 * MICRO * M, *ctx.rng.pick(&[30.0, 100.0, 1000.0]) * MICRO * M);
      v.push(("wavelength-space/uv-to-far-infrared".into(), AnyRange::W(WavelengthSpace::new((lo, hi, n), (lo, hi, n)))));
    }
    _ => {
      // half-sum / half-difference axes: the half-difference reaches ∓ω_p/2, i.e. a photon of zero frequency
      let n = odd(ctx);
      v.push((
        "sum-diff-space/difference-to-zero-frequency".into(),
        AnyRange::SD(SumDiffFrequencySpace::new((f(0.5 * wp - p.sigma), f(0.5 * wp + p.sigma), 3), (f(-0.5 * wp), f(0.5 * wp), n))),
      ));
    }
  }
  // entirely off the support
  match ctx.rng.below(5) {
    0 => {
      // photon frequencies so low that no dispersion formula is defined (λ ≥ 16 λ_pump)
      let n = any(ctx);
      v.push(("off-support/near-zero".into(), fs((0.0, 0.06 * wp, n), (0.0, 0.06 * wp, n))));
    }
    1 => {
      let n = any(ctx);
      v.push(("off-support/beyond-pump".into(), fs((1.01 * wp, 2.0 * wp, n), (1.01 * wp, 2.0 * wp, n))));
    }
    2 => {
      // one photon near zero frequency, the other near the pump frequency: energy is conserved, the pair lies
      // outside the validity box |ω_s − ω_i| ≤ 0.75 ω_p
      let n = odd(ctx);
      if ctx.rng.coin() {
        v.push(("off-support/one-photon-near-zero".into(), fs((0.0, 0.1 * wp, n), (0.9 * wp, wp, n))));
      } else {
        v.push(("off-support/one-photon-near-zero".into(), fs((0.9 * wp, wp, n), (0.0, 0.1 * wp, n))));
      }
    }
    3 => {
      let n = any(ctx);
      v.push(("off-support/negative".into(), fs((-2.0 * wp, -0.1 * wp, n), (-2.0 * wp, -0.1 * wp, n))));
    }
    _ => {
      // outside the pump envelope: the whole grid beyond the threshold contour
      let n = any(ctx);
      let thr = p.s.pump_spectrum_threshold;
      if thr > 0.0 && thr < 1.0 {
        let edge = 0.5 * p.sigma * (-thr.ln()).sqrt();
        v.push(("off-support/outside-pump-envelope".into(), fs((w0s + 1.5 * edge, w0s + 4.0 * edge, n), (w0i + 1.5 * edge, w0i + 4.0 * edge, n))));
      }
    }
  }
  // a single point on a side (no division width is defined: (b − a)/0)
  if ctx.rng.below(4) == 0 {
    let n = any(ctx);
    match ctx.rng.below(4) {
      0 => v.push(("one-point/signal-axis".into(), fs((w0s - a, w0s + a, 1), (w0i - a, w0i + a, n)))),
      1 => v.push(("one-point/idler-axis".into(), fs((w0s - a, w0s + a, n), (w0i - a, w0i + a, 1)))),
      2 => v.push(("one-point/both-axes".into(), fs((w0s - a, w0s + a, 1), (w0i - a, w0i + a, 1)))),
      _ => v.push(("one-point/degenerate-interval".into(), fs((w0s, w0s, 1), (w0i, w0i, 1)))),
    }
  }
  v
}

/// the crate's validity box (`invalid_frequencies`, re-stated) and pump envelope: pairs outside carry no intensity
fn in_box_and_envelope(s: &SPDC, ws: Frequency, wi: Frequency) -> bool {
  let wp = fr(s.pump.frequency());
  let (a, b) = (fr(ws), fr(wi));
  let in_box = a > 0.0 && b > 0.0 && a <= wp && b <= wp && (a - b).abs() <= 0.75 * wp;
  in_box && spdcalc::pump_spectral_amplitude(ws + wi, s) >= s.pump_spectrum_threshold
}

/// pairs of a list at which one of the three intensities is not a finite non-negative number, sorted into
///  * `bad_undefined_dispersion`: the pair lies inside the crate's validity box and pump envelope, but a refractive
///    index of signal, idler or pump (public getters) is not a finite number there — the Sellmeier equations of the
///    crystal are undefined at that wavelength (known finding D14);
///  * `bad_other`: everything else (e.g. a pair outside the box, where the spectra are cut to zero).
fn bad_pairs(p: &Pm, pts: &[(Frequency, Frequency)], c: &[JSIUnits<f64>], ss: &[JSIUnits<f64>], si: &[JSIUnits<f64>]) -> String {
  let cs = &p.s.crystal_setup;
  let (mut undefined, mut other) = (0usize, 0usize);
  let mut first = String::new();
  for (k, (ws, wi)) in pts.iter().enumerate() {
    let (cv, sv, iv) = (ju(c[k]), ju(ss[k]), ju(si[k]));
    let good = |x: f64| x.is_finite() && x >= 0.0;
    if good(cv) && good(sv) && good(iv) {
      continue;
    }
    let idx = guard(|| (*p.s.signal.refractive_index(*ws, cs), *p.s.idler.refractive_index(*wi, cs), *p.s.pump.refractive_index(*ws + *wi, cs)))
      .unwrap_or((f64::NAN, f64::NAN, f64::NAN));
    let index_undefined = !(idx.0.is_finite() && idx.1.is_finite() && idx.2.is_finite());
    let inside = guard(|| in_box_and_envelope(&p.s, *ws, *wi)).unwrap_or(false);
    let known = inside && index_undefined;
    if known {
      undefined += 1;
    } else {
      other += 1;
    }
    if first.is_empty() || (!known && other == 1) {
      // report the first pair, preferring one that is not explained by an undefined dispersion
      first = format!(
        "first_bad={} ws={:e} wi={:e} inside_box={} jsi={:e} singles_s={:e} singles_i={:e} n_s={:e} n_i={:e} n_p={:e}",
        k,
        fr(*ws),
        fr(*wi),
        inside as u8,
        cv,
        sv,
        iv,
        idx.0,
        idx.1,
        idx.2
      );
    }
  }
  if first.is_empty() {
    first = "first_bad=none".into();
  }
  format!("bad_pairs={} bad_undefined_dispersion={} bad_other={} {}", undefined + other, undefined, other, first)
}

/// predicate on one `Efficiencies` result.  A rate that is NaN, infinite or negative, or an efficiency that is NaN or
/// negative, fails outright.  An efficiency above 1 is a violation only where the longitudinal integration is
/// converged (the statement's premise): on a grid whose points lie far out on the side lobes neither named rule is
/// converged and the quotient of two quadrature errors is arbitrary — `refined` re-evaluates with Simpson-800 /
/// Gauss–Legendre-120 and the excess counts only if the three rates are reproduced to 1e-3 and it persists.
fn any_grid_verdict(ctx: &mut Ctx, p: &Pm, kind: &str, name: &str, e: &Efficiencies, refined: &dyn Fn() -> Option<Efficiencies>) -> (bool, String) {
  let (c, rs, ri) = (*(e.coincidences / HZ), *(e.signal_singles / HZ), *(e.idler_singles / HZ));
  let cp = if p.meta.cp { "/counter-propagating" } else { "" };
  if !(c.is_finite() && rs.is_finite() && ri.is_finite()) {
    return (false, format!("anygrid/rate-not-finite{}", cp));
  }
  if c < 0.0 || rs < 0.0 || ri < 0.0 {
    return (false, format!("anygrid/rate-negative{}", cp));
  }
  if e.symmetric.is_nan() || e.signal.is_nan() || e.idler.is_nan() {
    return (false, format!("anygrid/efficiency-nan{}", cp));
  }
  if e.symmetric < 0.0 || e.signal < 0.0 || e.idler < 0.0 {
    return (false, format!("anygrid/efficiency-negative{}", cp));
  }
  let in01 = |x: f64| x <= 1.0 + 1e-9;
  if in01(e.symmetric) && in01(e.signal) && in01(e.idler) {
    return (true, "anygrid/ok".into());
  }
  let agree = |a: f64, b: f64| a == b || (a - b).abs() <= 1e-3 * b.abs();
  match refined() {
    Some(r) if agree(c, *(r.coincidences / HZ)) && agree(rs, *(r.signal_singles / HZ)) && agree(ri, *(r.idler_singles / HZ)) => {
      if in01(r.symmetric) && in01(r.signal) && in01(r.idler) {
        ctx.count(&format!("anygrid/excess-within-quadrature-error/{}/{}", kind, name));
        (true, "anygrid/ok".into())
      } else {
        // same signature as the rates predicate: the regions of the known findings D9 / D9cp / D9z apply
        (false, format!("rates/efficiency-outside-unit-interval{}", cp))
      }
    }
    _ => {
      ctx.count(&format!("anygrid/efficiency-excess-not-converged/{}/{}", kind, name));
      (true, "anygrid/ok".into())
    }
  }
}

/// K: `JointSpectrum::jsi`, `jsi_singles` and the idler-singles route at one pair from the raw values and the
/// normalisations (all public functions of the real crate): the zero short-circuits — a raw value of zero gives 0
/// without touching the normalisation — and the products
fn point_k(ctx: &mut Ctx, p: &Pm, ws: Frequency, wi: Frequency) {
  let integ = Integrator::GaussLegendre { degree: 40 };
  let r = guard(|| {
    let s = &p.s;
    let js = s.joint_spectrum(integ);
    let sw = s.clone().with_swapped_signal_idler();
    let a = spdcalc::jsa_raw(ws, wi, s, integ);
    let n = *(spdcalc::jsi_normalization(ws, wi, s) / spdcalc::JsiNorm::new(1.));
    let raw_s = spdcalc::jsi_singles_raw(ws, wi, s, integ);
    let n_s = *(spdcalc::jsi_singles_normalization(ws, wi, s) / spdcalc::JsiSinglesNorm::new(1.));
    let raw_i = spdcalc::jsi_singles_raw(wi, ws, &sw, integ);
    let n_i = *(spdcalc::jsi_singles_normalization(wi, ws, &sw) / spdcalc::JsiSinglesNorm::new(1.));
    let one = SignalIdlerFrequencyArray(vec![ws, wi]);
    (a, n, ju(js.jsi(ws, wi)), raw_s, n_s, ju(js.jsi_singles(ws, wi)), raw_i, n_i, ju(js.jsi_singles_idler_range(one)[0]))
  });
  if let Some((a, n, c, raw_s, n_s, ss, raw_i, n_i, si)) = r {
    ctx.k("jsi_point", &format!("{} {} {}", fl(a.re), fl(a.im), fl(n)), &fl(c));
    ctx.k("jsi_singles_point", &format!("{} {}", fl(raw_s), fl(n_s)), &fl(ss));
    ctx.k("jsi_singles_point", &format!("{} {}", fl(raw_i), fl(n_i)), &fl(si));
    ctx.count(if raw_s == 0.0 { "point-k/raw-singles-zero" } else { "point-k/raw-singles-nonzero" });
    if raw_s == 0.0 && !n_s.is_finite() {
      ctx.count("point-k/raw-singles-zero-and-normalisation-not-finite");
    }
    if a.re == 0.0 && a.im == 0.0 && !n.is_finite() {
      ctx.count("point-k/raw-jsa-zero-and-normalisation-not-finite");
    }
  }
}

fn any_grid(ctx: &mut Ctx, p: &Pm) {
  let gl = Integrator::GaussLegendre { degree: 40 };
  let buildable = guard(|| {
    let _ = p.s.joint_spectrum(gl);
    let _ = p.s.clone().with_swapped_signal_idler().joint_spectrum(gl);
  });
  if buildable.is_none() {
    ctx.count("skip/joint-spectrum-panic");
    return;
  }
  let refined_of = |i: Integrator| match i {
    Integrator::Simpson { .. } => Integrator::Simpson { divs: 800 },
    _ => Integrator::GaussLegendre { degree: 120 },
  };
  let cp = if p.meta.cp { "/counter-propagating" } else { "" };
  let grids = far_grids(ctx, p);
  for (kind, range) in grids {
    let integ = if ctx.rng.below(3) == 0 { Integrator::Simpson { divs: 200 } } else { gl };
    let name = integ_name(&integ);
    let fsp = range.freq();
    let st = fsp.as_steps();
    let grid = format!(
      "grid_kind={} grid={}x{} grid_min_side={} ws_lo={:e} ws_hi={:e} wi_lo={:e} wi_hi={:e}",
      kind,
      st.0 .2,
      st.1 .2,
      st.0 .2.min(st.1 .2),
      fr(st.0 .0),
      fr(st.0 .1),
      fr(st.1 .0),
      fr(st.1 .1)
    );
    ctx.count(&format!("anygrid/{}", kind));
    let e = match guard(|| range.efficiencies(&p.s, integ)) {
      Some(e) => e,
      None => {
        ctx.s("C08.anygrid", false, &format!("anygrid/panic{}", cp), &format!("{} integ={} {}", p.tokens(), name, grid));
        continue;
      }
    };
    let refined = || guard(|| range.efficiencies(&p.s, refined_of(integ)));
    let (ok, sig) = any_grid_verdict(ctx, p, &kind, &name, &e, &refined);
    // the summands: which pair of the grid is responsible
    let bad = if ok {
      "bad_pairs=0".to_string()
    } else {
      guard(|| {
        let js = p.s.joint_spectrum(integ);
        let pts: Vec<(Frequency, Frequency)> = fsp.as_steps().into_iter().collect();
        bad_pairs(p, &pts, &js.jsi_range(fsp), &js.jsi_singles_range(fsp), &js.jsi_singles_idler_range(fsp))
      })
      .unwrap_or_else(|| "bad_pairs=panic".into())
    };
    // K: the three rates and the efficiencies from the arrays the real range functions return on this grid
    // (sequential Gauss–Legendre rule, grids of at most 81 points)
    if matches!(integ, Integrator::GaussLegendre { .. }) && st.0 .2 * st.1 .2 <= 81 {
      let arrs = guard(|| {
        let js = p.s.joint_spectrum(integ);
        (js.jsi_range(fsp), js.jsi_singles_range(fsp), js.jsi_singles_idler_range(fsp))
      });
      if let Some((cj, sj, ij)) = arrs {
        let corr = get_counts_correction(&p.s);
        let g = format!("{} {} {} {} {} {}", fl(fr(st.0 .0)), fl(fr(st.0 .1)), st.0 .2, fl(fr(st.1 .0)), fl(fr(st.1 .1)), st.1 .2);
        let tok = |v: &Vec<JSIUnits<f64>>| fls(&v.iter().map(|x| ju(*x)).collect::<Vec<_>>());
        ctx.k(
          "efficiencies",
          &format!("{} {} | {} | {} | {}", fl(corr), g, tok(&cj), tok(&sj), tok(&ij)),
          &format!(
            "{} {} {} {} {} {}",
            fl(e.symmetric),
            fl(e.signal),
            fl(e.idler),
            fl(*(e.coincidences / HZ)),
            fl(*(e.signal_singles / HZ)),
            fl(*(e.idler_singles / HZ))
          ),
        );
      }
    }
    ctx.s(
      "C08.anygrid",
      ok,
      &sig,
      &format!(
        "{} integ={} {} C={:e} Rs={:e} Ri={:e} eff_sym={:e} eff_s={:e} eff_i={:e} {}",
        p.tokens(),
        name,
        grid,
        *(e.coincidences / HZ),
        *(e.signal_singles / HZ),
        *(e.idler_singles / HZ),
        e.symmetric,
        e.signal,
        e.idler,
        bad
      ),
    );
  }

  // pair lists (the summands of any grid that contains them) through the list routes of the spectra: a marginal scan of
  // one photon over [−ω_p/4, 5/4 ω_p] with the partner at its centre frequency, the same in wavelengths up to the far
  // infrared, and the half-sum / half-difference axes
  {
    use spdcalc::dim::f64prefixes::MICRO;
    let (w0s, w0i, wp) = (p.s.signal.frequency(), p.s.idler.frequency(), p.s.pump.frequency());
    let n = *ctx.rng.pick(&[13usize, 25, 41]);
    let scan: Vec<Frequency> = Steps(-0.25 * wp, 1.25 * wp, n).into_iter().collect();
    let which = ctx.rng.below(4);
    let (kind, flat): (&str, Vec<Frequency>) = match which {
      0 => ("pair-list/signal-scan", scan.iter().flat_map(|w| [*w, w0i]).collect()),
      1 => ("pair-list/idler-scan", scan.iter().flat_map(|w| [w0s, *w]).collect()),
      2 => {
        // energy-conserving pairs (ω, ω_p − ω) from ω = 0 to ω_p: both ends leave the validity box
        let sc: Vec<Frequency> = Steps(0.0 * wp, wp, n).into_iter().collect();
        ("pair-list/energy-conserving-diagonal", sc.iter().flat_map(|w| [*w, wp - *w]).collect())
      }
      _ => {
        let ls: Vec<spdcalc::Wavelength> = Steps(0.2 * MICRO * M, 200.0 * MICRO * M, n).into_iter().collect();
        let li = p.s.idler.vacuum_wavelength();
        ("pair-list/wavelength-scan", ls.iter().flat_map(|l| [vacuum_wavelength_to_frequency(*l), vacuum_wavelength_to_frequency(li)]).collect())
      }
    };
    let integ = if ctx.rng.below(3) == 0 { Integrator::Simpson { divs: 200 } } else { gl };
    let name = integ_name(&integ);
    ctx.count(&format!("anygrid/{}", kind));
    let pts: Vec<(Frequency, Frequency)> = flat.chunks_exact(2).map(|a| (a[0], a[1])).collect();
    let r = guard(|| {
      let js = p.s.joint_spectrum(integ);
      if which == 3 {
        // the wavelength list route
        let wl: Vec<spdcalc::Wavelength> = flat.iter().map(|w| spdcalc::utils::frequency_to_vacuum_wavelength(*w)).collect();
        let arr = || SignalIdlerWavelengthArray(wl.clone());
        (js.jsi_range(arr()), js.jsi_singles_range(arr()), js.jsi_singles_idler_range(arr()))
      } else {
        let arr = || SignalIdlerFrequencyArray(flat.clone());
        (js.jsi_range(arr()), js.jsi_singles_range(arr()), js.jsi_singles_idler_range(arr()))
      }
    });
    let head = format!("{} integ={} grid_kind={} grid={}x1 grid_min_side=0 ws_lo={:e} ws_hi={:e}", p.tokens(), name, kind, pts.len(), fr(pts[0].0), fr(pts[pts.len() - 1].0));
    match r {
      None => ctx.s("C08.anygrid", false, &format!("anygrid/panic{}", cp), &head),
      Some((c, ss, si)) => {
        let all = |f: &dyn Fn(f64) -> bool| (0..pts.len()).all(|k| f(ju(c[k])) && f(ju(ss[k])) && f(ju(si[k])));
        let finite = all(&|x| x.is_finite());
        let nonneg = all(&|x| !(x < 0.0));
        let ok = finite && nonneg;
        let sig = if ok { "anygrid/ok".to_string() } else if !finite { format!("anygrid/intensity-not-finite{}", cp) } else { format!("anygrid/intensity-negative{}", cp) };
        let bad = if ok { "bad_pairs=0".to_string() } else { bad_pairs(p, &pts, &c, &ss, &si) };
        ctx.s("C08.anygrid", ok, &sig, &format!("{} {}", head, bad));
      }
    }
    // K: the point routes at pairs of every class — zero frequency, negative, beyond the pump, the edge of the
    // validity box, the central pair
    let picks: Vec<(Frequency, Frequency)> = match ctx.rng.below(3) {
      0 => vec![(0.0 * wp, w0i), (w0s, w0i), (w0s, 0.0 * wp)],
      1 => vec![(-0.1 * wp, w0i), (0.0 * wp, wp), (1.2 * wp, w0i)],
      _ => vec![(0.02 * wp, 0.98 * wp), (0.125 * wp, 0.875 * wp), (0.04 * wp, w0i)],
    };
    for (ws, wi) in picks {
      point_k(ctx, p, ws, wi);
    }
  }
}

// ------------------------------------------------------------------------------------------------
// S: efficiency formulas on rate triples
// ------------------------------------------------------------------------------------------------

fn gen_rate(r: &mut Rng) -> f64 {
  match r.below(10) {
    0 => 0.0,
    1 => r.log_range(1e-150, 1e-100),
    2 => r.log_range(1e100, 1e150),
    3 => r.log_range(1e-300, 1e300),
    4 => f64::MIN_POSITIVE * r.range(0.0, 4.0),
    5 => -0.0,
    _ => r.log_range(1e-3, 1e9),
  }
}

fn eff_case(ctx: &mut Ctx, c: f64, rs: f64, ri: f64) {
  let e = match guard(|| efficiencies_from_counts(c * HZ, rs * HZ, ri * HZ)) {
    Some(e) => e,
    None => {
      ctx.s("C08.eff", false, "eff/panic", &format!("C={:e} Rs={:e} Ri={:e}", c, rs, ri));
      return;
    }
  };
  ctx.k("eff", &format!("{} {} {}", fl(c), fl(rs), fl(ri)), &format!("{} {} {}", fl(e.symmetric), fl(e.signal), fl(e.idler)));
  let d = format!("C={:e} Rs={:e} Ri={:e} sym={:e} sig={:e} idl={:e}", c, rs, ri, e.symmetric, e.signal, e.idler);
  // zero guards: 0, never NaN/inf, when a singles rate is zero
  if rs == 0.0 || ri == 0.0 {
    ctx.count("eff/zero-singles");
    let mut ok = e.symmetric == 0.0;
    if ri == 0.0 {
      ok = ok && e.signal == 0.0;
    }
    if rs == 0.0 {
      ok = ok && e.idler == 0.0;
    }
    let fin = e.symmetric.is_finite() && e.signal.is_finite() && e.idler.is_finite();
    // the unguarded one is C/R of a non-zero R: finite unless the quotient itself overflows
    let quotient_overflows = (ri != 0.0 && !(c / ri).is_finite()) || (rs != 0.0 && !(c / rs).is_finite());
    if !ok {
      ctx.s("C08.eff", false, "eff/zero-guard-not-zero", &d);
    } else if !fin && !quotient_overflows {
      ctx.s("C08.eff", false, "eff/zero-guard-non-finite", &d);
    } else {
      ctx.s("C08.eff", true, "eff/zero-guard-ok", &d);
    }
    return;
  }
  // formulas.  The statement's right-hand sides are evaluated in f64 in every association order whose
  // intermediate results stay inside the normal range (so that none of them over/underflows); the code must
  // agree with one of them to 8 eps.  Triples whose exact value is itself not a normal f64 are skipped.
  let normal = |x: f64| x == 0.0 || (x.is_finite() && x.abs() >= f64::MIN_POSITIVE);
  let close = |got: f64, want: f64| got == want || (got - want).abs() <= 8.0 * f64::EPSILON * want.abs();
  let ratio_ok = |got: f64, num: f64, den: f64| -> Option<bool> {
    let want = num / den;
    if !normal(want) || (want == 0.0 && num != 0.0) {
      return None;
    }
    Some(close(got, want))
  };
  if (rs != 0.0 && rs.abs() < f64::MIN_POSITIVE) || (ri != 0.0 && ri.abs() < f64::MIN_POSITIVE) {
    // a subnormal rate carries no relative precision itself: only require that nothing turns into NaN
    ctx.count("eff/subnormal-singles-rate");
    let ok = !(e.symmetric.is_nan() || e.signal.is_nan() || e.idler.is_nan());
    ctx.s("C08.eff", ok, if ok { "eff/subnormal-rate-ok" } else { "eff/subnormal-rate-nan" }, &d);
    return;
  }
  let mut cands: Vec<f64> = Vec::new();
  {
    let prod = rs * ri;
    if normal(prod) && prod != 0.0 {
      cands.push(c / prod.sqrt());
    }
    let (qs, qi) = (rs.sqrt(), ri.sqrt());
    let m = qs * qi;
    if normal(m) && m != 0.0 {
      cands.push(c / m);
    }
    let a = c / qs;
    if normal(a) && (a != 0.0 || c == 0.0) {
      cands.push(a / qi);
    }
    let b = c / qi;
    if normal(b) && (b != 0.0 || c == 0.0) {
      cands.push(b / qs);
    }
  }
  let cands: Vec<f64> = cands.into_iter().filter(|w| normal(*w) && (*w != 0.0 || c == 0.0)).collect();
  let ok_sig = ratio_ok(e.signal, c, ri);
  let ok_idl = ratio_ok(e.idler, c, rs);
  ctx.count("eff/positive-singles");
  if ok_sig == Some(false) || ok_idl == Some(false) {
    ctx.s("C08.eff", false, "eff/ratio-formula", &d);
  } else if !cands.is_empty() && !cands.iter().any(|w| close(e.symmetric, *w)) {
    let prod = rs * ri;
    let class = if prod == 0.0 || !prod.is_finite() || prod < f64::MIN_POSITIVE { "eff/symmetric-product-out-of-range" } else { "eff/symmetric-formula" };
    ctx.s("C08.eff", false, class, &format!("{} want_sym={:e}", d, cands[0]));
  } else {
    if cands.is_empty() || ok_sig.is_none() || ok_idl.is_none() {
      ctx.count("eff/exact-value-not-a-normal-f64");
    }
    ctx.s("C08.eff", true, "eff/formulas-ok", &d);
  }
}

// ------------------------------------------------------------------------------------------------
// S: no-diffraction limit
// ------------------------------------------------------------------------------------------------

/// erf by its Maclaurin series (|x| ≤ 4: 1e-13) — Rust's std has none
fn erf(x: f64) -> f64 {
  let mut term = x;
  let mut sum = x;
  let x2 = x * x;
  for n in 1..200 {
    term *= -x2 / (n as f64);
    let add = term / ((2 * n + 1) as f64);
    sum += add;
    if add.abs() < 1e-17 * sum.abs() {
      break;
    }
  }
  2.0 / std::f64::consts::PI.sqrt() * sum
}

fn walkoff_f(x: f64) -> f64 {
  if x.abs() < 1e-6 {
    1.0 - x * x / 3.0
  } else {
    std::f64::consts::PI.sqrt() * erf(x) / (2.0 * x)
  }
}

/// R = ¼ ∬ exp(−(d1²+d2²)/Wp² + (d1+d2)²·Ws²/(2Wp²(Wp²+Ws²))) dz1 dz2, d = ½·L·tanρ·(1+z), by Gauss–Legendre-64
fn singles_r(l: f64, tan_rho: f64, wp2: f64, ws2: f64) -> f64 {
  let quad = gauss_quad::GaussLegendre::new(64).unwrap();
  let d = |z: f64| 0.5 * l * tan_rho * (1.0 + z);
  0.25
    * quad.integrate(-1.0, 1.0, |z1| {
      quad.integrate(-1.0, 1.0, |z2| {
        let (d1, d2) = (d(z1), d(z2));
        (-(d1 * d1 + d2 * d2) / wp2 + (d1 + d2) * (d1 + d2) * ws2 / (2.0 * wp2 * (wp2 + ws2))).exp()
      })
    })
}

fn limit_case(ctx: &mut Ctx) {
  let opts = GenOpts {
    waist: (1000.0, 5000.0),
    length: (500.0, 20000.0),
    explicit_idler: true,
    counter_prop: false,
    apodization: false,
    poling: None,
    collinear: Some(true),
  };
  let (mut cfg, meta) = gen_config(&mut ctx.rng, &opts);
  if meta.poling {
    cfg["periodic_poling"]["poling_period_um"] = serde_json::json!("auto");
  } else {
    cfg["crystal"]["theta_deg"] = serde_json::json!("auto");
  }
  cfg["signal"]["waist_position_um"] = serde_json::json!("auto");
  // independent idler waist, everything else about the idler automatic: optimise after building
  let p = match make_pm(ctx, cfg, meta) {
    Some(p) => p,
    None => return,
  };
  let s = match guard(|| p.s.clone().try_as_optimum().ok()).flatten() {
    Some(s) => s,
    None => {
      ctx.count("skip/optimum-err");
      return;
    }
  };
  let (w0s, w0i) = (s.signal.frequency(), s.idler.frequency());
  // "at perfect phase matching": the optimum calls must actually have found Δk_z = 0 (sinc² = 1 − x²/3: x ≤ 1e-3)
  let x0 = dkz(&s, w0s, w0i) * 0.5 * s.crystal_setup.length.value_unsafe;
  if !(x0.abs() <= 1e-3) {
    ctx.count("limit/skip-not-perfectly-phase-matched");
    return;
  }
  let integ = if ctx.rng.coin() { Integrator::Simpson { divs: 200 } } else { Integrator::GaussLegendre { degree: 40 } };
  let js = s.joint_spectrum(integ);
  let c = ju(js.jsi(w0s, w0i));
  let ss = ju(js.jsi_singles(w0s, w0i));
  let si = ju(js.jsi_singles_idler_range(SignalIdlerFrequencyArray(vec![w0s, w0i]))[0]);
  let l = s.crystal_setup.length.value_unsafe;
  let tan_rho = s.pump.walkoff_angle(&s.crystal_setup).value_unsafe.tan();
  let wp2 = s.pump.waist().x_by_y().value_unsafe;
  let ws2 = s.signal.waist().x_by_y().value_unsafe;
  let wi2 = s.idler.waist().x_by_y().value_unsafe;
  let sigma = wp2 * ws2 + wp2 * wi2 + ws2 * wi2;
  let x = l * tan_rho.abs() * ((ws2 + wi2) / sigma).sqrt();
  let f = walkoff_f(x);
  let eta = |wa2: f64, wb2: f64| {
    // η = (2·Wb·Wh/(Wb²+Wh²))², 1/Wh² = 1/Wp² + 1/Wa²   (a = the detected beam, b = the heralded one)
    let wh2 = 1.0 / (1.0 / wp2 + 1.0 / wa2);
    4.0 * wb2 * wh2 / ((wb2 + wh2) * (wb2 + wh2))
  };
  let want_s = eta(ws2, wi2) * f * f / singles_r(l, tan_rho, wp2, ws2);
  let want_i = eta(wi2, ws2) * f * f / singles_r(l, tan_rho, wp2, wi2);
  let (got_s, got_i) = (c / ss, c / si);
  let ok = ((got_s - want_s) / want_s).abs() <= 1e-4 && ((got_i - want_i) / want_i).abs() <= 1e-4;
  ctx.count(if tan_rho.abs() > 1e-4 { "limit/with-walkoff" } else { "limit/no-walkoff" });
  ctx.s(
    "C08.limit",
    ok,
    if ok { "limit/ok" } else { "limit/ratio" },
    &format!(
      "{} integ={} x={:.5} F={:.8} ratio_s={:.8} want_s={:.8} ratio_i={:.8} want_i={:.8} dkL2={:e}",
      p.tokens(),
      integ_name(&integ),
      x,
      f,
      got_s,
      want_s,
      got_i,
      want_i,
      dkz(&s, w0s, w0i) * 0.5 * l
    ),
  );
}

// ------------------------------------------------------------------------------------------------

fn d9_setup(wp: f64, ws: f64, wi_: f64, l_um: f64) -> serde_json::Value {
  serde_json::json!({
    "crystal": {"kind": "KTP", "pm_type": "e->eo", "phi_deg": 0, "theta_deg": 90, "length_um": l_um, "temperature_c": 20},
    "pump": {"wavelength_nm": 775, "waist_um": wp, "bandwidth_nm": 0.5, "average_power_mw": 300},
    "signal": {"wavelength_nm": 1550, "phi_deg": 0, "theta_deg": 0, "waist_um": ws, "waist_position_um": "auto"},
    "idler": {"wavelength_nm": 1550, "phi_deg": 180, "theta_deg": 0, "waist_um": wi_, "waist_position_um": "auto"},
    "periodic_poling": {"poling_period_um": "auto"},
    "deff_pm_per_volt": 7.6
  })
}

fn fixed_meta(crystal: &str, pm: &str, poling: bool, l: f64, wp: f64, ws: f64, wi_: f64) -> Meta {
  Meta {
    crystal: crystal.into(),
    pm: pm.into(),
    poling,
    collinear: true,
    idler_explicit: true,
    idler_conj: true,
    cp: false,
    lp_nm: 775.0,
    ls_nm: 1550.0,
    length_um: l,
    wp_um: wp,
    ws_um: ws,
    wi_um: wi_,
    apod: "Off".into(),
  }
}

pub fn run(ctx: &mut Ctx) {
  let mode = ctx.extra.first().cloned().unwrap_or_default();
  if mode == "eff" {
    // efficiency formulas: a fixed table of corner triples, then random ones
    let corners = [0.0, -0.0, 1e-320, f64::MIN_POSITIVE, 1e-200, 1e-160, 1e-100, 1.0, 12345.678, 1e100, 1e160, 1e200, 1e300];
    for &c in corners.iter() {
      for &rs in corners.iter() {
        for &ri in corners.iter() {
          eff_case(ctx, c, rs, ri);
        }
      }
    }
    for _ in 0..ctx.n {
      let (c, rs, ri) = (gen_rate(&mut ctx.rng), gen_rate(&mut ctx.rng), gen_rate(&mut ctx.rng));
      eff_case(ctx, c, rs, ri);
      // physically ordered triple C ≤ min(Rs, Ri)
      let rs2 = ctx.rng.log_range(1e-3, 1e9);
      let ri2 = ctx.rng.log_range(1e-3, 1e9);
      let c2 = rs2.min(ri2) * ctx.rng.unit();
      eff_case(ctx, c2, rs2, ri2);
    }
    return;
  }
  if mode == "limit" {
    for _ in 0..ctx.n {
      limit_case(ctx);
    }
    return;
  }
  if mode == "singles" {
    // K only: the singles integrand on random *general* setups (not necessarily phase matched)
    let opts = GenOpts {
      waist: (20.0, 1000.0),
      length: (500.0, 20000.0),
      explicit_idler: true,
      counter_prop: true,
      apodization: true,
      poling: None,
      collinear: None,
    };
    let mut done = 0;
    let mut tries = 0;
    while done < ctx.n && tries < 20 * ctx.n {
      tries += 1;
      let (cfg, meta) = gen_config(&mut ctx.rng, &opts);
      let s = match build(&cfg) {
        Some(s) => s,
        None => continue,
      };
      done += 1;
      ctx.count(&format!("singles-k/crystal/{}", meta.crystal));
      ctx.count(&format!("singles-k/apod/{}", meta.apod));
      let sigma = fr(s.pump.frequency()) * 1e-4;
      for k in 0..2 {
        let (d, e) = if k == 0 { (0.0, 0.0) } else { (ctx.rng.normal() * sigma, ctx.rng.normal() * sigma * 0.1) };
        singles_k(ctx, &s, s.signal.frequency() + (d + e) * RAD / S, s.idler.frequency() + (e - d) * RAD / S);
      }
    }
    return;
  }
  if mode == "scan" {
    // map of the region where jsi > singles (D9): KTP e->eo poled 775→1550 and a few others, waists × length
    let integ = Integrator::GaussLegendre { degree: 40 };
    for &l in [500.0, 1000.0, 2000.0, 5000.0, 10000.0, 20000.0].iter() {
      for &w in [20.0, 30.0, 40.0, 50.0, 70.0, 100.0, 150.0, 200.0, 300.0].iter() {
        for &(fp, fs_, fi) in [(1.0, 1.0, 1.0), (2.0, 1.0, 1.0), (0.5, 1.0, 1.0), (1.0, 2.0, 1.0), (1.0, 1.0, 2.0), (3.0, 1.0, 1.0)].iter() {
          let cfg = d9_setup(w * fp, w * fs_, w * fi, l);
          if let Some(p) = make_pm(ctx, cfg, fixed_meta("KTP", "Type2_e_eo", true, l, w * fp, w * fs_, w * fi)) {
            pointwise(ctx, &p, integ, 1, 17);
          }
        }
      }
    }
    return;
  }

  // ---- default mode: phase-matched setups over the statement's domain
  // (mode "focus": the strongly focused corner of that domain only, to map the boundary of the D9 region)
  let focus = mode == "focus";
  // (mode "cp": counter-propagating setups only)
  let cp_only = mode == "cp";
  // (mode "displaced": explicit, clearly different collection foci only)
  let displaced_only = mode == "displaced";
  // (mode "anygrid": only the grids far outside the usual window, on every setup)
  let anygrid_only = mode == "anygrid";
  // (mode "mismatch": only setups whose counter_propagation flag disagrees with the beam directions)
  let mismatch_only = mode == "mismatch";
  let opts = GenOpts {
    waist: if focus { (20.0, 110.0) } else { (20.0, 300.0) },
    length: if focus { (2000.0, 20000.0) } else { (500.0, 20000.0) },
    explicit_idler: false,
    counter_prop: false,
    apodization: true,
    poling: None,
    collinear: None,
  };
  let (nu, nv) = if ctx.thorough { (3, 13) } else { (3, 7) };
  let mut done = 0usize;
  let mut tries = 0usize;
  // the probed D9 input first
  let mut fixed = vec![(d9_setup(30.0, 30.0, 30.0, 20000.0), fixed_meta("KTP", "Type2_e_eo", true, 20000.0, 30.0, 30.0, 30.0), false)];
  if ctx.seed % 2 == 0 {
    // and the crate's test setup (passes)
    fixed.push((d9_setup(200.0, 100.0, 100.0, 14000.0), fixed_meta("KTP", "Type2_e_eo", true, 14000.0, 200.0, 100.0, 100.0), false));
  }
  // near-unity heralding: ppKTP 0.5 mm 200/30 µm and 1 mm 300/40 µm, wide pump
  for (l, wp, wc, bw) in [(500.0, 200.0, 30.0, 2.0), (1000.0, 300.0, 40.0, 1.0)] {
    let mut cfg = d9_setup(wp, wc, wc, l);
    cfg["idler"] = serde_json::json!("auto");
    cfg["pump"]["bandwidth_nm"] = serde_json::json!(bw);
    let mut m = fixed_meta("KTP", "Type2_e_eo", true, l, wp, wc, wc);
    m.idler_explicit = false;
    fixed.push((cfg, m, true));
  }
  while done < ctx.n && tries < ctx.n * 40 {
    tries += 1;
    let mut high_eff = false;
    let p = if let Some((cfg, meta, he)) = fixed.pop() {
      high_eff = he;
      make_pm(ctx, cfg, meta)
    } else if mismatch_only || (!focus && !cp_only && !displaced_only && tries % 10 == 1) {
      gen_flag_mismatch(ctx, &opts)
    } else if !focus && !cp_only && !displaced_only && tries % 5 == 0 {
      high_eff = true;
      gen_high_eff(ctx)
    } else if cp_only || (!focus && tries % 5 == 2) {
      gen_cp(ctx, &opts)
    } else if displaced_only || (!focus && tries % 5 == 4) {
      gen_displaced(ctx, &opts)
    } else {
      gen_pm(ctx, &opts)
    };
    let p = match p {
      Some(p) => p,
      None => continue,
    };
    done += 1;
    ctx.count(&format!("crystal/{}", p.meta.crystal));
    ctx.count(&format!("pm/{}", p.meta.pm));
    ctx.count(&format!("poling/{}", if p.meta.poling { "on" } else { "off" }));
    ctx.count(&format!("signal/{}", if p.meta.collinear { "collinear" } else { "non-collinear" }));
    ctx.count(&format!("counter-propagation/{}", p.meta.cp as u8));
    let xm = p.xi_s.max(p.xi_i);
    ctx.count(&format!("xi_si/{}", if xm < 0.1 { "lt0.1" } else if xm < 0.5 { "0.1-0.5" } else if xm < 1.0 { "0.5-1" } else if xm < 3.0 { "1-3" } else { "gt3" }));
    if anygrid_only {
      any_grid(ctx, &p);
      continue;
    }
    pointwise(ctx, &p, Integrator::GaussLegendre { degree: 40 }, nu, nv);
    pointwise(ctx, &p, Integrator::Simpson { divs: 200 }, if ctx.thorough { nu } else { 1 }, if ctx.thorough { nv } else { 7 });
    rates(ctx, &p, Integrator::GaussLegendre { degree: 40 }, if ctx.thorough { 8 } else { 5 }, false);
    rates(ctx, &p, Integrator::GaussLegendre { degree: 40 }, 7, true);
    if ctx.thorough && done % 4 == 0 {
      rates(ctx, &p, Integrator::Simpson { divs: 200 }, 4, false);
    }
    if high_eff {
      ctx.count("high-efficiency-setups");
      rates(ctx, &p, Integrator::Simpson { divs: 200 }, 7, true);
    }
    singles_k(ctx, &p.s, p.s.signal.frequency(), p.s.idler.frequency());
    // grids far outside the usual window (every third setup; every second one in the thorough tier)
    if (ctx.thorough && done % 2 == 0) || (!ctx.thorough && done % 3 == 2) {
      any_grid(ctx, &p);
    }
    if done % 3 == 0 {
      history_rates(ctx, &p);
    }
    if done % 3 != 1 && p.zr() >= 0.4 {
      routes(ctx, &p);
    }
    if done % 3 == 1 {
      routes(ctx, &p);
      boundary(ctx, &p);
      // the smallest grid with a cell area (a side of one point has no division width: not a grid in the statement's sense)
      rates(ctx, &p, Integrator::GaussLegendre { degree: 40 }, 2, false);
    }
  }
  let _ = vacuum_wavelength_to_frequency(1e-6 * M);
}
