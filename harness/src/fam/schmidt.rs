//! C11 — Schmidt number
use crate::common::*;
use crate::fam::hom::{cxs, gen_setup, gen_setup_x, integrator_zoo, RangeArg};
use spdcalc::math::schmidt_number;
use spdcalc::prelude::*;

type C = Complex<f64>;
const TOL: f64 = 1e-9;

fn rand_c(r: &mut Rng) -> C {
  C::new(r.normal(), r.normal())
}

fn out(r: &Option<Result<f64, spdcalc::SPDCError>>) -> String {
  match r {
    Some(Ok(x)) => fl(*x),
    Some(Err(e)) => {
      if e.0.contains("not square") {
        "ERR:not-square".into()
      } else {
        "ERR:svd".into()
      }
    }
    None => "PANIC".into(),
  }
}

fn val(r: &Option<Result<f64, spdcalc::SPDCError>>) -> Option<f64> {
  match r {
    Some(Ok(x)) => Some(*x),
    _ => None,
  }
}

/// `schmidt_number<T: AsRef<[Complex<f64>]>>`: the array is handed over as `Vec`, as a slice, as `Box<[_]>` and as `&Vec`
/// in turn (chosen by a content-independent counter: length + side effects free)
fn call(v: &[C]) -> Option<Result<f64, spdcalc::SPDCError>> {
  let vv = v.to_vec();
  match (v.len() + v.first().map_or(0, |z| (z.re.to_bits() >> 3) as usize & 3)) % 4 {
    0 => guard(move || schmidt_number(vv)),
    1 => guard(move || schmidt_number(&vv[..])),
    2 => guard(move || schmidt_number(vv.into_boxed_slice())),
    _ => guard(move || schmidt_number(&vv)),
  }
}

/// The closed form the statement names, evaluated without an SVD: with A = |F| (element-wise magnitudes, row-major n×n) and
/// M = AᵀA, Σσ² = tr M = ‖A‖_F² and Σσ⁴ = tr M² = ‖M‖_F², so K = (Σσ²)²/Σσ⁴ = (tr M)²/tr M². All terms are sums of
/// non-negative numbers (no cancellation).
fn formula(v: &[C], n: usize) -> f64 {
  let a: Vec<f64> = v.iter().map(|z| z.re.hypot(z.im)).collect();
  let mut tr = 0.0;
  let mut tr2 = 0.0;
  for j in 0..n {
    for k in 0..n {
      let mut g = 0.0;
      for i in 0..n {
        g += a[i * n + j] * a[i * n + k];
      }
      if j == k {
        tr += g;
      }
      tr2 += g * g;
    }
  }
  tr * tr / tr2
}

/// the array itself as a `key=value` token for small sides (replay by hand)
fn arr_txt(v: &[C], n: usize) -> String {
  if n > 3 {
    return "-".into();
  }
  v.iter().map(|z| format!("{:e}{}{:e}i", z.re, if z.im.is_sign_negative() { "-" } else { "+" }, z.im.abs())).collect::<Vec<_>>().join(",")
}

fn relclose(a: f64, b: f64) -> bool {
  (a - b).abs() <= TOL * a.abs().max(b.abs())
}

pub fn run(ctx: &mut Ctx) {
  let maxn = if ctx.thorough { 40 } else { 12 };
  let maxlen = if ctx.thorough { 1700 } else { 150 };

  // ---- every length: Ok exactly on perfect squares
  for len in 0..=maxlen {
    let v: Vec<C> = (0..len).map(|_| rand_c(&mut ctx.rng)).collect();
    let r = call(&v);
    ctx.k("schmidt", &cxs(&v), &out(&r));
    let d = (len as f64).sqrt().round() as usize;
    let square = d * d == len;
    ctx.count(if square { "length/square" } else { "length/non-square" });
    if !square {
      let ok = matches!(&r, Some(Err(_)));
      ctx.s("C11.nonsquare", ok, "schmidt/nonsquare-rejected", &format!("len={}", len));
    } else if len > 0 {
      let ok = matches!(&r, Some(Ok(_)));
      ctx.s("C11.nonsquare", ok, "schmidt/square-accepted", &format!("len={}", len));
    }
  }
  // a few large non-square / square lengths
  for &len in &[2499usize, 2500, 2501, 4095, 4096, 4097] {
    if !ctx.thorough && len > 2501 {
      continue;
    }
    let v: Vec<C> = (0..len).map(|_| rand_c(&mut ctx.rng)).collect();
    let r = call(&v);
    ctx.k("schmidt", &cxs(&v), &out(&r));
  }

  // ---- structured arrays
  for n in 1..=6usize {
    for kind in 0..10 {
      case(ctx, n, kind);
    }
  }
  for _ in 0..ctx.n {
    let n = ctx.rng.between(1, maxn);
    let kind = ctx.rng.below(10);
    case(ctx, n, kind);
  }

  // ---- exactly structured arrays (exactly real / imaginary parts, signs, integers, exact zeros, ±0.0)
  // every 2×2 pattern of ±1 as an exactly real, an exactly imaginary and a real-or-imaginary array ([[1,1],[1,-1]] …)
  for mask in 0..16usize {
    for mode in 0..3usize {
      let v: Vec<C> = (0..4).map(|k| {
        let x = if mask >> k & 1 == 1 { -1.0 } else { 1.0 };
        match mode { 0 => C::new(x, 0.0), 1 => C::new(0.0, x), _ => if k % 2 == 0 { C::new(x, -0.0) } else { C::new(0.0, x) } }
      }).collect();
      eval_case(ctx, "signs-2x2", 2, v, C::new(1.0, 0.0), false, false, mode == 0 && mask % 4 == 1);
    }
  }
  for n in 1..=6usize {
    for kind in 0..NEXACT {
      exact_case(ctx, n, kind);
    }
  }
  for _ in 0..ctx.n * 2 / 3 {
    let n = ctx.rng.between(1, maxn);
    let kind = ctx.rng.below(NEXACT);
    exact_case(ctx, n, kind);
  }

  // ---- setup-level wrapper: square ranges, rectangular ranges with a square number of points
  // (4×9, 2×8, 3×12, 1×4, 9×4 …) and with a non-square number of points (6×11, 2×3 … ⇒ Err)
  let ns = if ctx.thorough { 160 } else { 40 };
  let sides: &[usize] = if ctx.thorough { &[1, 2, 3, 5, 8, 16, 24] } else { &[1, 2, 4, 6, 8] };
  let rect: &[(usize, usize)] = &[(4, 9), (9, 4), (2, 8), (8, 2), (3, 12), (1, 4), (4, 1), (1, 9), (2, 18), (4, 16), (5, 20)];
  let bad: &[(usize, usize)] = &[(6, 11), (2, 3), (3, 2), (1, 2), (5, 7), (4, 8), (7, 6), (1, 3)];
  // GaussKonrod is not exercised: quad-rs gives up on these smooth integrands (MaxIterExceeded ⇒ `unwrap` panic,
  // finding D40 of C12) after ≈ 2 s per integral, i.e. minutes per spectrum object (measured: 109 s for one point)
  ctx.count("setup/integrator/GaussKonrod-skipped(D40)");
  for c in 0..ns {
    let st = if c % 4 == 0 { gen_setup(&mut ctx.rng, None) } else { gen_setup_x(&mut ctx.rng, None) };
    let (nx, ny, shape) = match c % 4 {
      0 | 1 => {
        let n = *ctx.rng.pick(sides);
        (n, n, "square")
      }
      2 => {
        let (a, b) = *ctx.rng.pick(rect);
        (a, b, "rect-square-length")
      }
      _ => {
        let (a, b) = *ctx.rng.pick(bad);
        (a, b, "rect-nonsquare-length")
      }
    };
    // every integrator variant of the API in turn (the spectrum object carries its integrator)
    let zoo = integrator_zoo(&mut ctx.rng, false);
    // odd cases: the adaptive rules (last two of the zoo), even cases: the fixed-step ones
    let (iname, integ) = if c % 2 == 1 { zoo[6 + (c / 2) % 2].clone() } else { zoo[(c / 2) % 6].clone() };
    ctx.count(&format!("setup/integrator/{}", iname.split('{').next().unwrap_or("?")));
    let sp = st.spdc.joint_spectrum(integ);
    let o = st.spdc.optimum_range(nx.max(2));
    let os = o.steps();
    // axes: the setup's optimum range, or (one case in two) IDENTICAL signal and idler axes spanning both
    let identical_axes = ctx.rng.coin();
    let range = if identical_axes {
      let lo = if os.0 .0 < os.1 .0 { os.0 .0 } else { os.1 .0 };
      let hi = if os.0 .1 > os.1 .1 { os.0 .1 } else { os.1 .1 };
      spdcalc::jsa::FrequencySpace::new((lo, hi, nx), (lo, hi, ny))
    } else {
      spdcalc::jsa::FrequencySpace::new((os.0 .0, os.0 .1, nx), (os.1 .0, os.1 .1, ny))
    };
    ctx.count(if identical_axes { "setup/axes/identical" } else { "setup/axes/optimum" });
    ctx.count(&format!("setup/family/{}", st.name.split(',').next().unwrap_or("?")));
    // the range is handed over as each accepted argument type in turn (FrequencySpace, Steps2D<Frequency>,
    // WavelengthSpace, SumDiffFrequencySpace); "the setup's sampled amplitudes" are those on the signal × idler
    // frequency grid that argument converts to
    // (`Steps2D<Frequency>` is exercised through the HOM wrappers of C09/C10 only: here the three range *spaces* are
    // used, which also implement `IntoSignalIdlerIterator`, so that the harness keeps compiling — and reports a failing
    // input rather than a build failure — if the bound of `schmidt_number` is changed to that trait)
    let arg = match RangeArg::pick(c / 2 + c % 2 * (c / 8), range) {
      RangeArg::Steps(_) => RangeArg::pick([0usize, 2, 3][(c / 3) % 3], range),
      a => a,
    };
    let range = arg.frequency_space();
    ctx.count(&format!("setup/range-arg/{}", arg.name()));
    let amps = sp.jsa_range(range);
    let r = guard(|| match arg {
      RangeArg::Freq(rr) => sp.schmidt_number(rr),
      RangeArg::Wl(rr) => sp.schmidt_number(rr),
      RangeArg::SumDiff(rr) => sp.schmidt_number(rr),
      RangeArg::Steps(rr) => sp.schmidt_number(spdcalc::jsa::FrequencySpace::from(rr)),
    });
    // K: the wrapper against the model fed with the implementation's own samples
    ctx.k("schmidt", &cxs(&amps), &out(&r));
    let direct = call(&amps);
    let ok = match (&r, &direct) {
      (Some(Ok(a)), Some(Ok(b))) => relclose(*a, *b) || (a.is_nan() && b.is_nan()),
      (Some(Err(_)), Some(Err(_))) => true,
      _ => false,
    };
    ctx.count(&format!("setup/wrapper/{}", shape));
    ctx.s(
      "C11.wrapper",
      ok,
      &format!("schmidt/setup-eq-array/{}", shape),
      &format!("setup={} integrator={} range_arg={} axes={} nx={} ny={} samples={} wrapper={} on_samples={}", st.name, iname, arg.name(), if identical_axes { "identical" } else { "optimum" }, nx, ny, amps.len(), out_txt(&r), out_txt(&direct)),
    );
    let d = ((nx * ny) as f64).sqrt().round() as usize;
    if d * d != nx * ny {
      ctx.s("C11.nonsquare", matches!(&r, Some(Err(_))), "schmidt/setup-nonsquare-rejected", &format!("setup={} nx={} ny={} wrapper={}", st.name, nx, ny, out_txt(&r)));
    }
    if nx == ny {
      if let Some(k) = val(&r) {
        if amps.iter().any(|z| z.norm() > 0.0) {
          let okb = k >= 1.0 - TOL && k <= nx as f64 * (1.0 + TOL);
          ctx.s("C11.bounds", okb, "schmidt/setup-bounds", &format!("setup={} n={} K={:e}", st.name, nx, k));
        }
      }
    }
  }
}

fn out_txt(r: &Option<Result<f64, spdcalc::SPDCError>>) -> String {
  match r {
    Some(Ok(x)) => format!("{:e}", x),
    Some(Err(_)) => "Err".into(),
    None => "PANIC".into(),
  }
}

fn case(ctx: &mut Ctx, n: usize, kind: usize) {
  let r = &mut ctx.rng;
  let (name, v): (&str, Vec<C>) = match kind {
    0 => ("random", (0..n * n).map(|_| rand_c(r)).collect()),
    1 => {
      // separable (outer product)
      let u: Vec<C> = (0..n).map(|_| rand_c(r)).collect();
      let w: Vec<C> = (0..n).map(|_| rand_c(r)).collect();
      ("rank-1", (0..n * n).map(|k| u[k / n] * w[k % n]).collect())
    }
    2 => {
      // diagonal of equal magnitudes, random phases
      let m = r.log_range(1e-3, 1e3);
      let ph: Vec<f64> = (0..n).map(|_| r.range(-3.2, 3.2)).collect();
      ("diagonal-equal", (0..n * n).map(|k| if k / n == k % n { C::from_polar(m, ph[k / n]) } else { C::new(0.0, 0.0) }).collect())
    }
    3 => {
      // permutation pattern of equal magnitudes
      let mut p: Vec<usize> = (0..n).collect();
      for i in (1..n).rev() {
        let j = r.below(i + 1);
        p.swap(i, j);
      }
      let m = r.log_range(1e-3, 1e3);
      let ph: Vec<f64> = (0..n).map(|_| r.range(-3.2, 3.2)).collect();
      ("permuted-equal", (0..n * n).map(|k| if p[k / n] == k % n { C::from_polar(m, ph[k / n]) } else { C::new(0.0, 0.0) }).collect())
    }
    4 => {
      // low rank magnitude structure + small noise
      let u: Vec<f64> = (0..n).map(|_| r.unit() + 0.1).collect();
      let w: Vec<f64> = (0..n).map(|_| r.unit() + 0.1).collect();
      let eps = r.log_range(1e-6, 1e-1);
      ("near-separable", (0..n * n).map(|k| C::from_polar(u[k / n] * w[k % n] + eps * r.unit(), r.range(-3.2, 3.2))).collect())
    }
    6 | 7 => {
      // structural zeros: the first a and the last b rows (kind 6) / columns (kind 7) are exactly zero,
      // everything else populated (one side only when a or b is 0)
      let a = r.below(n / 2 + 1);
      let b = if a == 0 { r.between(1.min(n / 2), (n / 2).max(1).min(n.saturating_sub(1))) } else { r.below(n / 2 + 1) };
      let rows = kind == 6;
      (
        if rows { "zero-border-rows" } else { "zero-border-cols" },
        (0..n * n)
          .map(|k| {
            let q = if rows { k / n } else { k % n };
            if q < a || q + b >= n { C::new(0.0, 0.0) } else { rand_c(r) }
          })
          .collect(),
      )
    }
    8 => {
      // block-sparse: one populated rectangular block anywhere, zero elsewhere
      let (r0, c0) = (r.below(n), r.below(n));
      let (r1, c1) = (r.between(r0, n - 1), r.between(c0, n - 1));
      (
        "block-sparse",
        (0..n * n).map(|k| if k / n >= r0 && k / n <= r1 && k % n >= c0 && k % n <= c1 { rand_c(r) } else { C::new(0.0, 0.0) }).collect(),
      )
    }
    9 => {
      // shifted / permuted diagonal of equal magnitudes with some entries removed
      let mut p: Vec<usize> = (0..n).collect();
      if r.coin() {
        let sh = r.below(n);
        for (i, x) in p.iter_mut().enumerate() {
          *x = (i + sh) % n;
        }
      } else {
        for i in (1..n).rev() {
          let j = r.below(i + 1);
          p.swap(i, j);
        }
      }
      let m = r.log_range(1e-3, 1e3);
      let keep: Vec<bool> = (0..n).map(|i| if i == 0 || i + 1 == n { r.below(3) == 0 } else { r.below(4) != 0 }).collect();
      ("diagonal-with-holes", (0..n * n).map(|k| if p[k / n] == k % n && keep[k / n] { C::from_polar(m, 1.0) } else { C::new(0.0, 0.0) }).collect())
    }
    _ => {
      // banded (correlated) Gaussian ridge
      let wd = r.range(0.3, 3.0);
      ("ridge", (0..n * n).map(|k| {
        let d = (k / n) as f64 - (k % n) as f64;
        C::from_polar((-d * d / (2.0 * wd * wd)).exp(), r.range(-3.2, 3.2))
      }).collect())
    }
  };
  // absolute amplitude scale: the statement quantifies over every non-zero array and claims invariance
  // under any global complex factor, so two cases in three carry a factor log-uniform in 1e-30 … 1e+30
  // (σ⁴ and (Σσ²)² stay far inside the f64 range: ≤ 1e140)
  let c0 = match ctx.rng.below(3) {
    0 => C::new(1.0, 0.0),
    _ => C::from_polar(ctx.rng.log_range(1e-30, 1e30), ctx.rng.range(-3.2, 3.2)),
  };
  // one case in three also goes through the exact variants (sign flips, quarter turns, conjugation, magnitudes)
  let exact_variants = ctx.rng.below(3) == 0;
  eval_case(ctx, name, n, v, c0, kind == 1, kind == 2 || kind == 3, exact_variants);
}

fn zero(r: &mut Rng) -> f64 {
  if r.below(3) == 0 { -0.0 } else { 0.0 }
}

/// element-wise exact quarter turn z·iᵏ (component swaps and negations only: no rounding, zeros stay zeros)
fn turn(z: C, k: usize) -> C {
  match k % 4 {
    0 => z,
    1 => C::new(-z.im, z.re),
    2 => C::new(-z.re, -z.im),
    _ => C::new(z.im, -z.re),
  }
}

const NEXACT: usize = 14;

/// Exactly structured arrays: exactly real (signed), exactly imaginary, entries that are real or imaginary, integer-valued,
/// Hadamard-like sign patterns, signed separable / diagonal / permutation / block patterns, sparse with exact (±0.0) zeros
/// at the edges and in the centre, symmetric / Hermitian / antisymmetric / triangular arrays, a real model spectrum with
/// negative side lobes — nothing here goes through `from_polar` or a complex product with a generic factor, so imaginary
/// (or real) parts that are exactly ±0.0 stay so. The global factor is exact as well (±1, ±i, a power of two, a real or
/// purely imaginary factor over the sixty decades; one case in six a generic complex one).
fn exact_case(ctx: &mut Ctx, n: usize, kind: usize) {
  let r = &mut ctx.rng;
  let mut sep = false;
  let mut eqd = false;
  // how a real number x is embedded: 0 real (x, ±0), 1 imaginary (±0, x)
  let emb = |r: &mut Rng, x: f64, how: usize| if how == 0 { C::new(x, zero(r)) } else { C::new(zero(r), x) };
  let how = if r.below(4) == 0 { 1 } else { 0 };
  let perm = |r: &mut Rng| {
    let mut p: Vec<usize> = (0..n).collect();
    for i in (1..n).rev() {
      let j = r.below(i + 1);
      p.swap(i, j);
    }
    p
  };
  let (name, v): (&str, Vec<C>) = match kind {
    0 => ("real-signed", (0..n * n).map(|_| { let x = r.normal(); emb(r, x, 0) }).collect()),
    1 => ("imag-signed", (0..n * n).map(|_| { let x = r.normal(); emb(r, x, 1) }).collect()),
    2 => (
      "mixed-real-imag",
      (0..n * n)
        .map(|_| {
          let x = r.normal();
          match r.below(5) {
            0 | 1 => emb(r, x, 0),
            2 | 3 => emb(r, x, 1),
            _ => C::new(zero(r), zero(r)),
          }
        })
        .collect(),
    ),
    3 => {
      // integer-valued: real integers, Gaussian integers, or 0/±1 entries
      let mode = r.below(3);
      (
        "integer",
        (0..n * n)
          .map(|_| {
            let a = r.below(7) as f64 - 3.0;
            let b = r.below(7) as f64 - 3.0;
            match mode {
              0 => emb(r, a, how),
              1 => C::new(a, b),
              _ => { let t = (r.below(3) as f64) - 1.0; emb(r, t, how) }
            }
          })
          .collect(),
      )
    }
    4 => {
      // Hadamard-like sign pattern (-1)^popcount(i&j) (Sylvester's for n a power of two), or a random ±1 pattern, on magnitudes
      // that are all equal / separable u_i·w_j / random
      let mode = r.below(3);
      let random_signs = r.below(3) == 0;
      let m = r.log_range(1e-3, 1e3);
      let u: Vec<f64> = (0..n).map(|_| r.unit() + 0.1).collect();
      let w: Vec<f64> = (0..n).map(|_| r.unit() + 0.1).collect();
      (
        "sign-pattern",
        (0..n * n)
          .map(|k| {
            let (i, j) = (k / n, k % n);
            let neg = if random_signs { r.coin() } else { (i & j).count_ones() % 2 == 1 };
            let mag = match mode {
              0 => m,
              1 => u[i] * w[j],
              _ => r.unit() + 0.05,
            };
            emb(r, if neg { -mag } else { mag }, how)
          })
          .collect(),
      )
    }
    5 => {
      // signed separable: u ⊗ w with real signed u, w (sign pattern s_i·t_j) — K = 1
      sep = true;
      let u: Vec<f64> = (0..n).map(|_| r.normal()).collect();
      let w: Vec<f64> = (0..n).map(|_| r.normal()).collect();
      ("separable-real-signed", (0..n * n).map(|k| emb(r, u[k / n] * w[k % n], how)).collect())
    }
    6 => {
      // (permuted) diagonal of equal magnitudes with signs ±m, exact zeros elsewhere — K = n
      eqd = true;
      let p = if r.coin() { (0..n).collect() } else { perm(r) };
      let m = if r.coin() { 1.0 } else { r.log_range(1e-3, 1e3) };
      (
        "diagonal-equal-signed",
        (0..n * n)
          .map(|k| if p[k / n] == k % n { let x = if r.coin() { -m } else { m }; if r.below(4) == 0 { turn(emb(r, x, how), 1) } else { emb(r, x, how) } } else { C::new(zero(r), zero(r)) })
          .collect(),
      )
    }
    7 => {
      // (permuted) diagonal of UNEQUAL signed entries, exact zeros elsewhere (formula: (Σd²)²/Σd⁴)
      let p = if r.coin() { (0..n).collect() } else { perm(r) };
      ("diagonal-unequal-signed", (0..n * n).map(|k| if p[k / n] == k % n { let x = r.normal() * r.log_range(1e-2, 1e2); emb(r, x, how) } else { C::new(zero(r), zero(r)) }).collect())
    }
    8 => {
      // block diagonal: blocks of side 1–3, each a real signed block (2×2 blocks one time in two of the form [[a, b], [b, -a]])
      let mut blk = vec![0usize; n];
      let mut i = 0;
      let mut b = 0;
      while i < n {
        let sz = r.between(1, 3).min(n - i);
        for q in i..i + sz {
          blk[q] = b;
        }
        i += sz;
        b += 1;
      }
      let a0 = r.normal();
      let b0 = r.normal();
      let refl = r.coin();
      (
        "block-diagonal-signed",
        (0..n * n)
          .map(|k| {
            let (i, j) = (k / n, k % n);
            if blk[i] != blk[j] {
              return C::new(zero(r), zero(r));
            }
            let first = (0..n).position(|q| blk[q] == blk[i]).unwrap();
            let x = if refl { match (i - first, j - first) { (0, 0) => a0, (1, 1) => -a0, (0, 1) | (1, 0) => b0, _ => r.normal() } } else { r.normal() };
            emb(r, x, how)
          })
          .collect(),
      )
    }
    9 => {
      // sparse with exact zeros: zero rows / columns at the edges, a zero centre (cross or block), the rest real signed
      let (ra, rb, ca, cb) = (r.below(n / 3 + 1), r.below(n / 3 + 1), r.below(n / 3 + 1), r.below(n / 3 + 1));
      let centre = r.below(3);
      let (c_lo, c_hi) = (n / 3, n - n / 3);
      (
        "sparse-real-signed",
        (0..n * n)
          .map(|k| {
            let (i, j) = (k / n, k % n);
            let edge = i < ra || i + rb >= n || j < ca || j + cb >= n;
            let mid = match centre {
              0 => false,
              1 => i >= c_lo && i < c_hi && j >= c_lo && j < c_hi,
              _ => i == n / 2 || j == n / 2,
            };
            if (edge || mid) && n > 1 { C::new(zero(r), zero(r)) } else { let x = r.normal(); emb(r, x, how) }
          })
          .collect(),
      )
    }
    10 => {
      // symmetric real signed / antisymmetric real / Hermitian / upper triangular real signed
      let mode = r.below(4);
      let g: Vec<C> = (0..n * n).map(|_| C::new(r.normal(), r.normal())).collect();
      (
        ["symmetric-real", "antisymmetric-real", "hermitian", "triangular-real"][mode],
        (0..n * n)
          .map(|k| {
            let (i, j) = (k / n, k % n);
            let (lo, hi) = (i.min(j), i.max(j));
            let z = g[lo * n + hi];
            match mode {
              0 => emb(r, z.re, how),
              1 => if i == j { C::new(zero(r), zero(r)) } else { emb(r, if i < j { z.re } else { -z.re }, how) },
              2 => if i == j { C::new(z.re, zero(r)) } else if i < j { z } else { z.conj() },
              _ => if i <= j { emb(r, z.re, how) } else { C::new(zero(r), zero(r)) },
            }
          })
          .collect(),
      )
    }
    11 => {
      // a real model spectrum: Gaussian pump envelope in (x + y) times sinc phase matching in (x − y)·a + (x + y)·b,
      // `Complex::new(value, 0.)` — negative side lobes
      let sp = r.range(0.5, 3.0);
      let (a, b) = (r.range(0.5, 6.0), r.range(-1.0, 1.0));
      let h = 2.0 / (n.max(2) - 1) as f64;
      (
        "real-model-spectrum",
        (0..n * n)
          .map(|k| {
            let (x, y) = (-1.0 + h * (k / n) as f64, -1.0 + h * (k % n) as f64);
            let t = a * (x - y) + b * (x + y);
            let sinc = if t == 0.0 { 1.0 } else { t.sin() / t };
            C::new((-(x + y) * (x + y) * sp).exp() * sinc, 0.0)
          })
          .collect(),
      )
    }
    12 => {
      // a few generic complex entries in an otherwise exactly real signed array (first / last / one random position)
      let pos = [0, n * n - 1, r.below(n * n)][r.below(3)];
      ("real-signed-one-complex", (0..n * n).map(|k| { let x = r.normal(); if k == pos { C::new(x, r.normal() * r.log_range(1e-18, 1.0)) } else { emb(r, x, 0) } }).collect())
    }
    _ => {
      // checkerboard / stripes / circulant sign patterns on constant magnitude (rank-1 magnitudes: K = 1 by phase invariance)
      let mode = r.below(3);
      let m = r.log_range(1e-3, 1e3);
      let sh = r.between(1, n.max(2) - 1);
      (
        "sign-lattice",
        (0..n * n)
          .map(|k| {
            let (i, j) = (k / n, k % n);
            let neg = match mode {
              0 => (i + j) % 2 == 1 && (i * j) % 3 != 1,
              1 => i >= j,
              _ => (i + n - j) % n == sh % n,
            };
            emb(r, if neg { -m } else { m }, how)
          })
          .collect(),
      )
    }
  };
  // exact global factor
  let mag = match ctx.rng.below(4) {
    0 => 1.0,
    1 => (2.0f64).powi(ctx.rng.between(0, 160) as i32 - 80),
    2 => [2.0, 0.5, 3.0, 10.0, 0.1][ctx.rng.below(5)],
    _ => ctx.rng.log_range(1e-30, 1e30),
  };
  let c0 = match ctx.rng.below(6) {
    0 | 1 => C::new(mag, 0.0),
    2 => C::new(-mag, 0.0),
    3 => C::new(0.0, mag),
    4 => C::new(0.0, -mag),
    _ => C::from_polar(mag, ctx.rng.range(-3.2, 3.2)),
  };
  eval_case(ctx, name, n, v, c0, sep, eqd, true);
}

/// all clauses of the statement + the correspondence on `base · c0` and on its variants
#[allow(clippy::too_many_arguments)]
fn eval_case(ctx: &mut Ctx, name: &str, n: usize, base: Vec<C>, c0: C, separable: bool, equal_diagonal: bool, exact_variants: bool) {
  let v: Vec<C> = base.iter().map(|z| z * c0).collect();
  let decade = c0.norm().log10().floor() as i64;
  ctx.count(&format!("array/scale=1e{}", if c0.norm() == 1.0 { "0/unit".to_string() } else { format!("{:+}", (decade.div_euclid(10)) * 10) }));
  ctx.count(&format!("array/{}", name));
  ctx.count(&format!("array/side={}", if n <= 2 { n.to_string() } else if n <= 12 { "3-12".into() } else { "13+".into() }));
  let all_real = v.iter().all(|z| z.im == 0.0);
  let all_imag = v.iter().all(|z| z.re == 0.0);
  ctx.count(if all_real && all_imag { "array/parts/all-zero" } else if all_real { "array/parts/exactly-real" } else if all_imag { "array/parts/exactly-imaginary" } else if v.iter().all(|z| z.re == 0.0 || z.im == 0.0) { "array/parts/each-entry-real-or-imaginary" } else { "array/parts/complex" });
  if v.iter().any(|z| (z.re == 0.0 && z.re.is_sign_negative()) || (z.im == 0.0 && z.im.is_sign_negative())) {
    ctx.count("array/has-negative-zero");
  }
  if all_real && v.iter().any(|z| z.re < 0.0) {
    ctx.count("array/exactly-real-with-negative-entries");
  }
  let res = call(&v);
  ctx.k("schmidt", &cxs(&v), &out(&res));
  let k0 = val(&res);
  let det = format!("kind={} n={} scale={:e} factor={:e}{:+e}i K={:?} seedcase={} arr={}", name, n, c0.norm(), c0.re, c0.im, k0, ctx.seed, arr_txt(&v, n));
  let nonzero = v.iter().any(|z| z.norm() > 0.0);
  if !nonzero {
    return;
  }
  // K = (Σσ²)²/Σσ⁴ over the singular values of the element-wise magnitude matrix (closed form evaluated without SVD)
  let f = formula(&v, n);
  ctx.s("C11.formula", matches!(k0, Some(k) if relclose(k, f)), "schmidt/formula", &format!("{} formula={:e}", det, f));
  // bounds 1 ≤ K ≤ n
  let okb = matches!(k0, Some(k) if k >= 1.0 - TOL && k <= n as f64 * (1.0 + TOL));
  ctx.s("C11.bounds", okb, "schmidt/bounds", &det);
  if separable {
    ctx.s("C11.extremes", matches!(k0, Some(k) if (k - 1.0).abs() <= TOL), "schmidt/separable-one", &det);
  }
  if equal_diagonal {
    ctx.s("C11.extremes", matches!(k0, Some(k) if relclose(k, n as f64)), "schmidt/equal-diagonal-n", &det);
  }
  // invariances
  let r = &mut ctx.rng;
  // another global factor over the same sixty decades, applied to the unscaled array
  let c = C::from_polar(r.log_range(1e-30, 1e30), r.range(-3.2, 3.2));
  let scaled: Vec<C> = base.iter().map(|z| z * c).collect();
  let phased: Vec<C> = v.iter().map(|z| z * C::from_polar(1.0, r.range(-3.2, 3.2))).collect();
  let transposed: Vec<C> = (0..n * n).map(|k| v[(k % n) * n + k / n]).collect();
  let mut variants: Vec<(&str, f64, Vec<C>)> = vec![("scale", c.norm(), scaled), ("phase", 1.0, phased), ("transpose", 1.0, transposed)];
  if exact_variants {
    // exact factor: real or purely imaginary, signed (an exactly real array stays exactly real or becomes exactly imaginary)
    let m = match r.below(3) {
      0 => [2.0, 0.5, 3.0, 1.0, 7.0][r.below(5)],
      1 => (2.0f64).powi(r.between(0, 160) as i32 - 80),
      _ => r.log_range(1e-30, 1e30),
    };
    let ce = match r.below(4) {
      0 => C::new(m, 0.0),
      1 => C::new(-m, 0.0),
      2 => C::new(0.0, m),
      _ => C::new(0.0, -m),
    };
    variants.push(("scale-exact", m, base.iter().map(|z| z * ce).collect()));
    // element-wise phases that are exact: signs ±1, quarter turns iᵏ, conjugation, and removal of every phase (|z| + 0i)
    variants.push(("phase-signs", 1.0, v.iter().map(|z| if r.coin() { -z } else { *z }).collect()));
    variants.push(("phase-quarter-turns", 1.0, v.iter().map(|z| turn(*z, r.below(4))).collect()));
    variants.push(("phase-conjugate", 1.0, v.iter().map(|z| z.conj()).collect()));
    variants.push(("phase-removed", 1.0, v.iter().map(|z| C::new(z.norm(), 0.0)).collect()));
  }
  for (what, factor, w) in variants.iter() {
    let rr = call(w);
    ctx.k("schmidt", &cxs(w), &out(&rr));
    let ok = match (k0, val(&rr)) {
      (Some(a), Some(b)) => relclose(a, b),
      _ => false,
    };
    ctx.s("C11.invariance", ok, &format!("schmidt/invariant-{}", what), &format!("{} factor={:e} after={:?} arr_after={}", det, factor, val(&rr), arr_txt(w, n)));
    // the formula clause on the variant as well (it is a non-zero square array in its own right)
    let fw = formula(w, n);
    ctx.s("C11.formula", matches!(val(&rr), Some(k) if relclose(k, fw)), &format!("schmidt/formula/{}-variant", what), &format!("{} after={:?} formula={:e} arr_after={}", det, val(&rr), fw, arr_txt(w, n)));
  }
}
