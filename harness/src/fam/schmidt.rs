//! C11 — Schmidt number
use crate::common::*;
use crate::fam::hom::{cxs, gen_setup, gen_setup_x, integrator_zoo, RangeArg};
use spdcalc::math::schmidt_number;
use spdcalc::prelude::*;

type C = Complex<f64>;
const TOL: f64 = 1e-9;

fn rand_c(r: &mut Rng) -> C {
  C::new(r.normal(), r.normal())
}

fn out(r: &Option<Result<f64, spdcalc::SPDCError>>) -> String {
  match r {
    Some(Ok(x)) => fl(*x),
    Some(Err(e)) => {
      if e.0.contains("not square") {
        "ERR:not-square".into()
      } else {
        "ERR:svd".into()
      }
    }
    None => "PANIC".into(),
  }
}

fn val(r: &Option<Result<f64, spdcalc::SPDCError>>) -> Option<f64> {
  match r {
    Some(Ok(x)) => Some(*x),
    _ => None,
  }
}

fn call(v: &[C]) -> Option<Result<f64, spdcalc::SPDCError>> {
  let vv = v.to_vec();
  guard(move || schmidt_number(vv))
}

fn relclose(a: f64, b: f64) -> bool {
  (a - b).abs() <= TOL * a.abs().max(b.abs())
}

pub fn run(ctx: &mut Ctx) {
  let maxn = if ctx.thorough { 40 } else { 12 };
  let maxlen = if ctx.thorough { 1700 } else { 150 };

  // ---- every length: Ok exactly on perfect squares
  for len in 0..=maxlen {
    let v: Vec<C> = (0..len).map(|_| rand_c(&mut ctx.rng)).collect();
    let r = call(&v);
    ctx.k("schmidt", &cxs(&v), &out(&r));
    let d = (len as f64).sqrt().round() as usize;
    let square = d * d == len;
    ctx.count(if square { "length/square" } else { "length/non-square" });
    if !square {
      let ok = matches!(&r, Some(Err(_)));
      ctx.s("C11.nonsquare", ok, "schmidt/nonsquare-rejected", &format!("len={}", len));
    } else if len > 0 {
      let ok = matches!(&r, Some(Ok(_)));
      ctx.s("C11.nonsquare", ok, "schmidt/square-accepted", &format!("len={}", len));
    }
  }
  // a few large non-square / square lengths
  for &len in &[2499usize, 2500, 2501, 4095, 4096, 4097] {
    if !ctx.thorough && len > 2501 {
      continue;
    }
    let v: Vec<C> = (0..len).map(|_| rand_c(&mut ctx.rng)).collect();
    let r = call(&v);
    ctx.k("schmidt", &cxs(&v), &out(&r));
  }

  // ---- structured arrays
  for n in 1..=6usize {
    for kind in 0..10 {
      case(ctx, n, kind);
    }
  }
  for _ in 0..ctx.n {
    let n = ctx.rng.between(1, maxn);
    let kind = ctx.rng.below(10);
    case(ctx, n, kind);
  }

  // ---- setup-level wrapper: square ranges, rectangular ranges with a square number of points
  // (4×9, 2×8, 3×12, 1×4, 9×4 …) and with a non-square number of points (6×11, 2×3 … ⇒ Err)
  let ns = if ctx.thorough { 160 } else { 40 };
  let sides: &[usize] = if ctx.thorough { &[1, 2, 3, 5, 8, 16, 24] } else { &[1, 2, 4, 6, 8] };
  let rect: &[(usize, usize)] = &[(4, 9), (9, 4), (2, 8), (8, 2), (3, 12), (1, 4), (4, 1), (1, 9), (2, 18), (4, 16), (5, 20)];
  let bad: &[(usize, usize)] = &[(6, 11), (2, 3), (3, 2), (1, 2), (5, 7), (4, 8), (7, 6), (1, 3)];
  // GaussKonrod is not exercised: quad-rs gives up on these smooth integrands (MaxIterExceeded ⇒ `unwrap` panic,
  // finding D40 of C12) after ≈ 2 s per integral, i.e. minutes per spectrum object (measured: 109 s for one point)
  ctx.count("setup/integrator/GaussKonrod-skipped(D40)");
  for c in 0..ns {
    let st = if c % 4 == 0 { gen_setup(&mut ctx.rng, None) } else { gen_setup_x(&mut ctx.rng, None) };
    let (nx, ny, shape) = match c % 4 {
      0 | 1 => {
        let n = *ctx.rng.pick(sides);
        (n, n, "square")
      }
      2 => {
        let (a, b) = *ctx.rng.pick(rect);
        (a, b, "rect-square-length")
      }
      _ => {
        let (a, b) = *ctx.rng.pick(bad);
        (a, b, "rect-nonsquare-length")
      }
    };
    // every integrator variant of the API in turn (the spectrum object carries its integrator)
    let zoo = integrator_zoo(&mut ctx.rng, false);
    // odd cases: the adaptive rules (last two of the zoo), even cases: the fixed-step ones
    let (iname, integ) = if c % 2 == 1 { zoo[6 + (c / 2) % 2].clone() } else { zoo[(c / 2) % 6].clone() };
    ctx.count(&format!("setup/integrator/{}", iname.split('{').next().unwrap_or("?")));
    let sp = st.spdc.joint_spectrum(integ);
    let o = st.spdc.optimum_range(nx.max(2));
    let os = o.steps();
    // axes: the setup's optimum range, or (one case in two) IDENTICAL signal and idler axes spanning both
    let identical_axes = ctx.rng.coin();
    let range = if identical_axes {
      let lo = if os.0 .0 < os.1 .0 { os.0 .0 } else { os.1 .0 };
      let hi = if os.0 .1 > os.1 .1 { os.0 .1 } else { os.1 .1 };
      spdcalc::jsa::FrequencySpace::new((lo, hi, nx), (lo, hi, ny))
    } else {
      spdcalc::jsa::FrequencySpace::new((os.0 .0, os.0 .1, nx), (os.1 .0, os.1 .1, ny))
    };
    ctx.count(if identical_axes { "setup/axes/identical" } else { "setup/axes/optimum" });
    ctx.count(&format!("setup/family/{}", st.name.split(',').next().unwrap_or("?")));
    // the range is handed over as each accepted argument type in turn (FrequencySpace, Steps2D<Frequency>,
    // WavelengthSpace, SumDiffFrequencySpace); "the setup's sampled amplitudes" are those on the signal × idler
    // frequency grid that argument converts to
    // (`Steps2D<Frequency>` is exercised through the HOM wrappers of C09/C10 only: here the three range *spaces* are
    // used, which also implement `IntoSignalIdlerIterator`, so that the harness keeps compiling — and reports a failing
    // input rather than a build failure — if the bound of `schmidt_number` is changed to that trait)
    let arg = match RangeArg::pick(c / 2 + c % 2 * (c / 8), range) {
      RangeArg::Steps(_) => RangeArg::pick([0usize, 2, 3][(c / 3) % 3], range),
      a => a,
    };
    let range = arg.frequency_space();
    ctx.count(&format!("setup/range-arg/{}", arg.name()));
    let amps = sp.jsa_range(range);
    let r = guard(|| match arg {
      RangeArg::Freq(rr) => sp.schmidt_number(rr),
      RangeArg::Wl(rr) => sp.schmidt_number(rr),
      RangeArg::SumDiff(rr) => sp.schmidt_number(rr),
      RangeArg::Steps(rr) => sp.schmidt_number(spdcalc::jsa::FrequencySpace::from(rr)),
    });
    // K: the wrapper against the model fed with the implementation's own samples
    ctx.k("schmidt", &cxs(&amps), &out(&r));
    let direct = call(&amps);
    let ok = match (&r, &direct) {
      (Some(Ok(a)), Some(Ok(b))) => relclose(*a, *b) || (a.is_nan() && b.is_nan()),
      (Some(Err(_)), Some(Err(_))) => true,
      _ => false,
    };
    ctx.count(&format!("setup/wrapper/{}", shape));
    ctx.s(
      "C11.wrapper",
      ok,
      &format!("schmidt/setup-eq-array/{}", shape),
      &format!("setup={} integrator={} range_arg={} axes={} nx={} ny={} samples={} wrapper={} on_samples={}", st.name, iname, arg.name(), if identical_axes { "identical" } else { "optimum" }, nx, ny, amps.len(), out_txt(&r), out_txt(&direct)),
    );
    let d = ((nx * ny) as f64).sqrt().round() as usize;
    if d * d != nx * ny {
      ctx.s("C11.nonsquare", matches!(&r, Some(Err(_))), "schmidt/setup-nonsquare-rejected", &format!("setup={} nx={} ny={} wrapper={}", st.name, nx, ny, out_txt(&r)));
    }
    if nx == ny {
      if let Some(k) = val(&r) {
        if amps.iter().any(|z| z.norm() > 0.0) {
          let okb = k >= 1.0 - TOL && k <= nx as f64 * (1.0 + TOL);
          ctx.s("C11.bounds", okb, "schmidt/setup-bounds", &format!("setup={} n={} K={:e}", st.name, nx, k));
        }
      }
    }
  }
}

fn out_txt(r: &Option<Result<f64, spdcalc::SPDCError>>) -> String {
  match r {
    Some(Ok(x)) => format!("{:e}", x),
    Some(Err(_)) => "Err".into(),
    None => "PANIC".into(),
  }
}

fn case(ctx: &mut Ctx, n: usize, kind: usize) {
  let r = &mut ctx.rng;
  let (name, v): (&str, Vec<C>) = match kind {
    0 => ("random", (0..n * n).map(|_| rand_c(r)).collect()),
    1 => {
      // separable (outer product)
      let u: Vec<C> = (0..n).map(|_| rand_c(r)).collect();
      let w: Vec<C> = (0..n).map(|_| rand_c(r)).collect();
      ("rank-1", (0..n * n).map(|k| u[k / n] * w[k % n]).collect())
    }
    2 => {
      // diagonal of equal magnitudes, random phases
      let m = r.log_range(1e-3, 1e3);
      let ph: Vec<f64> = (0..n).map(|_| r.range(-3.2, 3.2)).collect();
      ("diagonal-equal", (0..n * n).map(|k| if k / n == k % n { C::from_polar(m, ph[k / n]) } else { C::new(0.0, 0.0) }).collect())
    }
    3 => {
      // permutation pattern of equal magnitudes
      let mut p: Vec<usize> = (0..n).collect();
      for i in (1..n).rev() {
        let j = r.below(i + 1);
        p.swap(i, j);
      }
      let m = r.log_range(1e-3, 1e3);
      let ph: Vec<f64> = (0..n).map(|_| r.range(-3.2, 3.2)).collect();
      ("permuted-equal", (0..n * n).map(|k| if p[k / n] == k % n { C::from_polar(m, ph[k / n]) } else { C::new(0.0, 0.0) }).collect())
    }
    4 => {
      // low rank magnitude structure + small noise
      let u: Vec<f64> = (0..n).map(|_| r.unit() + 0.1).collect();
      let w: Vec<f64> = (0..n).map(|_| r.unit() + 0.1).collect();
      let eps = r.log_range(1e-6, 1e-1);
      ("near-separable", (0..n * n).map(|k| C::from_polar(u[k / n] * w[k % n] + eps * r.unit(), r.range(-3.2, 3.2))).collect())
    }
    6 | 7 => {
      // structural zeros: the first a and the last b rows (kind 6) / columns (kind 7) are exactly zero,
      // everything else populated (one side only when a or b is 0)
      let a = r.below(n / 2 + 1);
      let b = if a == 0 { r.between(1.min(n / 2), (n / 2).max(1).min(n.saturating_sub(1))) } else { r.below(n / 2 + 1) };
      let rows = kind == 6;
      (
        if rows { "zero-border-rows" } else { "zero-border-cols" },
        (0..n * n)
          .map(|k| {
            let q = if rows { k / n } else { k % n };
            if q < a || q + b >= n { C::new(0.0, 0.0) } else { rand_c(r) }
          })
          .collect(),
      )
    }
    8 => {
      // block-sparse: one populated rectangular block anywhere, zero elsewhere
      let (r0, c0) = (r.below(n), r.below(n));
      let (r1, c1) = (r.between(r0, n - 1), r.between(c0, n - 1));
      (
        "block-sparse",
        (0..n * n).map(|k| if k / n >= r0 && k / n <= r1 && k % n >= c0 && k % n <= c1 { rand_c(r) } else { C::new(0.0, 0.0) }).collect(),
      )
    }
    9 => {
      // shifted / permuted diagonal of equal magnitudes with some entries removed
      let mut p: Vec<usize> = (0..n).collect();
      if r.coin() {
        let sh = r.below(n);
        for (i, x) in p.iter_mut().enumerate() {
          *x = (i + sh) % n;
        }
      } else {
        for i in (1..n).rev() {
          let j = r.below(i + 1);
          p.swap(i, j);
        }
      }
      let m = r.log_range(1e-3, 1e3);
      let keep: Vec<bool> = (0..n).map(|i| if i == 0 || i + 1 == n { r.below(3) == 0 } else { r.below(4) != 0 }).collect();
      ("diagonal-with-holes", (0..n * n).map(|k| if p[k / n] == k % n && keep[k / n] { C::from_polar(m, 1.0) } else { C::new(0.0, 0.0) }).collect())
    }
    _ => {
      // banded (correlated) Gaussian ridge
      let wd = r.range(0.3, 3.0);
      ("ridge", (0..n * n).map(|k| {
        let d = (k / n) as f64 - (k % n) as f64;
        C::from_polar((-d * d / (2.0 * wd * wd)).exp(), r.range(-3.2, 3.2))
      }).collect())
    }
  };
  // absolute amplitude scale: the statement quantifies over every non-zero array and claims invariance
  // under any global complex factor, so two cases in three carry a factor log-uniform in 1e-30 … 1e+30
  // (σ⁴ and (Σσ²)² stay far inside the f64 range: ≤ 1e140)
  let base = v;
  let c0 = match ctx.rng.below(3) {
    0 => C::new(1.0, 0.0),
    _ => C::from_polar(ctx.rng.log_range(1e-30, 1e30), ctx.rng.range(-3.2, 3.2)),
  };
  let v: Vec<C> = base.iter().map(|z| z * c0).collect();
  let decade = c0.norm().log10().floor() as i64;
  ctx.count(&format!("array/scale=1e{}", if c0.norm() == 1.0 { "0/unit".to_string() } else { format!("{:+}", (decade.div_euclid(10)) * 10) }));
  ctx.count(&format!("array/{}", name));
  ctx.count(&format!("array/side={}", if n <= 2 { n.to_string() } else if n <= 12 { "3-12".into() } else { "13+".into() }));
  let res = call(&v);
  ctx.k("schmidt", &cxs(&v), &out(&res));
  let k0 = val(&res);
  let det = format!("kind={} n={} scale={:e} K={:?} seedcase={}", name, n, c0.norm(), k0, ctx.seed);
  let nonzero = v.iter().any(|z| z.norm() > 0.0);
  if !nonzero {
    return;
  }
  // bounds 1 ≤ K ≤ n
  let okb = matches!(k0, Some(k) if k >= 1.0 - TOL && k <= n as f64 * (1.0 + TOL));
  ctx.s("C11.bounds", okb, "schmidt/bounds", &det);
  if kind == 1 {
    ctx.s("C11.extremes", matches!(k0, Some(k) if (k - 1.0).abs() <= TOL), "schmidt/separable-one", &det);
  }
  if kind == 2 || kind == 3 {
    ctx.s("C11.extremes", matches!(k0, Some(k) if relclose(k, n as f64)), "schmidt/equal-diagonal-n", &det);
  }
  // invariances
  let r = &mut ctx.rng;
  // another global factor over the same sixty decades, applied to the unscaled array
  let c = C::from_polar(r.log_range(1e-30, 1e30), r.range(-3.2, 3.2));
  let scaled: Vec<C> = base.iter().map(|z| z * c).collect();
  let phased: Vec<C> = v.iter().map(|z| z * C::from_polar(1.0, r.range(-3.2, 3.2))).collect();
  let transposed: Vec<C> = (0..n * n).map(|k| v[(k % n) * n + k / n]).collect();
  for (what, w) in [("scale", &scaled), ("phase", &phased), ("transpose", &transposed)] {
    let rr = call(w);
    ctx.k("schmidt", &cxs(w), &out(&rr));
    let ok = match (k0, val(&rr)) {
      (Some(a), Some(b)) => relclose(a, b),
      _ => false,
    };
    ctx.s("C11.invariance", ok, &format!("schmidt/invariant-{}", what), &format!("{} factor={:e} after={:?}", det, if what == "scale" { c.norm() } else { 1.0 }, val(&rr)));
  }
}
