//! C05 / C06 / C07 — coincidence phase-matching integrand, exchange symmetry, scaling/envelope/support.
//! usage: vh pm <seed> <n> <tier> <mode>   with mode ∈ {k, c05, c06, c07}
use crate::common::*;
use spdcalc::dim::ucum::{DEG, K, M, MILLIW, RAD, S};
use spdcalc::jsa::{jsa_raw, jsi_singles_raw, FrequencySpace, IntoSignalIdlerIterator, JointSpectrum, SumDiffFrequencySpace, WavelengthSpace};
use spdcalc::math::Integrator;
use spdcalc::phasematch::{
  fwhm_to_spectral_width, get_pm_integrand, jsi_normalization, jsi_singles_normalization,
  phasematch_fiber_coupling, phasematch_singles_fiber_coupling, pump_spectral_amplitude,
};
use spdcalc::utils::{from_celsius_to_kelvin, frequency_to_vacuum_wavelength, vacuum_wavelength_to_frequency, Steps2D};
use spdcalc::beam::{Beam, BeamWaist, IdlerBeam, PumpBeam, SignalBeam};
use spdcalc::{
  Apodization, Complex, CrystalSetup, CrystalType, Frequency, JsiNorm,
  JsiSinglesNorm, MetersPerMilliVolt, PMType, PerMeter3, PerMeter4, PeriodicPoling, PolarizationType, Sign,
  SPDC,
};

pub const CRYSTALS: [CrystalType; 11] = [
  CrystalType::BBO_1,
  CrystalType::KTP,
  CrystalType::BiBO_1,
  CrystalType::LiNbO3_1,
  CrystalType::LiNb_MgO,
  CrystalType::KDP_1,
  CrystalType::AgGaSe2_1,
  CrystalType::AgGaSe2_2,
  CrystalType::LiIO3_2,
  CrystalType::LiIO3_1,
  CrystalType::AgGaS2_1,
];
pub const PMTYPES: [PMType; 5] = [
  PMType::Type0_o_oo,
  PMType::Type0_e_ee,
  PMType::Type1_e_oo,
  PMType::Type2_e_eo,
  PMType::Type2_e_oe,
];

fn w(x: f64) -> Frequency {
  x * RAD / S
}
fn raw_w(x: Frequency) -> f64 {
  x.value_unsafe
}

/// transmission window in metres (LiNbO3_1's META is a unit slip on the pinned tree: use nm scale)
pub fn window(c: &CrystalType) -> (f64, f64) {
  match c.get_meta().transmission_range {
    Some(r) if r.1 > 1e-8 => (r.0, r.1),
    Some(r) => (r.0 * 1e3, r.1 * 1e3),
    None => (400e-9, 2000e-9),
  }
}

fn pol_char(p: PolarizationType) -> &'static str {
  match p {
    PolarizationType::Ordinary => "o",
    PolarizationType::Extraordinary => "e",
  }
}

pub fn gen_apodization(r: &mut Rng, l: f64) -> Apodization {
  match r.below(9) {
    0 => Apodization::Off,
    1 => Apodization::Gaussian { fwhm: r.range(0.3, 2.0) * l * M },
    2 => Apodization::Bartlett(r.range(1.0, 3.0)),
    3 => Apodization::Blackman(r.range(1.0, 3.0)),
    4 => Apodization::Connes(r.range(1.0, 3.0)),
    5 => Apodization::Cosine(r.range(1.0, 3.0)),
    6 => Apodization::Hamming(r.range(1.0, 3.0)),
    7 => Apodization::Welch(r.range(1.0, 3.0)),
    _ => {
      let n = r.between(2, 9);
      Apodization::Interpolate((0..n).map(|_| r.unit()).collect())
    }
  }
}

pub struct GenOpts {
  /// collinear, large waists (C05 family)
  pub plane_wave: bool,
  /// phase-match with the crate's own optimum calls
  pub phase_matched: bool,
  /// collinear counter-propagating pair, poled: Some(true) = signal backward / idler forward,
  /// Some(false) = signal forward / idler backward (the orientation the optimum calls produce)
  pub counter: Option<bool>,
  /// biaxial crystal cut away from the principal axes (θ 20…75°, φ ∈ {0, 90°}), poled
  pub tilted_biaxial: bool,
  /// never poled (angle phase matching); the caller may add an explicit grating afterwards
  pub unpoled: bool,
}

/// wavelengths (pump, signal) inside the window, signal non-degenerate unless `deg`
fn gen_wavelengths(r: &mut Rng, c: &CrystalType, deg: bool) -> Option<(f64, f64)> {
  let (lo, hi) = window(c);
  let lo = lo * 1.03;
  let hi = hi * 0.97;
  if 2.05 * lo >= hi {
    return None;
  }
  let lp = r.log_range(lo, hi / 2.05);
  // idler = ls*lp/(ls-lp) <= hi  <=>  ls >= lp*hi/(hi-lp)
  let ls_min = (lp * hi / (hi - lp)).max(lp * 1.05);
  let ls_max = hi;
  if ls_min >= ls_max {
    return None;
  }
  let ls = if deg { 2.0 * lp } else { r.range(ls_min, ls_max) };
  Some((lp, ls))
}

/// A random setup built through the crate's own constructors.
pub fn gen_setup(r: &mut Rng, o: &GenOpts) -> Option<SPDC> {
  let crystal = if o.tilted_biaxial { r.pick(&[CrystalType::KTP, CrystalType::BiBO_1]).clone() } else { r.pick(&CRYSTALS).clone() };
  let pm_type = if o.tilted_biaxial && r.coin() { PMType::Type0_o_oo } else { *r.pick(&PMTYPES) };
  let deg = !o.plane_wave && r.below(6) == 0;
  let (lp, ls) = gen_wavelengths(r, &crystal, deg)?;
  let li = ls * lp / (ls - lp);
  let l = if o.plane_wave { r.log_range(0.5e-3, 20e-3) } else { r.log_range(0.3e-3, 30e-3) };
  let poled = (r.coin() || o.counter.is_some() || o.tilted_biaxial) && !o.unpoled;
  let crystal_setup = CrystalSetup {
    crystal,
    pm_type,
    theta: if o.tilted_biaxial { r.range(20.0, 75.0) * DEG } else if poled && r.coin() { 90.0 * DEG } else { r.range(0.0, 90.0) * DEG },
    phi: if o.tilted_biaxial { if r.coin() { 0.0 * DEG } else { 90.0 * DEG } } else if r.coin() { 0.0 * DEG } else { r.range(0.0, 90.0) * DEG },
    length: l * M,
    temperature: from_celsius_to_kelvin(r.range(15.0, 80.0)),
    counter_propagation: o.counter.is_some(),
  };
  let (ws, wi, wpx, wpy) = if o.plane_wave {
    let wp = r.log_range(2e-3, 20e-3);
    (r.log_range(2e-3, 20e-3), r.log_range(2e-3, 20e-3), wp, wp)
  } else {
    let wp = r.log_range(20e-6, 1e-3);
    let wpy = if r.below(4) == 0 { wp * r.range(0.5, 2.0) } else { wp };
    (r.log_range(15e-6, 400e-6), r.log_range(15e-6, 400e-6), wp, wpy)
  };
  let signal: SignalBeam = Beam::new(
    pm_type.signal_polarization(),
    0.0 * RAD,
    0.0 * RAD,
    ls * M,
    BeamWaist::new(ws * M),
  )
  .into();
  let idler: IdlerBeam = Beam::new(
    pm_type.idler_polarization(),
    std::f64::consts::PI * RAD,
    0.0 * RAD,
    li * M,
    BeamWaist::new(wi * M),
  )
  .into();
  let pump: PumpBeam = Beam::new(
    pm_type.pump_polarization(),
    0.0 * RAD,
    0.0 * RAD,
    lp * M,
    BeamWaist { x: wpx * M, y: wpy * M },
  )
  .into();
  let apod = if poled && !o.plane_wave { gen_apodization(r, l) } else { Apodization::Off };
  let pp = if poled {
    // QPM-like periods ≪ L, and (1/8) gratings comparable to or longer than the crystal: |Λ| = 0.1 L … 10 L
    let mag = if !o.phase_matched && r.below(8) == 0 { l * r.log_range(0.1, 10.0) } else { r.log_range(2e-6, 200e-6) };
    let p = mag * if r.coin() { 1.0 } else { -1.0 };
    PeriodicPoling::new(p * M, apod)
  } else {
    PeriodicPoling::Off
  };
  let mut spdc = SPDC::new(
    crystal_setup,
    signal,
    idler,
    pump,
    r.log_range(0.05e-9, 20e-9) * M,
    r.log_range(1.0, 1000.0) * MILLIW,
    *r.pick(&[1e-9, 1e-2, 0.1]),
    pp,
    0.0 * M,
    0.0 * M,
    MetersPerMilliVolt::new(r.log_range(0.1e-15, 20e-15)),
  );
  if o.counter == Some(true) {
    // backward signal: try_as_optimum keeps it backward (θ = 180°) and makes the idler forward
    spdc.signal.set_angles(0.0 * RAD, std::f64::consts::PI * RAD);
  }
  if o.phase_matched {
    // the crate's own optimum: crystal angle (unpoled) or poling period (poled), optimum idler,
    // optimal waist positions.  Failures (panic / Err) are C04/C17 territory: skip.
    let keep_wi = spdc.idler.waist();
    let s2 = spdc.clone();
    let opt = guard(move || s2.try_as_optimum())?.ok()?;
    spdc = opt;
    spdc.idler.set_waist(keep_wi);
  }
  if !o.plane_wave {
    // non-collinear signal: external angle up to 3°, arbitrary azimuth
    let phi_s = if r.below(5) == 0 { 0.0 } else { r.range(0.0, 360.0) };
    let theta_e = if r.below(6) == 0 { 0.0 } else { r.range(0.0, 3.0) };
    let cs = spdc.crystal_setup.clone();
    let mut sig = spdc.signal.clone();
    guard(move || {
      sig.set_phi(phi_s * DEG);
      sig.set_theta_external(theta_e * DEG, &cs);
      sig
    })
    .map(|s| spdc.signal = s)?;
    if !o.phase_matched && r.below(10) == 0 {
      // counter-propagating signal (direction().z < 0)
      spdc.crystal_setup.counter_propagation = true;
      let th = std::f64::consts::PI - spdc.signal.theta_internal().value_unsafe;
      let ph = spdc.signal.phi();
      spdc.signal.set_angles(ph, th * RAD);
    }
    if r.coin() {
      let s2 = spdc.clone();
      if let Some(Ok(id)) = guard(move || s2.optimum_idler()) {
        let wi0 = spdc.idler.waist();
        spdc.idler = id;
        spdc.idler.set_waist(wi0);
      }
    } else {
      let phi_i = r.range(0.0, 360.0);
      let th_i = r.range(0.0, 0.04);
      spdc.idler.set_angles(phi_i * DEG, th_i * RAD);
    }
    match r.below(3) {
      0 => {
        let s2 = spdc.clone();
        spdc = guard(move || s2.with_optimal_waist_positions())?;
      }
      _ => {
        spdc.signal_waist_position = r.range(-1.0, 0.2) * l * M;
        spdc.idler_waist_position = r.range(-1.0, 0.2) * l * M;
      }
    }
  }
  // everything the integrand reads must be finite
  let v = view(&spdc)?;
  if !v.all_finite() {
    return None;
  }
  Some(spdc)
}

/// the frequency-independent numbers `get_pm_integrand` reads through public getters
pub struct View {
  pub l: f64,
  pub sig: [f64; 7], // phi theta thetaE wx wy z0 sgn
  pub idl: [f64; 7],
  pub wpx: f64,
  pub wpy: f64,
  pub rho: f64,
  pub keff: f64,
}
impl View {
  pub fn all_finite(&self) -> bool {
    self.l.is_finite()
      && self.sig.iter().chain(self.idl.iter()).all(|x| x.is_finite())
      && self.wpx.is_finite()
      && self.wpy.is_finite()
      && self.rho.is_finite()
      && self.keff.is_finite()
  }
}

pub fn view(spdc: &SPDC) -> Option<View> {
  let s = spdc.clone();
  guard(move || {
    let cs = &s.crystal_setup;
    let b = |b: &Beam, z0: f64| -> [f64; 7] {
      [
        b.phi().value_unsafe,
        b.theta_internal().value_unsafe,
        b.theta_external(cs).value_unsafe,
        b.waist().x.value_unsafe,
        b.waist().y.value_unsafe,
        z0,
        b.direction().z.signum(),
      ]
    };
    View {
      l: cs.length.value_unsafe,
      sig: b(&s.signal, s.signal_waist_position.value_unsafe),
      idl: b(&s.idler, s.idler_waist_position.value_unsafe),
      wpx: s.pump.waist().x.value_unsafe,
      wpy: s.pump.waist().y.value_unsafe,
      rho: s.pump.walkoff_angle(cs).value_unsafe,
      keff: s.pp.k_eff().value_unsafe,
    }
  })
}

/// 24 tokens: L sig(9) idl(9) wpx wpy nP rho keff — with the indices at (ws, wi, ws+wi)
pub fn setup_tokens(v: &View, spdc: &SPDC, ws: f64, wi: f64) -> String {
  let cs = &spdc.crystal_setup;
  let ns = *spdc.signal.refractive_index(w(ws), cs);
  let ni = *spdc.idler.refractive_index(w(wi), cs);
  let np = *spdc.pump.refractive_index(w(ws) + w(wi), cs);
  let mut t: Vec<f64> = vec![v.l];
  t.extend_from_slice(&v.sig);
  t.push(ns);
  t.push(ws);
  t.extend_from_slice(&v.idl);
  t.push(ni);
  t.push(wi);
  t.extend_from_slice(&[v.wpx, v.wpy, np, v.rho, v.keff]);
  fls(&t)
}

/// 6 tokens of the joint-spectrum view: omegaP bandwidth threshold power deff ppOn
pub fn jsa_tokens(spdc: &SPDC) -> String {
  fls(&[
    raw_w(spdc.pump.frequency()),
    spdc.pump_bandwidth.value_unsafe,
    spdc.pump_spectrum_threshold,
    spdc.pump_average_power.value_unsafe,
    spdc.deff.value_unsafe,
    if spdc.pp == PeriodicPoling::Off { 0.0 } else { 1.0 },
  ])
}

/// `<m> (z w)*` : the apodisation weights at the given z
pub fn apod_table(spdc: &SPDC, zs: &[f64]) -> String {
  let l = spdc.crystal_setup.length;
  let mut t = Vec::with_capacity(2 * zs.len());
  for &z in zs {
    t.push(z);
    t.push(guard(|| spdc.pp.integration_constant(z, l)).unwrap_or(f64::NAN));
  }
  format!("{} {}", zs.len(), fls(&t))
}

/// nodes of `math::simpson` on [-1,1] as `phasematch_fiber_coupling` visits them
pub fn simpson_nodes(divs: usize) -> Vec<f64> {
  if divs + divs % 2 < 2 {
    return vec![];
  }
  let d = divs + divs % 2 - 2;
  if d < 4 {
    return vec![];
  }
  let dx = (1.0 - (-1.0)) / (d as f64);
  (0..=d).map(|i| -1.0 + (i as f64) * dx).collect()
}

/// Σ(|Re f(x_i)|+|Im f(x_i)|) w_i · dx/3 · ½ over the Simpson nodes: the absolute sum behind the z-integral
pub fn simpson_abs_scale(spdc: &SPDC, ws: f64, wi: f64, divs: usize) -> Option<f64> {
  let nodes = simpson_nodes(divs);
  if nodes.is_empty() {
    return None;
  }
  let d = nodes.len() - 1;
  let dx = (1.0 - (-1.0)) / (d as f64);
  let s2 = spdc.clone();
  guard(move || {
    let f = get_pm_integrand(w(ws), w(wi), &s2);
    let mut acc = 0.0;
    for (i, &z) in nodes.iter().enumerate() {
      let wgt = if i == 0 || i == d { 1.0 } else if i % 2 == 1 { 4.0 } else { 2.0 };
      let v = f(z);
      acc += (v.re.abs() + v.im.abs()) * wgt;
    }
    0.5 * (acc * (dx / 3.0))
  })
}

fn cx(z: Complex<f64>) -> String {
  format!("{} {}", fl(z.re), fl(z.im))
}

/// frequencies around the centre: sum detuning within the pump envelope, difference detuning wide
pub fn gen_freqs(r: &mut Rng, spdc: &SPDC) -> (f64, f64) {
  let ws0 = raw_w(spdc.signal.frequency());
  let wi0 = raw_w(spdc.idler.frequency());
  let sigma =
    raw_w(fwhm_to_spectral_width(spdc.pump.vacuum_wavelength(), spdc.pump_bandwidth));
  let dsum = r.normal() * 0.5 * sigma;
  let ddiff = r.normal() * 10f64.powf(r.range(10.0, 13.0));
  (ws0 + 0.5 * dsum + ddiff, wi0 + 0.5 * dsum - ddiff)
}

fn describe(spdc: &SPDC) -> String {
  let cs = &spdc.crystal_setup;
  let (per, apo) = match &spdc.pp {
    PeriodicPoling::Off => ("off".to_string(), "Off"),
    PeriodicPoling::On { period, sign, apodization } => (
      format!("{:e}", period.value_unsafe * if *sign == Sign::POSITIVE { 1.0 } else { -1.0 }),
      apodization.kind(),
    ),
  };
  format!(
    "pols={}{}{} crystal={} pm={} ctheta={:.10} cphi={:.10} L={:e} T={:.4} lp={:.9e} ls={:.9e} li={:.9e} phis={:.10} thetas={:.10} phii={:.10} thetai={:.10} ws={:e} wi={:e} wsy={:e} wiy={:e} wpx={:e} wpy={:e} z0s={:e} z0i={:e} period={} apod={} bw={:e} power={:e} deff={:e} thr={:e}",
    pol_char(spdc.pump.polarization()),
    pol_char(spdc.signal.polarization()),
    pol_char(spdc.idler.polarization()),
    cs.crystal,
    cs.pm_type,
    cs.theta.value_unsafe,
    cs.phi.value_unsafe,
    cs.length.value_unsafe,
    cs.temperature.value_unsafe,
    spdc.pump.vacuum_wavelength().value_unsafe,
    spdc.signal.vacuum_wavelength().value_unsafe,
    spdc.idler.vacuum_wavelength().value_unsafe,
    spdc.signal.phi().value_unsafe,
    spdc.signal.theta_internal().value_unsafe,
    spdc.idler.phi().value_unsafe,
    spdc.idler.theta_internal().value_unsafe,
    spdc.signal.waist().x.value_unsafe,
    spdc.idler.waist().x.value_unsafe,
    spdc.signal.waist().y.value_unsafe,
    spdc.idler.waist().y.value_unsafe,
    spdc.pump.waist().x.value_unsafe,
    spdc.pump.waist().y.value_unsafe,
    spdc.signal_waist_position.value_unsafe,
    spdc.idler_waist_position.value_unsafe,
    per,
    apo,
    spdc.pump_bandwidth.value_unsafe,
    spdc.pump_average_power.value_unsafe,
    spdc.deff.value_unsafe,
    spdc.pump_spectrum_threshold,
  )
}

fn count_setup(ctx: &mut Ctx, tag: &str, spdc: &SPDC) {
  if spdc.signal.direction().z < 0.0 || spdc.idler.direction().z < 0.0 {
    ctx.count(&format!("{}/counter-propagating", tag));
  }
  ctx.count(&format!("{}/crystal/{}", tag, spdc.crystal_setup.crystal));
  ctx.count(&format!("{}/pm/{}", tag, spdc.crystal_setup.pm_type));
  ctx.count(&format!(
    "{}/poling/{}",
    tag,
    match &spdc.pp {
      PeriodicPoling::Off => "off",
      PeriodicPoling::On { apodization, .. } => apodization.kind(),
    }
  ));
}

// ------------------------------------------------------------------------------------------ K

/// correspondence of the integrand, the z-integral, the envelope, the normalisations and jsa_raw
fn k_cases(ctx: &mut Ctx) {
  // constants
  ctx.k(
    "pm_consts",
    "",
    &fls(&[
      spdcalc::dim::ucum::C_.value_unsafe,
      spdcalc::dim::ucum::EPS_0.value_unsafe,
      spdcalc::TWO_PI,
      spdcalc::PI,
      // FWHM_OVER_WAIST is private: waist_to_fwhm(1) = 1 * sqrt(2 ln 2)
      spdcalc::math::waist_to_fwhm(1.0_f64),
    ]),
  );
  for t in PMTYPES.iter() {
    ctx.k(
      "pm_inverse",
      &t.to_string(),
      &format!(
        "{} {} {} {}",
        t.inverse(),
        pol_char(t.pump_polarization()),
        pol_char(t.signal_polarization()),
        pol_char(t.idler_polarization())
      ),
    );
  }
  let opts = GenOpts { plane_wave: false, phase_matched: false, counter: None, tilted_biaxial: false, unpoled: false };
  let opts_pm = GenOpts { plane_wave: false, phase_matched: true, counter: None, tilted_biaxial: false, unpoled: false };
  let opts_pw = GenOpts { plane_wave: true, phase_matched: true, counter: None, tilted_biaxial: false, unpoled: false };
  let mut made = 0;
  let mut tries = 0;
  while made < ctx.n && tries < 20 * ctx.n + 100 {
    tries += 1;
    let o = match tries % 4 {
      0 => &opts_pm,
      1 => &opts_pw,
      _ => &opts,
    };
    let spdc = match gen_setup(&mut ctx.rng, o) {
      Some(s) => s,
      None => {
        ctx.count("k/setup-rejected");
        continue;
      }
    };
    let v = view(&spdc).unwrap();
    made += 1;
    count_setup(ctx, "k", &spdc);
    let nfreq = 2;
    for _ in 0..nfreq {
      let (ws, wi) = gen_freqs(&mut ctx.rng, &spdc);
      let st = setup_tokens(&v, &spdc, ws, wi);
      // integrand at 5 z
      let zs = [-1.0, 1.0, 0.0, ctx.rng.range(-1.0, 1.0), ctx.rng.range(-1.0, 1.0)];
      let tab = apod_table(&spdc, &zs);
      let s2 = spdc.clone();
      let outs = guard(move || {
        let f = get_pm_integrand(w(ws), w(wi), &s2);
        zs.iter().map(|&z| f(z)).collect::<Vec<_>>()
      });
      match outs {
        Some(o) => {
          let o: Vec<String> = o.into_iter().map(cx).collect();
          ctx.k("pm_integrand", &format!("{} {}", st, tab), &o.join(" "));
        }
        None => ctx.count("k/pm_integrand/panic"),
      }
      // z-integral
      let divs = *ctx.rng.pick(&[50usize, 50, 50, 6, 7, 20, 33, 100, 130, 200, 50, 16, 10, 5, 4, 3]);
      let nodes = simpson_nodes(divs);
      let tab = apod_table(&spdc, &nodes);
      let s2 = spdc.clone();
      let out = guard(move || {
        phasematch_fiber_coupling(w(ws), w(wi), &s2, Integrator::Simpson { divs }) / PerMeter4::new(1.0)
      });
      let scale = simpson_abs_scale(&spdc, ws, wi, divs);
      ctx.k(
        "pm_coinc",
        &format!("{} {} {}", st, divs, tab),
        &match (out, scale) {
          (Some(z), Some(sc)) => format!("{} {}", cx(*z), fl(sc)),
          _ => "PANIC".into(),
        },
      );
      // z-integral by Gauss–Legendre: the rule's nodes and weights (gauss-quad) are passed in
      if ctx.rng.below(3) == 0 {
        let degree = *ctx.rng.pick(&[2usize, 5, 12, 40, 41]);
        let rule = gauss_quad::GaussLegendre::new(degree.max(2)).unwrap();
        let pairs: Vec<(f64, f64)> = rule.as_node_weight_pairs().iter().map(|(x, wg)| (0.5 * ((1.0 - (-1.0)) * x + (1.0 + (-1.0))), *wg)).collect();
        let zs: Vec<f64> = pairs.iter().map(|p| p.0).collect();
        let ws_: Vec<f64> = pairs.iter().map(|p| p.1).collect();
        let s2 = spdc.clone();
        let out = guard(move || {
          let z = *(phasematch_fiber_coupling(w(ws), w(wi), &s2, Integrator::GaussLegendre { degree }) / PerMeter4::new(1.0));
          let f = get_pm_integrand(w(ws), w(wi), &s2);
          let mut acc = 0.0;
          for (x, wg) in pairs.iter() {
            let v = f(*x);
            acc += (v.re.abs() + v.im.abs()) * wg;
          }
          (z, 0.5 * acc)
        });
        if let Some((z, sc)) = out {
          ctx.k(
            "pm_coinc_gl",
            &format!("{} {} {} {}", st, apod_table(&spdc, &zs), ws_.len(), fls(&ws_)),
            &format!("{} {}", cx(z), fl(sc)),
          );
        }
      }
      // raw joint amplitude (inside / outside of the support as it comes)
      let s2 = spdc.clone();
      let out = guard(move || jsa_raw(w(ws), w(wi), &s2, Integrator::Simpson { divs }));
      let alpha = pump_spectral_amplitude(w(ws) + w(wi), &spdc);
      ctx.k(
        "jsa_raw",
        &format!("{} {} {} {}", st, jsa_tokens(&spdc), divs, tab),
        &match out {
          Some(z) if z.re == 0.0 && z.im == 0.0 => format!("{} {}", cx(z), fl(0.0)),
          Some(z) => match scale {
            Some(sc) => format!("{} {}", cx(z), fl(alpha * sc)),
            None => "PANIC".into(),
          },
          None => "PANIC".into(),
        },
      );
      // normalisations
      let s2 = spdc.clone();
      let out = guard(move || {
        (
          *(jsi_normalization(w(ws), w(wi), &s2) / JsiNorm::new(1.0)),
          *(jsi_singles_normalization(w(ws), w(wi), &s2) / JsiSinglesNorm::new(1.0)),
        )
      });
      if let Some((a, b)) = out {
        ctx.k("norms", &format!("{} {}", st, jsa_tokens(&spdc)), &format!("{} {}", fl(a), fl(b)));
      }
      // envelope
      let wsum = ws + wi;
      let a = pump_spectral_amplitude(w(wsum), &spdc);
      ctx.k(
        "pump_amp",
        &format!(
          "{} {} {}",
          fl(wsum),
          fl(raw_w(spdc.pump.frequency())),
          fl(spdc.pump_bandwidth.value_unsafe)
        ),
        &fl(a),
      );
    }
    let lp = spdc.pump.vacuum_wavelength();
    ctx.k(
      "spectral_width",
      &format!("{} {}", fl(lp.value_unsafe), fl(spdc.pump_bandwidth.value_unsafe)),
      &fl(raw_w(fwhm_to_spectral_width(lp, spdc.pump_bandwidth))),
    );
    swap_case(ctx, &spdc);
  }
}

fn swap_beam_tokens(b: &Beam, z0: f64) -> String {
  format!(
    "{} {} {} {} {} {} {}",
    fl(b.phi().value_unsafe),
    fl(b.theta_internal().value_unsafe),
    fl(b.waist().x.value_unsafe),
    fl(b.waist().y.value_unsafe),
    fl(raw_w(b.frequency())),
    fl(z0),
    pol_char(b.polarization())
  )
}

fn swap_tokens(s: &SPDC) -> String {
  format!(
    "{} {} {}",
    s.crystal_setup.pm_type,
    swap_beam_tokens(&s.signal, s.signal_waist_position.value_unsafe),
    swap_beam_tokens(&s.idler, s.idler_waist_position.value_unsafe)
  )
}

/// `get_counts_correction` from the wavelengths, indices and group indices it reads
fn counts_corr_case(ctx: &mut Ctx, spdc: &SPDC) {
  let s = spdc.clone();
  let r = guard(move || {
    let cs = &s.crystal_setup;
    let t = [
      s.pump.vacuum_wavelength().value_unsafe,
      s.signal.vacuum_wavelength().value_unsafe,
      s.idler.vacuum_wavelength().value_unsafe,
      *s.signal.refractive_index(s.signal.frequency(), cs),
      *s.idler.refractive_index(s.idler.frequency(), cs),
      *s.pump.refractive_index(s.pump.frequency(), cs),
      *s.signal.group_index(cs, PeriodicPoling::Off),
      *s.idler.group_index(cs, PeriodicPoling::Off),
    ];
    (t, spdcalc::get_counts_correction(&s))
  });
  if let Some((t, c)) = r {
    ctx.k("counts_corr", &fls(&t), &fl(c));
  }
}

fn swap_case(ctx: &mut Ctx, spdc: &SPDC) {
  counts_corr_case(ctx, spdc);
  let sw = spdc.clone().with_swapped_signal_idler();
  ctx.k("swap", &swap_tokens(spdc), &swap_tokens(&sw));
}


// ------------------------------------------------------------------------------------------ C06

/// The relative tolerances of the statements are applied where the z-quadrature sum is not
/// cancellation dominated.  Two algebraically equal evaluations of a sum with condition number
/// kappa = Σ|f_k|w_k / |Σ f_k w_k| differ by rounding proportional to kappa (measured on the pinned tree:
/// relerr ≈ 2e-14·kappa — 1e-11 at 7e2, 7e-9 at 1.6e5, 1.1e-6 at 5.7e7 where the value is 2e-8 of
/// the absolute sum).  Beyond kappa = 1e5 the value is rounding residue of an unresolved oscillatory
/// integral and no relative statement about it is meaningful; such points are counted, not judged.
pub const KAPPA_MAX: f64 = 1e5;

fn rel_err_c(a: Complex<f64>, b: Complex<f64>) -> f64 {
  let d = (a - b).norm();
  if d == 0.0 {
    0.0
  } else {
    d / a.norm().max(b.norm())
  }
}
fn rel_err(a: f64, b: f64) -> f64 {
  if a == b {
    0.0
  } else {
    (a - b).abs() / a.abs().max(b.abs())
  }
}

/// frequency grid around the centre of the setup covering the pump envelope
fn small_grid(r: &mut Rng, spdc: &SPDC, n: usize) -> ((f64, f64, usize), (f64, f64, usize)) {
  let ws0 = raw_w(spdc.signal.frequency());
  let wi0 = raw_w(spdc.idler.frequency());
  let sigma = raw_w(fwhm_to_spectral_width(spdc.pump.vacuum_wavelength(), spdc.pump_bandwidth));
  let hs = sigma * r.range(0.5, 2.0);
  let hi = sigma * r.range(0.5, 2.0);
  ((ws0 - hs, ws0 + 0.9 * hs, n), (wi0 - 0.8 * hi, wi0 + hi, n))
}

fn pm_abs_c06(spdc: &SPDC, ws: f64, wi: f64, integ: Integrator) -> Option<f64> {
  let s = spdc.clone();
  guard(move || (*(phasematch_fiber_coupling(w(ws), w(wi), &s, integ) / PerMeter4::new(1.0))).norm())
}

/// 'Copied value' setups.  Independent random draws never make two quantities of a setup bit-equal, yet that is how setups
/// are written down (mirror-symmetric collection arms with the same polar angle, the same waist on both fibres, exactly
/// degenerate wavelengths, both foci at the same depth, a grating of L/k) — and where a comparison-based shortcut
/// (`if theta_i == theta_s { reuse the signal's … }`) would take its branch.  Returns the list of what was copied.
fn copy_values(r: &mut Rng, spdc: &mut SPDC) -> Vec<&'static str> {
  use std::f64::consts::PI as PI_;
  let mut tags: Vec<&'static str> = vec![];
  let l = spdc.crystal_setup.length.value_unsafe;
  let (lo, _hi) = window(&spdc.crystal_setup.crystal);
  // wavelengths exactly degenerate: idler frequency := signal frequency, pump := their sum
  if r.below(4) == 0 && 0.5 * spdc.signal.vacuum_wavelength().value_unsafe >= 1.03 * lo {
    let f = spdc.signal.frequency();
    spdc.idler.set_frequency(f);
    spdc.pump.set_frequency(f + f);
    tags.push("freq");
  }
  // angles
  match r.below(8) {
    0..=3 => {
      // the idler's internal polar angle is the signal's, bit for bit
      if spdc.signal.theta_internal().value_unsafe == 0.0 || r.below(4) == 0 {
        // a round number of degrees, as written in a config
        let d = *r.pick(&[0.5, 1.0, 2.0, 3.0]);
        let ph = spdc.signal.phi();
        let back = spdc.signal.direction().z < 0.0;
        spdc.signal.set_angles(ph, if back { (180.0 - d) * DEG } else { d * DEG });
        tags.push("theta-round");
      }
      let th = spdc.signal.theta_internal();
      let phs = spdc.signal.phi().value_unsafe;
      let phi_i = match r.below(6) {
        0..=2 => phs + PI_,
        3 => phs,
        4 => phs + 0.5 * PI_,
        _ => r.range(0.0, 2.0 * PI_),
      };
      spdc.idler.set_angles(phi_i * RAD, th);
      tags.push("theta");
    }
    4 => {
      // equal EXTERNAL angles on opposite azimuths (the internal ones then differ by the index ratio)
      let cs = spdc.crystal_setup.clone();
      let sig = spdc.signal.clone();
      let mut idl = spdc.idler.clone();
      let phs = spdc.signal.phi().value_unsafe;
      if let Some(b) = guard(move || {
        let te = sig.theta_external(&cs);
        idl.set_phi((phs + PI_) * RAD);
        idl.set_theta_external(te, &cs);
        idl
      }) {
        spdc.idler = b;
        tags.push("theta-external");
      }
    }
    5 => {
      // same azimuth, independent polar angles
      let ph = spdc.signal.phi();
      let th = spdc.idler.theta_internal();
      spdc.idler.set_angles(ph, th);
      tags.push("phi");
    }
    _ => {}
  }
  // waists
  if r.below(3) == 0 {
    let ws = spdc.signal.waist();
    spdc.idler.set_waist(ws);
    tags.push("waist");
    if r.below(3) == 0 {
      spdc.pump.set_waist(ws);
      tags.push("pump-waist");
    }
  }
  // waist positions
  match r.below(8) {
    0 | 1 => {
      spdc.idler_waist_position = spdc.signal_waist_position;
      tags.push("z0");
    }
    2 => {
      spdc.signal_waist_position = 0.0 * M;
      spdc.idler_waist_position = 0.0 * M;
      tags.push("z0-zero");
    }
    3 => {
      spdc.signal_waist_position = -0.5 * l * M;
      spdc.idler_waist_position = -0.5 * l * M;
      tags.push("z0-mid");
    }
    _ => {}
  }
  // grating of exactly L/k
  let mut period_fixed = false;
  if let PeriodicPoling::On { period, .. } = &mut spdc.pp {
    if r.below(5) == 0 {
      let k = *r.pick(&[1.0, 2.0, 3.0, 10.0, 100.0, 1000.0]);
      *period = l / k * M;
      period_fixed = true;
      tags.push("period-L/k");
    }
  }
  // phase-match the edited setup again with the crate's own single-parameter optimum calls (they leave the copies alone)
  if !period_fixed && r.coin() {
    let s2 = spdc.clone();
    let poled = spdc.pp != PeriodicPoling::Off;
    if let Some(Some(s)) = guard(move || {
      let mut s2 = s2;
      if poled {
        s2.assign_optimum_periodic_poling().ok()?;
      } else {
        s2.assign_optimum_crystal_theta();
      }
      Some(s2)
    }) {
      *spdc = s;
      tags.push("rematched");
    }
  }
  tags
}

/// A setup as it is written down in a config file: round numbers, collection arms given explicitly and symmetrically
/// (the same `theta_deg` / `theta_external_deg` on opposite azimuths, the same waist), built by `SPDC::from_json`.
fn gen_written_setup(r: &mut Rng) -> Option<SPDC> {
  use serde_json::json;
  let crystal = r.pick(&CRYSTALS).clone();
  let pm_type = *r.pick(&PMTYPES);
  let deg = r.coin();
  let (lp, ls) = gen_wavelengths(r, &crystal, deg)?;
  let lp_nm = (lp * 1e10).round() / 10.0;
  let ls_nm = if deg { 2.0 * lp_nm } else { (ls * 1e10).round() / 10.0 };
  let li_nm = if deg { ls_nm } else { (ls_nm * lp_nm / (ls_nm - lp_nm) * 10.0).round() / 10.0 };
  let th = *r.pick(&[0.5, 1.0, 1.5, 2.0, 3.0]);
  let key = if r.below(3) == 0 { "theta_external_deg" } else { "theta_deg" };
  let phi_s = *r.pick(&[0.0, 0.0, 90.0, 45.0, 30.0]);
  let phi_i = if r.below(4) == 0 { phi_s } else { phi_s + 180.0 };
  let waist = *r.pick(&[30.0, 50.0, 100.0, 200.0]);
  let waist_i = if r.below(4) == 0 { *r.pick(&[30.0, 50.0, 100.0, 200.0]) } else { waist };
  let l_um = *r.pick(&[500.0, 1000.0, 2000.0, 5000.0, 10000.0, 20000.0]);
  let zpos = match r.below(3) {
    0 => json!("auto"),
    1 => json!(0.0),
    _ => json!(l_um / 2.0),
  };
  let poled = r.coin();
  let ctheta = if poled { json!(*r.pick(&[90.0, 90.0, 0.0, 45.0, 60.0])) } else { json!("auto") };
  let mut cfg = json!({
    "crystal": {
      "kind": serde_json::to_value(&crystal).ok()?,
      "pm_type": pm_type.to_string(),
      "phi_deg": *r.pick(&[0.0, 0.0, 90.0, 45.0]),
      "theta_deg": ctheta,
      "length_um": l_um,
      "temperature_c": *r.pick(&[20.0, 25.0, 50.0]),
    },
    "pump": {
      "wavelength_nm": lp_nm,
      "waist_um": *r.pick(&[50.0, 100.0, 200.0, 500.0]),
      "bandwidth_nm": *r.pick(&[0.1, 0.5, 1.0, 5.35]),
      "average_power_mw": *r.pick(&[1.0, 10.0, 100.0]),
      "spectrum_threshold": *r.pick(&[1e-9, 1e-2]),
    },
    "signal": { "wavelength_nm": ls_nm, "phi_deg": phi_s, "waist_um": waist, "waist_position_um": zpos.clone() },
    "idler": { "wavelength_nm": li_nm, "phi_deg": phi_i, "waist_um": waist_i, "waist_position_um": zpos },
    "deff_pm_per_volt": *r.pick(&[1.0, 2.0, 7.6]),
  });
  cfg["signal"][key] = json!(th);
  cfg["idler"][key] = json!(th);
  if poled {
    cfg["periodic_poling"] = json!({ "poling_period_um": "auto" });
  }
  let text = cfg.to_string();
  let spdc = guard(move || SPDC::from_json(text))?.ok()?;
  if view(&spdc)?.all_finite() {
    Some(spdc)
  } else {
    None
  }
}

/// K `pm_integrand` at z = −1, 1, 0 and two random z
fn k_integrand(ctx: &mut Ctx, spdc: &SPDC, v: &View, ws: f64, wi: f64, tag: &str) {
  let st = setup_tokens(v, spdc, ws, wi);
  let zs = [-1.0, 1.0, 0.0, ctx.rng.range(-1.0, 1.0), ctx.rng.range(-1.0, 1.0)];
  let tab = apod_table(spdc, &zs);
  let s2 = spdc.clone();
  let outs = guard(move || {
    let f = get_pm_integrand(w(ws), w(wi), &s2);
    zs.iter().map(|&z| f(z)).collect::<Vec<_>>()
  });
  match outs {
    Some(o) => {
      let o: Vec<String> = o.into_iter().map(cx).collect();
      ctx.k("pm_integrand", &format!("{} {}", st, tab), &o.join(" "));
    }
    None => ctx.count(&format!("{}/pm_integrand/panic", tag)),
  }
}

/// The rate / singles / range-route clauses of C06 over ONE range of the setup and the exchanged range of its twin, in one of the
/// representations a range can be given in and with each axis written low-to-high or high-to-low (independently).
///  * `fs`: `FrequencySpace::new(xs, yi)`, twin `FrequencySpace::new(yi, xs)` (also built as `Steps2D(..).into()` and through
///    `with_resolution`);
///  * `ws`: a `WavelengthSpace` (an axis written long-to-short is high-to-low in frequency and vice versa), twin = transposed;
///  * `sd`: a `SumDiffFrequencySpace` (s = (ωi+ωs)/2, d = (ωi−ωs)/2).  The exchange is d → −d.  `counts_*` convert the range to the
///    frequency rectangle `as_frequency_space()`, whose transpose is the rectangle of `((s0,s1,ny), (−d1,−d0,nx))`; the `*_range`
///    functions iterate the rotated grid itself, point (k,l) ↔ point (k,l) of `((s0,s1,nx), (−d0,−d1,ny))`.
fn rates_case(ctx: &mut Ctx, spdc: &SPDC, swapped: &SPDC, desc: &str) {
  let shapes: &[(usize, usize)] =
    if ctx.thorough { &[(5, 5), (5, 5), (4, 6), (6, 4), (3, 7), (5, 4)] } else { &[(3, 3), (3, 3), (3, 3), (2, 4), (4, 2), (3, 2), (2, 3)] };
  let (nx, ny) = *ctx.rng.pick(shapes);
  // bit 0: first axis high-to-low, bit 1: second axis high-to-low
  let orient = ctx.rng.below(4);
  let rep = ctx.rng.below(10);
  // which half of the singles clause: idler singles of S vs signal singles of the twin, or signal singles of S vs idler singles of the twin
  let dir_b = ctx.rng.coin();
  // the three rates through SPDC::efficiencies(...).{coincidences, signal_singles, idler_singles} instead of counts_*
  let via_eff = ctx.rng.below(6) == 0;
  let flip = |a: (f64, f64, usize), rev: bool| if rev { (a.1, a.0, a.2) } else { a };
  let otag = ["asc-asc", "desc-asc", "asc-desc", "desc-desc"][orient];
  let route = RatesRoute { dir_b, via_eff };
  ctx.count(&format!("c06/rates/orientation/{}", otag));
  ctx.count(&format!("c06/rates/shape/{}", if nx == ny { "square" } else { "non-square" }));
  ctx.count(if via_eff { "c06/rates/route/efficiencies" } else { "c06/rates/route/counts" });
  ctx.count(if dir_b { "c06/rates/singles/signal-vs-twin-idler" } else { "c06/rates/singles/idler-vs-twin-signal" });
  let fw = |a: (f64, f64, usize)| (w(a.0), w(a.1), a.2);
  if rep == 9 {
    // sum / difference axes around the centre
    let ws0 = raw_w(spdc.signal.frequency());
    let wi0 = raw_w(spdc.idler.frequency());
    let sigma = raw_w(fwhm_to_spectral_width(spdc.pump.vacuum_wavelength(), spdc.pump_bandwidth));
    let (sc, dc) = (0.5 * (wi0 + ws0), 0.5 * (wi0 - ws0));
    let a = sigma * ctx.rng.range(0.25, 1.0);
    let b = sigma * ctx.rng.range(0.5, 2.0);
    let sx = flip((sc - a, sc + 0.9 * a, nx), orient & 1 == 1);
    let dy = flip((dc - 0.8 * b, dc + b, ny), orient & 2 == 2);
    ctx.count("c06/rates/representation/sum-diff");
    let det = format!(
      "rep=sd orient={} route={} s=({:.17e},{:.17e},{}) d=({:.17e},{:.17e},{}) divs=10 {}",
      otag, route.tag(), sx.0, sx.1, sx.2, dy.0, dy.1, dy.2, desc
    );
    let r = SumDiffFrequencySpace::new(fw(sx), fw(dy));
    let r_sw = SumDiffFrequencySpace::new(fw((sx.0, sx.1, ny)), fw((-dy.1, -dy.0, nx)));
    let r_sw_spec = SumDiffFrequencySpace::new(fw(sx), fw((-dy.0, -dy.1, ny)));
    rates_block(ctx, spdc, swapped, r, r_sw, r_sw_spec, false, false, nx, ny, route, &det);
    return;
  }
  let (xs, yi) = small_grid(&mut ctx.rng, spdc, 0);
  let xs = flip((xs.0, xs.1, nx), orient & 1 == 1);
  let yi = flip((yi.0, yi.1, ny), orient & 2 == 2);
  let rtag = match rep {
    5 => "steps2d",
    6 if nx == ny => "resolution",
    7 | 8 => "ws",
    _ => "fs",
  };
  ctx.count(&format!("c06/rates/representation/{}", rtag));
  let det = format!(
    "rep={} orient={} route={} xs=({:.17e},{:.17e},{}) yi=({:.17e},{:.17e},{}) divs=10 {}",
    rtag, otag, route.tag(), xs.0, xs.1, xs.2, yi.0, yi.1, yi.2, desc
  );
  match rtag {
    "ws" => {
      // FrequencySpace::from_wavelength_space maps the wavelength axis (l0, l1) to the frequency axis (ω(l1), ω(l0))
      let lw = |a: (f64, f64, usize)| (frequency_to_vacuum_wavelength(w(a.1)), frequency_to_vacuum_wavelength(w(a.0)), a.2);
      let r = WavelengthSpace::new(lw(xs), lw(yi));
      let r_sw = WavelengthSpace::new(lw(yi), lw(xs));
      rates_block(ctx, spdc, swapped, r, r_sw, r_sw, true, false, nx, ny, route, &det);
    }
    "steps2d" => {
      let r: FrequencySpace = Steps2D(fw(xs), fw(yi)).into();
      let r_sw: FrequencySpace = FrequencySpace::from(Steps2D::new(fw(yi), fw(xs)));
      rates_block(ctx, spdc, swapped, r, r_sw, r_sw, true, true, nx, ny, route, &det);
    }
    "resolution" => {
      let r = FrequencySpace::new(fw((xs.0, xs.1, 97)), fw((yi.0, yi.1, 1))).with_resolution(nx);
      let mut r_sw = FrequencySpace::new(fw((yi.0, yi.1, 2)), fw((xs.0, xs.1, 50)));
      r_sw.set_resolution(nx);
      rates_block(ctx, spdc, swapped, r, r_sw, r_sw, true, true, nx, ny, route, &det);
    }
    _ => {
      let r = FrequencySpace::new(fw(xs), fw(yi));
      let r_sw = FrequencySpace::new(fw(yi), fw(xs));
      rates_block(ctx, spdc, swapped, r, r_sw, r_sw, true, true, nx, ny, route, &det);
    }
  }
}

#[derive(Clone, Copy)]
struct RatesRoute {
  dir_b: bool,
  via_eff: bool,
}
impl RatesRoute {
  fn tag(&self) -> &'static str {
    match (self.via_eff, self.dir_b) {
      (false, false) => "counts/idler-vs-twin-signal",
      (false, true) => "counts/signal-vs-twin-idler",
      (true, false) => "efficiencies/idler-vs-twin-signal",
      (true, true) => "efficiencies/signal-vs-twin-idler",
    }
  }
}

/// `r`: the range of S; `r_sw`: the exchanged range for the rates; `r_sw_spec`: the exchanged range for the `*_range` functions, whose
/// point (k,l) ↔ index k·ny+l (`transposed`) or l·nx+k; `fs_like`: `r` IS the frequency rectangle the rates are summed over, so the
/// singles spectra over `r` are the summands of the singles rates (K `counts`).
#[allow(clippy::too_many_arguments)]
fn rates_block<T>(ctx: &mut Ctx, spdc: &SPDC, swapped: &SPDC, r: T, r_sw: T, r_sw_spec: T, transposed: bool, fs_like: bool, nx: usize, ny: usize, route: RatesRoute, det: &str)
where
  T: Into<FrequencySpace> + IntoSignalIdlerIterator + Copy,
{
  let sdivs = 10usize;
  let sinteg = Integrator::Simpson { divs: sdivs };
  let idx = |k: usize, l: usize| l * nx + k;
  let idx_sw = |k: usize, l: usize| if transposed { k * ny + l } else { l * nx + k };
  let raw_j = |v: Vec<spdcalc::JSIUnits<f64>>| -> Vec<f64> { v.iter().map(|x| x.value_unsafe).collect() };
  let (s1, s2) = (spdc.clone(), swapped.clone());
  let res = guard(move || {
    let (cc, cc_sw, ra, rb) = if route.via_eff {
      let e1 = s1.efficiencies(r, sinteg);
      let e2 = s2.efficiencies(r_sw, sinteg);
      if route.dir_b {
        (e1.coincidences.value_unsafe, e2.coincidences.value_unsafe, e1.signal_singles.value_unsafe, e2.idler_singles.value_unsafe)
      } else {
        (e1.coincidences.value_unsafe, e2.coincidences.value_unsafe, e1.idler_singles.value_unsafe, e2.signal_singles.value_unsafe)
      }
    } else {
      let cc = s1.counts_coincidences(r, sinteg).value_unsafe;
      let cc_sw = s2.counts_coincidences(r_sw, sinteg).value_unsafe;
      if route.dir_b {
        (cc, cc_sw, s1.counts_singles_signal(r, sinteg).value_unsafe, s2.counts_singles_idler(r_sw, sinteg).value_unsafe)
      } else {
        (cc, cc_sw, s1.counts_singles_idler(r, sinteg).value_unsafe, s2.counts_singles_signal(r_sw, sinteg).value_unsafe)
      }
    };
    let j1 = s1.joint_spectrum(sinteg);
    let j2 = s2.joint_spectrum(sinteg);
    let (spec_a, spec_b) = if route.dir_b {
      (raw_j(j1.jsi_singles_range(r)), raw_j(j2.jsi_singles_idler_range(r_sw_spec)))
    } else {
      (raw_j(j1.jsi_singles_idler_range(r)), raw_j(j2.jsi_singles_range(r_sw_spec)))
    };
    let corr = spdcalc::get_counts_correction(&s1);
    let corr_sw = spdcalc::get_counts_correction(&s2);
    // the amplitude / intensity clause through the *_range route
    let ja = j1.jsa_range(r);
    let jb = j2.jsa_range(r_sw_spec);
    let ia = raw_j(j1.jsi_range(r));
    let ib = raw_j(j2.jsi_range(r_sw_spec));
    // the frequency rectangles the rates are summed over, and the coincidence spectrum on them
    let f1: FrequencySpace = r.into();
    let f2: FrequencySpace = r_sw.into();
    let jf1 = raw_j(j1.jsi_range(f1));
    let jf2 = raw_j(j2.jsi_range(f2));
    let pts: Vec<(f64, f64)> = r.into_signal_idler_iterator().map(|(a, b)| (raw_w(a), raw_w(b))).collect();
    (cc, cc_sw, ra, rb, spec_a, spec_b, corr, corr_sw, ja, jb, ia, ib, f1, f2, jf1, jf2, pts)
  });
  let (cc, cc_sw, ra, rb, spec_a, spec_b, corr, corr_sw, ja, jb, ia, ib, f1, f2, jf1, jf2, pts) = match res {
    None => {
      ctx.s("C06.rates", false, "rates/exchange/panic", det);
      return;
    }
    Some(x) => x,
  };
  let n_pts = nx * ny;
  if [ja.len(), jb.len(), ia.len(), ib.len(), spec_a.len(), spec_b.len(), pts.len(), jf1.len(), jf2.len()].iter().any(|&m| m != n_pts) {
    ctx.s("C06.rates", false, "rates/exchange/range-length", &format!("expected={} got={} {}", n_pts, ja.len(), det));
    return;
  }
  // jsa_range / jsi_range of S over the range vs of swap(S) over the exchanged range
  {
    let mut worst = 0.0f64;
    let mut worst_i = 0.0f64;
    let mut judged = 0;
    for k in 0..nx {
      for l in 0..ny {
        let (a, b) = (ja[idx(k, l)], jb[idx_sw(k, l)]);
        let (p, q) = (ia[idx(k, l)], ib[idx_sw(k, l)]);
        if !(a.norm().is_finite() && b.norm().is_finite()) || a.norm() < 1e-290 {
          continue;
        }
        let (ws, wi) = pts[idx(k, l)];
        let kappa = match (pm_abs_c06(spdc, ws, wi, sinteg), simpson_abs_scale(spdc, ws, wi, sdivs)) {
          (Some(pv), Some(sc)) if pv > 0.0 => sc / pv,
          _ => f64::INFINITY,
        };
        if kappa > KAPPA_MAX {
          continue;
        }
        judged += 1;
        worst = worst.max(rel_err_c(a, b));
        if p.is_finite() && q.is_finite() && p.abs() > 1e-290 {
          worst_i = worst_i.max(rel_err(p, q));
        }
      }
    }
    ctx.s("C06.jsa", worst <= 1e-6, "jsa/exchange/range-route", &format!("relerr={:e} judged={} {}", worst, judged, det));
    ctx.s("C06.jsi", worst_i <= 2.1e-6, "jsi/exchange/range-route", &format!("relerr={:e} judged={} {}", worst_i, judged, det));
  }
  // idler (signal) singles spectrum of S at (ws_k, wi_l) = signal (idler) singles spectrum of swap(S) at (wi_l, ws_k)
  let mut worst = 0.0f64;
  let mut nonzero = 0;
  for k in 0..nx {
    for l in 0..ny {
      let a = spec_a[idx(k, l)];
      let b = spec_b[idx_sw(k, l)];
      if a != 0.0 || b != 0.0 {
        nonzero += 1;
      }
      if a.is_finite() && b.is_finite() {
        worst = worst.max(rel_err(a, b));
      }
    }
  }
  ctx.count(if nonzero > 0 { "c06/singles-spectrum/nonzero" } else { "c06/singles-spectrum/all-zero" });
  ctx.s(
    "C06.idler_singles_spectrum",
    worst <= 2.1e-6,
    "singles-spectrum/exchange",
    &format!("relerr={:e} nonzero={} {}", worst, nonzero, det),
  );
  // rates: invariant under the exchange; a deviation that is exactly the ratio of the two setups' `get_counts_correction` is
  // tagged explained=1 (the spectra agree, the scalar correction factor is not exchange symmetric)
  let ratio_corr = corr / corr_sw;
  let e_cc = rel_err(cc, cc_sw);
  let fin = cc.is_finite() && cc_sw.is_finite();
  let expl = fin && rel_err(cc, cc_sw * ratio_corr) <= 1e-9;
  let ok = !fin || (cc == 0.0 && cc_sw == 0.0) || e_cc <= 2.1e-6;
  if fin && cc != 0.0 {
    ctx.count(if cc < 0.0 { "c06/rates/coincidences/negative" } else { "c06/rates/coincidences/positive" });
  }
  ctx.s(
    "C06.rates",
    ok,
    if ok { "rates/exchange" } else { "rates/exchange/coincidences" },
    &format!("relerr={:e} explained={} corr_ratio={:.12} cc={:e} cc_swapped={:e} {}", e_cc, expl as u8, ratio_corr, cc, cc_sw, det),
  );
  let e_s = rel_err(ra, rb);
  let fin_s = ra.is_finite() && rb.is_finite();
  let expl = fin_s && rel_err(ra, rb * ratio_corr) <= 1e-9;
  let ok = !fin_s || (ra == 0.0 && rb == 0.0) || e_s <= 2.1e-6;
  let (na, nb) = if route.dir_b { ("signal_singles", "idler_singles_swapped") } else { ("idler_singles", "signal_singles_swapped") };
  ctx.s(
    "C06.rates",
    ok,
    if ok { "rates/exchange" } else if route.dir_b { "rates/exchange/signal-singles" } else { "rates/exchange/idler-singles" },
    &format!("relerr={:e} explained={} corr_ratio={:.12} {}={:e} {}={:e} {}", e_s, expl as u8, ratio_corr, na, ra, nb, rb, det),
  );
  // K `counts`: the rate is correction · Σ spectrum · dωs·dωi over the frequency rectangle, with the SIGNED steps of the
  // rectangle as given (spectra over the rectangle are inputs: layered)
  let grid = |f: FrequencySpace| {
    let st = f.as_steps();
    format!("{} {} {} {} {} {}", fl(raw_w(st.0 .0)), fl(raw_w(st.0 .1)), st.0 .2, fl(raw_w(st.1 .0)), fl(raw_w(st.1 .1)), st.1 .2)
  };
  let allfin = |v: &[f64]| v.iter().all(|x| x.is_finite());
  if fin && corr.is_finite() && corr_sw.is_finite() && allfin(&jf1) && allfin(&jf2) {
    ctx.k("counts", &format!("{} {} | {}", fl(corr), grid(f1), fls(&jf1)), &fl(cc));
    ctx.k("counts", &format!("{} {} | {}", fl(corr_sw), grid(f2), fls(&jf2)), &fl(cc_sw));
  }
  if fs_like && fin_s && corr.is_finite() && corr_sw.is_finite() && allfin(&spec_a) && allfin(&spec_b) {
    ctx.k("counts", &format!("{} {} | {}", fl(corr), grid(f1), fls(&spec_a)), &fl(ra));
    ctx.k("counts", &format!("{} {} | {}", fl(corr_sw), grid(f2), fls(&spec_b)), &fl(rb));
  }
}

/// the statement of C06 on the real code
fn c06_cases(ctx: &mut Ctx) {
  let mut worst_e = 0.0f64;
  let opts = GenOpts { plane_wave: false, phase_matched: false, counter: None, tilted_biaxial: false, unpoled: false };
  let opts_pm = GenOpts { plane_wave: false, phase_matched: true, counter: None, tilted_biaxial: false, unpoled: false };
  let mut made = 0;
  let mut tries = 0;
  while made < ctx.n && tries < 30 * ctx.n + 100 {
    tries += 1;
    // two thirds phase-matched at the centre (so that amplitudes are not mere side-lobe residue)
    let o = if tries % 3 == 0 { &opts } else { &opts_pm };
    // every 12th setup is a written-down one (round numbers, explicit symmetric arms, through SPDC::from_json)
    let written = tries % 12 == 11;
    let spdc = match if written { gen_written_setup(&mut ctx.rng) } else { gen_setup(&mut ctx.rng, o) } {
      Some(s) => s,
      None => {
        ctx.count(if written { "c06/written-setup-rejected" } else { "c06/setup-rejected" });
        continue;
      }
    };
    let mut spdc = spdc;
    // elliptic collection modes (`BeamWaist { x, y }` with x ≠ y: public fields; `BeamWaist::new_elliptic` with the crate's
    // `elliptic` feature) on a quarter of the generated setups: one beam, both with different ellipses, or the same ellipse
    // turned by 90° (equal areas).  The exchange must carry each beam's (x, y) over as they are.
    let mut elliptic = "";
    if !written {
      let ell = |r: &mut Rng, b: BeamWaist| -> BeamWaist {
        let q = if r.coin() { r.range(0.4, 0.9) } else { r.range(1.1, 2.5) };
        BeamWaist { x: b.x, y: b.x * q }
      };
      match ctx.rng.below(16) {
        0 => {
          let wv = ell(&mut ctx.rng, spdc.idler.waist());
          spdc.idler.set_waist(wv);
          elliptic = "idler";
        }
        1 => {
          let wv = ell(&mut ctx.rng, spdc.signal.waist());
          spdc.signal.set_waist(wv);
          elliptic = "signal";
        }
        2 => {
          let wv = ell(&mut ctx.rng, spdc.idler.waist());
          spdc.idler.set_waist(wv);
          let wv = ell(&mut ctx.rng, spdc.signal.waist());
          spdc.signal.set_waist(wv);
          elliptic = "both";
        }
        3 => {
          let wv = ell(&mut ctx.rng, spdc.signal.waist());
          spdc.signal.set_waist(wv);
          spdc.idler.set_waist(BeamWaist { x: wv.y, y: wv.x });
          elliptic = "turned";
        }
        _ => {}
      }
    }
    // 'copied value' theme on 30 % of the generated setups
    let mut copied: Vec<&'static str> = vec![];
    if written {
      copied.push("written");
    } else if ctx.rng.below(10) < 3 {
      copied = copy_values(&mut ctx.rng, &mut spdc);
    }
    // the PM label and the beams' own polarisations may disagree (set_polarization on one beam, or the label edited alone):
    // well defined — all spectrum code reads the beams — and the exchange must carry the beams over unchanged
    match ctx.rng.below(8) {
      0 => {
        let flip = |p: PolarizationType| if p == PolarizationType::Ordinary { PolarizationType::Extraordinary } else { PolarizationType::Ordinary };
        if ctx.rng.coin() {
          let p = flip(spdc.idler.polarization());
          spdc.idler.set_polarization(p);
        } else {
          let p = flip(spdc.signal.polarization());
          spdc.signal.set_polarization(p);
        }
        ctx.count("c06/label-polarisation-inconsistent/beam-flipped");
      }
      1 => {
        let cur = spdc.crystal_setup.pm_type;
        let other = *ctx.rng.pick(&PMTYPES);
        if other != cur {
          spdc.crystal_setup.pm_type = other;
          ctx.count("c06/label-polarisation-inconsistent/label-edited");
        }
      }
      _ => {}
    }
    if view(&spdc).map(|v| v.all_finite()) != Some(true) {
      ctx.count("c06/setup-rejected");
      continue;
    }
    let swapped = spdc.clone().with_swapped_signal_idler();
    // hand-built exchanged twin: beams and waist positions exchanged, label inverted, nothing else touched
    {
      let mut cs = spdc.crystal_setup.clone();
      cs.pm_type = cs.pm_type.inverse();
      let twin = SPDC::new(
        cs,
        spdc.idler.clone().as_beam().into(),
        spdc.signal.clone().as_beam().into(),
        spdc.pump.clone(),
        spdc.pump_bandwidth,
        spdc.pump_average_power,
        spdc.pump_spectrum_threshold,
        spdc.pp.clone(),
        spdc.idler_waist_position,
        spdc.signal_waist_position,
        spdc.deff,
      );
      ctx.s("C06.swap_fields", twin == swapped, "swap/equals-hand-built-twin", &describe(&spdc));
    }
    // Simpson (even and odd requests) and Gauss–Legendre; `divs` also sizes the Simpson sum used for the conditioning
    // estimate when the rule itself is Gauss–Legendre.  Requests ≥ 130 are left to C05/C07's 1-D predicates: JointSpectrum
    // evaluates the singles 2-D integral with the same rule, and its rayon reduction over 131² terms is not reproducible
    // to the statement's tolerances on ill-conditioned setups (two identical calls differed by 1e-5: C15's subject).
    let divs = *ctx.rng.pick(&[50usize, 20, 10, 50, 51]);
    let integ = if ctx.rng.below(6) == 0 { Integrator::GaussLegendre { degree: *ctx.rng.pick(&[12usize, 40]) } } else { Integrator::Simpson { divs } };
    ctx.count(&format!("c06/integrator/{}", match integ { Integrator::Simpson { divs } => format!("simpson{}", divs), Integrator::GaussLegendre { degree } => format!("gl{}", degree), _ => "other".into() }));
    let s1 = spdc.clone();
    let s2 = swapped.clone();
    let js = match guard(move || (s1.joint_spectrum(integ), s2.joint_spectrum(integ))) {
      Some(j) => j,
      None => {
        // JointSpectrum::new unwraps try_as_optimum: C04/C17 territory
        ctx.count("c06/joint-spectrum-unavailable");
        continue;
      }
    };
    made += 1;
    count_setup(ctx, "c06", &spdc);
    let desc = if copied.is_empty() { describe(&spdc) } else { format!("copied={} {}", copied.join("+"), describe(&spdc)) };
    let elliptic_now = spdc.signal.waist().x != spdc.signal.waist().y || spdc.idler.waist().x != spdc.idler.waist().y;
    let desc = if elliptic.is_empty() { desc } else { format!("elliptic={} {}", elliptic, desc) };
    if elliptic_now {
      ctx.count(&format!("c06/elliptic/{}", elliptic));
    }
    for t in copied.iter() {
      ctx.count(&format!("c06/copied/{}", t));
    }
    {
      // bit-equal quantities of this setup (whatever produced them)
      let (sg, id) = (&spdc.signal, &spdc.idler);
      let th_eq = sg.theta_internal() == id.theta_internal();
      if th_eq {
        ctx.count(if sg.theta_internal().value_unsafe == 0.0 { "c06/bit-equal/theta/zero" } else { "c06/bit-equal/theta/nonzero" });
        let differ = sg.polarization() != id.polarization() || sg.frequency() != id.frequency();
        if differ && sg.theta_internal().value_unsafe != 0.0 {
          ctx.count("c06/bit-equal/theta/nonzero-refracting-differently");
        }
      }
      if sg.waist() == id.waist() {
        ctx.count("c06/bit-equal/waist");
      }
      if sg.frequency() == id.frequency() {
        ctx.count("c06/bit-equal/frequency");
      }
      if spdc.signal_waist_position == spdc.idler_waist_position {
        ctx.count("c06/bit-equal/waist-position");
      }
      if sg.phi() == id.phi() {
        ctx.count("c06/bit-equal/phi");
      }
    }
    // swap is an involution
    let back = swapped.clone().with_swapped_signal_idler();
    ctx.s("C06.involutive", back == spdc, "swap/involutive", &desc);

    // amplitude (magnitude and phase) and intensity at frequency pairs
    let v = view(&spdc).unwrap();
    let vs = view(&swapped).unwrap();
    for pair in 0..4 {
      let (ws, wi) = gen_freqs(&mut ctx.rng, &spdc);
      // copied-value setups: also the copied frequency pairs — exactly the centre, exactly equal frequencies
      let (ws, wi) = match (copied.is_empty(), pair) {
        (false, 0) => (raw_w(spdc.signal.frequency()), raw_w(spdc.idler.frequency())),
        (false, 1) if ctx.rng.coin() => {
          let h = 0.5 * (ws + wi);
          (h, h)
        }
        _ => (ws, wi),
      };
      if (!copied.is_empty() || elliptic_now) && pair < 2 {
        // correspondence of the integrand on these setups, for the setup and its twin
        k_integrand(ctx, &spdc, &v, ws, wi, "c06");
        k_integrand(ctx, &swapped, &vs, wi, ws, "c06");
      }
      let (j1, j2) = (js.0.clone(), js.1.clone());
      let r = guard(move || {
        (j1.jsa(w(ws), w(wi)), j2.jsa(w(wi), w(ws)), j1.jsi(w(ws), w(wi)).value_unsafe, j2.jsi(w(wi), w(ws)).value_unsafe)
      });
      let det = format!("ws={:.17e} wi={:.17e} divs={} {}", ws, wi, divs, desc);
      match r {
        None => ctx.s("C06.jsa", false, "jsa/exchange/panic", &det),
        Some((a, b, ia, ib)) => {
          if a.norm() == 0.0 && b.norm() == 0.0 {
            ctx.count("c06/jsa/zero-both");
          } else if !(a.norm().is_finite() && b.norm().is_finite()) {
            ctx.count("c06/jsa/non-finite");
          } else {
            ctx.count("c06/jsa/nonzero");
          }
          let e = rel_err_c(a, b);
          // NaN/inf on both sides: nothing to compare (finiteness is C07's clause)
          let fin = a.norm().is_finite() && b.norm().is_finite();
          let tiny = a.norm() < 1e-290;
          // conditioning of the z-quadrature sum: kappa = Σ|f_k|w_k / |Σ f_k w_k|
          let kappa = {
            let s1 = spdc.clone();
            let pm = guard(move || (*(phasematch_fiber_coupling(w(ws), w(wi), &s1, integ) / PerMeter4::new(1.0))).norm());
            match (pm, simpson_abs_scale(&spdc, ws, wi, divs)) {
              (Some(p), Some(sc)) if p > 0.0 => sc / p,
              _ => f64::INFINITY,
            }
          };
          let well = kappa <= KAPPA_MAX;
          if !well && a.norm() > 0.0 {
            ctx.count("c06/jsa/ill-conditioned-skipped");
          }
          ctx.s(
            "C06.jsa",
            !fin || tiny || !well || e <= 1e-6,
            "jsa/exchange",
            &format!("relerr={:e} kappa={:e} a=({:e},{:e}) b=({:e},{:e}) {}", e, kappa, a.re, a.im, b.re, b.im, det),
          );
          let ei = rel_err(ia, ib);
          let fin = ia.is_finite() && ib.is_finite();
          ctx.s(
            "C06.jsi",
            !fin || ia.abs() < 1e-290 || !well || ei <= 2.1e-6,
            "jsi/exchange",
            &format!("relerr={:e} kappa={:e} a={:e} b={:e} {}", ei, kappa, ia, ib, det),
          );
          if fin && well && !tiny && e.is_finite() {
            worst_e = worst_e.max(e);
          }
          // correspondence of the normalisation layer with the model (both setups): jsa_raw is an input
          if fin {
            let s1 = spdc.clone();
            if let Some(raw) = guard(move || jsa_raw(w(ws), w(wi), &s1, integ)) {
              ctx.k(
                "jsa",
                &format!("{} {} {}", setup_tokens(&v, &spdc, ws, wi), jsa_tokens(&spdc), cx(raw)),
                &format!("{} {}", cx(a), fl(ia)),
              );
            }
            let s2 = swapped.clone();
            if let Some(raw) = guard(move || jsa_raw(w(wi), w(ws), &s2, integ)) {
              ctx.k(
                "jsa",
                &format!("{} {} {}", setup_tokens(&vs, &swapped, wi, ws), jsa_tokens(&swapped), cx(raw)),
                &format!("{} {}", cx(b), fl(ib)),
              );
            }
          }
        }
      }
    }
    swap_case(ctx, &spdc);

    // rates and singles over a small grid (every other setup: they cost 2-D integrals): every representation of the range
    // (FrequencySpace::new, Steps2D → From, with_resolution, WavelengthSpace, SumDiffFrequencySpace), every orientation of the
    // two axes (low-to-high / high-to-low, independently), square and non-square shapes
    if made % 2 == 0 {
      rates_case(ctx, &spdc, &swapped, &desc);
    }
  }
  ctx.dist.insert("c06/max-relerr-jsa-times-1e15".to_string(), (worst_e * 1e15) as u64);
}


// ------------------------------------------------------------------------------------------ C07

/// wide ranges of the c07 generator (waists of all three beams, crystal length), metres
const WAIST_LO: f64 = 2e-6;
const WAIST_HI: f64 = 2e-2;
const LENGTH_LO: f64 = 2e-5;
const LENGTH_HI: f64 = 0.3;

fn next_up(x: f64) -> f64 {
  if x.is_nan() || x == f64::INFINITY {
    return x;
  }
  if x == 0.0 {
    return f64::from_bits(1);
  }
  let b = x.to_bits();
  f64::from_bits(if x > 0.0 { b + 1 } else { b - 1 })
}
fn next_down(x: f64) -> f64 {
  -next_up(-x)
}

/// are the three wavelengths of (ws, wi, ws+wi) inside the crystal's transmission window?
fn in_window(spdc: &SPDC, ws: f64, wi: f64) -> bool {
  let (lo, hi) = window(&spdc.crystal_setup.crystal);
  let two_pi_c = spdcalc::TWO_PI * 299_792_458.0;
  [ws, wi, ws + wi].iter().all(|&x| x > 0.0 && {
    let l = two_pi_c / x;
    l >= lo && l <= hi
  })
}

struct Spectra {
  raw: Complex<f64>,
  sraw: f64,
  jsa: Complex<f64>,
  jsi: f64,
  jsis: f64,
}

fn spectra(js: &JointSpectrum, spdc: &SPDC, ws: f64, wi: f64, integ: Integrator) -> Option<Spectra> {
  let (j, s) = (js.clone(), spdc.clone());
  guard(move || Spectra {
    raw: jsa_raw(w(ws), w(wi), &s, integ),
    sraw: jsi_singles_raw(w(ws), w(wi), &s, integ),
    jsa: j.jsa(w(ws), w(wi)),
    jsi: j.jsi(w(ws), w(wi)).value_unsafe,
    jsis: j.jsi_singles(w(ws), w(wi)).value_unsafe,
  })
}


/// HOM visibilities and rate curves do not depend on power/deff of either source: single source, two identical
/// sources, and a source interfered with a rescaled copy of itself (both orders) through the free functions.
fn two_source_hom(ctx: &mut Ctx, spdc: &SPDC, scaled: &SPDC, a: f64, b: f64, range: FrequencySpace, integ: Integrator, det: &str) {
  use spdcalc::dim::ucum::S as SEC;
  use spdcalc::utils::Steps;
  use spdcalc::{hom_two_source_rate_series, hom_two_source_time_delays, hom_two_source_visibilities};
  let c = (a * b * b).sqrt();
  let (s1, s2) = (spdc.clone(), scaled.clone());
  let tau = 10f64.powf(ctx.rng.range(-13.5, -11.5));
  let r = guard(move || {
    let js1 = s1.joint_spectrum(integ);
    let js2 = s2.joint_spectrum(integ);
    let amax = js1.jsa_range(range).iter().map(|z| z.norm()).fold(0.0, f64::max);
    let delays = Steps(-tau * SEC, tau * SEC, 3);
    let reference = hom_two_source_rate_series(&js1, &js1, range, range, delays);
    let mixed12 = hom_two_source_rate_series(&js1, &js2, range, range, delays);
    let mixed21 = hom_two_source_rate_series(&js2, &js1, range, range, delays);
    let same22 = hom_two_source_rate_series(&js2, &js2, range, range, delays);
    // single source rate curve
    let single1 = s1.hom_rate_series(delays, range, integ);
    let single2 = s2.hom_rate_series(delays, range, integ);
    // visibilities of the mixed pairs against identical sources at the SAME delays
    let td = hom_two_source_time_delays(&s1, &s2);
    let at = |t| hom_two_source_rate_series(&js1, &js1, range, range, Steps(t, t, 1));
    let expect = [(0.5 - at(td.ss).ss[0]) / 0.5, (0.5 - at(td.ii).ii[0]) / 0.5, (0.5 - at(td.si).si[0]) / 0.5];
    let v12 = hom_two_source_visibilities(&s1, &s2, range, range, integ);
    let v21 = hom_two_source_visibilities(&s2, &s1, range, range, integ);
    let td21 = hom_two_source_time_delays(&s2, &s1);
    let expect21 = [(0.5 - at(td21.ss).ss[0]) / 0.5, (0.5 - at(td21.ii).ii[0]) / 0.5, (0.5 - at(td21.si).si[0]) / 0.5];
    // identical sources through the SPDC methods
    let self1 = s1.hom_two_source_visibilities(range, integ);
    let self2 = s2.hom_two_source_visibilities(range, integ);
    (amax, reference, mixed12, mixed21, same22, single1, single2, expect, expect21, v12, v21, self1, self2)
  });
  let (amax, reference, mixed12, mixed21, same22, single1, single2, expect, expect21, v12, v21, self1, self2) = match r {
    Some(x) => x,
    None => {
      ctx.s("C07.invariant", false, "invariant/hom-two-source-panic", det);
      return;
    }
  };
  // |f1|²|f2|² sums: fourth powers of the amplitudes with both scales must stay inside the f64 range
  if !(amax * c.min(1.0) > 1e-70 && amax * c.max(1.0) < 1e70) {
    ctx.count("c07/hom-two-source/amplitudes-outside-f64-fourth-power-range");
    return;
  }
  let close = |x: f64, y: f64| (x - y).abs() <= 1e-9 * x.abs().max(y.abs()).max(1.0);
  let all_fin = |v: &[f64]| v.iter().all(|x| x.is_finite());
  let flat = |r: &spdcalc::HomTwoSourceResult<Vec<f64>>| -> Vec<f64> { r.ss.iter().chain(r.ii.iter()).chain(r.si.iter()).cloned().collect() };
  let rf = flat(&reference);
  if !all_fin(&rf) {
    ctx.count("c07/hom-two-source/non-finite-reference");
    return;
  }
  for (name, other) in [("mixed-1x2", flat(&mixed12)), ("mixed-2x1", flat(&mixed21)), ("rescaled-2x2", flat(&same22))] {
    let ok = other.len() == rf.len() && rf.iter().zip(other.iter()).all(|(x, y)| close(*x, *y));
    ctx.s("C07.invariant", ok, &format!("invariant/hom-two-source-rate/{}", name), &format!("reference={:?} got={:?} {}", rf, other, det));
  }
  if all_fin(&single1) {
    let ok = single1.len() == single2.len() && single1.iter().zip(single2.iter()).all(|(x, y)| close(*x, *y));
    ctx.s("C07.invariant", ok, "invariant/hom-rate-series", &format!("rate={:?} rate_scaled={:?} {}", single1, single2, det));
  }
  let vis = |v: &spdcalc::HomTwoSourceResult<(spdcalc::types::Time, f64)>| [v.ss.1, v.ii.1, v.si.1];
  for (name, got, want) in [("mixed-1x2", vis(&v12), expect), ("mixed-2x1", vis(&v21), expect21)] {
    if all_fin(&want) {
      let ok = got.iter().zip(want.iter()).all(|(x, y)| close(*x, *y));
      ctx.s("C07.invariant", ok, &format!("invariant/hom-two-source-visibility/{}", name), &format!("identical_sources_at_same_delays={:?} got={:?} {}", want, got, det));
    }
  }
  let (v1, v2) = (vis(&self1), vis(&self2));
  if all_fin(&v1) {
    let ok = v1.iter().zip(v2.iter()).all(|(x, y)| close(*x, *y));
    ctx.s("C07.invariant", ok, "invariant/hom-two-source-visibility/rescaled-2x2", &format!("V={:?} V_scaled={:?} {}", v1, v2, det));
  }
  ctx.count("c07/hom-two-source/judged");
}


/// "Normalised spectra are independent of power and deff" as a SEQUENCE in one process: absolute powers 1e-6…1e3 mW and
/// deff 1e-6…1e3 pm/V, pairs that differ only in the 5th–8th significant digit, every JointSpectrum built fresh, in a
/// shuffled order, and every setup re-checked at the end (same setup ⇒ same values whatever was constructed before).
fn history_block(ctx: &mut Ctx, spdc: &SPDC, integ: Integrator, desc: &str) {
  let ws0 = raw_w(spdc.signal.frequency());
  let wi0 = raw_w(spdc.idler.frequency());
  let sigma = raw_w(fwhm_to_spectral_width(spdc.pump.vacuum_wavelength(), spdc.pump_bandwidth));
  let pts = [(ws0, wi0), (ws0 + 0.3 * sigma, wi0 + 0.2 * sigma)];
  let p0 = spdc.pump_average_power.value_unsafe; // mW
  let d0 = spdc.deff.value_unsafe; // m/mV = 1e15 pm/V
  let pmv = 1e-15;
  let tiny_p = ctx.rng.log_range(1e-6, 4e-5);
  let tiny_d = ctx.rng.log_range(1e-6, 4e-5) * pmv;
  let mut variants: Vec<(f64, f64)> = vec![
    (p0, d0),
    (tiny_p, d0),
    (tiny_p * ctx.rng.range(1.5, 9.0), d0),
    (p0, tiny_d),
    (p0, tiny_d * ctx.rng.range(1.5, 9.0)),
    (tiny_p, tiny_d),
    (p0 * (1.0 + 10f64.powf(ctx.rng.range(-8.0, -5.0))), d0),
    (p0, d0 * (1.0 + 10f64.powf(ctx.rng.range(-8.0, -5.0)))),
    (ctx.rng.log_range(1e-6, 1e3), ctx.rng.log_range(1e-6, 1e3) * pmv),
    (1e3, 1e3 * pmv),
    (ctx.rng.log_range(1e-4, 1e-2), ctx.rng.log_range(1e-4, 1e-2) * pmv),
  ];
  // shuffle (Fisher–Yates) but keep the reference values from whichever comes first
  for i in (1..variants.len()).rev() {
    let j = ctx.rng.below(i + 1);
    variants.swap(i, j);
  }
  let eval = |p: f64, d: f64| -> Option<Vec<f64>> {
    let mut s = spdc.clone();
    s.pump_average_power = p * MILLIW;
    s.deff = MetersPerMilliVolt::new(d);
    guard(move || {
      let js = s.joint_spectrum(integ);
      let mut out = Vec::new();
      for (ws, wi) in pts {
        out.push(js.jsi_normalized(w(ws), w(wi)));
        out.push(js.jsi_singles_normalized(w(ws), w(wi)));
        let a = js.jsa_normalized(w(ws), w(wi));
        out.push(a.re);
        out.push(a.im);
      }
      out
    })
  };
  let close = |x: &[f64], y: &[f64], tol: f64| {
    x.len() == y.len()
      && x.iter().zip(y.iter()).all(|(a, b)| (a == b) || (!a.is_finite() && !b.is_finite()) || (a - b).abs() <= tol * a.abs().max(b.abs()).max(1e-300))
  };
  let mut first: Vec<Option<Vec<f64>>> = Vec::new();
  for (p, d) in variants.iter() {
    first.push(eval(*p, *d));
  }
  // values whose intermediate |jsa|² leaves the normal range carry no relative precision (see the range guards above)
  let usable = |v: &Vec<f64>| v.iter().all(|x| x.is_finite()) && v[0] > 1e-200 && v[0] < 1e200;
  let reference = match first.iter().flatten().find(|v| usable(v)) {
    Some(v) => v.clone(),
    None => {
      ctx.count("c07/history/no-usable-reference");
      return;
    }
  };
  for (k, (p, d)) in variants.iter().enumerate() {
    let det = format!("order={} power_mw={:.17e} deff_pm_per_v={:.17e} {}", k, p, d / pmv, desc);
    match &first[k] {
      None => ctx.s("C07.invariant", false, "invariant/sequence/panic", &det),
      Some(v) => {
        // absolute scale of the amplitude must stay representable: power·deff² spans 1e-24…1e9 of the base here
        if !usable(v) {
          ctx.count("c07/history/out-of-range");
          continue;
        }
        ctx.s("C07.invariant", close(v, &reference, 1e-9), "invariant/sequence/normalized-spectra", &format!("values={:?} reference={:?} {}", v, reference, det));
      }
    }
  }
  // history independence: rebuild every setup (reverse order) — same setup, same values
  for k in (0..variants.len()).rev() {
    let (p, d) = variants[k];
    let det = format!("order={} power_mw={:.17e} deff_pm_per_v={:.17e} {}", k, p, d / pmv, desc);
    if let (Some(v1), Some(v2)) = (&first[k], eval(p, d)) {
      ctx.s("C07.invariant", close(v1, &v2, 1e-12), "invariant/sequence/history-independence", &format!("first={:?} again={:?} {}", v1, v2, det));
    }
  }
  ctx.count("c07/history/blocks");
}


/// linearity and invariance through the `*_range` route (parallel iterators over a grid)
fn range_route(ctx: &mut Ctx, spdc: &SPDC, scaled: &SPDC, f: f64, range: FrequencySpace, integ: Integrator, det: &str) {
  let (s1, s2) = (spdc.clone(), scaled.clone());
  let r = guard(move || {
    let (j1, j2) = (s1.joint_spectrum(integ), s2.joint_spectrum(integ));
    let v = |x: Vec<spdcalc::JSIUnits<f64>>| x.iter().map(|y| y.value_unsafe).collect::<Vec<f64>>();
    (
      v(j1.jsi_range(range)), v(j2.jsi_range(range)),
      v(j1.jsi_singles_range(range)), v(j2.jsi_singles_range(range)),
      j1.jsi_normalized_range(range), j2.jsi_normalized_range(range),
      j1.jsi_singles_normalized_range(range), j2.jsi_singles_normalized_range(range),
      j1.jsa_normalized_range(range), j2.jsa_normalized_range(range),
      j1.jsa_range(range),
    )
  });
  let (i1, i2, s1v, s2v, n1, n2, sn1, sn2, an1, an2, amp) = match r {
    Some(x) => x,
    None => {
      ctx.s("C07.linear", false, "linear/range-route-panic", det);
      return;
    }
  };
  let range_ok = |x: f64| x == 0.0 || (x.abs() > 1e-290 && x.abs() < 1e290);
  let amp_ok = |x: f64| x == 0.0 || (x > 1e-145 && x < 1e145);
  let c = f.sqrt();
  let (mut wl, mut wi_) = (0.0f64, 0.0f64);
  let mut judged = 0;
  for k in 0..i1.len() {
    let fin = [i1[k], i2[k], s1v[k], s2v[k], n1[k], n2[k], sn1[k], sn2[k], an1[k].re, an1[k].im, an2[k].re, an2[k].im].iter().all(|x| x.is_finite());
    let rng = range_ok(i1[k]) && range_ok(i2[k]) && range_ok(f * i1[k]) && range_ok(s1v[k]) && range_ok(s2v[k]) && range_ok(f * s1v[k])
      && amp_ok(amp[k].norm()) && amp_ok(amp[k].norm() * c);
    if !fin || !rng {
      continue;
    }
    judged += 1;
    wl = wl.max(rel_err(i2[k], f * i1[k])).max(rel_err(s2v[k], f * s1v[k]));
    wi_ = wi_.max(rel_err(n1[k], n2[k])).max(rel_err(sn1[k], sn2[k])).max(rel_err_c(an1[k], an2[k]));
  }
  ctx.s("C07.linear", wl <= 1e-9, "linear/range-route", &format!("relerr={:e} judged={} {}", wl, judged, det));
  ctx.s("C07.invariant", wi_ <= 1e-9, "invariant/range-route", &format!("relerr={:e} judged={} {}", wi_, judged, det));
}

/// The envelope clause on one setup: amplitude 1 at the pump centre frequency, intensity ½ at ± half the frequency span of
/// the wavelength FWHM (and, Gaussian, 2⁻⁴ at ± one span); K `pump_amp` at the half-span points.
fn envelope_block(ctx: &mut Ctx, spdc: &SPDC, desc: &str) {
  let wp0 = raw_w(spdc.pump.frequency());
  let lp = spdc.pump.vacuum_wavelength();
  let bw = spdc.pump_bandwidth;
  let a0 = pump_spectral_amplitude(w(wp0), spdc);
  ctx.s("C07.envelope", (a0 - 1.0).abs() <= 1e-12, "envelope/centre", &format!("amp={:e} {}", a0, desc));
  let span = raw_w(vacuum_wavelength_to_frequency(lp - 0.5 * bw) - vacuum_wavelength_to_frequency(lp + 0.5 * bw));
  for sgn in [1.0, -1.0] {
    let om = wp0 + sgn * 0.5 * span;
    let a = pump_spectral_amplitude(w(om), spdc);
    // the argument wp0 ± span/2 is itself rounded to ulp(wp0): relative error ulp(wp0)/span in x
    let slack = 1e-9 + 4.0 * (wp0 * f64::EPSILON) / span.abs();
    ctx.s(
      "C07.envelope",
      (a * a - 0.5).abs() <= slack,
      "envelope/half",
      &format!("intensity={:.17e} omega={:.17e} span={:.17e} {}", a * a, om, span, desc),
    );
    ctx.k("pump_amp", &format!("{} {} {}", fl(om), fl(wp0), fl(bw.value_unsafe)), &fl(a));
    // Gaussian: at ± one full span the intensity is (1/2)^4
    let om2 = wp0 + sgn * span;
    let a2 = pump_spectral_amplitude(w(om2), spdc);
    ctx.s(
      "C07.envelope",
      (a2 * a2 - 0.0625).abs() <= 0.5 * slack,
      "envelope/gaussian-full-span",
      &format!("intensity={:.17e} omega={:.17e} span={:.17e} {}", a2 * a2, om2, span, desc),
    );
  }
}

/// `jsa_raw` = envelope × phase matching AT the half-span points: for a pair whose sum sits at ω₀ ± Δ/2 the raw joint amplitude
/// is 2^-½ of the phase-matching amplitude (and the raw singles intensity ½ of the singles phase-matching function), whatever the
/// bandwidth.  (`factor/envelope-times-pm` multiplies by the crate's own envelope value, so it cannot see an envelope that is
/// wrong in the same way on both sides.)
fn half_span_factor(ctx: &mut Ctx, se: &SPDC, integ: Integrator, divs: usize, desc: &str, singles: bool) {
  let wp0 = raw_w(se.pump.frequency());
  let lp = se.pump.vacuum_wavelength();
  let bw = se.pump_bandwidth;
  let thr = se.pump_spectrum_threshold;
  // the envelope there (2^-½) has to lie above the threshold
  if !(thr <= 0.5) {
    ctx.count("c07/half-span/threshold-above-envelope");
    return;
  }
  let span = raw_w(vacuum_wavelength_to_frequency(lp - 0.5 * bw) - vacuum_wavelength_to_frequency(lp + 0.5 * bw));
  let slack = 1e-9 + 4.0 * (wp0 * f64::EPSILON) / span.abs();
  let ws = raw_w(se.signal.frequency());
  for sgn in [1.0, -1.0] {
    let om = wp0 + sgn * 0.5 * span;
    let wi = om - ws;
    let off_box = ws <= 0.0 || wi <= 0.0 || ws > wp0 || wi > wp0 || (ws - wi).abs() > 0.75 * wp0;
    if off_box {
      ctx.count("c07/half-span/off-box");
      continue;
    }
    let det = format!("ws={:.17e} wi={:.17e} span={:.17e} divs={} {}", ws, wi, span, divs, desc);
    let s1 = se.clone();
    let r = guard(move || {
      let raw = jsa_raw(w(ws), w(wi), &s1, integ);
      let pm = *(phasematch_fiber_coupling(w(ws), w(wi), &s1, integ) / PerMeter4::new(1.0));
      let sing = if singles {
        Some((jsi_singles_raw(w(ws), w(wi), &s1, integ), *(phasematch_singles_fiber_coupling(w(ws), w(wi), &s1, integ) / PerMeter3::new(1.0))))
      } else {
        None
      };
      (raw, pm, sing)
    });
    match r {
      None => ctx.s("C07.finite", !in_window(se, ws, wi), "finite/panic", &det),
      Some((raw, pm, sing)) => {
        let pn = pm.norm();
        if pn.is_finite() && pn > 1e-290 && pn < 1e290 {
          let q = raw.norm() / pn;
          ctx.s("C07.factor", (q * q - 0.5).abs() <= slack, "factor/half-span", &format!("ratio2={:.17e} raw=({:e},{:e}) pm=({:e},{:e}) {}", q * q, raw.re, raw.im, pm.re, pm.im, det));
          ctx.count("c07/half-span/judged");
        } else {
          ctx.count("c07/half-span/pm-zero-or-out-of-range");
        }
        if let Some((sraw, fs)) = sing {
          if fs.is_finite() && fs.abs() > 1e-290 && fs.abs() < 1e290 {
            let q = sraw / fs;
            ctx.s("C07.singles_factor", (q - 0.5).abs() <= slack, "singles-factor/half-span", &format!("ratio={:.17e} sraw={:e} fs={:e} {}", q, sraw, fs, det));
          }
        }
      }
    }
  }
}

/// The envelope clause holds for every positive bandwidth (0 < fwhm < 2λp): clones of the setup with the bandwidth log-uniform
/// over 1e-20 m … 1e-7 m (sub-femtometre CW linewidths up to 100 nm) and, one in six, 2 %…150 % of the pump wavelength.
fn envelope_decades(ctx: &mut Ctx, spdc: &SPDC, integ: Integrator, divs: usize) {
  let lpv = spdc.pump.vacuum_wavelength().value_unsafe;
  for k in 0..3 {
    let mut se = spdc.clone();
    let bwv = if ctx.rng.below(6) == 0 { lpv * ctx.rng.range(0.02, 1.5) } else { ctx.rng.log_range(1e-20, 1e-7) };
    se.pump_bandwidth = bwv * M;
    ctx.count(&format!("c07/envelope-decades/bw-1e{:+03}", bwv.log10().floor() as i64));
    let d = describe(&se);
    envelope_block(ctx, &se, &d);
    let sw = fwhm_to_spectral_width(se.pump.vacuum_wavelength(), se.pump_bandwidth);
    ctx.k("spectral_width", &format!("{} {}", fl(lpv), fl(bwv)), &fl(raw_w(sw)));
    half_span_factor(ctx, &se, integ, divs, &d, k == 0);
  }
}

/// the statement of C07 on the real code
fn c07_cases(ctx: &mut Ctx) {
  let opts = GenOpts { plane_wave: false, phase_matched: false, counter: None, tilted_biaxial: false, unpoled: false };
  let opts_pm = GenOpts { plane_wave: false, phase_matched: true, counter: None, tilted_biaxial: false, unpoled: false };
  let mut made = 0;
  let mut tries = 0;
  let mut worst_lin = 0.0f64;
  let mut worst_inv = 0.0f64;
  while made < ctx.n && tries < 30 * ctx.n + 100 {
    tries += 1;
    let o = if tries % 3 == 0 { &opts } else { &opts_pm };
    let spdc = match gen_setup(&mut ctx.rng, o) {
      Some(s) => s,
      None => {
        ctx.count("c07/setup-rejected");
        continue;
      }
    };
    let mut spdc = spdc;
    // wide decades (each with probability 1/8, independently): the statement quantifies over all setups, and a cut-off such as
    // `if x < f64::EPSILON` on a quantity in SI units only shows many decades away from the everyday values
    if ctx.rng.below(8) == 0 {
      spdc.pump_bandwidth = ctx.rng.log_range(1e-20, 1e-7) * M;
      ctx.count("c07/wide/bandwidth");
    }
    if ctx.rng.below(8) == 0 {
      spdc.pump_spectrum_threshold = 10f64.powf(-ctx.rng.log_range(0.05, 300.0));
      ctx.count("c07/wide/threshold");
    }
    if ctx.rng.below(8) == 0 {
      spdc.pump_average_power = ctx.rng.log_range(1e-6, 1e6) * MILLIW;
      ctx.count("c07/wide/power");
    }
    if ctx.rng.below(8) == 0 {
      spdc.deff = MetersPerMilliVolt::new(ctx.rng.log_range(1e-4, 1e4) * 1e-15);
      ctx.count("c07/wide/deff");
    }
    if ctx.rng.below(8) == 0 {
      let (a, b, c) = (ctx.rng.log_range(WAIST_LO, WAIST_HI), ctx.rng.log_range(WAIST_LO, WAIST_HI), ctx.rng.log_range(WAIST_LO, WAIST_HI));
      spdc.signal.set_waist(BeamWaist::new(a * M));
      spdc.idler.set_waist(BeamWaist::new(b * M));
      spdc.pump.set_waist(BeamWaist::new(c * M));
      ctx.count("c07/wide/waists");
    }
    if ctx.rng.below(8) == 0 {
      spdc.crystal_setup.length = ctx.rng.log_range(LENGTH_LO, LENGTH_HI) * M;
      ctx.count("c07/wide/length");
    }
    if view(&spdc).map(|v| v.all_finite()) != Some(true) {
      ctx.count("c07/setup-rejected");
      continue;
    }
    // a quarter of the setups are NOT energy matched: the signal (or the idler) is retuned by a fraction of the pump's
    // spectral width without recomputing the other beam, so ωs0 + ωi0 ≠ ωp — the envelope is centred on the pump
    if ctx.rng.below(4) == 0 {
      let sg = raw_w(fwhm_to_spectral_width(spdc.pump.vacuum_wavelength(), spdc.pump_bandwidth));
      let dw = sg * ctx.rng.range(0.3, 2.0) * if ctx.rng.coin() { 1.0 } else { -1.0 };
      if ctx.rng.coin() {
        let f = spdc.signal.frequency() + w(dw);
        spdc.signal.set_frequency(f);
      } else {
        let f = spdc.idler.frequency() + w(dw);
        spdc.idler.set_frequency(f);
      }
      ctx.count("c07/not-energy-matched");
    }
    let divs = *ctx.rng.pick(&[10usize, 20, 50, 21]);
    let is_gl = ctx.rng.below(6) == 0;
    let integ = if is_gl { Integrator::GaussLegendre { degree: *ctx.rng.pick(&[12usize, 40]) } } else { Integrator::Simpson { divs } };
    ctx.count(&format!("c07/integrator/{}", match integ { Integrator::Simpson { divs } => format!("simpson{}", divs), Integrator::GaussLegendre { degree } => format!("gl{}", degree), _ => "other".into() }));
    let s1 = spdc.clone();
    let js = match guard(move || s1.joint_spectrum(integ)) {
      Some(j) => j,
      None => {
        ctx.count("c07/joint-spectrum-unavailable");
        continue;
      }
    };
    made += 1;
    count_setup(ctx, "c07", &spdc);
    let desc = describe(&spdc);
    let wp0 = raw_w(spdc.pump.frequency());
    let lp = spdc.pump.vacuum_wavelength();
    let bw = spdc.pump_bandwidth;
    let thr = spdc.pump_spectrum_threshold;

    // ---- envelope: amplitude 1 at the centre, intensity 1/2 at ± half the frequency span of the FWHM
    envelope_block(ctx, &spdc, &desc);
    // ---- the same clause for every positive bandwidth: 13 decades below and up to 1.5 pump wavelengths
    envelope_decades(ctx, &spdc, integ, divs);

    // ---- jsa_raw = envelope × phase-matching amplitude ; finite inside the window
    let v = view(&spdc).unwrap();
    let mut pts: Vec<(f64, f64)> = Vec::new();
    for _ in 0..3 {
      pts.push(gen_freqs(&mut ctx.rng, &spdc));
    }
    // a point on each side of the threshold contour
    let sigma = raw_w(fwhm_to_spectral_width(lp, bw));
    let xthr = (-thr.ln()).sqrt();
    let ws0 = raw_w(spdc.signal.frequency());
    let wi0 = raw_w(spdc.idler.frequency());
    for eps in [1e-12, 1e-6, 1e-2] {
      for side in [-1.0, 1.0] {
        let d = xthr * sigma * (1.0 + side * eps) * if ctx.rng.coin() { 1.0 } else { -1.0 };
        let split = ctx.rng.unit();
        pts.push((ws0 + split * d, wi0 + (1.0 - split) * d));
      }
    }
    for (ws, wi) in pts.iter().cloned() {
      let det = format!("ws={:.17e} wi={:.17e} divs={} {}", ws, wi, divs, desc);
      let alpha = pump_spectral_amplitude(w(ws) + w(wi), &spdc);
      let s1 = spdc.clone();
      let pm = guard(move || *(phasematch_fiber_coupling(w(ws), w(wi), &s1, integ) / PerMeter4::new(1.0)));
      let sp = spectra(&js, &spdc, ws, wi, integ);
      let (pm, sp) = match (pm, sp) {
        (Some(p), Some(s)) => (p, s),
        _ => {
          ctx.s("C07.finite", !in_window(&spdc, ws, wi), "finite/panic", &det);
          continue;
        }
      };
      // the statement's support box
      let off_box = ws <= 0.0 || wi <= 0.0 || ws > wp0 || wi > wp0 || (ws - wi).abs() > 0.75 * wp0;
      let below = alpha < thr;
      ctx.count(if off_box { "c07/point/off-box" } else if below { "c07/point/below-threshold" } else { "c07/point/above-threshold" });
      if off_box {
        let z = sp.raw.re == 0.0 && sp.raw.im == 0.0 && sp.sraw == 0.0 && sp.jsa.re == 0.0 && sp.jsa.im == 0.0 && sp.jsi == 0.0 && sp.jsis == 0.0;
        ctx.s("C07.zero", z, "zero/off-box-near-centre", &format!("raw=({:e},{:e}) jsi={:e} jsis={:e} {}", sp.raw.re, sp.raw.im, sp.jsi, sp.jsis, det));
      } else if below {
        let z = sp.raw.re == 0.0 && sp.raw.im == 0.0 && sp.sraw == 0.0 && sp.jsa.re == 0.0 && sp.jsa.im == 0.0 && sp.jsi == 0.0 && sp.jsis == 0.0;
        ctx.s("C07.zero", z, "zero/below-threshold", &format!("alpha={:e} raw=({:e},{:e}) jsi={:e} jsis={:e} {}", alpha, sp.raw.re, sp.raw.im, sp.jsi, sp.jsis, det));
      } else {
        let expect = alpha * pm;
        let ok = (sp.raw.re == expect.re && sp.raw.im == expect.im) || rel_err_c(sp.raw, expect) <= 1e-12 || !(expect.re.is_finite() && expect.im.is_finite());
        ctx.s("C07.factor", ok, "factor/envelope-times-pm", &format!("raw=({:e},{:e}) alpha={:e} pm=({:e},{:e}) {}", sp.raw.re, sp.raw.im, alpha, pm.re, pm.im, det));
      }
      if !off_box && !below {
        // the same factorisation under the parallel branch of the 1-D rule (≥ 130 requested divisions); two parallel
        // reductions of the same sum may differ by rounding proportional to the absolute sum
        let big = Integrator::Simpson { divs: 130 };
        let (s1, s2) = (spdc.clone(), spdc.clone());
        let r = guard(move || (jsa_raw(w(ws), w(wi), &s1, big), *(phasematch_fiber_coupling(w(ws), w(wi), &s2, big) / PerMeter4::new(1.0))));
        if let (Some((raw, pm)), Some(sc)) = (r, simpson_abs_scale(&spdc, ws, wi, 130)) {
          let expect = alpha * pm;
          let ok = !(expect.re.is_finite() && expect.im.is_finite()) || (raw - expect).norm() <= 1e-12 * alpha * sc;
          ctx.s("C07.factor", ok, "factor/envelope-times-pm/simpson130", &format!("raw=({:e},{:e}) alpha={:e} pm=({:e},{:e}) {}", raw.re, raw.im, alpha, pm.re, pm.im, det));
        }
      }
      if in_window(&spdc, ws, wi) {
        let fin = sp.raw.re.is_finite() && sp.raw.im.is_finite() && sp.sraw.is_finite() && sp.jsa.re.is_finite() && sp.jsa.im.is_finite() && sp.jsi.is_finite() && sp.jsis.is_finite();
        ctx.s("C07.finite", fin, "finite/in-window", &format!("raw=({:e},{:e}) sraw={:e} jsi={:e} jsis={:e} {}", sp.raw.re, sp.raw.im, sp.sraw, sp.jsi, sp.jsis, det));
        ctx.count("c07/point/in-window");
      } else {
        ctx.count("c07/point/outside-window");
      }
      // correspondence: jsa_raw with its scale, normalisation layer
      let nodes = simpson_nodes(divs);
      let st = setup_tokens(&v, &spdc, ws, wi);
      if is_gl {
        // the jsa_raw correspondence op mirrors the Simpson sum only
      } else if let Some(sc) = simpson_abs_scale(&spdc, ws, wi, divs) {
        let out = if sp.raw.re == 0.0 && sp.raw.im == 0.0 { format!("{} {}", cx(sp.raw), fl(0.0)) } else { format!("{} {}", cx(sp.raw), fl(alpha * sc)) };
        ctx.k("jsa_raw", &format!("{} {} {} {}", st, jsa_tokens(&spdc), divs, apod_table(&spdc, &nodes)), &out);
      }
      ctx.k("jsa", &format!("{} {} {}", st, jsa_tokens(&spdc), cx(sp.raw)), &format!("{} {}", cx(sp.jsa), fl(sp.jsi)));
    }

    // ---- each clause of the support box on its own, the other clauses satisfied and the envelope ABOVE the threshold
    //      there: broadband pump (5 % of the wavelength) and threshold 0 or 1e-300, so that nothing but the box test can
    //      produce the zero
    {
      let mut sb = spdc.clone();
      sb.pump_bandwidth = 0.05 * spdc.pump.vacuum_wavelength();
      sb.pump_spectrum_threshold = if ctx.rng.coin() { 0.0 } else { 1e-300 };
      let s1 = sb.clone();
      if let Some(jsb) = guard(move || s1.joint_spectrum(integ)) {
        let u = |a: f64| a * wp0;
        let clauses: Vec<(f64, f64, &str)> = vec![
          (0.0, u(0.7), "ws-nonpositive"),
          (-0.0, u(0.7), "ws-nonpositive"),
          (-u(1e-3), u(0.7), "ws-nonpositive"),
          (u(0.7), 0.0, "wi-nonpositive"),
          (u(0.7), -u(ctx.rng.log_range(1e-9, 1e-2)), "wi-nonpositive"),
          (next_up(wp0), u(0.2515), "ws-above-pump"),
          (u(1.001), u(0.2515), "ws-above-pump"),
          (u(0.2515), next_up(wp0), "wi-above-pump"),
          (u(0.2515), u(1.001), "wi-above-pump"),
          (u(0.3), u(ctx.rng.range(1.0001, 1.04)), "wi-above-pump"),
          (u(0.9), u(0.1), "difference"),
          (u(0.1), u(0.9), "difference"),
        ];
        for (ws, wi, clause) in clauses {
          let alpha = pump_spectral_amplitude(w(ws) + w(wi), &sb);
          if !(alpha >= sb.pump_spectrum_threshold && alpha > 0.0) {
            ctx.count("c07/box-clause/envelope-underflowed");
            continue;
          }
          let det = format!("clause={} alpha={:e} ws={:.17e} wi={:.17e} wp={:.17e} thr={:e} bw={:e} divs={} {}", clause, alpha, ws, wi, wp0, sb.pump_spectrum_threshold, sb.pump_bandwidth.value_unsafe, divs, desc);
          match spectra(&jsb, &sb, ws, wi, integ) {
            None => ctx.s("C07.zero", false, &format!("zero/clause/{}/panic", clause), &det),
            Some(sp) => {
              let z = sp.raw.re == 0.0 && sp.raw.im == 0.0 && sp.sraw == 0.0 && sp.jsa.re == 0.0 && sp.jsa.im == 0.0 && sp.jsi == 0.0 && sp.jsis == 0.0;
              ctx.s("C07.zero", z, &format!("zero/clause/{}", clause), &format!("raw=({:e},{:e}) sraw={:e} jsi={:e} jsis={:e} {}", sp.raw.re, sp.raw.im, sp.sraw, sp.jsi, sp.jsis, det));
            }
          }
        }
        // count rates over a region that lies entirely off the support (idler above the pump frequency)
        let reg = FrequencySpace::new((w(u(0.26)), w(u(0.30)), 2), (w(u(1.0005)), w(u(1.02)), 2));
        let s1 = sb.clone();
        if let Some((c1, c2, c3)) = guard(move || {
          (
            s1.counts_coincidences(reg, integ).value_unsafe,
            s1.counts_singles_signal(reg, integ).value_unsafe,
            s1.counts_singles_idler(reg, integ).value_unsafe,
          )
        }) {
          ctx.s("C07.zero", c1 == 0.0 && c2 == 0.0 && c3 == 0.0, "zero/clause/rates-over-off-support-region", &format!("cc={:e} ss={:e} si={:e} thr={:e} {}", c1, c2, c3, sb.pump_spectrum_threshold, desc));
        }
      }
    }

    // ---- exact zeros off the support box (edges at ±1 ulp)
    let mut off: Vec<(f64, f64, &str)> = vec![
      (0.0, wi0, "nonpositive"),
      (-0.0, wi0, "nonpositive"),
      (ws0, 0.0, "nonpositive"),
      (-ctx.rng.log_range(1e-300, 1e16), wi0, "nonpositive"),
      (ws0, -ctx.rng.log_range(1e-300, 1e16), "nonpositive"),
      (next_up(wp0), wi0 * 1e-3, "above-pump"),
      (ws0 * 1e-3, next_up(wp0), "above-pump"),
      (wp0 * ctx.rng.range(1.0001, 3.0), wi0, "above-pump"),
      (ws0, wp0 * ctx.rng.range(1.0001, 3.0), "above-pump"),
    ];
    // |ws - wi| > 3/4 wp with both inside (0, wp]
    let q = 0.75 * wp0;
    let base = ctx.rng.range(0.01, 0.24) * wp0;
    let hi_edge = {
      // smallest double ws with (ws - base).abs() > q
      let mut x = base + q;
      while (x - base).abs() <= q {
        x = next_up(x);
      }
      x
    };
    off.push((hi_edge, base, "difference"));
    off.push((base, hi_edge, "difference"));
    off.push((base + q * ctx.rng.range(1.0001, 1.3), base, "difference"));
    for (ws, wi, class) in off.iter().cloned() {
      let det = format!("class={} ws={:.17e} wi={:.17e} wp={:.17e} divs={} {}", class, ws, wi, wp0, divs, desc);
      match spectra(&js, &spdc, ws, wi, integ) {
        None => ctx.s("C07.zero", false, &format!("zero/{}/panic", class), &det),
        Some(sp) => {
          let z = sp.raw.re == 0.0 && sp.raw.im == 0.0 && sp.sraw == 0.0 && sp.jsa.re == 0.0 && sp.jsa.im == 0.0 && sp.jsi == 0.0 && sp.jsis == 0.0;
          ctx.s("C07.zero", z, &format!("zero/{}", class), &format!("raw=({:e},{:e}) sraw={:e} jsi={:e} jsis={:e} {}", sp.raw.re, sp.raw.im, sp.sraw, sp.jsi, sp.jsis, det));
        }
      }
      ctx.k("invalid_freq", &format!("{} {} {}", fl(ws), fl(wi), fl(wp0)), "1");
    }
    // just inside the box: the support test itself, observed through jsa_raw with the threshold
    // disabled.  Pairs with ws + wi = wp and |ws - wi| ∈ {0.75, 0.75(1-1e-15), 0.74, 0.72, 0.705}·wp,
    // the inner ±1 ulp edges and ws = wp.  Where the phase-matching amplitude itself is the literal
    // zero (underflow far from phase matching) nothing can be observed.
    let lo_edge = next_down(hi_edge);
    let mut inside: Vec<(f64, f64)> = vec![(lo_edge, base), (base, lo_edge), (wp0, wi0 * 0.5), (ws0 * 0.5, wp0)];
    for frac in [0.75, 0.75 * (1.0 - 1e-15), 0.74, 0.72, 0.705, 0.5] {
      let hi = 0.5 * (1.0 + frac) * wp0;
      let lo = wp0 - hi;
      if (hi - lo).abs() <= 0.75 * wp0 {
        inside.push((hi, lo));
        inside.push((lo, hi));
      }
    }
    for (ws, wi) in inside {
      let mut s0 = spdc.clone();
      s0.pump_spectrum_threshold = -1.0;
      let s1 = s0.clone();
      let integ6 = Integrator::Simpson { divs: 6 };
      let pm = guard(move || *(phasematch_fiber_coupling(w(ws), w(wi), &s1, integ6) / PerMeter4::new(1.0)));
      let r = guard(move || jsa_raw(w(ws), w(wi), &s0, integ6));
      if let (Some(pm), Some(r)) = (pm, r) {
        let alpha = pump_spectral_amplitude(w(ws) + w(wi), &spdc);
        let prod = alpha * pm;
        if prod.re == 0.0 && prod.im == 0.0 {
          ctx.count("c07/inside-box/zero-integral");
        } else {
          // the amplitude is not the literal zero: jsa_raw is zero iff the box test rejected the pair
          let rejected = r.re == 0.0 && r.im == 0.0;
          ctx.k("invalid_freq", &format!("{} {} {}", fl(ws), fl(wi), fl(wp0)), if rejected { "1" } else { "0" });
          ctx.count("c07/inside-box/observed");
        }
      }
    }

    // ---- one support for both spectra: zero iff envelope AMPLITUDE < threshold (or off the box);
    //      singles raw = envelope² × singles phase matching above it.  Thresholds 1e-2, 1e-4, 0.25;
    //      envelope targets in the band thr ≤ α < sqrt(thr), around α = thr (±ulp-ish, ±1 %) and around sqrt(thr)
    for thr_k in [1e-2, 1e-4, 0.25] {
      let mut st = spdc.clone();
      st.pump_spectrum_threshold = thr_k;
      let s1 = st.clone();
      let jst = match guard(move || s1.joint_spectrum(integ)) {
        Some(j) => j,
        None => continue,
      };
      let rt = thr_k.sqrt();
      let targets = [
        thr_k * (1.0 + 4e-16), thr_k * (1.0 - 4e-16), thr_k * (1.0 + 1e-9), thr_k * (1.0 - 1e-9), thr_k * 1.01, thr_k * 0.99,
        thr_k.powf(0.9), thr_k.powf(0.75), thr_k.powf(0.6), thr_k.powf(0.51),
        rt * 0.99, rt * 1.01, 0.5 * (1.0 + rt), 0.3 * thr_k,
      ];
      for alpha_t in targets {
        if !(alpha_t > 0.0 && alpha_t < 1.0) {
          continue;
        }
        let d = (-alpha_t.ln()).sqrt() * sigma * if ctx.rng.coin() { 1.0 } else { -1.0 };
        let split = ctx.rng.unit();
        let (ws, wi) = (ws0 + split * d, wi0 + (1.0 - split) * d);
        let off_box = ws <= 0.0 || wi <= 0.0 || ws > wp0 || wi > wp0 || (ws - wi).abs() > 0.75 * wp0;
        let alpha = pump_spectral_amplitude(w(ws) + w(wi), &st);
        let det = format!("thr={:e} alpha={:.17e} ws={:.17e} wi={:.17e} divs={} {}", thr_k, alpha, ws, wi, divs, desc);
        let s1 = st.clone();
        let fs = guard(move || *(phasematch_singles_fiber_coupling(w(ws), w(wi), &s1, integ) / PerMeter3::new(1.0)));
        let sp = spectra(&jst, &st, ws, wi, integ);
        let (fs, sp) = match (fs, sp) {
          (Some(a), Some(b)) => (a, b),
          _ => {
            ctx.s("C07.support", false, "support/panic", &det);
            continue;
          }
        };
        let band = if off_box { "off-box" } else if alpha < thr_k { "below" } else if alpha < rt { "band" } else { "above-sqrt" };
        ctx.count(&format!("c07/support/thr={:e}/{}", thr_k, band));
        let coinc_zero = sp.raw.re == 0.0 && sp.raw.im == 0.0 && sp.jsa.re == 0.0 && sp.jsa.im == 0.0 && sp.jsi == 0.0;
        let singles_zero = sp.sraw == 0.0 && sp.jsis == 0.0;
        if off_box || alpha < thr_k {
          ctx.s("C07.zero", coinc_zero && singles_zero, &format!("zero/{}", if off_box { "off-box-near-centre" } else { "below-threshold" }),
            &format!("raw=({:e},{:e}) sraw={:e} jsi={:e} jsis={:e} {}", sp.raw.re, sp.raw.im, sp.sraw, sp.jsi, sp.jsis, det));
        } else {
          // inside the support: singles raw = envelope² × singles phase matching (bit-for-bit up to the order of the products)
          let expect = alpha * alpha * fs;
          let ok = !expect.is_finite() || sp.sraw == expect || rel_err(sp.sraw, expect) <= 1e-12;
          ctx.s("C07.singles_factor", ok, &format!("singles-factor/{}", band),
            &format!("sraw={:e} expect={:e} fs={:e} {}", sp.sraw, expect, fs, det));
          // one support: a spectrum may vanish inside only if its own phase-matching factor is the literal zero
          let s1 = st.clone();
          let pm = guard(move || *(phasematch_fiber_coupling(w(ws), w(wi), &s1, integ) / PerMeter4::new(1.0)));
          let pm_zero = matches!(pm, Some(p) if { let q = alpha * p; q.re == 0.0 && q.im == 0.0 });
          let fs_zero = alpha * alpha * fs == 0.0;
          let ok = (!(sp.raw.re == 0.0 && sp.raw.im == 0.0) || pm_zero) && (sp.sraw != 0.0 || fs_zero);
          ctx.s("C07.support", ok, &format!("support/shared/{}", band),
            &format!("raw=({:e},{:e}) sraw={:e} fs={:e} {}", sp.raw.re, sp.raw.im, sp.sraw, fs, det));
        }
        // correspondence of the singles support logic (the 2-D phase-matching value is an input)
        ctx.k(
          "jsi_singles_raw",
          &fls(&[ws, wi, wp0, bw.value_unsafe, thr_k, fs]),
          &fl(sp.sraw),
        );
      }
    }

    // ---- boundary thresholds: exactly the envelope value at the point (not below ⇒ inside), 0.0, and 1.0 at the centre
    {
      let d = sigma * ctx.rng.range(0.3, 2.0) * if ctx.rng.coin() { 1.0 } else { -1.0 };
      let split = ctx.rng.unit();
      let (ws, wi) = (ws0 + split * d, wi0 + (1.0 - split) * d);
      let alpha_here = pump_spectral_amplitude(w(ws) + w(wi), &spdc);
      for (thr_b, bws, bwi, name) in [(alpha_here, ws, wi, "equal-to-envelope"), (0.0, ws, wi, "zero"), (1.0, ws0, wp0 - ws0, "one-at-centre")] {
        let off_box = bws <= 0.0 || bwi <= 0.0 || bws > wp0 || bwi > wp0 || (bws - bwi).abs() > 0.75 * wp0;
        let mut st = spdc.clone();
        st.pump_spectrum_threshold = thr_b;
        let alpha = pump_spectral_amplitude(w(bws) + w(bwi), &st);
        if off_box || alpha < thr_b {
          continue;
        }
        let s1 = st.clone();
        let r = guard(move || {
          (
            jsa_raw(w(bws), w(bwi), &s1, integ),
            jsi_singles_raw(w(bws), w(bwi), &s1, integ),
            *(phasematch_fiber_coupling(w(bws), w(bwi), &s1, integ) / PerMeter4::new(1.0)),
            *(phasematch_singles_fiber_coupling(w(bws), w(bwi), &s1, integ) / PerMeter3::new(1.0)),
          )
        });
        let det = format!("thr={:.17e} alpha={:.17e} ws={:.17e} wi={:.17e} divs={} {}", thr_b, alpha, bws, bwi, divs, desc);
        if let Some((raw, sraw, pm, fs)) = r {
          let e1 = alpha * pm;
          let e2 = alpha * alpha * fs;
          let ok1 = !(e1.re.is_finite() && e1.im.is_finite()) || (raw.re == e1.re && raw.im == e1.im) || rel_err_c(raw, e1) <= 1e-12;
          let ok2 = !e2.is_finite() || sraw == e2 || rel_err(sraw, e2) <= 1e-12;
          ctx.s("C07.factor", ok1, &format!("factor/threshold-{}", name), &format!("raw=({:e},{:e}) expect=({:e},{:e}) {}", raw.re, raw.im, e1.re, e1.im, det));
          ctx.s("C07.singles_factor", ok2, &format!("singles-factor/threshold-{}", name), &format!("sraw={:e} expect={:e} {}", sraw, e2, det));
        }
      }
    }

    // ---- linearity in power and deff² over 6 decades; invariance of ratios
    let a = 10f64.powf(ctx.rng.range(-3.0, 3.0));
    let b = 10f64.powf(ctx.rng.range(-3.0, 3.0));
    let mut scaled = spdc.clone();
    scaled.pump_average_power = a * spdc.pump_average_power;
    scaled.deff = b * spdc.deff;
    let s2 = scaled.clone();
    let js2 = match guard(move || s2.joint_spectrum(integ)) {
      Some(j) => j,
      None => {
        ctx.s("C07.linear", false, "linear/joint-spectrum-panic", &format!("a={:e} b={:e} {}", a, b, desc));
        continue;
      }
    };
    let f = a * b * b;
    for _ in 0..2 {
      let (ws, wi) = gen_freqs(&mut ctx.rng, &spdc);
      let det = format!("a={:e} b={:e} ws={:.17e} wi={:.17e} divs={} {}", a, b, ws, wi, divs, desc);
      let (j1, j2) = (js.clone(), js2.clone());
      let r = guard(move || {
        (
          j1.jsi(w(ws), w(wi)).value_unsafe,
          j2.jsi(w(ws), w(wi)).value_unsafe,
          j1.jsi_singles(w(ws), w(wi)).value_unsafe,
          j2.jsi_singles(w(ws), w(wi)).value_unsafe,
          j1.jsi_normalized(w(ws), w(wi)),
          j2.jsi_normalized(w(ws), w(wi)),
          j1.jsi_singles_normalized(w(ws), w(wi)),
          j2.jsi_singles_normalized(w(ws), w(wi)),
          j1.jsa_normalized(w(ws), w(wi)),
          j2.jsa_normalized(w(ws), w(wi)),
          j1.jsa(w(ws), w(wi)).norm(),
          j2.jsa(w(ws), w(wi)).norm(),
        )
      });
      match r {
        None => ctx.s("C07.linear", false, "linear/panic", &det),
        Some((i1, i2, s1, s2, n1, n2, sn1, sn2, an1, an2, am1, am2)) => {
          // amplitudes whose square leaves the normal f64 range carry no relative precision
          let amp_ok = |x: f64| x == 0.0 || (x > 1e-145 && x < 1e145);
          let fin = i1.is_finite() && i2.is_finite() && s1.is_finite() && s2.is_finite();
          let e1 = rel_err(i2, f * i1);
          let e2 = rel_err(s2, f * s1);
          if fin && f * i1 > 1e-290 && f * i1 < 1e290 && i1 > 1e-290 && f * s1 > 1e-290 && f * s1 < 1e290 && s1 > 1e-290 {
            worst_lin = worst_lin.max(e1).max(e2);
          }
          let range_ok = |x: f64| x == 0.0 || (x.abs() > 1e-290 && x.abs() < 1e290);
          ctx.s("C07.linear", !fin || !range_ok(f * i1) || !range_ok(i1) || !range_ok(i2) || e1 <= 1e-9, "linear/jsi", &format!("relerr={:e} jsi={:e} jsi_scaled={:e} {}", e1, i1, i2, det));
          ctx.s("C07.linear", !fin || !range_ok(f * s1) || !range_ok(s1) || !range_ok(s2) || e2 <= 1e-9, "linear/jsi-singles", &format!("relerr={:e} jsis={:e} jsis_scaled={:e} {}", e2, s1, s2, det));
          let fin = n1.is_finite() && n2.is_finite() && sn1.is_finite() && sn2.is_finite() && an1.norm().is_finite() && an2.norm().is_finite();
          let en = rel_err(n1, n2).max(rel_err(sn1, sn2)).max(rel_err_c(an1, an2));
          if fin && range_ok(f * i1) && range_ok(i1) && range_ok(i2) && range_ok(f * s1) && range_ok(s1) && range_ok(s2) && amp_ok(am1) && amp_ok(am2) {
            worst_inv = worst_inv.max(en);
          }
          let rng = range_ok(f * i1) && range_ok(i1) && range_ok(i2) && range_ok(f * s1) && range_ok(s1) && range_ok(s2) && amp_ok(am1) && amp_ok(am2);
          ctx.s("C07.invariant", !fin || !rng || en <= 1e-9, "invariant/normalized-spectra", &format!("relerr={:e} jsi_n=({:e},{:e}) jsis_n=({:e},{:e}) {}", en, n1, n2, sn1, sn2, det));
        }
      }
    }
    // rates, efficiencies, Schmidt number, HOM visibility over a small grid (every other setup)
    if made % 2 == 0 {
      let n = if ctx.thorough { 6 } else { 4 };
      let (xs, yi) = small_grid(&mut ctx.rng, &spdc, n);
      let range = FrequencySpace::new((w(xs.0), w(xs.1), xs.2), (w(yi.0), w(yi.1), yi.2));
      let sinteg = Integrator::Simpson { divs: 10 };
      let det = format!("a={:e} b={:e} xs=({:.17e},{:.17e},{}) yi=({:.17e},{:.17e},{}) divs=10 {}", a, b, xs.0, xs.1, xs.2, yi.0, yi.1, yi.2, desc);
      let (s1, s2) = (spdc.clone(), scaled.clone());
      let r = guard(move || {
        let e1 = s1.efficiencies(range, sinteg);
        let e2 = s2.efficiencies(range, sinteg);
        let k1 = s1.joint_spectrum(sinteg).schmidt_number(range);
        let k2 = s2.joint_spectrum(sinteg).schmidt_number(range);
        let h1 = s1.hom_visibility(range, sinteg);
        let h2 = s2.hom_visibility(range, sinteg);
        let amax = s1.joint_spectrum(sinteg).jsa_range(range).iter().map(|z| z.norm()).fold(0.0, f64::max);
        (e1, e2, k1, k2, h1, h2, amax)
      });
      two_source_hom(ctx, &spdc, &scaled, a, b, range, sinteg, &det);
      range_route(ctx, &spdc, &scaled, f, range, sinteg, &det);
      match r {
        None => {
          // counts_singles_idler builds JointSpectrum::new(swapped), which unwraps try_as_optimum of the EXCHANGED setup:
          // where that optimum does not exist (C04/C17 territory) the rates are unavailable, not wrong
          let sw = spdc.clone().with_swapped_signal_idler();
          if guard(move || sw.joint_spectrum(sinteg)).is_none() {
            ctx.count("c07/rates/exchanged-joint-spectrum-unavailable");
          } else {
            ctx.s("C07.linear", false, "linear/rates-panic", &det);
          }
        }
        Some((e1, e2, k1, k2, h1, h2, amax)) => {
          // σ⁴ (Schmidt) and |f|² sums (HOM) must stay inside the f64 range for both scales
          let c = f.sqrt();
          let amp_ok = amax * c.min(1.0) > 1e-70 && amax * c.max(1.0) < 1e70;
          let rates = [
            (e1.coincidences.value_unsafe, e2.coincidences.value_unsafe, "coincidences"),
            (e1.signal_singles.value_unsafe, e2.signal_singles.value_unsafe, "signal-singles"),
            (e1.idler_singles.value_unsafe, e2.idler_singles.value_unsafe, "idler-singles"),
          ];
          let range_ok = |x: f64| x == 0.0 || (x.abs() > 1e-280 && x.abs() < 1e280);
          let mut all_ok = true;
          for (r1, r2, name) in rates.iter() {
            let fin = r1.is_finite() && r2.is_finite();
            let e = rel_err(*r2, f * *r1);
            let ok = !fin || !range_ok(f * *r1) || !range_ok(*r1) || !range_ok(*r2) || e <= 1e-9;
            if fin && range_ok(f * *r1) && range_ok(*r1) && range_ok(*r2) {
              worst_lin = worst_lin.max(e);
            } else {
              all_ok = false;
            }
            ctx.s("C07.linear", ok, &format!("linear/rate-{}", name), &format!("relerr={:e} rate={:e} rate_scaled={:e} {}", e, r1, r2, det));
          }
          if all_ok {
            let e = rel_err(e1.symmetric, e2.symmetric).max(rel_err(e1.signal, e2.signal)).max(rel_err(e1.idler, e2.idler));
            worst_inv = worst_inv.max(e);
            ctx.s("C07.invariant", e <= 1e-9, "invariant/efficiencies", &format!("relerr={:e} eff=({:e},{:e},{:e}) eff_scaled=({:e},{:e},{:e}) {}", e, e1.symmetric, e1.signal, e1.idler, e2.symmetric, e2.signal, e2.idler, det));
            if !amp_ok {
              ctx.count("c07/schmidt-hom/amplitudes-outside-f64-fourth-power-range");
            }
            match (k1, k2) {
              _ if !amp_ok => {}
              (Ok(k1), Ok(k2)) if k1.is_finite() && k2.is_finite() => {
                let e = rel_err(k1, k2);
                worst_inv = worst_inv.max(e);
                let mut diag = String::new();
                if e > 1e-9 {
                  // diagnostics: are the amplitudes proportional, and is the pure function scale invariant?
                  let (s1, s2) = (spdc.clone(), scaled.clone());
                  if let Some((a1, a2)) = guard(move || (s1.joint_spectrum(sinteg).jsa_range(range), s2.joint_spectrum(sinteg).jsa_range(range))) {
                    let c = f.sqrt();
                    let mut worst = 0.0f64;
                    let mut amax = 0.0f64;
                    let mut amin = f64::INFINITY;
                    for (x, y) in a1.iter().zip(a2.iter()) {
                      if x.norm() > 0.0 {
                        worst = worst.max(((*y / c) - *x).norm() / x.norm());
                        amax = amax.max(x.norm());
                        amin = amin.min(x.norm());
                      }
                    }
                    let scaled_copy: Vec<Complex<f64>> = a1.iter().map(|z| *z * c).collect();
                    let kc = spdcalc::math::schmidt_number(&scaled_copy).unwrap_or(f64::NAN);
                    let k0 = spdcalc::math::schmidt_number(&a1).unwrap_or(f64::NAN);
                    diag = format!("prop_dev={:e} amax={:e} amin={:e} K_of_A={:e} K_of_cA={:e} ", worst, amax, amin, k0, kc);
                  }
                }
                ctx.s("C07.invariant", e <= 1e-9, "invariant/schmidt", &format!("relerr={:e} K={:e} K_scaled={:e} {}{}", e, k1, k2, diag, det));
              }
              (Ok(_), Ok(_)) => ctx.count("c07/schmidt/non-finite"),
              (Err(_), Err(_)) => ctx.count("c07/schmidt/err-both"),
              _ => ctx.s("C07.invariant", false, "invariant/schmidt-err-one-side", &det),
            }
            if !amp_ok {
            } else if h1.1.is_finite() && h2.1.is_finite() {
              let e = (h1.1 - h2.1).abs() / h1.1.abs().max(1.0);
              ctx.s("C07.invariant", e <= 1e-9 && h1.0 == h2.0, "invariant/hom-visibility", &format!("abserr={:e} V={:e} V_scaled={:e} {}", e, h1.1, h2.1, det));
            } else {
              ctx.count("c07/hom/non-finite");
            }
          }
        }
      }
    }
    if made % 4 == 1 {
      history_block(ctx, &spdc, Integrator::Simpson { divs: 10 }, &desc);
    }
    // normalisations and envelope width for the scaled setup (model ↔ implementation)
    let (ws, wi) = gen_freqs(&mut ctx.rng, &scaled);
    let vs = view(&scaled).unwrap();
    let s2 = scaled.clone();
    if let Some((x, y)) = guard(move || {
      (
        *(jsi_normalization(w(ws), w(wi), &s2) / JsiNorm::new(1.0)),
        *(jsi_singles_normalization(w(ws), w(wi), &s2) / JsiSinglesNorm::new(1.0)),
      )
    }) {
      ctx.k("norms", &format!("{} {}", setup_tokens(&vs, &scaled, ws, wi), jsa_tokens(&scaled)), &format!("{} {}", fl(x), fl(y)));
    }
    ctx.k("spectral_width", &format!("{} {}", fl(lp.value_unsafe), fl(bw.value_unsafe)), &fl(sigma));
  }
  ctx.dist.insert("c07/max-relerr-linearity-times-1e15".to_string(), (worst_lin * 1e15) as u64);
  ctx.dist.insert("c07/max-relerr-invariance-times-1e15".to_string(), (worst_inv * 1e15) as u64);
}


// ------------------------------------------------------------------------------------------ C05

/// erf(x)/x: Maclaurin series 2/√π Σ (-1)^n x^{2n} / (n! (2n+1)) for |x| ≤ 2.5 (cancellation beyond), continued
/// fraction of erfc above
fn erf_over_x(x: f64) -> f64 {
  let x = x.abs();
  if x > 2.5 {
    // erfc by its continued fraction e^{-x²}/√π · 1/(x + (1/2)/(x + 1/(x + (3/2)/(x + …)))), evaluated backwards
    let mut t = x;
    for k in (1..=80).rev() {
      t = x + (k as f64 / 2.0) / t;
    }
    let erfc = (-x * x).exp() / std::f64::consts::PI.sqrt() / t;
    return (1.0 - erfc) / x;
  }
  let x2 = x * x;
  let mut term = 1.0; // (-1)^n x^{2n}/n!
  let mut sum = 1.0;
  for n in 1..200 {
    term *= -x2 / (n as f64);
    let add = term / (2.0 * n as f64 + 1.0);
    sum += add;
    if add.abs() < 1e-17 * sum.abs() {
      break;
    }
  }
  2.0 / std::f64::consts::PI.sqrt() * sum
}

fn sinc_abs(x: f64) -> f64 {
  if x == 0.0 {
    1.0
  } else {
    (x.sin() / x).abs()
  }
}

/// Δk_z·L/2 with the pump evaluated at ws+wi (the crate's own delta_k on a clone whose pump
/// frequency is ws+wi)
fn half_dkz_l(spdc: &SPDC, ws: f64, wi: f64) -> Option<f64> {
  let mut s = spdc.clone();
  guard(move || {
    s.pump.set_frequency(w(ws) + w(wi));
    let dk = s.delta_k(w(ws), w(wi));
    (dk.value_unsafe.z) * s.crystal_setup.length.value_unsafe * 0.5
  })
}

fn pm_abs(spdc: &SPDC, ws: f64, wi: f64, integ: Integrator) -> Option<f64> {
  let s = spdc.clone();
  guard(move || (*(phasematch_fiber_coupling(w(ws), w(wi), &s, integ) / PerMeter4::new(1.0))).norm())
}

/// walk-off parameter of the statement: x = L |tan ρ| sqrt((Ws²+Wi²)/Σ)
fn walkoff_x(v: &View, rho: f64) -> (f64, f64) {
  let wp2 = v.wpx * v.wpy;
  let ws2 = v.sig[3] * v.sig[4];
  let wi2 = v.idl[3] * v.idl[4];
  let sigma = wp2 * ws2 + wp2 * wi2 + ws2 * wi2;
  (v.l * rho.tan().abs() * ((ws2 + wi2) / sigma).sqrt(), sigma)
}

/// The statement's pump walk-off angle, computed independently of `Beam::walkoff_angle`:
/// ρ = atan(−(1/n)·∂n/∂θ) with central differences of the pump's index along ẑ at crystal θ ± h.
/// `None` where n(θ) is not smooth at the scale of the steps (next to an optic axis): the two step
/// sizes then disagree and no independent value of ρ exists.
fn walkoff_independent(spdc: &SPDC) -> Option<f64> {
  let s = spdc.clone();
  guard(move || {
    let th = s.crystal_setup.theta.value_unsafe;
    let n_at = |t: f64| {
      let mut cs = s.crystal_setup.clone();
      cs.theta = t * RAD;
      *s.pump.refractive_index(s.pump.frequency(), &cs)
    };
    let n0 = n_at(th);
    let d = |h: f64| (n_at(th + h) - n_at(th - h)) / (2.0 * h);
    let (d1, d2) = (d(1e-4), d(2.5e-5));
    if !(n0.is_finite() && n0 > 0.0 && d1.is_finite() && d2.is_finite()) || (d1 - d2).abs() > 1e-7 {
      return None;
    }
    Some((-d2 / n0).atan())
  })
  .flatten()
}

/// The statement's precondition "diffraction and walk-off across the crystal are negligible", made
/// quantitative (see notes/C05.md).  Pump walk-off multiplies the integrand by exp(-x²(1+z)²/4)
/// (x as in the statement); to first order this shifts the ratio at the first sinc zero by
/// 0.17·x² (measured on the pinned tree: ≤ 0.06·x² at random detunings, 2.3e-3 at x = 0.2), and
/// diffraction (eta = L/(k W²) of the tightest beam) by up to ≈ 0.4·eta (measured 5.3e-4 at
/// eta = 1.35e-3); Simpson-50 contributes 2.4e-5.  "Negligible" is taken as: each effect stays below
/// about a third of the statement's 1e-3.  Setups beyond these bounds are outside the sinc clause;
/// they still take part in the peak clause, which carries the walk-off in closed form and is
/// insensitive to diffraction (measured ≤ 3e-7 over the whole family).
pub const C05_X_MAX: f64 = 0.04;
/// max_depth values at which the unchanged tree's adaptive Simpson (always stopped by the depth at these amplitudes) still meets
/// the 1e-3 clause with margin: measured worst |ratio − |sinc|| 2.5e-4 at depth 4, ≤ 3.2e-4 for 5…8; depth 3 (8 panels) is 2.4e-3
/// off in the third lobe by plain discretisation error and is therefore outside what the statement can claim.
pub const SHALLOW_DEPTHS: [usize; 5] = [4, 5, 6, 7, 8];
pub const C05_DIFFRACTION_MAX: f64 = 1e-3;

fn diffraction_param(spdc: &SPDC, v: &View) -> f64 {
  let cs = &spdc.crystal_setup;
  let c = 299_792_458.0;
  let beams = [
    (raw_w(spdc.signal.frequency()), *spdc.signal.refractive_index(spdc.signal.frequency(), cs), v.sig[3] * v.sig[4]),
    (raw_w(spdc.idler.frequency()), *spdc.idler.refractive_index(spdc.idler.frequency(), cs), v.idl[3] * v.idl[4]),
    (raw_w(spdc.pump.frequency()), *spdc.pump.refractive_index(spdc.pump.frequency(), cs), v.wpx * v.wpy),
  ];
  beams.iter().map(|(om, n, w2)| v.l / ((n * om / c) * w2)).fold(0.0, f64::max)
}


/// secant search on the crystal angle for Δk_z = 0 at the centre frequencies with the setup's grating in place
/// (collinear beams; waist positions re-optimised as `try_as_optimum` does)
fn retune_crystal_theta(spdc: &SPDC) -> Option<SPDC> {
  let ws0 = raw_w(spdc.signal.frequency());
  let wi0 = raw_w(spdc.idler.frequency());
  let f = |th: f64| {
    let mut s = spdc.clone();
    s.crystal_setup.theta = th * RAD;
    half_dkz_l(&s, ws0, wi0)
  };
  let mut t0 = spdc.crystal_setup.theta.value_unsafe;
  let mut t1 = t0 + if t0 > 0.8 { -1e-3 } else { 1e-3 };
  let (mut f0, mut f1) = (f(t0)?, f(t1)?);
  for _ in 0..12 {
    if !(f0.is_finite() && f1.is_finite()) || f1 == f0 {
      return None;
    }
    let t2 = t1 - f1 * (t1 - t0) / (f1 - f0);
    if !(t2 > 0.01 && t2 < std::f64::consts::FRAC_PI_2 - 0.01) {
      return None;
    }
    t0 = t1;
    f0 = f1;
    t1 = t2;
    f1 = f(t1)?;
    if f1.abs() < 1e-6 {
      let mut s = spdc.clone();
      s.crystal_setup.theta = t1 * RAD;
      return guard(move || s.with_optimal_waist_positions());
    }
  }
  None
}

/// grating of the period 2π/Δk_z (Δk_z of the bare crystal at the centre frequencies, beams as they are) that brings the centre of a
/// collinear setup back to phase matching — the harness's own rematch for geometries the crate's optimum calls would rebuild
fn rematch_by_period(spdc: &SPDC) -> Option<SPDC> {
  let ws0 = raw_w(spdc.signal.frequency());
  let wi0 = raw_w(spdc.idler.frequency());
  let mut bare = spdc.clone();
  bare.pp = PeriodicPoling::Off;
  let x = half_dkz_l(&bare, ws0, wi0)?;
  let dkz = 2.0 * x / spdc.crystal_setup.length.value_unsafe;
  if !dkz.is_finite() || dkz == 0.0 {
    return None;
  }
  for sgn in [1.0, -1.0] {
    let mut t = spdc.clone();
    t.pp = PeriodicPoling::new(sgn * std::f64::consts::TAU / dkz * M, Apodization::Off);
    if matches!(half_dkz_l(&t, ws0, wi0), Some(v) if v.abs() < 0.5) {
      return Some(t);
    }
  }
  None
}

/// Hand-assembled geometries: pieces of a setup's state that are redundant for the phase-matching amplitude are edited one at a
/// time after the crate's optimum calls have built the setup, so that they DISAGREE — `crystal_setup.counter_propagation` vs the
/// beams' own directions (the flag only steers the optimum idler), `crystal_setup.pm_type` vs the beams' own polarisations, the
/// azimuth of a beam on the axis, a beam turned round by hand (θ → 180° − θ; phase matching restored by a harness-side grating).
/// All of them are collinear setups of the statement; the amplitude is a function of the beams.
fn hand_edit(ctx: &mut Ctx, spdc: &mut SPDC) -> Vec<&'static str> {
  let mut tags: Vec<&'static str> = vec![];
  let pi = std::f64::consts::PI;
  // the flag alone
  if ctx.rng.below(5) == 0 {
    spdc.crystal_setup.counter_propagation = !spdc.crystal_setup.counter_propagation;
    tags.push("flag-flipped");
  }
  // the label alone
  if ctx.rng.below(10) == 0 {
    let other = *ctx.rng.pick(&PMTYPES);
    if other != spdc.crystal_setup.pm_type {
      spdc.crystal_setup.pm_type = other;
      tags.push("label-edited");
    }
  }
  // azimuth of an on-axis beam (θ = 0 or 180°: the direction does not depend on φ)
  if ctx.rng.below(8) == 0 {
    let phi = if ctx.rng.coin() { ctx.rng.range(0.0, 360.0) } else { *ctx.rng.pick(&[0.0, 90.0, 180.0, 270.0]) };
    if ctx.rng.coin() {
      let th = spdc.idler.theta_internal();
      spdc.idler.set_angles(phi * DEG, th);
      tags.push("idler-azimuth");
    } else {
      let th = spdc.signal.theta_internal();
      spdc.signal.set_angles(phi * DEG, th);
      tags.push("signal-azimuth");
    }
  }
  // a beam turned round by hand (poled setups: the grating is re-chosen by the harness; the flag stays as it was)
  if spdc.pp != PeriodicPoling::Off && ctx.rng.below(8) == 0 {
    let mut t = spdc.clone();
    let which = ctx.rng.below(5);
    if which <= 2 {
      let th = pi - t.idler.theta_internal().value_unsafe;
      t.idler.set_angles(*ctx.rng.pick(&[0.0, 180.0]) * DEG, th * RAD);
    }
    if which >= 2 {
      let th = pi - t.signal.theta_internal().value_unsafe;
      t.signal.set_angles(*ctx.rng.pick(&[0.0, 180.0]) * DEG, th * RAD);
    }
    match rematch_by_period(&t) {
      Some(r) => {
        *spdc = r;
        tags.push(match which {
          0 | 1 => "idler-turned",
          2 => "both-turned",
          _ => "signal-turned",
        });
      }
      None => ctx.count("c05/hand-edit/turned-rematch-failed"),
    }
  }
  tags
}

fn c05_cases(ctx: &mut Ctx) {
  let opts_co = GenOpts { plane_wave: true, phase_matched: true, counter: None, tilted_biaxial: false, unpoled: false };
  let opts_sb = GenOpts { plane_wave: true, phase_matched: true, counter: Some(true), tilted_biaxial: false, unpoled: false };
  let opts_ib = GenOpts { plane_wave: true, phase_matched: true, counter: Some(false), tilted_biaxial: false, unpoled: false };
  let opts_tb = GenOpts { plane_wave: true, phase_matched: true, counter: None, tilted_biaxial: true, unpoled: false };
  let opts_lp = GenOpts { plane_wave: true, phase_matched: true, counter: None, tilted_biaxial: false, unpoled: true };
  let mut made = 0;
  let mut tries = 0;
  let mut worst_sinc = 0.0f64;
  let mut worst_peak = 0.0f64;
  while made < ctx.n && tries < 40 * ctx.n + 100 {
    tries += 1;
    // sub-families: co-propagating (5/8), counter-propagating in both orientations (1/8 each), biaxial tilted cut (1/8)
    let long_period = tries % 8 == 7;
    let opts = match tries % 8 {
      1 => &opts_sb,
      3 => &opts_ib,
      5 => &opts_tb,
      7 => &opts_lp,
      _ => &opts_co,
    };
    let mut spdc = match gen_setup(&mut ctx.rng, opts) {
      Some(s) => s,
      None => {
        ctx.count(&format!("c05/optimum-unavailable-or-rejected/{}", tries % 8));
        continue;
      }
    };
    if long_period {
      // an angle-phase-matched crystal with an explicit grating of either sign, |Λ| = 0.1 L … 10 L (not a QPM period):
      // either the crystal angle is trimmed so that the grating brings the centre back to phase matching, or the grating
      // simply shifts the phase-matched point along the detuning line (|Δk_z L/2| = π L/|Λ| at the centre, kept ≤ 8)
      let l = spdc.crystal_setup.length.value_unsafe;
      let lam = l * ctx.rng.log_range(0.1, 10.0) * if ctx.rng.coin() { 1.0 } else { -1.0 };
      spdc.pp = PeriodicPoling::new(lam * M, Apodization::Off);
      let trimmed = if ctx.rng.coin() || (std::f64::consts::PI * l / lam.abs()) > 8.0 { retune_crystal_theta(&spdc) } else { None };
      match trimmed {
        Some(t) => {
          spdc = t;
          ctx.count("c05/long-period/angle-trimmed");
        }
        None => ctx.count("c05/long-period/untrimmed"),
      }
      ctx.count(if lam.abs() > l { "c05/long-period/longer-than-crystal" } else { "c05/long-period/shorter-than-crystal" });
    }
    // hand-assembled geometries whose redundant pieces of state disagree
    let edited = hand_edit(ctx, &mut spdc);
    let v = match view(&spdc) {
      Some(v) if v.all_finite() => v,
      _ => {
        ctx.count("c05/hand-edit/view-unavailable");
        continue;
      }
    };
    let ws0 = raw_w(spdc.signal.frequency());
    let wi0 = raw_w(spdc.idler.frequency());
    // phase matched at the centre?  (the crate's optimum call may return a non-matching setup: C04)
    let x0 = match half_dkz_l(&spdc, ws0, wi0) {
      Some(x) if x.is_finite() => x,
      _ => {
        ctx.count("c05/dk-unavailable");
        continue;
      }
    };
    if x0.abs() > if long_period { 8.0 } else { 0.5 } {
      ctx.count(if long_period { "c05/long-period/phase-matched-point-too-far" } else { "c05/not-phase-matched-by-optimum" });
      continue;
    }
    // the statement does not single out an integrator: default Simpson-50, finer Simpson rules
    // (≥ 130 requested divisions take math::simpson's parallel branch) and Gauss–Legendre
    // (GaussKonrod is left out: at perfect phase matching the integrand is constant in z and quad-rs panics — D40 of C12)
    let amp_scale = {
      let (wp2, ws2, wi2) = (v.wpx * v.wpy, v.sig[3] * v.sig[4], v.idl[3] * v.idl[4]);
      4.0 / (wp2 * ws2 + wp2 * wi2 + ws2 * wi2)
    };
    let integ = match ctx.rng.below(15) {
      // adaptive Simpson stopped by a SHALLOW max_depth, tolerance relative to the amplitude scale 4/Σ or absolute
      13 | 14 => Integrator::AdaptiveSimpson {
        tolerance: if ctx.rng.coin() { 1e-9 * amp_scale } else { 1e-6 },
        max_depth: *ctx.rng.pick(&SHALLOW_DEPTHS),
      },
      9 => Integrator::Simpson { divs: *ctx.rng.pick(&[51usize, 128, 129, 131]) },
      10 => Integrator::GaussLegendre { degree: *ctx.rng.pick(&[20usize, 60]) },
      11 => Integrator::ClenshawCurtis { tolerance: *ctx.rng.pick(&[1e-6, 1e3]) },
      0 => Integrator::Simpson { divs: 100 },
      1 => Integrator::Simpson { divs: 200 },
      2 => Integrator::Simpson { divs: 400 },
      3 => Integrator::GaussLegendre { degree: 40 },
      4 => Integrator::Simpson { divs: 130 },
      // adaptive Simpson: the tolerance is absolute, amplitudes are ~1e7…1e11, so the recursion runs to max_depth
      5 => Integrator::AdaptiveSimpson { tolerance: 1e-6, max_depth: *ctx.rng.pick(&[10usize, 12]) },
      6 => Integrator::AdaptiveSimpson { tolerance: 1e-8, max_depth: *ctx.rng.pick(&[10usize, 12]) },
      _ => Integrator::default(),
    };
    let iname = match integ {
      Integrator::Simpson { divs } => format!("simpson{}", divs),
      Integrator::GaussLegendre { degree } => format!("gl{}", degree),
      Integrator::AdaptiveSimpson { tolerance, max_depth } => format!("adaptive-tol{:e}-depth{}", tolerance, max_depth),
      Integrator::ClenshawCurtis { tolerance } => format!("clenshaw-tol{:e}", tolerance),
      Integrator::GaussKonrod { tolerance, max_depth } => format!("gk-tol{:e}-depth{}", tolerance, max_depth),
    };
    let iclass = match integ {
      Integrator::Simpson { .. } => "simpson",
      Integrator::GaussLegendre { .. } => "gl",
      Integrator::AdaptiveSimpson { .. } => "adaptive",
      Integrator::ClenshawCurtis { .. } => "clenshaw",
      Integrator::GaussKonrod { .. } => "gk",
    };
    let desc = format!(
      "edited={} flag={} {}",
      if edited.is_empty() { "none".to_string() } else { edited.join("+") },
      spdc.crystal_setup.counter_propagation as u8,
      describe(&spdc)
    );
    // ρ of the statement, independent of the accessor the integrand itself reads
    let rho = match walkoff_independent(&spdc) {
      Some(r) => r,
      None => {
        ctx.count("c05/walkoff/independent-value-unavailable");
        continue;
      }
    };
    let (x, sigma) = walkoff_x(&v, rho);
    // auxiliary: the public accessor agrees with it (cuts 12°…90° off the axis, the range in which the crate's
    // finite-difference walk-off is claimed accurate — C02; nearer to an optic axis both differences are noisy)
    if spdc.crystal_setup.theta.value_unsafe >= 12f64.to_radians() {
    ctx.s(
      "C05.walkoff_accessor",
      (v.rho - rho).abs() <= 1e-6,
      "walkoff/accessor-vs-central-difference",
      &format!("accessor={:.12e} independent={:.12e} {}", v.rho, rho, desc),
    );
    }
    let eta = diffraction_param(&spdc, &v);

    // random direction in the (ws, wi) plane; x(t) = Δk_z L / 2 along it
    let ang = ctx.rng.range(0.0, std::f64::consts::TAU);
    let (ds, di) = (ang.cos(), ang.sin());
    let xt = |t: f64| half_dkz_l(&spdc, ws0 + t * ds, wi0 + t * di);
    // slope by a central difference with a step of 1e-6 of the signal frequency
    let h = 1e-6 * ws0.min(wi0);
    let slope = match (xt(h), xt(-h)) {
      (Some(a), Some(b)) => (a - b) / (2.0 * h),
      _ => {
        ctx.count("c05/dk-unavailable");
        continue;
      }
    };
    // the point of perfect phase matching on the line: Newton steps (fixed slope) from the centre until |Δk_z L/2| < 1e-7
    let mut t0 = -x0 / slope;
    for _ in 0..8 {
      match xt(t0) {
        Some(xa) if xa.abs() >= 1e-7 => t0 -= xa / slope,
        _ => break,
      }
    }
    if !matches!(xt(t0), Some(xa) if xa.abs() < 1e-4) {
      ctx.count("c05/phase-matched-point-not-found-on-line");
      continue;
    }
    let reach = 4.0 * std::f64::consts::PI / slope.abs();
    let span = reach + t0.abs();
    let ends_in_window = span.is_finite()
      && in_window(&spdc, ws0 + span * ds, wi0 + span * di)
      && in_window(&spdc, ws0 - span * ds, wi0 - span * di);
    if !slope.is_finite() || slope == 0.0 || !t0.is_finite() || span > 0.25 * ws0.min(wi0) || !ends_in_window {
      // (nearly) tangential to the phase-matching contour: ±3 zeros are not reachable on this line
      ctx.count("c05/direction-tangential");
      continue;
    }
    let xref = match xt(t0) {
      Some(v) => v,
      None => continue,
    };
    let peak = match pm_abs(&spdc, ws0 + t0 * ds, wi0 + t0 * di, integ) {
      Some(p) if p.is_finite() && p > 0.0 => p,
      _ => {
        ctx.s("C05.peak", false, "peak/non-finite", &desc);
        continue;
      }
    };
    made += 1;
    count_setup(ctx, "c05", &spdc);
    ctx.count(&format!(
      "c05/orientation/{}",
      match (spdc.signal.direction().z < 0.0, spdc.idler.direction().z < 0.0) {
        (false, false) => "co-propagating",
        (true, false) => "signal-backward",
        (false, true) => "idler-backward",
        (true, true) => "both-backward",
      }
    ));
    ctx.count(&format!("c05/integrator/{}", iname));
    for t in edited.iter() {
      ctx.count(&format!("c05/hand-edit/{}", t));
    }
    {
      let opposite = (spdc.signal.direction().z < 0.0) != (spdc.idler.direction().z < 0.0);
      ctx.count(if opposite == spdc.crystal_setup.counter_propagation { "c05/flag/agrees-with-beams" } else { "c05/flag/disagrees-with-beams" });
    }
    ctx.count(if x == 0.0 { "c05/walkoff/none" } else if x <= C05_X_MAX { "c05/walkoff/negligible" } else { "c05/walkoff/appreciable" });

    // ---- peak value vs (4/Σ) √π erf(x)/(2x)
    let closed = 4.0 / sigma * std::f64::consts::PI.sqrt() * erf_over_x(x) / 2.0;
    let e = (peak / closed - 1.0).abs();
    {
      worst_peak = worst_peak.max(e);
      ctx.s(
        "C05.peak",
        e <= 1e-3,
        "peak/closed-form",
        &format!("relerr={:e} peak={:e} closed={:e} x={:e} eta={:e} xref={:e} integ={} {}", e, peak, closed, x, eta, xref, iname, desc),
      );
    }

    // ---- ratio to the phase-matched value vs |sinc(Δk_z L/2)| through ±3 zeros (|x| ≤ 4π)
    if x <= C05_X_MAX && eta <= C05_DIFFRACTION_MAX {
      let npts = if ctx.thorough { 33 } else { 17 };
      let pi = std::f64::consts::PI;
      // targets of Δk_z L/2: spread over [−4π, 4π], plus a dense set at the sinc zeros / lobe ends:
      // ±3.95π, ±3.98π, ±(4π − δ) with δ log-uniform in [1e-6, 1e-2] and [1e-2, 0.3], and kπ(1 ± 2 %), kπ ± 1e-3
      let mut targets: Vec<f64> = (0..npts).map(|k| (-1.0 + 2.0 * (k as f64 + ctx.rng.unit()) / (npts as f64)) * 4.0 * pi).collect();
      for sgn in [1.0, -1.0] {
        targets.push(sgn * 3.95 * pi);
        targets.push(sgn * 3.98 * pi);
        targets.push(sgn * (4.0 * pi - ctx.rng.log_range(1e-6, 1e-2)));
        targets.push(sgn * (4.0 * pi - ctx.rng.log_range(1e-2, 0.3)));
        let k = ctx.rng.between(1, 3) as f64;
        targets.push(sgn * k * pi * (1.0 + 0.02 * ctx.rng.range(-1.0, 1.0)));
        targets.push(sgn * (k * pi + 1e-3 * ctx.rng.range(-1.0, 1.0)));
        targets.push(sgn * k * pi);
      }
      targets.push(0.0);
      for target_x in targets {
        // secant steps from the linear guess (x(t) is not linear for wide detunings)
        let mut t = t0 + target_x / slope;
        for _ in 0..5 {
          if let Some(xa) = xt(t) {
            t -= (xa - target_x) / slope;
          }
        }
        match xt(t) {
          Some(xa) if xa.abs() <= 4.0 * std::f64::consts::PI + 0.5 && (t - t0).abs() <= 2.0 * reach => {}
          _ => {
            ctx.count("c05/sinc/target-not-reached");
            continue;
          }
        }
        let (ws, wi) = (ws0 + t * ds, wi0 + t * di);
        let (xv, p) = match (xt(t), pm_abs(&spdc, ws, wi, integ)) {
          (Some(a), Some(b)) => (a, b),
          _ => {
            ctx.s("C05.sinc", false, "sinc/panic", &format!("ws={:.17e} wi={:.17e} integ={} {}", ws, wi, iname, desc));
            continue;
          }
        };
        let ratio = p / peak;
        // distance from ±4π in units of the adaptive rule's aliasing window (1440·tol/|PM₀|)^¼ (D81); large elsewhere
        let alias_ratio = match integ {
          Integrator::AdaptiveSimpson { tolerance, .. } => ((xv.abs() - 4.0 * std::f64::consts::PI).abs() / (1440.0 * tolerance / peak).powf(0.25)).min(1e6),
          _ => 1e6,
        };
        let target = sinc_abs(xv);
        let dev = (ratio - target).abs();
        ctx.count(&format!("c05/lobe/{}", ((xv.abs() / std::f64::consts::PI).floor() as usize).min(4)));
        if dev < 1e-3 {
          worst_sinc = worst_sinc.max(dev);
        }
        ctx.s(
          "C05.sinc",
          dev < 1e-3,
          &format!("sinc/ratio/{}", iclass),
          &format!("dev={:e} ratio={:e} sinc={:e} x_dk={:e} x_abs={:.9} alias_ratio={:.6} peak={:e} walkoff_x={:e} eta={:e} ws={:.17e} wi={:.17e} integ={} {}", dev, ratio, target, xv, xv.abs(), alias_ratio, peak, x, eta, ws, wi, iname, desc),
        );
      }
    } else {
      ctx.count("c05/sinc/walkoff-or-diffraction-not-negligible");
    }

    // ---- correspondence on this family as well: integrand and z-integral at the centre and off it
    for t in [t0, t0 + 0.37 * reach] {
      let (ws, wi) = (ws0 + t * ds, wi0 + t * di);
      let st = setup_tokens(&v, &spdc, ws, wi);
      let zs = [-1.0, 1.0, 0.0, ctx.rng.range(-1.0, 1.0), ctx.rng.range(-1.0, 1.0)];
      let s2 = spdc.clone();
      if let Some(o) = guard(move || {
        let f = get_pm_integrand(w(ws), w(wi), &s2);
        zs.iter().map(|&z| f(z)).collect::<Vec<_>>()
      }) {
        let o: Vec<String> = o.into_iter().map(cx).collect();
        ctx.k("pm_integrand", &format!("{} {}", st, apod_table(&spdc, &zs)), &o.join(" "));
      }
      let divs = 50usize;
      let nodes = simpson_nodes(divs);
      let s2 = spdc.clone();
      let out = guard(move || phasematch_fiber_coupling(w(ws), w(wi), &s2, Integrator::Simpson { divs }) / PerMeter4::new(1.0));
      if let (Some(z), Some(sc)) = (out, simpson_abs_scale(&spdc, ws, wi, divs)) {
        ctx.k("pm_coinc", &format!("{} {} {}", st, divs, apod_table(&spdc, &nodes)), &format!("{} {}", cx(*z), fl(sc)));
      }
      // Δk_z bookkeeping: ff = (L/2) Δk_z with the pump at ws+wi
      if let Some(xv) = half_dkz_l(&spdc, ws, wi) {
        ctx.k("half_dkz_l", &st, &fl(xv));
      }
    }
  }
  ctx.dist.insert("c05/max-dev-sinc-times-1e9".to_string(), (worst_sinc * 1e9) as u64);
  ctx.dist.insert("c05/max-relerr-peak-times-1e9".to_string(), (worst_peak * 1e9) as u64);
}

pub fn run(ctx: &mut Ctx) {
  if std::env::var("VH_PANIC_MSG").is_ok() {
    // debugging aid: print the message of every caught panic to stderr
    std::panic::set_hook(Box::new(|info| eprintln!("PANIC {}", info)));
  }
  let mode = ctx.extra.first().cloned().unwrap_or_else(|| "k".to_string());
  match mode.as_str() {
    "k" => k_cases(ctx),
    "c05" => c05_cases(ctx),
    "c06" => c06_cases(ctx),
    "c07" => c07_cases(ctx),
    _ => {}
  }
  let _ = (K, vacuum_wavelength_to_frequency(1e-6 * M), Steps2D((0., 1., 2), (0., 1., 2)));
  let _: Option<(FrequencySpace, JointSpectrum)> = None;
  let _ = jsi_singles_raw;
}
