//! C05 / C06 / C07 — coincidence phase-matching integrand, exchange symmetry, scaling/envelope/support.
//! usage: vh pm <seed> <n> <tier> <mode>   with mode ∈ {k, c05, c06, c07}
use crate::common::*;
use spdcalc::dim::ucum::{DEG, K, M, MILLIW, RAD, S};
use spdcalc::jsa::{jsa_raw, jsi_singles_raw, FrequencySpace, JointSpectrum};
use spdcalc::math::Integrator;
use spdcalc::phasematch::{
  fwhm_to_spectral_width, get_pm_integrand, jsi_normalization, jsi_singles_normalization,
  phasematch_fiber_coupling, pump_spectral_amplitude,
};
use spdcalc::utils::{from_celsius_to_kelvin, vacuum_wavelength_to_frequency, Steps2D};
use spdcalc::beam::{Beam, BeamWaist, IdlerBeam, PumpBeam, SignalBeam};
use spdcalc::{
  Apodization, Complex, CrystalSetup, CrystalType, Frequency, JsiNorm,
  JsiSinglesNorm, MetersPerMilliVolt, PMType, PerMeter4, PeriodicPoling, PolarizationType, Sign,
  SPDC,
};

pub const CRYSTALS: [CrystalType; 11] = [
  CrystalType::BBO_1,
  CrystalType::KTP,
  CrystalType::BiBO_1,
  CrystalType::LiNbO3_1,
  CrystalType::LiNb_MgO,
  CrystalType::KDP_1,
  CrystalType::AgGaSe2_1,
  CrystalType::AgGaSe2_2,
  CrystalType::LiIO3_2,
  CrystalType::LiIO3_1,
  CrystalType::AgGaS2_1,
];
pub const PMTYPES: [PMType; 5] = [
  PMType::Type0_o_oo,
  PMType::Type0_e_ee,
  PMType::Type1_e_oo,
  PMType::Type2_e_eo,
  PMType::Type2_e_oe,
];

fn w(x: f64) -> Frequency {
  x * RAD / S
}
fn raw_w(x: Frequency) -> f64 {
  x.value_unsafe
}

/// transmission window in metres (LiNbO3_1's META is a unit slip on the pinned tree: use nm scale)
pub fn window(c: &CrystalType) -> (f64, f64) {
  match c.get_meta().transmission_range {
    Some(r) if r.1 > 1e-8 => (r.0, r.1),
    Some(r) => (r.0 * 1e3, r.1 * 1e3),
    None => (400e-9, 2000e-9),
  }
}

fn pol_char(p: PolarizationType) -> &'static str {
  match p {
    PolarizationType::Ordinary => "o",
    PolarizationType::Extraordinary => "e",
  }
}

pub fn gen_apodization(r: &mut Rng, l: f64) -> Apodization {
  match r.below(9) {
    0 => Apodization::Off,
    1 => Apodization::Gaussian { fwhm: r.range(0.3, 2.0) * l * M },
    2 => Apodization::Bartlett(r.range(1.0, 3.0)),
    3 => Apodization::Blackman(r.range(1.0, 3.0)),
    4 => Apodization::Connes(r.range(1.0, 3.0)),
    5 => Apodization::Cosine(r.range(1.0, 3.0)),
    6 => Apodization::Hamming(r.range(1.0, 3.0)),
    7 => Apodization::Welch(r.range(1.0, 3.0)),
    _ => {
      let n = r.between(2, 9);
      Apodization::Interpolate((0..n).map(|_| r.unit()).collect())
    }
  }
}

pub struct GenOpts {
  /// collinear, large waists (C05 family)
  pub plane_wave: bool,
  /// phase-match with the crate's own optimum calls
  pub phase_matched: bool,
}

/// wavelengths (pump, signal) inside the window, signal non-degenerate unless `deg`
fn gen_wavelengths(r: &mut Rng, c: &CrystalType, deg: bool) -> Option<(f64, f64)> {
  let (lo, hi) = window(c);
  let lo = lo * 1.03;
  let hi = hi * 0.97;
  if 2.05 * lo >= hi {
    return None;
  }
  let lp = r.log_range(lo, hi / 2.05);
  // idler = ls*lp/(ls-lp) <= hi  <=>  ls >= lp*hi/(hi-lp)
  let ls_min = (lp * hi / (hi - lp)).max(lp * 1.05);
  let ls_max = hi;
  if ls_min >= ls_max {
    return None;
  }
  let ls = if deg { 2.0 * lp } else { r.range(ls_min, ls_max) };
  Some((lp, ls))
}

/// A random setup built through the crate's own constructors.
pub fn gen_setup(r: &mut Rng, o: &GenOpts) -> Option<SPDC> {
  let crystal = r.pick(&CRYSTALS).clone();
  let pm_type = *r.pick(&PMTYPES);
  let deg = !o.plane_wave && r.below(6) == 0;
  let (lp, ls) = gen_wavelengths(r, &crystal, deg)?;
  let li = ls * lp / (ls - lp);
  let l = if o.plane_wave { r.log_range(0.5e-3, 20e-3) } else { r.log_range(0.3e-3, 30e-3) };
  let poled = r.coin();
  let crystal_setup = CrystalSetup {
    crystal,
    pm_type,
    theta: if poled && r.coin() { 90.0 * DEG } else { r.range(0.0, 90.0) * DEG },
    phi: if r.coin() { 0.0 * DEG } else { r.range(0.0, 90.0) * DEG },
    length: l * M,
    temperature: from_celsius_to_kelvin(r.range(15.0, 80.0)),
    counter_propagation: false,
  };
  let (ws, wi, wpx, wpy) = if o.plane_wave {
    let wp = r.log_range(2e-3, 20e-3);
    (r.log_range(2e-3, 20e-3), r.log_range(2e-3, 20e-3), wp, wp)
  } else {
    let wp = r.log_range(20e-6, 1e-3);
    let wpy = if r.below(4) == 0 { wp * r.range(0.5, 2.0) } else { wp };
    (r.log_range(15e-6, 400e-6), r.log_range(15e-6, 400e-6), wp, wpy)
  };
  let signal: SignalBeam = Beam::new(
    pm_type.signal_polarization(),
    0.0 * RAD,
    0.0 * RAD,
    ls * M,
    BeamWaist::new(ws * M),
  )
  .into();
  let idler: IdlerBeam = Beam::new(
    pm_type.idler_polarization(),
    std::f64::consts::PI * RAD,
    0.0 * RAD,
    li * M,
    BeamWaist::new(wi * M),
  )
  .into();
  let pump: PumpBeam = Beam::new(
    pm_type.pump_polarization(),
    0.0 * RAD,
    0.0 * RAD,
    lp * M,
    BeamWaist { x: wpx * M, y: wpy * M },
  )
  .into();
  let apod = if poled { gen_apodization(r, l) } else { Apodization::Off };
  let pp = if poled {
    let p = r.log_range(2e-6, 200e-6) * if r.coin() { 1.0 } else { -1.0 };
    PeriodicPoling::new(p * M, apod)
  } else {
    PeriodicPoling::Off
  };
  let mut spdc = SPDC::new(
    crystal_setup,
    signal,
    idler,
    pump,
    r.log_range(0.05e-9, 20e-9) * M,
    r.log_range(1.0, 1000.0) * MILLIW,
    *r.pick(&[1e-9, 1e-2, 0.1]),
    pp,
    0.0 * M,
    0.0 * M,
    MetersPerMilliVolt::new(r.log_range(0.1e-15, 20e-15)),
  );
  if o.phase_matched {
    // the crate's own optimum: crystal angle (unpoled) or poling period (poled), optimum idler,
    // optimal waist positions.  Failures (panic / Err) are C04/C17 territory: skip.
    let keep_wi = spdc.idler.waist();
    let s2 = spdc.clone();
    let opt = guard(move || s2.try_as_optimum())?.ok()?;
    spdc = opt;
    spdc.idler.set_waist(keep_wi);
  }
  if !o.plane_wave {
    // non-collinear signal: external angle up to 3°, arbitrary azimuth
    let phi_s = if r.below(5) == 0 { 0.0 } else { r.range(0.0, 360.0) };
    let theta_e = if r.below(6) == 0 { 0.0 } else { r.range(0.0, 3.0) };
    let cs = spdc.crystal_setup.clone();
    let mut sig = spdc.signal.clone();
    guard(move || {
      sig.set_phi(phi_s * DEG);
      sig.set_theta_external(theta_e * DEG, &cs);
      sig
    })
    .map(|s| spdc.signal = s)?;
    if r.coin() {
      let s2 = spdc.clone();
      if let Some(Ok(id)) = guard(move || s2.optimum_idler()) {
        let wi0 = spdc.idler.waist();
        spdc.idler = id;
        spdc.idler.set_waist(wi0);
      }
    } else {
      let phi_i = r.range(0.0, 360.0);
      let th_i = r.range(0.0, 0.04);
      spdc.idler.set_angles(phi_i * DEG, th_i * RAD);
    }
    match r.below(3) {
      0 => {
        let s2 = spdc.clone();
        spdc = guard(move || s2.with_optimal_waist_positions())?;
      }
      _ => {
        spdc.signal_waist_position = r.range(-1.0, 0.2) * l * M;
        spdc.idler_waist_position = r.range(-1.0, 0.2) * l * M;
      }
    }
  }
  // everything the integrand reads must be finite
  let v = view(&spdc)?;
  if !v.all_finite() {
    return None;
  }
  Some(spdc)
}

/// the frequency-independent numbers `get_pm_integrand` reads through public getters
pub struct View {
  pub l: f64,
  pub sig: [f64; 7], // phi theta thetaE wx wy z0 sgn
  pub idl: [f64; 7],
  pub wpx: f64,
  pub wpy: f64,
  pub rho: f64,
  pub keff: f64,
}
impl View {
  pub fn all_finite(&self) -> bool {
    self.l.is_finite()
      && self.sig.iter().chain(self.idl.iter()).all(|x| x.is_finite())
      && self.wpx.is_finite()
      && self.wpy.is_finite()
      && self.rho.is_finite()
      && self.keff.is_finite()
  }
}

pub fn view(spdc: &SPDC) -> Option<View> {
  let s = spdc.clone();
  guard(move || {
    let cs = &s.crystal_setup;
    let b = |b: &Beam, z0: f64| -> [f64; 7] {
      [
        b.phi().value_unsafe,
        b.theta_internal().value_unsafe,
        b.theta_external(cs).value_unsafe,
        b.waist().x.value_unsafe,
        b.waist().y.value_unsafe,
        z0,
        b.direction().z.signum(),
      ]
    };
    View {
      l: cs.length.value_unsafe,
      sig: b(&s.signal, s.signal_waist_position.value_unsafe),
      idl: b(&s.idler, s.idler_waist_position.value_unsafe),
      wpx: s.pump.waist().x.value_unsafe,
      wpy: s.pump.waist().y.value_unsafe,
      rho: s.pump.walkoff_angle(cs).value_unsafe,
      keff: s.pp.k_eff().value_unsafe,
    }
  })
}

/// 24 tokens: L sig(9) idl(9) wpx wpy nP rho keff — with the indices at (ws, wi, ws+wi)
pub fn setup_tokens(v: &View, spdc: &SPDC, ws: f64, wi: f64) -> String {
  let cs = &spdc.crystal_setup;
  let ns = *spdc.signal.refractive_index(w(ws), cs);
  let ni = *spdc.idler.refractive_index(w(wi), cs);
  let np = *spdc.pump.refractive_index(w(ws) + w(wi), cs);
  let mut t: Vec<f64> = vec![v.l];
  t.extend_from_slice(&v.sig);
  t.push(ns);
  t.push(ws);
  t.extend_from_slice(&v.idl);
  t.push(ni);
  t.push(wi);
  t.extend_from_slice(&[v.wpx, v.wpy, np, v.rho, v.keff]);
  fls(&t)
}

/// 6 tokens of the joint-spectrum view: omegaP bandwidth threshold power deff ppOn
pub fn jsa_tokens(spdc: &SPDC) -> String {
  fls(&[
    raw_w(spdc.pump.frequency()),
    spdc.pump_bandwidth.value_unsafe,
    spdc.pump_spectrum_threshold,
    spdc.pump_average_power.value_unsafe,
    spdc.deff.value_unsafe,
    if spdc.pp == PeriodicPoling::Off { 0.0 } else { 1.0 },
  ])
}

/// `<m> (z w)*` : the apodisation weights at the given z
pub fn apod_table(spdc: &SPDC, zs: &[f64]) -> String {
  let l = spdc.crystal_setup.length;
  let mut t = Vec::with_capacity(2 * zs.len());
  for &z in zs {
    t.push(z);
    t.push(guard(|| spdc.pp.integration_constant(z, l)).unwrap_or(f64::NAN));
  }
  format!("{} {}", zs.len(), fls(&t))
}

/// nodes of `math::simpson` on [-1,1] as `phasematch_fiber_coupling` visits them
pub fn simpson_nodes(divs: usize) -> Vec<f64> {
  if divs + divs % 2 < 2 {
    return vec![];
  }
  let d = divs + divs % 2 - 2;
  if d < 4 {
    return vec![];
  }
  let dx = (1.0 - (-1.0)) / (d as f64);
  (0..=d).map(|i| -1.0 + (i as f64) * dx).collect()
}

fn cx(z: Complex<f64>) -> String {
  format!("{} {}", fl(z.re), fl(z.im))
}

/// frequencies around the centre: sum detuning within the pump envelope, difference detuning wide
pub fn gen_freqs(r: &mut Rng, spdc: &SPDC) -> (f64, f64) {
  let ws0 = raw_w(spdc.signal.frequency());
  let wi0 = raw_w(spdc.idler.frequency());
  let sigma =
    raw_w(fwhm_to_spectral_width(spdc.pump.vacuum_wavelength(), spdc.pump_bandwidth));
  let dsum = r.normal() * 0.5 * sigma;
  let ddiff = r.normal() * 10f64.powf(r.range(10.0, 13.0));
  (ws0 + 0.5 * dsum + ddiff, wi0 + 0.5 * dsum - ddiff)
}

fn describe(spdc: &SPDC) -> String {
  let cs = &spdc.crystal_setup;
  let (per, apo) = match &spdc.pp {
    PeriodicPoling::Off => ("off".to_string(), "Off"),
    PeriodicPoling::On { period, sign, apodization } => (
      format!("{:e}", period.value_unsafe * if *sign == Sign::POSITIVE { 1.0 } else { -1.0 }),
      apodization.kind(),
    ),
  };
  format!(
    "crystal={} pm={} ctheta={:.10} cphi={:.10} L={:e} T={:.4} lp={:.9e} ls={:.9e} li={:.9e} phis={:.10} thetas={:.10} phii={:.10} thetai={:.10} ws={:e} wi={:e} wpx={:e} wpy={:e} z0s={:e} z0i={:e} period={} apod={} bw={:e} power={:e} deff={:e} thr={:e}",
    cs.crystal,
    cs.pm_type,
    cs.theta.value_unsafe,
    cs.phi.value_unsafe,
    cs.length.value_unsafe,
    cs.temperature.value_unsafe,
    spdc.pump.vacuum_wavelength().value_unsafe,
    spdc.signal.vacuum_wavelength().value_unsafe,
    spdc.idler.vacuum_wavelength().value_unsafe,
    spdc.signal.phi().value_unsafe,
    spdc.signal.theta_internal().value_unsafe,
    spdc.idler.phi().value_unsafe,
    spdc.idler.theta_internal().value_unsafe,
    spdc.signal.waist().x.value_unsafe,
    spdc.idler.waist().x.value_unsafe,
    spdc.pump.waist().x.value_unsafe,
    spdc.pump.waist().y.value_unsafe,
    spdc.signal_waist_position.value_unsafe,
    spdc.idler_waist_position.value_unsafe,
    per,
    apo,
    spdc.pump_bandwidth.value_unsafe,
    spdc.pump_average_power.value_unsafe,
    spdc.deff.value_unsafe,
    spdc.pump_spectrum_threshold,
  )
}

fn count_setup(ctx: &mut Ctx, tag: &str, spdc: &SPDC) {
  ctx.count(&format!("{}/crystal/{}", tag, spdc.crystal_setup.crystal));
  ctx.count(&format!("{}/pm/{}", tag, spdc.crystal_setup.pm_type));
  ctx.count(&format!(
    "{}/poling/{}",
    tag,
    match &spdc.pp {
      PeriodicPoling::Off => "off",
      PeriodicPoling::On { apodization, .. } => apodization.kind(),
    }
  ));
}

// ------------------------------------------------------------------------------------------ K

/// correspondence of the integrand, the z-integral, the envelope, the normalisations and jsa_raw
fn k_cases(ctx: &mut Ctx) {
  // constants
  ctx.k(
    "pm_consts",
    "",
    &fls(&[
      spdcalc::dim::ucum::C_.value_unsafe,
      spdcalc::dim::ucum::EPS_0.value_unsafe,
      spdcalc::TWO_PI,
      spdcalc::PI,
      // FWHM_OVER_WAIST is private: waist_to_fwhm(1) = 1 * sqrt(2 ln 2)
      spdcalc::math::waist_to_fwhm(1.0_f64),
    ]),
  );
  for t in PMTYPES.iter() {
    ctx.k(
      "pm_inverse",
      &t.to_string(),
      &format!(
        "{} {} {} {}",
        t.inverse(),
        pol_char(t.pump_polarization()),
        pol_char(t.signal_polarization()),
        pol_char(t.idler_polarization())
      ),
    );
  }
  let opts = GenOpts { plane_wave: false, phase_matched: false };
  let opts_pm = GenOpts { plane_wave: false, phase_matched: true };
  let opts_pw = GenOpts { plane_wave: true, phase_matched: true };
  let mut made = 0;
  let mut tries = 0;
  while made < ctx.n && tries < 20 * ctx.n + 100 {
    tries += 1;
    let o = match tries % 4 {
      0 => &opts_pm,
      1 => &opts_pw,
      _ => &opts,
    };
    let spdc = match gen_setup(&mut ctx.rng, o) {
      Some(s) => s,
      None => {
        ctx.count("k/setup-rejected");
        continue;
      }
    };
    let v = view(&spdc).unwrap();
    made += 1;
    count_setup(ctx, "k", &spdc);
    let nfreq = 2;
    for _ in 0..nfreq {
      let (ws, wi) = gen_freqs(&mut ctx.rng, &spdc);
      let st = setup_tokens(&v, &spdc, ws, wi);
      // integrand at 5 z
      let zs = [-1.0, 1.0, 0.0, ctx.rng.range(-1.0, 1.0), ctx.rng.range(-1.0, 1.0)];
      let tab = apod_table(&spdc, &zs);
      let s2 = spdc.clone();
      let outs = guard(move || {
        let f = get_pm_integrand(w(ws), w(wi), &s2);
        zs.iter().map(|&z| f(z)).collect::<Vec<_>>()
      });
      match outs {
        Some(o) => {
          let o: Vec<String> = o.into_iter().map(cx).collect();
          ctx.k("pm_integrand", &format!("{} {}", st, tab), &o.join(" "));
        }
        None => ctx.count("k/pm_integrand/panic"),
      }
      // z-integral
      let divs = *ctx.rng.pick(&[50usize, 50, 6, 7, 20, 33, 100, 130, 200, 5, 4, 3]);
      let nodes = simpson_nodes(divs);
      let tab = apod_table(&spdc, &nodes);
      let s2 = spdc.clone();
      let out = guard(move || {
        phasematch_fiber_coupling(w(ws), w(wi), &s2, Integrator::Simpson { divs }) / PerMeter4::new(1.0)
      });
      ctx.k(
        "pm_coinc",
        &format!("{} {} {}", st, divs, tab),
        &out.map(|z| cx(*z)).unwrap_or("PANIC".into()),
      );
      // raw joint amplitude (inside / outside of the support as it comes)
      let s2 = spdc.clone();
      let out = guard(move || jsa_raw(w(ws), w(wi), &s2, Integrator::Simpson { divs }));
      ctx.k(
        "jsa_raw",
        &format!("{} {} {} {}", st, jsa_tokens(&spdc), divs, tab),
        &out.map(cx).unwrap_or("PANIC".into()),
      );
      // normalisations
      let s2 = spdc.clone();
      let out = guard(move || {
        (
          *(jsi_normalization(w(ws), w(wi), &s2) / JsiNorm::new(1.0)),
          *(jsi_singles_normalization(w(ws), w(wi), &s2) / JsiSinglesNorm::new(1.0)),
        )
      });
      if let Some((a, b)) = out {
        ctx.k("norms", &format!("{} {}", st, jsa_tokens(&spdc)), &format!("{} {}", fl(a), fl(b)));
      }
      // envelope
      let wsum = ws + wi;
      let a = pump_spectral_amplitude(w(wsum), &spdc);
      ctx.k(
        "pump_amp",
        &format!(
          "{} {} {}",
          fl(wsum),
          fl(raw_w(spdc.pump.frequency())),
          fl(spdc.pump_bandwidth.value_unsafe)
        ),
        &fl(a),
      );
    }
    let lp = spdc.pump.vacuum_wavelength();
    ctx.k(
      "spectral_width",
      &format!("{} {}", fl(lp.value_unsafe), fl(spdc.pump_bandwidth.value_unsafe)),
      &fl(raw_w(fwhm_to_spectral_width(lp, spdc.pump_bandwidth))),
    );
    swap_case(ctx, &spdc);
  }
}

fn swap_beam_tokens(b: &Beam, z0: f64) -> String {
  format!(
    "{} {} {} {} {} {} {}",
    fl(b.phi().value_unsafe),
    fl(b.theta_internal().value_unsafe),
    fl(b.waist().x.value_unsafe),
    fl(b.waist().y.value_unsafe),
    fl(raw_w(b.frequency())),
    fl(z0),
    pol_char(b.polarization())
  )
}

fn swap_tokens(s: &SPDC) -> String {
  format!(
    "{} {} {}",
    s.crystal_setup.pm_type,
    swap_beam_tokens(&s.signal, s.signal_waist_position.value_unsafe),
    swap_beam_tokens(&s.idler, s.idler_waist_position.value_unsafe)
  )
}

fn swap_case(ctx: &mut Ctx, spdc: &SPDC) {
  let sw = spdc.clone().with_swapped_signal_idler();
  ctx.k("swap", &swap_tokens(spdc), &swap_tokens(&sw));
}

pub fn run(ctx: &mut Ctx) {
  let mode = ctx.extra.first().cloned().unwrap_or_else(|| "k".to_string());
  match mode.as_str() {
    "k" => k_cases(ctx),
    _ => {}
  }
  let _ = (K, vacuum_wavelength_to_frequency(1e-6 * M), Steps2D((0., 1., 2), (0., 1., 2)));
  let _: Option<(FrequencySpace, JointSpectrum)> = None;
  let _ = jsi_singles_raw;
}
