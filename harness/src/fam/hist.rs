//! HISTORY INDEPENDENCE of the public API.
//!
//! Every quantity the twenty properties speak about is a function of the setup and of the call's own arguments
//! (grid, integrator, delays).  A cache or memo whose key forgets a field makes the value depend on what was
//! computed BEFORE on the same thread / in the same process: exactly the situation of a temperature scan, a focus
//! scan or a window scan, where consecutive calls differ in ONE field.  Independent random cases never collide
//! with such a key, and re-evaluating a case after an unrelated one finds the cache overwritten.
//!
//! This family therefore evaluates, for a base case and a list of single-field tweaks t_1 … t_n (each tweak in a
//! "large" and a "tiny" variant, the tiny one below the 4-decimal rounding of the configuration units),
//!   parent process :  base, t_1, base, t_2, base, …            (every tweak right after the base it differs from
//!                                                               in one field)
//!   child process  :  t_1, t_2, …, t_n, base                   (a fresh process: no thread-local, no global state;
//!                                                               neighbours differ in two fields)
//! with the property's own observables, and demands that parent and child agree (bit-identical for sequential
//! code; within the property's tolerance where the implementation sums in parallel).  A disagreement is a
//! concrete failing history: the same setup and arguments gave two different values, so at least one of them
//! violates the statement.
//!
//! In addition the base case is evaluated from inside a worker thread of rayon pools of 1, 3 and 97 threads and
//! compared with the fresh process's main-thread value (the statements do not depend on the calling thread).
//!
//! usage: vh hist <seed> <n> <tier> <mode> [child <b>]      mode ∈ {c01 … c20}
use crate::common::*;
use crate::fam::compose::gen_prim;
use crate::fam::pm::{window, CRYSTALS};
use spdcalc::beam::{Beam, IdlerBeam};
use spdcalc::dim::ucum::{DEG, K, M, RAD, S};
use spdcalc::jsa::{jsa_raw, FrequencySpace, JointSpectrum};
use spdcalc::math::Integrator;
use spdcalc::phasematch::{phasematch_fiber_coupling, phasematch_singles_fiber_coupling, pump_spectral_amplitude};
use spdcalc::utils::Steps2D;
use spdcalc::{
  optimum_poling_period, Apodization, Complex, CrystalType, Frequency, PMType, PeriodicPoling, SPDCConfig, SPDCIter,
  Sign, Time, SPDC,
};
use std::io::Write;

fn w(x: f64) -> Frequency {
  x * RAD / S
}

#[derive(Clone)]
struct Args {
  /// signal / idler frequency window of the grid (rad/s) and resolutions
  s0: f64,
  s1: f64,
  i0: f64,
  i1: f64,
  ns: usize,
  ni: usize,
  divs: usize,
  gl: bool,
  delays: Vec<f64>,
  theta_e_deg: f64,
}

impl Args {
  fn integ(&self) -> Integrator {
    if self.gl {
      Integrator::GaussLegendre { degree: 8 + self.divs % 7 }
    } else {
      Integrator::Simpson { divs: self.divs }
    }
  }
  fn grid(&self) -> FrequencySpace {
    FrequencySpace::new((w(self.s0), w(self.s1), self.ns), (w(self.i0), w(self.i1), self.ni))
  }
}

#[derive(Clone)]
struct Case {
  spdc: SPDC,
  a: Args,
  /// generation counter of the SPDC part: the JointSpectrum object is reused while only arguments change
  gen: usize,
}

// ------------------------------------------------------------------------------------------------
// tweaks: each changes exactly one field of the setup or one argument of the call

type TweakFn = fn(&mut Case, bool);

fn rel(x: f64, big: bool, fb: f64) -> f64 {
  if big {
    x * fb
  } else {
    x * (1.0 + 1e-7)
  }
}

fn set_beam_angles(b: &mut Beam, dphi: f64, dtheta: f64) {
  let phi = b.phi().value_unsafe + dphi;
  let th = b.theta_internal().value_unsafe + dtheta;
  b.set_angles(phi * RAD, th * RAD);
}

fn tweaks() -> Vec<(&'static str, bool, TweakFn)> {
  // (name, touches the setup (true) or only the call's arguments (false), function)
  let v: Vec<(&'static str, bool, TweakFn)> = vec![
    ("temperature", true, |c, big| {
      let t = c.spdc.crystal_setup.temperature.value_unsafe;
      c.spdc.crystal_setup.temperature = (if big { t + 7.0 } else { t + 2e-6 }) * K;
    }),
    ("crystal_theta", true, |c, big| {
      let t = c.spdc.crystal_setup.theta.value_unsafe;
      c.spdc.crystal_setup.theta = (t + if big { 2e-3 } else { 1e-8 }) * RAD;
    }),
    ("crystal_phi", true, |c, big| {
      let t = c.spdc.crystal_setup.phi.value_unsafe;
      c.spdc.crystal_setup.phi = (t + if big { 3e-2 } else { 1e-8 }) * RAD;
    }),
    ("length", true, |c, big| {
      let l = c.spdc.crystal_setup.length.value_unsafe;
      c.spdc.crystal_setup.length = rel(l, big, 1.05) * M;
    }),
    ("crystal_kind", true, |c, big| {
      let cur = format!("{}", c.spdc.crystal_setup.crystal);
      let alt = if big { [CrystalType::KTP, CrystalType::BBO_1] } else { [CrystalType::LiNbO3_1, CrystalType::KDP_1] };
      c.spdc.crystal_setup.crystal = if format!("{}", alt[0]) == cur { alt[1].clone() } else { alt[0].clone() };
    }),
    ("pump_wavelength", true, |c, big| {
      let l = c.spdc.pump.vacuum_wavelength().value_unsafe;
      c.spdc.pump.set_vacuum_wavelength(rel(l, big, 1.0 + 2e-4) * M);
    }),
    ("signal_wavelength", true, |c, big| {
      let l = c.spdc.signal.vacuum_wavelength().value_unsafe;
      c.spdc.signal.set_vacuum_wavelength(rel(l, big, 1.0 + 2e-4) * M);
    }),
    ("idler_wavelength", true, |c, big| {
      let l = c.spdc.idler.vacuum_wavelength().value_unsafe;
      c.spdc.idler.set_vacuum_wavelength(rel(l, big, 1.0 + 2e-4) * M);
    }),
    ("pump_waist", true, |c, big| {
      let wx = c.spdc.pump.waist().x.value_unsafe;
      let wy = c.spdc.pump.waist().y.value_unsafe;
      c.spdc.pump.set_waist(spdcalc::beam::BeamWaist { x: rel(wx, big, 1.07) * M, y: rel(wy, big, 1.07) * M });
    }),
    ("signal_waist", true, |c, big| {
      let wx = c.spdc.signal.waist().x.value_unsafe;
      let wy = c.spdc.signal.waist().y.value_unsafe;
      c.spdc.signal.set_waist(spdcalc::beam::BeamWaist { x: rel(wx, big, 1.07) * M, y: rel(wy, big, 1.07) * M });
    }),
    ("idler_waist", true, |c, big| {
      let wx = c.spdc.idler.waist().x.value_unsafe;
      let wy = c.spdc.idler.waist().y.value_unsafe;
      c.spdc.idler.set_waist(spdcalc::beam::BeamWaist { x: rel(wx, big, 1.07) * M, y: rel(wy, big, 1.07) * M });
    }),
    ("signal_waist_position", true, |c, big| {
      let l = c.spdc.crystal_setup.length.value_unsafe;
      let z = c.spdc.signal_waist_position.value_unsafe;
      c.spdc.signal_waist_position = (z - if big { 0.11 * l } else { 1e-9 * l }) * M;
    }),
    ("idler_waist_position", true, |c, big| {
      let l = c.spdc.crystal_setup.length.value_unsafe;
      let z = c.spdc.idler_waist_position.value_unsafe;
      c.spdc.idler_waist_position = (z - if big { 0.13 * l } else { 1e-9 * l }) * M;
    }),
    ("bandwidth", true, |c, big| {
      let b = c.spdc.pump_bandwidth.value_unsafe;
      c.spdc.pump_bandwidth = rel(b, big, 1.09) * M;
    }),
    ("power", true, |c, big| {
      let p = c.spdc.pump_average_power.value_unsafe;
      c.spdc.pump_average_power = rel(p, big, 2.0) * spdcalc::dim::ucum::MILLIW;
    }),
    ("deff", true, |c, big| {
      let d = c.spdc.deff.value_unsafe;
      c.spdc.deff = spdcalc::MetersPerMilliVolt::new(rel(d, big, 1.3));
    }),
    ("threshold", true, |c, big| {
      let t = c.spdc.pump_spectrum_threshold;
      c.spdc.pump_spectrum_threshold = if big { if t > 0.05 { 1e-2 } else { 0.1 } } else { t * (1.0 + 1e-7) };
    }),
    ("signal_theta", true, |c, big| set_beam_angles(&mut c.spdc.signal, 0.0, if big { 1.5e-3 } else { 1e-9 })),
    ("signal_phi", true, |c, big| set_beam_angles(&mut c.spdc.signal, if big { 0.2 } else { 1e-8 }, 0.0)),
    ("idler_theta", true, |c, big| set_beam_angles(&mut c.spdc.idler, 0.0, if big { 1.5e-3 } else { 1e-9 })),
    ("idler_phi", true, |c, big| set_beam_angles(&mut c.spdc.idler, if big { 0.2 } else { 1e-8 }, 0.0)),
    ("poling_period", true, |c, big| {
      if let PeriodicPoling::On { period, .. } = &mut c.spdc.pp {
        let p = period.value_unsafe;
        *period = rel(p, big, 1.0 + 1e-3) * M;
      } else {
        let l = c.spdc.crystal_setup.length.value_unsafe;
        c.spdc.pp = PeriodicPoling::new((if big { 0.013 } else { 0.0131 }) * l * M, Apodization::Off);
      }
    }),
    ("poling_sign", true, |c, _| {
      if let PeriodicPoling::On { sign, .. } = &mut c.spdc.pp {
        *sign = if *sign == Sign::POSITIVE { Sign::NEGATIVE } else { Sign::POSITIVE };
      }
    }),
    ("apodization", true, |c, big| {
      let l = c.spdc.crystal_setup.length.value_unsafe;
      if let PeriodicPoling::On { apodization, .. } = &mut c.spdc.pp {
        *apodization = match apodization.clone() {
          Apodization::Off => Apodization::Gaussian { fwhm: (if big { 0.6 } else { 0.61 }) * l * M },
          Apodization::Gaussian { fwhm } => Apodization::Gaussian { fwhm: rel(fwhm.value_unsafe, big, 1.2) * M },
          Apodization::Bartlett(a) => Apodization::Bartlett(rel(a, big, 1.1)),
          Apodization::Blackman(a) => Apodization::Blackman(rel(a, big, 1.1)),
          Apodization::Connes(a) => Apodization::Connes(rel(a, big, 1.1)),
          Apodization::Cosine(a) => Apodization::Cosine(rel(a, big, 1.1)),
          Apodization::Hamming(a) => Apodization::Hamming(rel(a, big, 1.1)),
          Apodization::Welch(a) => Apodization::Welch(rel(a, big, 1.1)),
          Apodization::Interpolate(v) => {
            Apodization::Interpolate(v.iter().map(|x| if big { 0.9 * x } else { x * (1.0 - 1e-7) }).collect())
          }
        };
      }
    }),
    ("pm_type", true, |c, big| {
      let cur = c.spdc.crystal_setup.pm_type;
      let alt = if big { [PMType::Type2_e_eo, PMType::Type1_e_oo] } else { [PMType::Type2_e_oe, PMType::Type0_e_ee] };
      let nt = if alt[0] == cur { alt[1] } else { alt[0] };
      c.spdc.crystal_setup.pm_type = nt;
      c.spdc.pump.set_polarization(nt.pump_polarization());
      c.spdc.signal.set_polarization(nt.signal_polarization());
      c.spdc.idler.set_polarization(nt.idler_polarization());
    }),
    // ---- arguments of the call only: the JointSpectrum object is kept
    ("arg_idler_window", false, |c, big| {
      let d = c.a.i1 - c.a.i0;
      c.a.i1 -= if big { 0.2 * d } else { 1e-7 * d };
    }),
    ("arg_signal_window", false, |c, big| {
      let d = c.a.s1 - c.a.s0;
      c.a.s0 += if big { 0.2 * d } else { 1e-7 * d };
    }),
    ("arg_idler_steps", false, |c, big| c.a.ni += if big { 2 } else { 1 }),
    ("arg_signal_steps", false, |c, big| c.a.ns += if big { 2 } else { 1 }),
    ("arg_integrator_divs", false, |c, big| c.a.divs += if big { 10 } else { 2 }),
    ("arg_integrator_kind", false, |c, _| c.a.gl = !c.a.gl),
    ("arg_delays", false, |c, big| {
      for t in c.a.delays.iter_mut() {
        *t += if big { 4e-14 } else { 1e-19 };
      }
    }),
    ("arg_theta_external", false, |c, big| c.a.theta_e_deg += if big { 0.3 } else { 1e-6 }),
  ];
  v
}

// ------------------------------------------------------------------------------------------------
// observables

type Obs = Vec<(String, Vec<String>)>;

thread_local! {
  /// when set, only the observable of this name is evaluated (the others are skipped, not computed)
  static ONLY: std::cell::RefCell<Option<String>> = const { std::cell::RefCell::new(None) };
}
fn wanted(name: &str) -> bool {
  ONLY.with(|f| match &*f.borrow() {
    None => true,
    Some(n) => n == name,
  })
}
fn num(o: &mut Obs, name: &str, f: impl FnOnce() -> Vec<f64>) {
  if !wanted(name) {
    return;
  }
  o.push((name.to_string(), match guard(f) {
    Some(v) => v.iter().map(|x| fl(*x)).collect(),
    None => vec!["PANIC".to_string()],
  }));
}
fn cxv(z: Complex<f64>) -> Vec<f64> {
  vec![z.re, z.im]
}

fn beam_tokens(b: &Beam) -> Vec<f64> {
  vec![
    b.theta_internal().value_unsafe,
    b.phi().value_unsafe,
    b.vacuum_wavelength().value_unsafe,
    b.waist().x.value_unsafe,
    b.waist().y.value_unsafe,
    if b.polarization() == spdcalc::PolarizationType::Ordinary { 0.0 } else { 1.0 },
  ]
}

fn setup_tokens(s: &SPDC) -> Vec<f64> {
  let mut v = vec![
    s.crystal_setup.theta.value_unsafe,
    s.crystal_setup.phi.value_unsafe,
    s.crystal_setup.length.value_unsafe,
    s.crystal_setup.temperature.value_unsafe,
    s.signal_waist_position.value_unsafe,
    s.idler_waist_position.value_unsafe,
    match &s.pp {
      PeriodicPoling::Off => f64::INFINITY,
      PeriodicPoling::On { period, sign, .. } => period.value_unsafe * if *sign == Sign::POSITIVE { 1.0 } else { -1.0 },
    },
  ];
  v.extend(beam_tokens(&s.signal));
  v.extend(beam_tokens(&s.idler));
  v.extend(beam_tokens(&s.pump));
  v
}

/// all numeric leaves of a JSON document, in document order
fn json_numbers(v: &serde_json::Value, out: &mut Vec<f64>) {
  match v {
    serde_json::Value::Number(n) => out.push(n.as_f64().unwrap_or(f64::NAN)),
    serde_json::Value::Array(a) => a.iter().for_each(|x| json_numbers(x, out)),
    serde_json::Value::Object(m) => m.values().for_each(|x| json_numbers(x, out)),
    serde_json::Value::String(s) => out.push(s.len() as f64),
    _ => {}
  }
}

struct Spec {
  sp: Option<JointSpectrum>,
  gen: usize,
  divs: usize,
  gl: bool,
  /// the spectrum object used for the singles (coarse 2-D rule), same life time as `sp`
  sps: Option<JointSpectrum>,
  sps_gen: usize,
}
impl Spec {
  fn new() -> Self {
    Spec { sp: None, gen: usize::MAX, divs: 0, gl: false, sps: None, sps_gen: usize::MAX }
  }
}

fn singles_spectrum<'a>(c: &Case, cache: &'a mut Spec) -> Option<&'a JointSpectrum> {
  if cache.sps.is_none() || cache.sps_gen != c.gen {
    let s = c.spdc.clone();
    cache.sps = guard(move || s.joint_spectrum(Integrator::Simpson { divs: 6 }));
    cache.sps_gen = c.gen;
  }
  cache.sps.as_ref()
}

fn spectrum<'a>(c: &Case, cache: &'a mut Spec) -> Option<&'a JointSpectrum> {
  if cache.sp.is_none() || cache.gen != c.gen || cache.divs != c.a.divs || cache.gl != c.a.gl {
    let s = c.spdc.clone();
    let integ = c.a.integ();
    cache.sp = guard(move || s.joint_spectrum(integ));
    cache.gen = c.gen;
    cache.divs = c.a.divs;
    cache.gl = c.a.gl;
  }
  cache.sp.as_ref()
}

fn pairs(c: &Case) -> Vec<(f64, f64)> {
  let ws = c.spdc.signal.frequency().value_unsafe;
  let wi = c.spdc.idler.frequency().value_unsafe;
  let d = 0.25 * (c.a.s1 - c.a.s0);
  vec![(ws, wi), (ws + d, wi - d), (ws + 0.6 * d, wi + 0.3 * d)]
}

fn observe(mode: &str, c: &Case, cache: &mut Spec) -> Obs {
  let mut o: Obs = Vec::new();
  let s = &c.spdc;
  let cs = &s.crystal_setup;
  let integ = c.a.integ();
  let grid = c.a.grid();
  let prs = pairs(c);
  match mode {
    "c01" => {
      for (nm, b) in [("signal", &*s.signal), ("idler", &*s.idler), ("pump", &*s.pump)] {
        let l = b.vacuum_wavelength();
        num(&mut o, &format!("get_indices/{}", nm), || {
          let i = cs.crystal.get_indices(l, cs.temperature).value_unsafe;
          vec![i.x, i.y, i.z]
        });
      }
    }
    "c02" => {
      for (nm, b) in [("signal", &*s.signal), ("idler", &*s.idler), ("pump", &*s.pump)] {
        num(&mut o, &format!("refractive_index/{}", nm), || vec![b.refractive_index(b.frequency(), cs).value_unsafe]);
        num(&mut o, &format!("walkoff/{}", nm), || vec![b.walkoff_angle(cs).value_unsafe]);
        num(&mut o, &format!("index_along/{}", nm), || {
          vec![
            cs.index_along(b.vacuum_wavelength(), b.direction(), spdcalc::PolarizationType::Ordinary).value_unsafe,
            cs.index_along(b.vacuum_wavelength(), b.direction(), spdcalc::PolarizationType::Extraordinary).value_unsafe,
          ]
        });
      }
    }
    "c03" => {
      for (k, (a, b)) in prs.iter().enumerate() {
        num(&mut o, &format!("delta_k/{}", k), || {
          let d = s.delta_k(w(*a), w(*b));
          let d = d.value_unsafe;
          vec![d.x, d.y, d.z]
        });
      }
      num(&mut o, "try_new_optimum", || match IdlerBeam::try_new_optimum(&s.signal, &s.pump, cs, &s.pp) {
        Ok(i) => beam_tokens(&i),
        Err(_) => vec![f64::NAN],
      });
      num(&mut o, "optimum_idler", || match s.optimum_idler() {
        Ok(i) => beam_tokens(&i),
        Err(_) => vec![f64::NAN],
      });
      num(&mut o, "with_optimum_idler", || match s.clone().with_optimum_idler() {
        Ok(t) => beam_tokens(&t.idler),
        Err(_) => vec![f64::NAN],
      });
      for (nm, b) in [("signal", &*s.signal), ("idler", &*s.idler)] {
        num(&mut o, &format!("wavevector/{}", nm), || {
          let k = b.wavevector(b.frequency(), cs).value_unsafe;
          vec![k.x, k.y, k.z]
        });
      }
    }
    "c04" => {
      num(&mut o, "optimum_poling_period", || match optimum_poling_period(&s.signal, &s.pump, cs) {
        Ok(p) => vec![p.value_unsafe],
        Err(_) => vec![f64::NAN],
      });
      num(&mut o, "optimum_periodic_poling", || match s.optimum_periodic_poling() {
        Ok(PeriodicPoling::On { period, sign, .. }) => vec![period.value_unsafe, if sign == Sign::POSITIVE { 1.0 } else { -1.0 }],
        Ok(PeriodicPoling::Off) => vec![f64::INFINITY],
        Err(_) => vec![f64::NAN],
      });
      num(&mut o, "with_optimum_periodic_poling", || match s.clone().with_optimum_periodic_poling() {
        Ok(t) => setup_tokens(&t),
        Err(_) => vec![f64::NAN],
      });
      if matches!(s.pp, PeriodicPoling::Off) {
        num(&mut o, "optimum_theta", || vec![cs.optimum_theta(&s.signal, &s.pump).value_unsafe]);
        num(&mut o, "optimum_crystal_theta", || vec![s.optimum_crystal_theta().value_unsafe]);
        num(&mut o, "with_optimum_crystal_theta", || setup_tokens(&s.clone().with_optimum_crystal_theta()));
      }
    }
    "c05" | "c06" => {
      for (k, (a, b)) in prs.iter().enumerate() {
        num(&mut o, &format!("phasematch_fiber_coupling/{}", k), || cxv(phasematch_fiber_coupling(w(*a), w(*b), s, integ).value_unsafe));
      }
      if mode == "c06" {
        let sw = guard(|| s.clone().with_swapped_signal_idler());
        if let Some(sw) = sw {
          for (k, (a, b)) in prs.iter().enumerate() {
            num(&mut o, &format!("swapped/phasematch/{}", k), || cxv(phasematch_fiber_coupling(w(*b), w(*a), &sw, integ).value_unsafe));
          }
          num(&mut o, "swapped/counts_singles_signal", || vec![sw.counts_singles_signal(FrequencySpace::new((w(c.a.i0), w(c.a.i1), c.a.ni), (w(c.a.s0), w(c.a.s1), c.a.ns)), Integrator::Simpson { divs: 6 }).value_unsafe]);
        }
        num(&mut o, "counts_singles_idler", || vec![s.counts_singles_idler(grid, Integrator::Simpson { divs: 6 }).value_unsafe]);
      }
    }
    "c07" | "c08" | "c20" | "c14" => {
      let wp = s.pump.frequency().value_unsafe;
      if mode == "c07" {
        num(&mut o, "pump_spectral_amplitude", || {
          prs.iter().map(|(a, b)| pump_spectral_amplitude(w(a + b), s)).chain([pump_spectral_amplitude(w(wp), s)]).collect()
        });
        for (k, (a, b)) in prs.iter().enumerate() {
          num(&mut o, &format!("jsa_raw/{}", k), || cxv(jsa_raw(w(*a), w(*b), s, integ)));
        }
      }
      let single = Integrator::Simpson { divs: 6 };
      if let Some(sp) = spectrum(c, cache) {
        for (k, (a, b)) in prs.iter().enumerate() {
          num(&mut o, &format!("jsa/{}", k), || cxv(sp.jsa(w(*a), w(*b))));
          num(&mut o, &format!("jsi/{}", k), || vec![sp.jsi(w(*a), w(*b)).value_unsafe]);
          if mode != "c14" {
            num(&mut o, &format!("jsa_normalized/{}", k), || cxv(sp.jsa_normalized(w(*a), w(*b))));
            num(&mut o, &format!("jsi_normalized/{}", k), || vec![sp.jsi_normalized(w(*a), w(*b))]);
          }
        }
        num(&mut o, "jsa_range", || sp.jsa_range(grid).iter().flat_map(|z| [z.re, z.im]).collect());
        num(&mut o, "jsi_range", || sp.jsi_range(grid).iter().map(|x| x.value_unsafe).collect());
        if mode == "c20" || mode == "c07" {
          num(&mut o, "jsi_normalized_range", || sp.jsi_normalized_range(grid));
        }
      } else {
        o.push(("joint_spectrum".into(), vec!["PANIC".into()]));
      }
      if mode != "c14" {
        // the singles need the 2-D integral: a coarse rule keeps the family cheap
        if let Some(sps) = singles_spectrum(c, cache) {
          let (a, b) = prs[0];
          num(&mut o, "jsi_singles", || vec![sps.jsi_singles(w(a), w(b)).value_unsafe]);
          num(&mut o, "jsi_singles_normalized", || vec![sps.jsi_singles_normalized(w(a), w(b))]);
          let g2 = FrequencySpace::new((w(c.a.s0), w(c.a.s1), 2), (w(c.a.i0), w(c.a.i1), 2));
          num(&mut o, "jsi_singles_idler_range", || sps.jsi_singles_idler_range(g2).iter().map(|x| x.value_unsafe).collect());
          if mode == "c20" {
            num(&mut o, "jsi_singles_idler_normalized_range", || sps.jsi_singles_idler_normalized_range(g2));
            num(&mut o, "jsi_singles_normalized_range", || sps.jsi_singles_normalized_range(g2));
          }
        }
        num(&mut o, "phasematch_singles", || vec![phasematch_singles_fiber_coupling(w(prs[0].0), w(prs[0].1), s, single).value_unsafe]);
        if mode == "c07" || mode == "c08" {
          num(&mut o, "counts_coincidences", || vec![s.counts_coincidences(grid, integ).value_unsafe]);
          let g2 = FrequencySpace::new((w(c.a.s0), w(c.a.s1), 2), (w(c.a.i0), w(c.a.i1), 2));
          num(&mut o, "counts_singles_signal", || vec![s.counts_singles_signal(g2, single).value_unsafe]);
          num(&mut o, "counts_singles_idler", || vec![s.counts_singles_idler(g2, single).value_unsafe]);
          num(&mut o, "efficiencies", || {
            let e = s.efficiencies(g2, single);
            vec![e.symmetric, e.signal, e.idler, e.coincidences.value_unsafe, e.signal_singles.value_unsafe, e.idler_singles.value_unsafe]
          });
        }
      }
      if mode == "c20" {
        num(&mut o, "try_as_optimum", || match s.clone().try_as_optimum() {
          Ok(t) => setup_tokens(&t),
          Err(_) => vec![f64::NAN],
        });
      }
    }
    "c09" => {
      let t: Vec<Time> = c.a.delays.iter().map(|x| *x * S).collect();
      let t2 = t.clone();
      num(&mut o, "hom_rate_series", || s.hom_rate_series(t2, grid, integ));
      num(&mut o, "hom_visibility", || {
        let (d, v) = s.hom_visibility(grid, integ);
        vec![d.value_unsafe, v]
      });
      if let Some(sp) = spectrum(c, cache) {
        num(&mut o, "array/hom_rate_series", || {
          let f = sp.jsa_range(grid);
          let g: Vec<Complex<f64>> = grid.as_steps().into_iter().map(|(a, b)| sp.jsa(b, a)).collect();
          spdcalc::hom_rate_series(grid, &f, &g, t)
        });
      }
    }
    "c10" => {
      let t: Vec<Time> = c.a.delays.iter().map(|x| *x * S).collect();
      num(&mut o, "hom_two_source_rate_series", || {
        let r = s.hom_two_source_rate_series(t, grid, integ);
        r.ss.iter().chain(r.ii.iter()).chain(r.si.iter()).copied().collect()
      });
      num(&mut o, "hom_two_source_visibilities", || {
        let r = s.hom_two_source_visibilities(grid, integ);
        vec![r.ss.0.value_unsafe, r.ss.1, r.ii.0.value_unsafe, r.ii.1, r.si.0.value_unsafe, r.si.1]
      });
    }
    "c11" => {
      if let Some(sp) = spectrum(c, cache) {
        num(&mut o, "spectrum.schmidt_number", || vec![sp.schmidt_number(grid).unwrap_or(f64::NAN)]);
        num(&mut o, "schmidt_number(jsa_range)", || vec![spdcalc::math::schmidt_number(sp.jsa_range(grid)).unwrap_or(f64::NAN)]);
      }
    }
    "c13" => {
      for (nm, b) in [("signal", &*s.signal), ("idler", &*s.idler)] {
        num(&mut o, &format!("theta_external/{}", nm), || vec![b.theta_external(cs).value_unsafe]);
        num(&mut o, &format!("set_theta_external/{}", nm), || {
          let mut b2 = b.clone();
          b2.set_theta_external(c.a.theta_e_deg * DEG, cs);
          let d = b2.direction();
          vec![b2.theta_internal().value_unsafe, b2.theta_external(cs).value_unsafe, b2.phi().value_unsafe, d.x, d.y, d.z]
        });
        num(&mut o, &format!("calc_internal/{}", nm), || vec![Beam::calc_internal_theta_from_external(b, c.a.theta_e_deg * DEG, cs).value_unsafe]);
      }
      num(&mut o, "optimal_waist_positions", || {
        let t = s.clone().with_optimal_waist_positions();
        vec![t.signal_waist_position.value_unsafe, t.idler_waist_position.value_unsafe]
      });
    }
    "c16" | "c17" => {
      num(&mut o, "as_config", || {
        let cfg = s.clone().as_config();
        let v = serde_json::to_value(&cfg).unwrap();
        let mut out = Vec::new();
        json_numbers(&v, &mut out);
        out
      });
      // the "auto" route of the configuration
      num(&mut o, "config_auto_route", || {
        let cfg = s.clone().as_config();
        let mut v = serde_json::to_value(&cfg).unwrap();
        v["idler"] = serde_json::Value::String("auto".into());
        v["signal"]["waist_position_um"] = serde_json::Value::String("auto".into());
        if !v["periodic_poling"].is_null() && v["periodic_poling"].is_object() {
          v["periodic_poling"]["poling_period_um"] = serde_json::Value::String("auto".into());
        } else {
          v["crystal"]["theta_deg"] = serde_json::Value::String("auto".into());
        }
        match serde_json::from_value::<SPDCConfig>(v) {
          Ok(c2) => match c2.try_as_spdc() {
            Ok(t) => setup_tokens(&t),
            Err(_) => vec![f64::NAN],
          },
          Err(_) => vec![f64::NEG_INFINITY],
        }
      });
      if mode == "c17" {
        if let Some(sp) = spectrum(c, cache) {
          num(&mut o, "jsi_range", || sp.jsi_range(grid).iter().map(|x| x.value_unsafe).collect());
        }
      }
    }
    "c12" => {
      // the integrators themselves, on fixed analytic integrands (setup-independent: only the execution context matters)
      let k = 3.0 + c.a.theta_e_deg;
      let f1 = move |x: f64| Complex::new((k * x).cos() * (1.0 + x), (k * x).sin() - 0.3 * x * x);
      let f2 = move |x: f64, y: f64| Complex::new((k * x + y).cos() + x * y, (x - k * y).sin());
      let rules = [
        ("simpson7", Integrator::Simpson { divs: 7 }),
        ("simpson21", Integrator::Simpson { divs: 21 }),
        ("simpson50", Integrator::Simpson { divs: 50 }),
        ("simpson132", Integrator::Simpson { divs: 132 }),
        ("simpson257", Integrator::Simpson { divs: 257 }),
        ("gl9", Integrator::GaussLegendre { degree: 9 }),
        ("asr", Integrator::AdaptiveSimpson { tolerance: 1e-8, max_depth: 12 }),
        ("cc", Integrator::ClenshawCurtis { tolerance: 1e-8 }),
      ];
      for (nm, r) in rules.iter() {
        num(&mut o, &format!("integrate/{}", nm), || cxv(r.integrate(f1, -0.4, 1.3)));
        if *nm != "cc" {
          num(&mut o, &format!("integrate2d/{}", nm), || cxv(r.integrate2d(f2, -0.4, 1.3, 0.2, 0.9)));
        }
      }
    }
    "c18" => {
      let t0 = cs.temperature.value_unsafe - 273.15;
      let steps = Steps2D((t0, t0 + 30.0, 3), (c.a.theta_e_deg, c.a.theta_e_deg + 1.0, 2));
      num(&mut o, "sweep/temperature_x_theta_external", || match SPDCIter::try_new(s.clone(), "crystal.temperature_c", "signal.theta_external_deg", steps) {
        Ok(it) => it.into_iter().flat_map(|x| setup_tokens(&x)).collect(),
        Err(_) => vec![f64::NAN],
      });
      let l = cs.length.value_unsafe * 1e6;
      let steps2 = Steps2D((l, 1.2 * l, 2), (s.signal_waist_position.value_unsafe * 1e6, s.signal_waist_position.value_unsafe * 1e6 - 0.1 * l, 3));
      num(&mut o, "sweep/jsi_values/length_x_waist_position", || match SPDCIter::try_new(s.clone(), "crystal.length_um", "signal.waist_position_um", steps2) {
        Ok(it) => it.jsi_values(integ),
        Err(_) => vec![f64::NAN],
      });
    }
    _ => {}
  }
  o
}

// ------------------------------------------------------------------------------------------------

fn base_case(seed: u64, b: usize, mode: &str) -> Option<Case> {
  let mut r = Rng(seed.wrapping_mul(0x9E3779B97F4A7C15) ^ (0xA5A5_0000 + b as u64) ^ 0x1234_5678_9abc_def1);
  for _ in 0..200 {
    let p = match gen_prim(&mut r) {
      Some(p) => p,
      None => continue,
    };
    let spdc = match p.build() {
      Some(s) => s,
      None => continue,
    };
    if spdc.crystal_setup.counter_propagation {
      continue;
    }
    // the auto crystal angle exists only without poling
    if mode == "c04" && b % 2 == 0 && !matches!(spdc.pp, PeriodicPoling::Off) {
      continue;
    }
    let ws = spdc.signal.frequency().value_unsafe;
    let wi = spdc.idler.frequency().value_unsafe;
    // a window of a few pump bandwidths around the centre
    let lp = spdc.pump.vacuum_wavelength().value_unsafe;
    let dw = 2.0 * std::f64::consts::PI * 299_792_458.0 / (lp * lp) * spdc.pump_bandwidth.value_unsafe;
    let half = 0.8 * dw;
    if !(half.is_finite() && half > 0.0 && half < 0.2 * ws.min(wi)) {
      continue;
    }
    let a = Args {
      s0: ws - half,
      s1: ws + half,
      i0: wi - half,
      i1: wi + half,
      ns: 3 + b % 3,
      ni: 3 + b % 3,
      divs: [50, 20, 8, 132][b % 4],
      gl: b % 5 == 4,
      delays: vec![-1.2e-13, 0.0, 0.7e-13],
      theta_e_deg: 0.7 + 0.9 * (b % 4) as f64,
    };
    return Some(Case { spdc, a, gen: 0 });
  }
  None
}

fn apply(base: &Case, t: &(&'static str, bool, TweakFn), big: bool, uid: usize) -> Option<Case> {
  let mut c = base.clone();
  let f = t.2;
  let ok = guard(|| f(&mut c, big)).is_some();
  if !ok {
    return None;
  }
  if t.1 {
    c.gen = 1 + uid;
  }
  Some(c)
}

/// which tweaks matter to which mode (all setup tweaks everywhere; argument tweaks where the observables take them)
fn tweak_list(mode: &str) -> Vec<(usize, bool)> {
  let tw = tweaks();
  let mut v = Vec::new();
  for (j, t) in tw.iter().enumerate() {
    let arg_ok = match t.0 {
      "arg_delays" => matches!(mode, "c09" | "c10"),
      "arg_theta_external" => matches!(mode, "c13" | "c18"),
      "arg_integrator_divs" | "arg_integrator_kind" => !matches!(mode, "c01" | "c02" | "c03" | "c04" | "c13" | "c16"),
      n if n.starts_with("arg_") => !matches!(mode, "c01" | "c02" | "c03" | "c04" | "c05" | "c13" | "c16" | "c18"),
      _ => true,
    };
    if !arg_ok {
      continue;
    }
    // alternate large / tiny so that neighbours in the child's chain always differ by a large tweak
    v.push((j, true));
    if t.0 != "poling_sign" && t.0 != "arg_integrator_kind" {
      v.push((j, false));
    }
  }
  // interleave: large tweaks at even positions, tiny at odd positions of DIFFERENT fields
  let big: Vec<(usize, bool)> = v.iter().copied().filter(|x| x.1).collect();
  let tiny: Vec<(usize, bool)> = v.iter().copied().filter(|x| !x.1).collect();
  let mut out = Vec::new();
  let n = big.len().max(tiny.len());
  for k in 0..n {
    if k < big.len() {
      out.push(big[k]);
    }
    if k < tiny.len() {
      // a tiny tweak of another field than the large one just before it
      out.push(tiny[(k + 3) % tiny.len()]);
    }
  }
  out.dedup();
  out
}

fn key(j: usize, big: bool) -> String {
  format!("{}:{}", tweaks()[j].0, if big { "large" } else { "tiny" })
}

fn print_obs(out: &mut impl Write, tag: &str, o: &Obs) {
  for (name, toks) in o {
    writeln!(out, "V {} {} {}", tag, name, toks.join(" ")).unwrap();
  }
}

fn child(seed: u64, mode: &str, b: usize) {
  let stdout = std::io::stdout();
  let mut out = std::io::BufWriter::new(stdout.lock());
  let base = match base_case(seed, b, mode) {
    Some(c) => c,
    None => return,
  };
  let tw = tweaks();
  let mut cache = Spec::new();
  if mode != "c12" {
    for (j, big) in tweak_list(mode) {
      if let Some(c) = apply(&base, &tw[j], big, 2 * j + big as usize) {
        let mut fresh = Spec::new(); // no object is shared between tweaks in the reference process
        let o = observe(mode, &c, &mut fresh);
        print_obs(&mut out, &key(j, big), &o);
      }
    }
  }
  let o = observe(mode, &base, &mut cache);
  print_obs(&mut out, "base", &o);
  out.flush().unwrap();
}

fn tol(mode: &str) -> f64 {
  match mode {
    "c05" => 1e-4,
    "c06" => 1e-7,
    "c13" => 1e-8,
    "c12" => 1e-12,
    "c04" => 1e-7,
    _ => 1e-9,
  }
}

fn parse(t: &str) -> Option<f64> {
  if t.len() == 17 && t.starts_with('x') {
    u64::from_str_radix(&t[1..], 16).ok().map(f64::from_bits)
  } else {
    None
  }
}

/// None = agree; Some(description) = differ
fn differ(a: &[String], b: &[String], tol: f64) -> Option<String> {
  if a.len() != b.len() {
    return Some(format!("lengths {} vs {}", a.len(), b.len()));
  }
  let vmax = a.iter().chain(b.iter()).filter_map(|t| parse(t)).filter(|x| x.is_finite()).fold(0.0f64, |m, x| m.max(x.abs()));
  for (k, (x, y)) in a.iter().zip(b.iter()).enumerate() {
    if x == y {
      continue;
    }
    match (parse(x), parse(y)) {
      (Some(p), Some(q)) => {
        if p.is_nan() && q.is_nan() {
          continue;
        }
        let d = (p - q).abs();
        if !(d <= tol * p.abs().max(q.abs()) + 1e-6 * tol * vmax) {
          return Some(format!("token {}: {:e} vs {:e}", k, p, q));
        }
      }
      _ => return Some(format!("token {}: {} vs {}", k, x, y)),
    }
  }
  None
}

/// every built-in crystal at round temperatures, as the FIRST lookup of a brand-new thread, against the value a warm
/// thread returns right after a lookup at another temperature (C01 / C02 modes, once per run)
fn cold_crystals(ctx: &mut Ctx, pred: &str) {
  let temps = [273.15, 293.15, 297.65, 298.15, 373.15, 223.15, 473.15, 1.0, 300.0];
  for c in CRYSTALS.iter() {
    let (lo, hi) = window(c);
    for (k, t) in temps.iter().enumerate() {
      let l = lo + (hi - lo) * (0.2 + 0.07 * k as f64);
      let (c1, t1) = (c.clone(), *t);
      let cold = std::thread::spawn(move || guard(|| {
        let i = c1.get_indices(l * M, t1 * K).value_unsafe;
        vec![i.x, i.y, i.z]
      }))
      .join()
      .ok()
      .flatten();
      let warm = guard(|| {
        let _ = c.get_indices(l * M, (t + 1.0) * K);
        let i = c.get_indices(l * M, *t * K).value_unsafe;
        vec![i.x, i.y, i.z]
      });
      ctx.count("hist/cold-crystal");
      let same = match (&cold, &warm) {
        (Some(a), Some(b)) => a.iter().zip(b.iter()).all(|(x, y)| x.to_bits() == y.to_bits() || (x.is_nan() && y.is_nan())),
        (None, None) => true,
        _ => false,
      };
      ctx.s(
        pred,
        same,
        if same { "history/ok" } else { "cold-start/get_indices/round-temperature" },
        &if same { String::new() } else { format!("crystal={} wavelength_m={:e} temperature_K={} first_lookup_on_new_thread={:?} warm_thread={:?}", c, l, t, cold, warm) },
      );
    }
  }
}

pub fn run(ctx: &mut Ctx) {
  let mode = ctx.extra.first().cloned().unwrap_or_else(|| "c07".into());
  if ctx.extra.get(1).map(|s| s.as_str()) == Some("child") {
    let b: usize = ctx.extra.get(2).and_then(|s| s.parse().ok()).unwrap_or(0);
    child(ctx.seed, &mode, b);
    return;
  }
  let pred = format!("C{}.history", &mode[1..]);
  let tw = tweaks();
  let exe = std::env::current_exe().expect("current_exe");
  let tl = tol(&mode);
  if mode == "c01" || mode == "c02" {
    cold_crystals(ctx, &pred);
  }
  for b in 0..ctx.n {
    let base = match base_case(ctx.seed, b, &mode) {
      Some(c) => c,
      None => {
        ctx.count("hist/no-base");
        continue;
      }
    };
    ctx.count("hist/base");
    ctx.count(&format!("hist/crystal/{}", base.spdc.crystal_setup.crystal));
    ctx.count(if matches!(base.spdc.pp, PeriodicPoling::Off) { "hist/unpoled" } else { "hist/poled" });
    // the fresh process: t_1 … t_n, base
    let outp = std::process::Command::new(&exe)
      .args(["hist", &ctx.seed.to_string(), "1", if ctx.thorough { "thorough" } else { "quick" }, &mode, "child", &b.to_string()])
      .output();
    let text = match outp {
      Ok(o) => String::from_utf8_lossy(&o.stdout).to_string(),
      Err(_) => {
        ctx.count("hist/child-spawn-failed");
        continue;
      }
    };
    let mut reference: std::collections::BTreeMap<(String, String), Vec<String>> = Default::default();
    for line in text.lines() {
      let mut it = line.split(' ');
      if it.next() != Some("V") {
        continue;
      }
      let tag = it.next().unwrap_or("").to_string();
      // observable names contain no blanks except the one with parentheses
      let rest: Vec<&str> = it.collect();
      let split = rest.iter().position(|t| t.starts_with('x') && t.len() == 17 || *t == "PANIC").unwrap_or(rest.len());
      let name = rest[..split].join(" ");
      reference.insert((tag, name), rest[split..].iter().map(|s| s.to_string()).collect());
    }
    if reference.is_empty() {
      ctx.count("hist/child-empty");
      continue;
    }
    // this process: base, t_1, base, t_2, …
    let mut cache = Spec::new();
    let mut judge = |ctx: &mut Ctx, tag: &str, o: &Obs, what: &str| {
      for (name, toks) in o {
        ctx.count("hist/observable");
        let r = reference.get(&(tag.to_string(), name.clone()));
        let (pass, why) = match r {
          None => (true, String::new()), // not evaluated in the child (tweak not applicable there): nothing to compare
          Some(rv) => match differ(toks, rv, tl) {
            None => (true, String::new()),
            Some(w) => (false, w),
          },
        };
        let tweak_name = tag.split(':').next().unwrap_or(tag);
        let sig = if pass {
          "history/ok".to_string()
        } else if what.starts_with("base_in_worker") {
          format!("context/{}/{}", name.split('/').next().unwrap_or(name), what)
        } else {
          format!("history/{}/{}", name.split('/').next().unwrap_or(name), tweak_name)
        };
        let detail = if pass {
          String::new()
        } else {
          format!(
            "mode={} base={} seed={} evaluated={} observable={} tweak={} after_base_vs_fresh_process: {} crystal={} pm={} replay=vh_hist_{}_{}",
            mode, b, ctx.seed, what, name.replace(' ', "_"), tag, why, base.spdc.crystal_setup.crystal, base.spdc.crystal_setup.pm_type, mode, b
          )
        };
        ctx.s(&pred, pass, &sig, &detail);
      }
    };
    let o0 = observe(&mode, &base, &mut cache);
    judge(ctx, "base", &o0, "base_first");
    // execution context: the same call made from a worker thread of a rayon pool of 1, 3 or 97 threads
    for k in [1usize, 3, 97] {
      let (m2, b2) = (mode.clone(), base.clone());
      let r = guard(move || {
        rayon::ThreadPoolBuilder::new().num_threads(k).build().map(|p| {
          p.install(move || {
            let mut cache = Spec::new();
            observe(&m2, &b2, &mut cache)
          })
        })
      });
      if let Some(Ok(o)) = r {
        ctx.count("hist/context");
        judge(ctx, "base", &o, &format!("base_in_worker_of_pool_{}", k));
      }
    }
    if mode == "c12" {
      continue;
    }
    // cold start at round values: a cache whose "empty" sentinel is a legitimate value (0 degC, angle 0, position 0)
    // is wrong only when that value is the FIRST one a thread sees; evaluate such cases first-thing on a brand-new
    // thread and again on this (warm) thread right after the base case
    let round: Vec<(&'static str, fn(&mut Case))> = vec![
      ("temperature=0C", |c| c.spdc.crystal_setup.temperature = 273.15 * K),
      ("temperature=20C", |c| c.spdc.crystal_setup.temperature = 293.15 * K),
      ("temperature=0K+1", |c| c.spdc.crystal_setup.temperature = 1.0 * K),
      ("crystal_theta=0", |c| c.spdc.crystal_setup.theta = 0.0 * RAD),
      ("crystal_theta=90deg", |c| c.spdc.crystal_setup.theta = std::f64::consts::FRAC_PI_2 * RAD),
      ("crystal_phi=0", |c| c.spdc.crystal_setup.phi = 0.0 * RAD),
      ("signal_angles=0", |c| {
        c.spdc.signal.set_angles(0.0 * RAD, 0.0 * RAD);
      }),
      ("waist_positions=0", |c| {
        c.spdc.signal_waist_position = 0.0 * M;
        c.spdc.idler_waist_position = 0.0 * M;
      }),
      ("power=1mW", |c| c.spdc.pump_average_power = 1.0 * spdcalc::dim::ucum::MILLIW),
    ];
    for (rname, rf) in round.iter() {
      let mut c = base.clone();
      if guard(|| rf(&mut c)).is_none() {
        continue;
      }
      c.gen = 1000 + ctx.dist.len();
      let (m2, c2) = (mode.clone(), c.clone());
      let cold = std::thread::Builder::new().stack_size(16 << 20).spawn(move || {
        let mut cache = Spec::new();
        observe(&m2, &c2, &mut cache)
      });
      let cold = match cold.map(|h| h.join()) {
        Ok(Ok(o)) => o,
        _ => continue,
      };
      let mut cache_w = Spec::new();
      let _ = observe(&mode, &base, &mut cache_w);
      let warm = observe(&mode, &c, &mut cache_w);
      ctx.count("hist/cold-start");
      for ((n1, t1), (n2, t2)) in cold.iter().zip(warm.iter()) {
        if n1 != n2 {
          break;
        }
        let bad = differ(t1, t2, tl);
        let sig = if bad.is_none() { "history/ok".to_string() } else { format!("cold-start/{}/{}", n1.split('/').next().unwrap_or(n1), rname) };
        let detail = match &bad {
          None => String::new(),
          Some(w) => format!(
            "mode={} base={} seed={} observable={} round_value={} first_call_on_a_new_thread_vs_warm_thread: {} crystal={} pm={}",
            mode, b, ctx.seed, n1.replace(' ', "_"), rname, w, base.spdc.crystal_setup.crystal, base.spdc.crystal_setup.pm_type
          ),
        };
        ctx.s(&pred, bad.is_none(), &sig, &detail);
      }
    }
    let names: Vec<String> = o0.iter().map(|x| x.0.clone()).collect();
    let uses_spectrum = !matches!(mode.as_str(), "c01" | "c02" | "c03" | "c04" | "c05" | "c06" | "c12" | "c13" | "c18");
    for (j, big) in tweak_list(&mode) {
      if let Some(c) = apply(&base, &tw[j], big, 2 * j + big as usize) {
        ctx.count(&format!("hist/tweak/{}", tw[j].0));
        // an argument-only tweak is made on the SAME spectrum object as the base call (object-level memos);
        // a setup tweak (or another integrator) needs its own object, built right after a fresh one for the base
        let own_object = tw[j].1 || tw[j].0.starts_with("arg_integrator");
        let mut cache_t = Spec::new();
        if uses_spectrum {
          cache = Spec::new();
          let _ = spectrum(&base, &mut cache);
          if own_object {
            let _ = spectrum(&c, &mut cache_t);
          }
          if mode != "c14" && mode != "c09" && mode != "c10" && mode != "c11" && mode != "c16" && mode != "c17" {
            let _ = singles_spectrum(&base, &mut cache);
            if own_object {
              let _ = singles_spectrum(&c, &mut cache_t);
            }
          }
        }
        // every observable on its own: base, then the tweaked case, back to back
        for name in names.iter() {
          ONLY.with(|f| *f.borrow_mut() = Some(name.clone()));
          let ob = observe(&mode, &base, &mut cache);
          let ot = if own_object { observe(&mode, &c, &mut cache_t) } else { observe(&mode, &c, &mut cache) };
          ONLY.with(|f| *f.borrow_mut() = None);
          judge(ctx, "base", &ob, "base_before_tweak");
          judge(ctx, &key(j, big), &ot, "tweak_right_after_base");
        }
      }
    }
  }
}
