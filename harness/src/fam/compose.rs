//! The COMPOSED end-to-end correspondence: the K lines carry ONLY the primitive inputs of a setup
//! (crystal id, crystal angles, length, temperature, PM type, pump / signal / idler wavelengths,
//! angles, waists, waist positions, bandwidth, power, threshold, deff, poling) and every printed
//! quantity — principal indices, direction-dependent indices, external angles, wave vectors, Δk,
//! walk-off, integrand, z-integral, envelope, jsa_raw, normalisation, jsa, jsi, singles — is
//! computed by the real crate on an `SPDC` built from exactly these primitives with the crate's own
//! constructors (`Beam::new`, `PumpBeam::from`, `PeriodicPoling::new`, `SPDC::new`,
//! `assign_optimum_idler` for `idler: auto`).  The composed Lean model (Model/Compose.lean)
//! recomputes all of them from the primitives through all its layers.
//!
//! usage: vh compose <seed> <n> <tier> <mode>   with mode ∈ {c03, c06, c07, all}
use crate::common::*;
use crate::fam::pm::{gen_apodization, gen_freqs, simpson_abs_scale, window, CRYSTALS, PMTYPES};
use spdcalc::beam::{Beam, BeamWaist, IdlerBeam, PumpBeam, SignalBeam};
use spdcalc::dim::ucum::{DEG, K, M, MILLIW, RAD, S};
use spdcalc::jsa::jsa_raw;
use spdcalc::math::Integrator;
use spdcalc::phasematch::{
  get_pm_integrand, jsi_normalization, jsi_singles_normalization, phasematch_fiber_coupling,
  phasematch_singles_fiber_coupling, pump_spectral_amplitude,
};
use spdcalc::utils::{frequency_to_vacuum_wavelength, from_celsius_to_kelvin};
use spdcalc::{
  Apodization, Complex, CrystalSetup, CrystalType, Frequency, JsiNorm, JsiSinglesNorm,
  MetersPerMilliVolt, PMType, PerMeter3, PerMeter4, PeriodicPoling, PolarizationType, Sign, SPDC,
};

fn w(x: f64) -> Frequency {
  x * RAD / S
}

/// the primitive inputs (SI / UCUM base values)
#[derive(Clone)]
pub struct Prim {
  crystal: CrystalType,
  pm: PMType,
  cp: bool,
  ctheta: f64,
  cphi: f64,
  l: f64,
  t: f64,
  lam_p: f64,
  wpx: f64,
  wpy: f64,
  bw: f64,
  power: f64,
  thr: f64,
  deff: f64,
  /// lam theta phi wx wy z0
  sig: [f64; 6],
  idl: [f64; 6],
  auto: bool,
  /// signed period, window
  poling: Option<(f64, Apodization)>,
  /// generated through the crate's optimum calls (not a primitive, not on the wire)
  matched: bool,
}

fn apod_wire(a: &Apodization) -> String {
  match a {
    Apodization::Off => "off".into(),
    Apodization::Gaussian { fwhm } => format!("gaussian {}", fl(*(*fwhm / M))),
    Apodization::Bartlett(a) => format!("bartlett {}", fl(*a)),
    Apodization::Blackman(a) => format!("blackman {}", fl(*a)),
    Apodization::Connes(a) => format!("connes {}", fl(*a)),
    Apodization::Cosine(a) => format!("cosine {}", fl(*a)),
    Apodization::Hamming(a) => format!("hamming {}", fl(*a)),
    Apodization::Welch(a) => format!("welch {}", fl(*a)),
    Apodization::Interpolate(v) => {
      let mut s = format!("interp {}", v.len());
      for x in v {
        s.push(' ');
        s.push_str(&fl(*x));
      }
      s
    }
  }
}

impl Prim {
  /// the K-line prefix: nothing but primitives
  pub fn tokens(&self) -> String {
    let mut t = vec![
      self.ctheta, self.cphi, self.l, self.t, self.lam_p, self.wpx, self.wpy, self.bw, self.power, self.thr,
      self.deff,
    ];
    t.extend_from_slice(&self.sig);
    t.extend_from_slice(&self.idl);
    format!(
      "{} {} {} {} {} {}",
      self.crystal,
      self.pm,
      self.cp as u8,
      fls(&t),
      self.auto as u8,
      match &self.poling {
        None => "off".to_string(),
        Some((p, a)) => format!("on {} {}", fl(*p), apod_wire(a)),
      }
    )
  }

  /// the SPDC object of these primitives, through the crate's own constructors
  pub fn build(&self) -> Option<SPDC> {
    let p = self.clone();
    guard(move || {
      let crystal_setup = CrystalSetup {
        crystal: p.crystal.clone(),
        pm_type: p.pm,
        theta: p.ctheta * RAD,
        phi: p.cphi * RAD,
        length: p.l * M,
        temperature: p.t * K,
        counter_propagation: p.cp,
      };
      let signal: SignalBeam = Beam::new(
        p.pm.signal_polarization(),
        p.sig[2] * RAD,
        p.sig[1] * RAD,
        p.sig[0] * M,
        BeamWaist { x: p.sig[3] * M, y: p.sig[4] * M },
      )
      .into();
      let idler: IdlerBeam = Beam::new(
        p.pm.idler_polarization(),
        p.idl[2] * RAD,
        p.idl[1] * RAD,
        p.idl[0] * M,
        BeamWaist { x: p.idl[3] * M, y: p.idl[4] * M },
      )
      .into();
      let pump: PumpBeam = Beam::new(
        p.pm.pump_polarization(),
        0.0 * RAD,
        0.0 * RAD,
        p.lam_p * M,
        BeamWaist { x: p.wpx * M, y: p.wpy * M },
      )
      .into();
      let pp = match &p.poling {
        None => PeriodicPoling::Off,
        Some((per, a)) => PeriodicPoling::new(*per * M, a.clone()),
      };
      let mut spdc = SPDC::new(
        crystal_setup,
        signal,
        idler,
        pump,
        p.bw * M,
        p.power * MILLIW,
        p.thr,
        pp,
        p.sig[5] * M,
        p.idl[5] * M,
        MetersPerMilliVolt::new(p.deff),
      );
      if p.auto {
        spdc.assign_optimum_idler().ok()?;
      }
      Some(spdc)
    })
    .flatten()
  }
}

/// read the primitives back from a constructed SPDC
fn prim_of(spdc: &SPDC, auto: bool, matched: bool) -> Prim {
  let cs = &spdc.crystal_setup;
  let b = |b: &Beam, z0: f64| -> [f64; 6] {
    [
      b.vacuum_wavelength().value_unsafe,
      b.theta_internal().value_unsafe,
      b.phi().value_unsafe,
      b.waist().x.value_unsafe,
      b.waist().y.value_unsafe,
      z0,
    ]
  };
  Prim {
    crystal: cs.crystal.clone(),
    pm: cs.pm_type,
    cp: cs.counter_propagation,
    ctheta: cs.theta.value_unsafe,
    cphi: cs.phi.value_unsafe,
    l: cs.length.value_unsafe,
    t: cs.temperature.value_unsafe,
    lam_p: spdc.pump.vacuum_wavelength().value_unsafe,
    wpx: spdc.pump.waist().x.value_unsafe,
    wpy: spdc.pump.waist().y.value_unsafe,
    bw: spdc.pump_bandwidth.value_unsafe,
    power: spdc.pump_average_power.value_unsafe,
    thr: spdc.pump_spectrum_threshold,
    deff: spdc.deff.value_unsafe,
    sig: b(&spdc.signal, spdc.signal_waist_position.value_unsafe),
    idl: b(&spdc.idler, spdc.idler_waist_position.value_unsafe),
    auto,
    matched,
    poling: match &spdc.pp {
      PeriodicPoling::Off => None,
      PeriodicPoling::On { period, sign, apodization } => Some((
        period.value_unsafe * if *sign == Sign::POSITIVE { 1.0 } else { -1.0 },
        apodization.clone(),
      )),
    },
  }
}

/// pump and signal wavelengths inside the window with the idler inside too
fn gen_wavelengths(r: &mut Rng, c: &CrystalType, deg: bool) -> Option<(f64, f64)> {
  let (lo, hi) = window(c);
  let lo = lo * 1.03;
  let hi = hi * 0.97;
  if 2.05 * lo >= hi {
    return None;
  }
  let lp = r.log_range(lo, hi / 2.05);
  let ls_min = (lp * hi / (hi - lp)).max(lp * 1.05);
  if ls_min >= hi {
    return None;
  }
  let ls = if deg { 2.0 * lp } else { r.range(ls_min, hi) };
  Some((lp, ls))
}

/// log-uniform waist 20 µm – 3 mm, sometimes elliptical
fn gen_waist(r: &mut Rng) -> (f64, f64) {
  let wx = r.log_range(20e-6, 3e-3);
  let wy = if r.below(4) == 0 { (wx * r.range(0.5, 2.0)).clamp(20e-6, 3e-3) } else { wx };
  (wx, wy)
}

/// a random valid setup; the result is the PRIMITIVE record (the SPDC used for the real
/// computations is rebuilt from it)
pub(crate) fn gen_prim(r: &mut Rng) -> Option<Prim> {
  let crystal = r.pick(&CRYSTALS).clone();
  let pm_type = *r.pick(&PMTYPES);
  let deg = r.below(6) == 0;
  let (lp, ls) = gen_wavelengths(r, &crystal, deg)?;
  let li = ls * lp / (ls - lp);
  let l = r.log_range(0.3e-3, 30e-3);
  let poled = r.coin();
  let crystal_setup = CrystalSetup {
    crystal,
    pm_type,
    theta: if poled && r.coin() { 90.0 * DEG } else { r.range(0.0, 90.0) * DEG },
    phi: if r.coin() { 0.0 * DEG } else { r.range(0.0, 90.0) * DEG },
    length: l * M,
    temperature: from_celsius_to_kelvin(r.range(15.0, 80.0)),
    counter_propagation: false,
  };
  let (wsx, wsy) = gen_waist(r);
  let (wix, wiy) = gen_waist(r);
  let (wpx, wpy) = gen_waist(r);
  let signal: SignalBeam =
    Beam::new(pm_type.signal_polarization(), 0.0 * RAD, 0.0 * RAD, ls * M, BeamWaist { x: wsx * M, y: wsy * M }).into();
  let idler: IdlerBeam = Beam::new(
    pm_type.idler_polarization(),
    std::f64::consts::PI * RAD,
    0.0 * RAD,
    li * M,
    BeamWaist { x: wix * M, y: wiy * M },
  )
  .into();
  let pump: PumpBeam =
    Beam::new(pm_type.pump_polarization(), 0.0 * RAD, 0.0 * RAD, lp * M, BeamWaist { x: wpx * M, y: wpy * M }).into();
  let apod = if poled { gen_apodization(r, l) } else { Apodization::Off };
  let pp = if poled {
    let p = r.log_range(2e-6, 200e-6) * if r.coin() { 1.0 } else { -1.0 };
    PeriodicPoling::new(p * M, apod)
  } else {
    PeriodicPoling::Off
  };
  let mut spdc = SPDC::new(
    crystal_setup,
    signal,
    idler,
    pump,
    r.log_range(0.05e-9, 20e-9) * M,
    r.log_range(1.0, 1000.0) * MILLIW,
    *r.pick(&[1e-9, 1e-2, 0.1]),
    pp,
    0.0 * M,
    0.0 * M,
    MetersPerMilliVolt::new(r.log_range(0.1e-15, 20e-15)),
  );
  // two thirds phase-matched by the crate's own optimum calls (crystal angle or poling period,
  // optimum idler, optimal waist positions): the optimisers' RESULTS become primitives
  let phase_matched = r.below(3) != 0;
  if phase_matched {
    let keep_wi = spdc.idler.waist();
    let s2 = spdc.clone();
    let opt = guard(move || s2.try_as_optimum())?.ok()?;
    spdc = opt;
    spdc.idler.set_waist(keep_wi);
  }
  // non-collinear signal (Snell inverse: its result, the internal angle, becomes a primitive)
  let collinear = r.below(3) == 0;
  if !collinear {
    let phi_s = if r.below(5) == 0 { 0.0 } else { r.range(0.0, 360.0) };
    let theta_e = r.range(0.0, 3.0);
    let cs = spdc.crystal_setup.clone();
    let mut sig = spdc.signal.clone();
    guard(move || {
      sig.set_phi(phi_s * DEG);
      sig.set_theta_external(theta_e * DEG, &cs);
      sig
    })
    .map(|s| spdc.signal = s)?;
    if r.below(4) == 0 {
      // negative internal angle
      let th = -spdc.signal.theta_internal().value_unsafe;
      let ph = spdc.signal.phi();
      spdc.signal.set_angles(ph, th * RAD);
    }
    if !phase_matched && r.below(10) == 0 {
      spdc.crystal_setup.counter_propagation = true;
      let th = std::f64::consts::PI - spdc.signal.theta_internal().value_unsafe;
      let ph = spdc.signal.phi();
      spdc.signal.set_angles(ph, th * RAD);
    }
  }
  // idler: "auto" (the model computes the optimum idler itself), or explicit (optimum read back, or arbitrary)
  let auto = r.below(3) == 0;
  if !auto {
    if collinear || r.coin() {
      let s2 = spdc.clone();
      if let Some(Ok(id)) = guard(move || s2.optimum_idler()) {
        let wi0 = spdc.idler.waist();
        spdc.idler = id;
        spdc.idler.set_waist(wi0);
      }
    } else {
      let phi_i = r.range(0.0, 360.0);
      let th_i = r.range(-0.04, 0.04);
      spdc.idler.set_angles(phi_i * DEG, th_i * RAD);
    }
  }
  match r.below(3) {
    0 if !auto => {
      let s2 = spdc.clone();
      spdc = guard(move || s2.with_optimal_waist_positions())?;
    }
    1 if phase_matched && collinear => {}
    _ => {
      spdc.signal_waist_position = r.range(-1.0, 0.2) * l * M;
      spdc.idler_waist_position = r.range(-1.0, 0.2) * l * M;
    }
  }
  let p = prim_of(&spdc, auto, phase_matched);
  let all = [
    p.ctheta, p.cphi, p.l, p.t, p.lam_p, p.wpx, p.wpy, p.bw, p.power, p.thr, p.deff,
  ];
  if !all.iter().chain(p.sig.iter()).chain(p.idl.iter()).all(|x| x.is_finite()) {
    return None;
  }
  Some(p)
}

fn cx(z: Complex<f64>) -> String {
  format!("{} {}", fl(z.re), fl(z.im))
}
fn pol_char(p: PolarizationType) -> &'static str {
  match p {
    PolarizationType::Ordinary => "o",
    PolarizationType::Extraordinary => "e",
  }
}
fn v3(v: &nalgebra::Vector3<f64>) -> String {
  fls(&[v.x, v.y, v.z])
}
fn beam_str(b: &Beam) -> String {
  let d = b.direction().into_inner();
  format!(
    "{} {} {} {} {} {} {} {}",
    fl(b.phi().value_unsafe),
    fl(b.theta_internal().value_unsafe),
    v3(&d),
    fl(b.frequency().value_unsafe),
    fl(b.vacuum_wavelength().value_unsafe),
    pol_char(b.polarization()),
    fl(b.waist().x.value_unsafe),
    fl(b.waist().y.value_unsafe)
  )
}
fn beams_str(s: &SPDC) -> String {
  format!("{} {} {}", beam_str(&s.signal), beam_str(&s.idler), beam_str(&s.pump))
}

fn count_setup(ctx: &mut Ctx, p: &Prim) {
  ctx.count(&format!("compose/crystal/{}", p.crystal));
  ctx.count(&format!("compose/pm/{}", p.pm));
  ctx.count(&format!(
    "compose/poling/{}",
    match &p.poling {
      None => "off",
      Some((_, a)) => a.kind(),
    }
  ));
  ctx.count(if p.auto { "compose/idler/auto" } else { "compose/idler/explicit" });
  ctx.count(if p.sig[1] == 0.0 { "compose/signal/collinear" } else { "compose/signal/non-collinear" });
  if p.cp {
    ctx.count("compose/counter-propagation");
  }
}

// ---------------------------------------------------------------------------------- geometry / Δk

fn geometry(ctx: &mut Ctx, p: &Prim, spdc: &SPDC) {
  let st = p.tokens();
  ctx.k("cmp_beams", &st, &beams_str(spdc));
  if !p.auto {
    let sw = spdc.clone().with_swapped_signal_idler();
    ctx.k("cmp_swap_beams", &st, &beams_str(&sw));
  }
  let cs = spdc.crystal_setup.clone();
  // external angles (Snell forward)
  let s2 = spdc.clone();
  if let Some((a, b)) = guard(move || {
    (
      s2.signal.theta_external(&s2.crystal_setup).value_unsafe,
      s2.idler.theta_external(&s2.crystal_setup).value_unsafe,
    )
  }) {
    ctx.k("cmp_theta_ext", &st, &fls(&[a, b]));
  }
  // optimal waist positions
  let s2 = spdc.clone();
  if let Some((a, b)) = guard(move || {
    let c = &s2.crystal_setup;
    (
      c.optimal_waist_position(s2.signal.vacuum_wavelength(), s2.signal.polarization()).value_unsafe,
      c.optimal_waist_position(s2.idler.vacuum_wavelength(), s2.idler.polarization()).value_unsafe,
    )
  }) {
    ctx.k("cmp_waist_pos", &st, &fls(&[a, b]));
  }
  // pump walk-off
  let s2 = spdc.clone();
  let rho = guard(move || s2.pump.walkoff_angle(&s2.crystal_setup).value_unsafe);
  ctx.k("cmp_walkoff", &st, &rho.map(fl).unwrap_or("PANIC".into()));
  // k_eff
  let s2 = spdc.clone();
  let ke = guard(move || s2.pp.k_eff().value_unsafe);
  ctx.k("cmp_keff", &st, &ke.map(fl).unwrap_or("PANIC".into()));
  // apodisation weights
  let zs = [-1.0, 1.0, 0.0, ctx.rng.range(-1.0, 1.0), ctx.rng.range(-1.0, 1.0)];
  let s2 = spdc.clone();
  if let Some(ws) = guard(move || zs.iter().map(|&z| s2.pp.integration_constant(z, s2.crystal_setup.length)).collect::<Vec<_>>()) {
    ctx.k("cmp_apod", &format!("{} | {}", st, fls(&zs)), &fls(&ws));
  }
  for k in 0..2 {
    let (ws, wi) = if k == 0 {
      (spdc.signal.frequency().value_unsafe, spdc.idler.frequency().value_unsafe)
    } else {
      gen_freqs(&mut ctx.rng, spdc)
    };
    let fr = fls(&[ws, wi]);
    // principal indices at the three wavelengths, direction-dependent indices
    let s2 = spdc.clone();
    let c2 = cs.clone();
    if let Some(t) = guard(move || {
      let mut t = Vec::new();
      for om in [ws, wi, ws + wi] {
        let n = c2.crystal.get_indices(frequency_to_vacuum_wavelength(w(om)), c2.temperature);
        t.extend_from_slice(&[n.x, n.y, n.z]);
      }
      t.push(*s2.signal.refractive_index(w(ws), &c2));
      t.push(*s2.idler.refractive_index(w(wi), &c2));
      t.push(*s2.pump.refractive_index(w(ws + wi), &c2));
      t.push(*s2.pump.refractive_index(s2.pump.frequency(), &c2));
      t
    }) {
      ctx.k("cmp_indices", &format!("{} | {}", st, fr), &fls(&t));
    }
    // wave vectors and Δk
    let s2 = spdc.clone();
    if let Some(t) = guard(move || {
      let c = &s2.crystal_setup;
      let ks = s2.signal.wavevector(w(ws), c);
      let ki = s2.idler.wavevector(w(wi), c);
      let kp = s2.pump.wavevector(s2.pump.frequency(), c);
      let f = |k: spdcalc::Wavevector| {
        let v = *(k * M / RAD);
        [v.x, v.y, v.z]
      };
      [f(ks), f(ki), f(kp)].concat()
    }) {
      ctx.k("cmp_wavevectors", &format!("{} | {}", st, fr), &fls(&t));
    }
    let s2 = spdc.clone();
    let dk = guard(move || {
      let v = *(s2.delta_k(w(ws), w(wi)) * M / RAD);
      [v.x, v.y, v.z]
    });
    ctx.k(
      "cmp_deltak",
      &format!("{} | {}", st, fr),
      &dk.map(|v| fls(&v)).unwrap_or("PANIC".into()),
    );
  }
}

// ---------------------------------------------------------------------------------- integrand

fn integrand(ctx: &mut Ctx, p: &Prim, spdc: &SPDC) {
  let st = p.tokens();
  for k in 0..2 {
    let (ws, wi) = if k == 0 {
      (spdc.signal.frequency().value_unsafe, spdc.idler.frequency().value_unsafe)
    } else {
      gen_freqs(&mut ctx.rng, spdc)
    };
    let zs = [-1.0, 1.0, 0.0, ctx.rng.range(-1.0, 1.0), ctx.rng.range(-1.0, 1.0)];
    let s2 = spdc.clone();
    let outs = guard(move || {
      let f = get_pm_integrand(w(ws), w(wi), &s2);
      zs.iter().map(|&z| f(z)).collect::<Vec<_>>()
    });
    ctx.k(
      "cmp_integrand",
      &format!("{} | {} {}", st, fls(&[ws, wi]), fls(&zs)),
      &match outs {
        Some(o) => o.into_iter().map(cx).collect::<Vec<_>>().join(" "),
        None => "PANIC".into(),
      },
    );
    let divs = *ctx.rng.pick(&[50usize, 50, 20, 33, 100, 10, 6, 7]);
    let s2 = spdc.clone();
    let out = guard(move || {
      *(phasematch_fiber_coupling(w(ws), w(wi), &s2, Integrator::Simpson { divs }) / PerMeter4::new(1.0))
    });
    let scale = simpson_abs_scale(spdc, ws, wi, divs);
    ctx.k(
      "cmp_pm_coinc",
      &format!("{} | {} {}", st, fls(&[ws, wi]), divs),
      &match (out, scale) {
        (Some(z), Some(sc)) => format!("{} {}", cx(z), fl(sc)),
        _ => "PANIC".into(),
      },
    );
  }
}

// ---------------------------------------------------------------------------------- joint spectrum

fn spectrum(ctx: &mut Ctx, p: &Prim, spdc: &SPDC, singles: bool) {
  let st = p.tokens();
  let wp = spdc.pump.frequency().value_unsafe;
  // JointSpectrum::new unwraps try_as_optimum (C04/C17 territory when it fails): jsa/jsi only when available
  let divs_js = *ctx.rng.pick(&[50usize, 20, 10, 50]);
  let s2 = spdc.clone();
  let js = guard(move || s2.joint_spectrum(Integrator::Simpson { divs: divs_js }));
  if js.is_none() {
    ctx.count("compose/joint-spectrum-unavailable");
  }
  let mut pairs: Vec<(f64, f64, &str)> = Vec::new();
  pairs.push((spdc.signal.frequency().value_unsafe, spdc.idler.frequency().value_unsafe, "centre"));
  let (a, b) = gen_freqs(&mut ctx.rng, spdc);
  pairs.push((a, b, "near"));
  // on the pump line ω_s + ω_i = ω_p (envelope 1) across the ¾ box: |ω_s − ω_i| / ω_p ∈ [0.70, 0.80]
  let rr = ctx.rng.range(0.70, 0.80) * if ctx.rng.coin() { 1.0 } else { -1.0 };
  pairs.push((0.5 * wp * (1.0 + rr), 0.5 * wp * (1.0 - rr), "box"));
  // across the threshold contour / far in the envelope's tail
  let sigma = spdcalc::phasematch::fwhm_to_spectral_width(spdc.pump.vacuum_wavelength(), spdc.pump_bandwidth).value_unsafe;
  let d = ctx.rng.range(0.0, 6.0) * sigma * if ctx.rng.coin() { 1.0 } else { -1.0 };
  pairs.push((spdc.signal.frequency().value_unsafe + d, spdc.idler.frequency().value_unsafe, "tail"));
  for (ws, wi, tag) in pairs {
    ctx.count(&format!("compose/pair/{}", tag));
    let fr = fls(&[ws, wi]);
    ctx.k("cmp_pump_amp", &format!("{} | {}", st, fl(ws + wi)), &fl(pump_spectral_amplitude(w(ws + wi), spdc)));
    let divs = divs_js;
    let s2 = spdc.clone();
    let raw = guard(move || jsa_raw(w(ws), w(wi), &s2, Integrator::Simpson { divs }));
    let alpha = pump_spectral_amplitude(w(ws + wi), spdc);
    let zero = matches!(raw, Some(z) if z.re == 0.0 && z.im == 0.0);
    ctx.count(if zero { "compose/jsa_raw/zero" } else { "compose/jsa_raw/nonzero" });
    let scale = if zero { Some(0.0) } else { simpson_abs_scale(spdc, ws, wi, divs).map(|s| alpha * s) };
    ctx.k(
      "cmp_jsa_raw",
      &format!("{} | {} {}", st, fr, divs),
      &match (raw, scale) {
        (Some(z), Some(sc)) => format!("{} {}", cx(z), fl(sc)),
        _ => "PANIC".into(),
      },
    );
    let s2 = spdc.clone();
    let norms = guard(move || {
      (
        *(jsi_normalization(w(ws), w(wi), &s2) / JsiNorm::new(1.0)),
        *(jsi_singles_normalization(w(ws), w(wi), &s2) / JsiSinglesNorm::new(1.0)),
      )
    });
    if let Some((a, b)) = norms {
      ctx.k("cmp_norm", &format!("{} | {}", st, fr), &fls(&[a, b]));
    }
    if let (Some(js), Some((nrm, _))) = (&js, norms) {
      let j1 = js.clone();
      let r = guard(move || (j1.jsa(w(ws), w(wi)), j1.jsi(w(ws), w(wi)).value_unsafe));
      match (r, scale) {
        (Some((a, i)), Some(sc)) => {
          let sc = if zero { 0.0 } else { sc };
          ctx.k(
            "cmp_jsa",
            &format!("{} | {} {}", st, fr, divs),
            &format!("{} {}", cx(a), fl(if zero { 0.0 } else { nrm.sqrt() * sc })),
          );
          ctx.k(
            "cmp_jsi",
            &format!("{} | {} {}", st, fr, divs),
            &format!("{} {} {}", fl(i), fl(0.0), fl(if zero { 0.0 } else { nrm * (sc * sc) })),
          );
        }
        _ => ctx.count("compose/jsa/panic"),
      }
    }
    if singles && p.matched && tag == "centre" {
      // the singles integrand at a few (z1, z2) through the 2-point rule is not observable directly;
      // the 2-D Simpson integral is (rayon sum: order of additions is not fixed)
      let sdivs = *ctx.rng.pick(&[4usize, 6, 8]);
      let s2 = spdc.clone();
      let r = guard(move || {
        *(phasematch_singles_fiber_coupling(w(ws), w(wi), &s2, Integrator::Simpson { divs: sdivs }) / PerMeter3::new(1.0))
      });
      ctx.k(
        "cmp_pm_singles",
        &format!("{} | {} {}", st, fr, sdivs),
        &r.map(fl).unwrap_or("PANIC".into()),
      );
      // JointSpectrum::jsi_singles (normalisation × envelope² × singles function, Simpson 2-D)
      let s2 = spdc.clone();
      let r = guard(move || {
        s2.joint_spectrum(Integrator::Simpson { divs: sdivs }).jsi_singles(w(ws), w(wi)).value_unsafe
      });
      if let Some(v) = r {
        ctx.k("cmp_jsi_singles", &format!("{} | {} {}", st, fr, sdivs), &fl(v));
      }
    }
  }
}

// ---------------------------------------------------------------------------------- part 2: auto routines

/// Snell inverse, optimum crystal angle, optimum poling period, poling sign — computed by the real
/// crate on the rebuilt setup; the K line carries the primitives only
fn auto_routines(ctx: &mut Ctx, p: &Prim, spdc: &SPDC) {
  let st = p.tokens();
  // Snell inverse for the signal at a random external angle
  let ext = match ctx.rng.below(5) {
    0 => 0.0,
    1 => ctx.rng.range(0.0, 1e-3),
    _ => ctx.rng.range(0.0, 6.0f64.to_radians()),
  };
  let s2 = spdc.clone();
  let r = guard(move || Beam::calc_internal_theta_from_external(&s2.signal, ext * RAD, &s2.crystal_setup).value_unsafe);
  ctx.k("cmpa_snell", &format!("{} | {}", st, fl(ext)), &r.map(fl).unwrap_or("PANIC".into()));
  // poling sign
  let s2 = spdc.clone();
  let r = guard(move || PeriodicPoling::compute_sign(&s2.signal, &s2.pump, &s2.crystal_setup));
  ctx.k(
    "cmpa_sign",
    &st,
    &match r {
      Some(Sign::NEGATIVE) => "NEGATIVE".to_string(),
      Some(Sign::POSITIVE) => "POSITIVE".to_string(),
      None => "PANIC".into(),
    },
  );
  // optimum poling period
  let s2 = spdc.clone();
  let r = guard(move || spdcalc::optimum_poling_period(&s2.signal, &s2.pump, &s2.crystal_setup));
  ctx.count(match &r {
    Some(Ok(_)) => "compose/opt_period/ok",
    Some(Err(_)) => "compose/opt_period/err",
    None => "compose/opt_period/panic",
  });
  ctx.k(
    "cmpa_opt_period",
    &st,
    &match &r {
      Some(Ok(v)) => fl(v.value_unsafe),
      Some(Err(_)) => "ERR".into(),
      None => "PANIC".into(),
    },
  );
  // the same search with the crystal length next to the period found (the upper bound of the search and
  // the "result sits on the bound => Err" rule): L = |period| * (1 + d)
  if let Some(Ok(v)) = &r {
    let per = v.value_unsafe.abs();
    if per.is_finite() && per > 0.0 && ctx.rng.below(2) == 0 {
      let d = *ctx.rng.pick(&[1e-12, 1e-10, 5e-10, 2e-9, 1e-8, 1e-6, 1e-4, 1e-3, 5e-3, 2e-2, 0.1, -1e-10, -1e-6, -1e-3, -0.05]);
      let mut p2 = p.clone();
      p2.l = per * (1.0 + d);
      if let Some(s3) = p2.build() {
        let r2 = guard(move || spdcalc::optimum_poling_period(&s3.signal, &s3.pump, &s3.crystal_setup));
        ctx.count(match &r2 {
          Some(Ok(_)) => "compose/opt_period_at_bound/ok",
          Some(Err(_)) => "compose/opt_period_at_bound/err",
          None => "compose/opt_period_at_bound/panic",
        });
        ctx.k(
          "cmpa_opt_period",
          &p2.tokens(),
          &match r2 {
            Some(Ok(v)) => fl(v.value_unsafe),
            Some(Err(_)) => "ERR".into(),
            None => "PANIC".into(),
          },
        );
      }
    }
  }
  // optimum crystal angle
  let s2 = spdc.clone();
  let r = guard(move || s2.crystal_setup.optimum_theta(&s2.signal, &s2.pump).value_unsafe);
  ctx.k("cmpa_opt_theta", &st, &r.map(fl).unwrap_or("PANIC".into()));
}

fn optimum_tokens(o: &SPDC) -> String {
  format!(
    "OK {} {} {} {} {}",
    fl(o.crystal_setup.theta.value_unsafe),
    beams_str(o),
    match &o.pp {
      PeriodicPoling::Off => "O".to_string(),
      PeriodicPoling::On { period, sign, .. } =>
        format!("P {}", fl(period.value_unsafe * if *sign == Sign::POSITIVE { 1.0 } else { -1.0 })),
    },
    fl(o.signal_waist_position.value_unsafe),
    fl(o.idler_waist_position.value_unsafe)
  )
}

/// `try_as_optimum` of the rebuilt setup, and once more of the optimum rebuilt from ITS primitives
fn as_optimum(ctx: &mut Ctx, p: &Prim, spdc: &SPDC) {
  let s2 = spdc.clone();
  let r = guard(move || s2.try_as_optimum());
  ctx.count(match &r {
    Some(Ok(_)) => "compose/as_optimum/ok",
    Some(Err(_)) => "compose/as_optimum/err",
    None => "compose/as_optimum/panic",
  });
  ctx.k(
    "cmpa_as_optimum",
    &p.tokens(),
    &match &r {
      Some(Ok(o)) => optimum_tokens(o),
      Some(Err(_)) => "ERR".into(),
      None => "PANIC".into(),
    },
  );
  if let Some(Ok(o)) = r {
    // second pass: the optimum as a primitive setup of its own (idler explicit, as read back)
    let p2 = prim_of(&o, false, true);
    if let Some(o1) = p2.build() {
      let r2 = guard(move || o1.try_as_optimum());
      ctx.k(
        "cmpa_as_optimum",
        &p2.tokens(),
        &match &r2 {
          Some(Ok(o2)) => optimum_tokens(o2),
          Some(Err(_)) => "ERR".into(),
          None => "PANIC".into(),
        },
      );
    }
  }
}

/// configuration descriptors (the config family's generators) through `SPDC::from_json`; the K line
/// is the descriptor alone
fn from_config(ctx: &mut Ctx, malformed: bool, spectra: bool) {
  use crate::fam::config::{gen_malformed, gen_valid, outcome_tokens};
  let d = if malformed { gen_malformed(&mut ctx.rng).0 } else { gen_valid(&mut ctx.rng) };
  let js = d.json().to_string();
  let r: Option<Result<SPDC, String>> = match guard(|| serde_json::from_str::<spdcalc::SPDCConfig>(&js).ok()).flatten() {
    None => {
      ctx.count("compose/from_config/serde-rejected");
      return;
    }
    Some(cfg) => guard(move || cfg.try_as_spdc().map_err(|e| e.0)),
  };
  ctx.count(match &r {
    Some(Ok(_)) => "compose/from_config/ok",
    Some(Err(_)) => "compose/from_config/err",
    None => "compose/from_config/panic",
  });
  let auto = |a: &crate::fam::config::AutoV| matches!(a, crate::fam::config::AutoV::Auto | crate::fam::config::AutoV::Absent);
  if auto(&d.c_theta) {
    ctx.count("compose/from_config/auto-theta");
  }
  if let crate::fam::config::PolingD::Cfg { period, .. } = &d.poling {
    ctx.count(if auto(period) { "compose/from_config/auto-period" } else { "compose/from_config/explicit-period" });
  }
  if d.signal.theta_e.is_some() {
    ctx.count("compose/from_config/signal-external-angle");
  }
  ctx.k("cmpa_from_config", &d.tokens(), &outcome_tokens(&r));
  if spectra {
    if let Some(Ok(spdc)) = &r {
      let divs = *ctx.rng.pick(&[50usize, 20, 10]);
      let s2 = spdc.clone();
      if let Some(js) = guard(move || s2.joint_spectrum(Integrator::Simpson { divs })) {
        let mut pairs = vec![(spdc.signal.frequency().value_unsafe, spdc.idler.frequency().value_unsafe)];
        pairs.push(gen_freqs(&mut ctx.rng, spdc));
        for (ws, wi) in pairs {
          let j1 = js.clone();
          if let Some(v) = guard(move || j1.jsi(w(ws), w(wi)).value_unsafe) {
            let sc = simpson_abs_scale(spdc, ws, wi, divs).unwrap_or(0.0);
            let alpha = pump_spectral_amplitude(w(ws + wi), spdc);
            let s3 = spdc.clone();
            let nrm = guard(move || *(jsi_normalization(w(ws), w(wi), &s3) / JsiNorm::new(1.0))).unwrap_or(0.0);
            // value, 0, forward-error scale of the quadrature sum behind it (see notes/compose.md)
            ctx.k(
              "cmpa_jsi_from_config",
              &format!("{} | {} {}", d.tokens(), fls(&[ws, wi]), divs),
              &format!("{} {} {}", fl(v), fl(0.0), fl(if v == 0.0 { 0.0 } else { nrm * (alpha * sc) * (alpha * sc) })),
            );
          }
        }
      }
    }
  }
}

pub fn run(ctx: &mut Ctx) {
  let mode = ctx.extra.first().cloned().unwrap_or_else(|| "all".to_string());
  if mode == "c16" || mode == "c17" {
    for _ in 0..ctx.n {
      from_config(ctx, mode == "c17", mode == "c16");
    }
    return;
  }
  let mut made = 0;
  let mut tries = 0;
  while made < ctx.n && tries < 30 * ctx.n + 100 {
    tries += 1;
    let p = match gen_prim(&mut ctx.rng) {
      Some(p) => p,
      None => {
        ctx.count("compose/setup-rejected");
        continue;
      }
    };
    // the SPDC every real computation runs on is REBUILT from the primitives
    let spdc = match p.build() {
      Some(s) => s,
      None => {
        ctx.count("compose/build-failed");
        continue;
      }
    };
    made += 1;
    count_setup(ctx, &p);
    match mode.as_str() {
      "c03" => geometry(ctx, &p, &spdc),
      "c06" => integrand(ctx, &p, &spdc),
      "c07" => spectrum(ctx, &p, &spdc, true),
      "c04" => auto_routines(ctx, &p, &spdc),
      "c20" => as_optimum(ctx, &p, &spdc),
      _ => {
        geometry(ctx, &p, &spdc);
        integrand(ctx, &p, &spdc);
        spectrum(ctx, &p, &spdc, true);
      }
    }
  }
}
