//! The COMPOSED end-to-end correspondence: the K lines carry ONLY the primitive inputs of a setup
//! (crystal id, crystal angles, length, temperature, PM type, pump / signal / idler wavelengths,
//! angles, waists, waist positions, bandwidth, power, threshold, deff, poling) and every printed
//! quantity — principal indices, direction-dependent indices, external angles, wave vectors, Δk,
//! walk-off, integrand, z-integral, envelope, jsa_raw, normalisation, jsa, jsi, singles — is
//! computed by the real crate on an `SPDC` built from exactly these primitives with the crate's own
//! constructors (`Beam::new`, `PumpBeam::from`, `PeriodicPoling::new`, `SPDC::new`,
//! `assign_optimum_idler` for `idler: auto`).  The composed Lean model (Model/Compose.lean)
//! recomputes all of them from the primitives through all its layers.
//!
//! usage: vh compose <seed> <n> <tier> <mode>   with mode ∈ {c03, c06, c07, all}
use crate::common::*;
use crate::fam::pm::{gen_apodization, gen_freqs, simpson_abs_scale, window, CRYSTALS, PMTYPES};
use spdcalc::beam::{Beam, BeamWaist, IdlerBeam, PumpBeam, SignalBeam};
use spdcalc::dim::ucum::{DEG, K, M, MILLIW, RAD, S};
use spdcalc::jsa::jsa_raw;
use spdcalc::math::Integrator;
use spdcalc::phasematch::{
  get_pm_integrand, jsi_normalization, jsi_singles_normalization, phasematch_fiber_coupling,
  phasematch_singles_fiber_coupling, pump_spectral_amplitude,
};
use spdcalc::utils::{frequency_to_vacuum_wavelength, from_celsius_to_kelvin};
use spdcalc::{
  Apodization, Complex, CrystalSetup, CrystalType, Frequency, JsiNorm, JsiSinglesNorm,
  MetersPerMilliVolt, PMType, PerMeter3, PerMeter4, PeriodicPoling, PolarizationType, Sign, SPDC,
};

fn w(x: f64) -> Frequency {
  x * RAD / S
}

/// the primitive inputs (SI / UCUM base values)
#[derive(Clone)]
pub struct Prim {
  crystal: CrystalType,
  pm: PMType,
  cp: bool,
  ctheta: f64,
  cphi: f64,
  l: f64,
  t: f64,
  lam_p: f64,
  wpx: f64,
  wpy: f64,
  bw: f64,
  power: f64,
  thr: f64,
  deff: f64,
  /// lam theta phi wx wy z0
  sig: [f64; 6],
  idl: [f64; 6],
  auto: bool,
  /// signed period, window
  poling: Option<(f64, Apodization)>,
  /// generated through the crate's optimum calls (not a primitive, not on the wire)
  matched: bool,
}

fn apod_wire(a: &Apodization) -> String {
  match a {
    Apodization::Off => "off".into(),
    Apodization::Gaussian { fwhm } => format!("gaussian {}", fl(*(*fwhm / M))),
    Apodization::Bartlett(a) => format!("bartlett {}", fl(*a)),
    Apodization::Blackman(a) => format!("blackman {}", fl(*a)),
    Apodization::Connes(a) => format!("connes {}", fl(*a)),
    Apodization::Cosine(a) => format!("cosine {}", fl(*a)),
    Apodization::Hamming(a) => format!("hamming {}", fl(*a)),
    Apodization::Welch(a) => format!("welch {}", fl(*a)),
    Apodization::Interpolate(v) => {
      let mut s = format!("interp {}", v.len());
      for x in v {
        s.push(' ');
        s.push_str(&fl(*x));
      }
      s
    }
  }
}

impl Prim {
  /// the K-line prefix: nothing but primitives
  pub fn tokens(&self) -> String {
    let mut t = vec![
      self.ctheta, self.cphi, self.l, self.t, self.lam_p, self.wpx, self.wpy, self.bw, self.power, self.thr,
      self.deff,
    ];
    t.extend_from_slice(&self.sig);
    t.extend_from_slice(&self.idl);
    format!(
      "{} {} {} {} {} {}",
      self.crystal,
      self.pm,
      self.cp as u8,
      fls(&t),
      self.auto as u8,
      match &self.poling {
        None => "off".to_string(),
        Some((p, a)) => format!("on {} {}", fl(*p), apod_wire(a)),
      }
    )
  }

  /// the SPDC object of these primitives, through the crate's own constructors
  pub fn build(&self) -> Option<SPDC> {
    let p = self.clone();
    guard(move || {
      let crystal_setup = CrystalSetup {
        crystal: p.crystal.clone(),
        pm_type: p.pm,
        theta: p.ctheta * RAD,
        phi: p.cphi * RAD,
        length: p.l * M,
        temperature: p.t * K,
        counter_propagation: p.cp,
      };
      let signal: SignalBeam = Beam::new(
        p.pm.signal_polarization(),
        p.sig[2] * RAD,
        p.sig[1] * RAD,
        p.sig[0] * M,
        BeamWaist { x: p.sig[3] * M, y: p.sig[4] * M },
      )
      .into();
      let idler: IdlerBeam = Beam::new(
        p.pm.idler_polarization(),
        p.idl[2] * RAD,
        p.idl[1] * RAD,
        p.idl[0] * M,
        BeamWaist { x: p.idl[3] * M, y: p.idl[4] * M },
      )
      .into();
      let pump: PumpBeam = Beam::new(
        p.pm.pump_polarization(),
        0.0 * RAD,
        0.0 * RAD,
        p.lam_p * M,
        BeamWaist { x: p.wpx * M, y: p.wpy * M },
      )
      .into();
      let pp = match &p.poling {
        None => PeriodicPoling::Off,
        Some((per, a)) => PeriodicPoling::new(*per * M, a.clone()),
      };
      let mut spdc = SPDC::new(
        crystal_setup,
        signal,
        idler,
        pump,
        p.bw * M,
        p.power * MILLIW,
        p.thr,
        pp,
        p.sig[5] * M,
        p.idl[5] * M,
        MetersPerMilliVolt::new(p.deff),
      );
      if p.auto {
        spdc.assign_optimum_idler().ok()?;
      }
      Some(spdc)
    })
    .flatten()
  }
}

/// read the primitives back from a constructed SPDC
fn prim_of(spdc: &SPDC, auto: bool, matched: bool) -> Prim {
  let cs = &spdc.crystal_setup;
  let b = |b: &Beam, z0: f64| -> [f64; 6] {
    [
      b.vacuum_wavelength().value_unsafe,
      b.theta_internal().value_unsafe,
      b.phi().value_unsafe,
      b.waist().x.value_unsafe,
      b.waist().y.value_unsafe,
      z0,
    ]
  };
  Prim {
    crystal: cs.crystal.clone(),
    pm: cs.pm_type,
    cp: cs.counter_propagation,
    ctheta: cs.theta.value_unsafe,
    cphi: cs.phi.value_unsafe,
    l: cs.length.value_unsafe,
    t: cs.temperature.value_unsafe,
    lam_p: spdc.pump.vacuum_wavelength().value_unsafe,
    wpx: spdc.pump.waist().x.value_unsafe,
    wpy: spdc.pump.waist().y.value_unsafe,
    bw: spdc.pump_bandwidth.value_unsafe,
    power: spdc.pump_average_power.value_unsafe,
    thr: spdc.pump_spectrum_threshold,
    deff: spdc.deff.value_unsafe,
    sig: b(&spdc.signal, spdc.signal_waist_position.value_unsafe),
    idl: b(&spdc.idler, spdc.idler_waist_position.value_unsafe),
    auto,
    matched,
    poling: match &spdc.pp {
      PeriodicPoling::Off => None,
      PeriodicPoling::On { period, sign, apodization } => Some((
        period.value_unsafe * if *sign == Sign::POSITIVE { 1.0 } else { -1.0 },
        apodization.clone(),
      )),
    },
  }
}

/// pump and signal wavelengths inside the window with the idler inside too
fn gen_wavelengths(r: &mut Rng, c: &CrystalType, deg: bool) -> Option<(f64, f64)> {
  let (lo, hi) = window(c);
  let lo = lo * 1.03;
  let hi = hi * 0.97;
  if 2.05 * lo >= hi {
    return None;
  }
  let lp = r.log_range(lo, hi / 2.05);
  let ls_min = (lp * hi / (hi - lp)).max(lp * 1.05);
  if ls_min >= hi {
    return None;
  }
  let ls = if deg { 2.0 * lp } else { r.range(ls_min, hi) };
  Some((lp, ls))
}

/// log-uniform waist 20 µm – 3 mm, sometimes elliptical
fn gen_waist(r: &mut Rng) -> (f64, f64) {
  let wx = r.log_range(20e-6, 3e-3);
  let wy = if r.below(4) == 0 { (wx * r.range(0.5, 2.0)).clamp(20e-6, 3e-3) } else { wx };
  (wx, wy)
}

/// a random valid setup; the result is the PRIMITIVE record (the SPDC used for the real
/// computations is rebuilt from it)
pub(crate) fn gen_prim(r: &mut Rng) -> Option<Prim> {
  let crystal = r.pick(&CRYSTALS).clone();
  let pm_type = *r.pick(&PMTYPES);
  let deg = r.below(6) == 0;
  let (lp, ls) = gen_wavelengths(r, &crystal, deg)?;
  let li = ls * lp / (ls - lp);
  let l = r.log_range(0.3e-3, 30e-3);
  let poled = r.coin();
  let crystal_setup = CrystalSetup {
    crystal,
    pm_type,
    theta: if poled && r.coin() { 90.0 * DEG } else { r.range(0.0, 90.0) * DEG },
    phi: if r.coin() { 0.0 * DEG } else { r.range(0.0, 90.0) * DEG },
    length: l * M,
    temperature: from_celsius_to_kelvin(r.range(15.0, 80.0)),
    counter_propagation: false,
  };
  let (wsx, wsy) = gen_waist(r);
  let (wix, wiy) = gen_waist(r);
  let (wpx, wpy) = gen_waist(r);
  let signal: SignalBeam =
    Beam::new(pm_type.signal_polarization(), 0.0 * RAD, 0.0 * RAD, ls * M, BeamWaist { x: wsx * M, y: wsy * M }).into();
  let idler: IdlerBeam = Beam::new(
    pm_type.idler_polarization(),
    std::f64::consts::PI * RAD,
    0.0 * RAD,
    li * M,
    BeamWaist { x: wix * M, y: wiy * M },
  )
  .into();
  let pump: PumpBeam =
    Beam::new(pm_type.pump_polarization(), 0.0 * RAD, 0.0 * RAD, lp * M, BeamWaist { x: wpx * M, y: wpy * M }).into();
  let apod = if poled { gen_apodization(r, l) } else { Apodization::Off };
  let pp = if poled {
    let p = r.log_range(2e-6, 200e-6) * if r.coin() { 1.0 } else { -1.0 };
    PeriodicPoling::new(p * M, apod)
  } else {
    PeriodicPoling::Off
  };
  let mut spdc = SPDC::new(
    crystal_setup,
    signal,
    idler,
    pump,
    r.log_range(0.05e-9, 20e-9) * M,
    r.log_range(1.0, 1000.0) * MILLIW,
    *r.pick(&[1e-9, 1e-2, 0.1]),
    pp,
    0.0 * M,
    0.0 * M,
    MetersPerMilliVolt::new(r.log_range(0.1e-15, 20e-15)),
  );
  // two thirds phase-matched by the crate's own optimum calls (crystal angle or poling period,
  // optimum idler, optimal waist positions): the optimisers' RESULTS become primitives
  let phase_matched = r.below(3) != 0;
  if phase_matched {
    let keep_wi = spdc.idler.waist();
    let s2 = spdc.clone();
    let opt = guard(move || s2.try_as_optimum())?.ok()?;
    spdc = opt;
    spdc.idler.set_waist(keep_wi);
  }
  // non-collinear signal (Snell inverse: its result, the internal angle, becomes a primitive)
  let collinear = r.below(3) == 0;
  if !collinear {
    let phi_s = if r.below(5) == 0 { 0.0 } else { r.range(0.0, 360.0) };
    let theta_e = r.range(0.0, 3.0);
    let cs = spdc.crystal_setup.clone();
    let mut sig = spdc.signal.clone();
    guard(move || {
      sig.set_phi(phi_s * DEG);
      sig.set_theta_external(theta_e * DEG, &cs);
      sig
    })
    .map(|s| spdc.signal = s)?;
    if r.below(4) == 0 {
      // negative internal angle
      let th = -spdc.signal.theta_internal().value_unsafe;
      let ph = spdc.signal.phi();
      spdc.signal.set_angles(ph, th * RAD);
    }
    if !phase_matched && r.below(10) == 0 {
      spdc.crystal_setup.counter_propagation = true;
      let th = std::f64::consts::PI - spdc.signal.theta_internal().value_unsafe;
      let ph = spdc.signal.phi();
      spdc.signal.set_angles(ph, th * RAD);
    }
  }
  // idler: "auto" (the model computes the optimum idler itself), or explicit (optimum read back, or arbitrary)
  let auto = r.below(3) == 0;
  if !auto {
    if collinear || r.coin() {
      let s2 = spdc.clone();
      if let Some(Ok(id)) = guard(move || s2.optimum_idler()) {
        let wi0 = spdc.idler.waist();
        spdc.idler = id;
        spdc.idler.set_waist(wi0);
      }
    } else {
      let phi_i = r.range(0.0, 360.0);
      let th_i = r.range(-0.04, 0.04);
      spdc.idler.set_angles(phi_i * DEG, th_i * RAD);
    }
  }
  match r.below(3) {
    0 if !auto => {
      let s2 = spdc.clone();
      spdc = guard(move || s2.with_optimal_waist_positions())?;
    }
    1 if phase_matched && collinear => {}
    _ => {
      spdc.signal_waist_position = r.range(-1.0, 0.2) * l * M;
      spdc.idler_waist_position = r.range(-1.0, 0.2) * l * M;
    }
  }
  let p = prim_of(&spdc, auto, phase_matched);
  let all = [
    p.ctheta, p.cphi, p.l, p.t, p.lam_p, p.wpx, p.wpy, p.bw, p.power, p.thr, p.deff,
  ];
  if !all.iter().chain(p.sig.iter()).chain(p.idl.iter()).all(|x| x.is_finite()) {
    return None;
  }
  Some(p)
}

fn cx(z: Complex<f64>) -> String {
  format!("{} {}", fl(z.re), fl(z.im))
}
fn pol_char(p: PolarizationType) -> &'static str {
  match p {
    PolarizationType::Ordinary => "o",
    PolarizationType::Extraordinary => "e",
  }
}
fn v3(v: &nalgebra::Vector3<f64>) -> String {
  fls(&[v.x, v.y, v.z])
}
fn beam_str(b: &Beam) -> String {
  let d = b.direction().into_inner();
  format!(
    "{} {} {} {} {} {} {} {}",
    fl(b.phi().value_unsafe),
    fl(b.theta_internal().value_unsafe),
    v3(&d),
    fl(b.frequency().value_unsafe),
    fl(b.vacuum_wavelength().value_unsafe),
    pol_char(b.polarization()),
    fl(b.waist().x.value_unsafe),
    fl(b.waist().y.value_unsafe)
  )
}
fn beams_str(s: &SPDC) -> String {
  format!("{} {} {}", beam_str(&s.signal), beam_str(&s.idler), beam_str(&s.pump))
}

fn count_setup(ctx: &mut Ctx, p: &Prim) {
  ctx.count(&format!("compose/crystal/{}", p.crystal));
  ctx.count(&format!("compose/pm/{}", p.pm));
  ctx.count(&format!(
    "compose/poling/{}",
    match &p.poling {
      None => "off",
      Some((_, a)) => a.kind(),
    }
  ));
  ctx.count(if p.auto { "compose/idler/auto" } else { "compose/idler/explicit" });
  ctx.count(if p.sig[1] == 0.0 { "compose/signal/collinear" } else { "compose/signal/non-collinear" });
  if p.cp {
    ctx.count("compose/counter-propagation");
  }
}

// ---------------------------------------------------------------------------------- geometry / Δk

fn geometry(ctx: &mut Ctx, p: &Prim, spdc: &SPDC) {
  let st = p.tokens();
  ctx.k("cmp_beams", &st, &beams_str(spdc));
  if !p.auto {
    let sw = spdc.clone().with_swapped_signal_idler();
    ctx.k("cmp_swap_beams", &st, &beams_str(&sw));
  }
  let cs = spdc.crystal_setup.clone();
  // external angles (Snell forward)
  let s2 = spdc.clone();
  if let Some((a, b)) = guard(move || {
    (
      s2.signal.theta_external(&s2.crystal_setup).value_unsafe,
      s2.idler.theta_external(&s2.crystal_setup).value_unsafe,
    )
  }) {
    ctx.k("cmp_theta_ext", &st, &fls(&[a, b]));
  }
  // optimal waist positions
  let s2 = spdc.clone();
  if let Some((a, b)) = guard(move || {
    let c = &s2.crystal_setup;
    (
      c.optimal_waist_position(s2.signal.vacuum_wavelength(), s2.signal.polarization()).value_unsafe,
      c.optimal_waist_position(s2.idler.vacuum_wavelength(), s2.idler.polarization()).value_unsafe,
    )
  }) {
    ctx.k("cmp_waist_pos", &st, &fls(&[a, b]));
  }
  // pump walk-off
  let s2 = spdc.clone();
  let rho = guard(move || s2.pump.walkoff_angle(&s2.crystal_setup).value_unsafe);
  ctx.k("cmp_walkoff", &st, &rho.map(fl).unwrap_or("PANIC".into()));
  // k_eff
  let s2 = spdc.clone();
  let ke = guard(move || s2.pp.k_eff().value_unsafe);
  ctx.k("cmp_keff", &st, &ke.map(fl).unwrap_or("PANIC".into()));
  // apodisation weights
  let zs = [-1.0, 1.0, 0.0, ctx.rng.range(-1.0, 1.0), ctx.rng.range(-1.0, 1.0)];
  let s2 = spdc.clone();
  if let Some(ws) = guard(move || zs.iter().map(|&z| s2.pp.integration_constant(z, s2.crystal_setup.length)).collect::<Vec<_>>()) {
    ctx.k("cmp_apod", &format!("{} | {}", st, fls(&zs)), &fls(&ws));
  }
  for k in 0..2 {
    let (ws, wi) = if k == 0 {
      (spdc.signal.frequency().value_unsafe, spdc.idler.frequency().value_unsafe)
    } else {
      gen_freqs(&mut ctx.rng, spdc)
    };
    let fr = fls(&[ws, wi]);
    // principal indices at the three wavelengths, direction-dependent indices
    let s2 = spdc.clone();
    let c2 = cs.clone();
    if let Some(t) = guard(move || {
      let mut t = Vec::new();
      for om in [ws, wi, ws + wi] {
        let n = c2.crystal.get_indices(frequency_to_vacuum_wavelength(w(om)), c2.temperature);
        t.extend_from_slice(&[n.x, n.y, n.z]);
      }
      t.push(*s2.signal.refractive_index(w(ws), &c2));
      t.push(*s2.idler.refractive_index(w(wi), &c2));
      t.push(*s2.pump.refractive_index(w(ws + wi), &c2));
      t.push(*s2.pump.refractive_index(s2.pump.frequency(), &c2));
      t
    }) {
      ctx.k("cmp_indices", &format!("{} | {}", st, fr), &fls(&t));
    }
    // wave vectors and Δk
    let s2 = spdc.clone();
    if let Some(t) = guard(move || {
      let c = &s2.crystal_setup;
      let ks = s2.signal.wavevector(w(ws), c);
      let ki = s2.idler.wavevector(w(wi), c);
      let kp = s2.pump.wavevector(s2.pump.frequency(), c);
      let f = |k: spdcalc::Wavevector| {
        let v = *(k * M / RAD);
        [v.x, v.y, v.z]
      };
      [f(ks), f(ki), f(kp)].concat()
    }) {
      ctx.k("cmp_wavevectors", &format!("{} | {}", st, fr), &fls(&t));
    }
    let s2 = spdc.clone();
    let dk = guard(move || {
      let v = *(s2.delta_k(w(ws), w(wi)) * M / RAD);
      [v.x, v.y, v.z]
    });
    ctx.k(
      "cmp_deltak",
      &format!("{} | {}", st, fr),
      &dk.map(|v| fls(&v)).unwrap_or("PANIC".into()),
    );
  }
}

// ---------------------------------------------------------------------------------- integrand

fn integrand(ctx: &mut Ctx, p: &Prim, spdc: &SPDC) {
  let st = p.tokens();
  for k in 0..2 {
    let (ws, wi) = if k == 0 {
      (spdc.signal.frequency().value_unsafe, spdc.idler.frequency().value_unsafe)
    } else {
      gen_freqs(&mut ctx.rng, spdc)
    };
    let zs = [-1.0, 1.0, 0.0, ctx.rng.range(-1.0, 1.0), ctx.rng.range(-1.0, 1.0)];
    let s2 = spdc.clone();
    let outs = guard(move || {
      let f = get_pm_integrand(w(ws), w(wi), &s2);
      zs.iter().map(|&z| f(z)).collect::<Vec<_>>()
    });
    ctx.k(
      "cmp_integrand",
      &format!("{} | {} {}", st, fls(&[ws, wi]), fls(&zs)),
      &match outs {
        Some(o) => o.into_iter().map(cx).collect::<Vec<_>>().join(" "),
        None => "PANIC".into(),
      },
    );
    let divs = *ctx.rng.pick(&[50usize, 50, 20, 33, 100, 10, 6, 7]);
    let s2 = spdc.clone();
    let out = guard(move || {
      *(phasematch_fiber_coupling(w(ws), w(wi), &s2, Integrator::Simpson { divs }) / PerMeter4::new(1.0))
    });
    let scale = simpson_abs_scale(spdc, ws, wi, divs);
    ctx.k(
      "cmp_pm_coinc",
      &format!("{} | {} {}", st, fls(&[ws, wi]), divs),
      &match (out, scale) {
        (Some(z), Some(sc)) => format!("{} {}", cx(z), fl(sc)),
        _ => "PANIC".into(),
      },
    );
  }
}

// ---------------------------------------------------------------------------------- joint spectrum

fn spectrum(ctx: &mut Ctx, p: &Prim, spdc: &SPDC, singles: bool) {
  let st = p.tokens();
  let wp = spdc.pump.frequency().value_unsafe;
  // JointSpectrum::new unwraps try_as_optimum (C04/C17 territory when it fails): jsa/jsi only when available
  let divs_js = *ctx.rng.pick(&[50usize, 20, 10, 50]);
  let s2 = spdc.clone();
  let js = guard(move || s2.joint_spectrum(Integrator::Simpson { divs: divs_js }));
  if js.is_none() {
    ctx.count("compose/joint-spectrum-unavailable");
  }
  let mut pairs: Vec<(f64, f64, &str)> = Vec::new();
  pairs.push((spdc.signal.frequency().value_unsafe, spdc.idler.frequency().value_unsafe, "centre"));
  let (a, b) = gen_freqs(&mut ctx.rng, spdc);
  pairs.push((a, b, "near"));
  // on the pump line ω_s + ω_i = ω_p (envelope 1) across the ¾ box: |ω_s − ω_i| / ω_p ∈ [0.70, 0.80]
  let rr = ctx.rng.range(0.70, 0.80) * if ctx.rng.coin() { 1.0 } else { -1.0 };
  pairs.push((0.5 * wp * (1.0 + rr), 0.5 * wp * (1.0 - rr), "box"));
  // across the threshold contour / far in the envelope's tail
  let sigma = spdcalc::phasematch::fwhm_to_spectral_width(spdc.pump.vacuum_wavelength(), spdc.pump_bandwidth).value_unsafe;
  let d = ctx.rng.range(0.0, 6.0) * sigma * if ctx.rng.coin() { 1.0 } else { -1.0 };
  pairs.push((spdc.signal.frequency().value_unsafe + d, spdc.idler.frequency().value_unsafe, "tail"));
  for (ws, wi, tag) in pairs {
    ctx.count(&format!("compose/pair/{}", tag));
    let fr = fls(&[ws, wi]);
    ctx.k("cmp_pump_amp", &format!("{} | {}", st, fl(ws + wi)), &fl(pump_spectral_amplitude(w(ws + wi), spdc)));
    let divs = divs_js;
    let s2 = spdc.clone();
    let raw = guard(move || jsa_raw(w(ws), w(wi), &s2, Integrator::Simpson { divs }));
    let alpha = pump_spectral_amplitude(w(ws + wi), spdc);
    let zero = matches!(raw, Some(z) if z.re == 0.0 && z.im == 0.0);
    ctx.count(if zero { "compose/jsa_raw/zero" } else { "compose/jsa_raw/nonzero" });
    let scale = if zero { Some(0.0) } else { simpson_abs_scale(spdc, ws, wi, divs).map(|s| alpha * s) };
    ctx.k(
      "cmp_jsa_raw",
      &format!("{} | {} {}", st, fr, divs),
      &match (raw, scale) {
        (Some(z), Some(sc)) => format!("{} {}", cx(z), fl(sc)),
        _ => "PANIC".into(),
      },
    );
    let s2 = spdc.clone();
    let norms = guard(move || {
      (
        *(jsi_normalization(w(ws), w(wi), &s2) / JsiNorm::new(1.0)),
        *(jsi_singles_normalization(w(ws), w(wi), &s2) / JsiSinglesNorm::new(1.0)),
      )
    });
    if let Some((a, b)) = norms {
      ctx.k("cmp_norm", &format!("{} | {}", st, fr), &fls(&[a, b]));
    }
    if let (Some(js), Some((nrm, _))) = (&js, norms) {
      let j1 = js.clone();
      let r = guard(move || (j1.jsa(w(ws), w(wi)), j1.jsi(w(ws), w(wi)).value_unsafe));
      match (r, scale) {
        (Some((a, i)), Some(sc)) => {
          let sc = if zero { 0.0 } else { sc };
          ctx.k(
            "cmp_jsa",
            &format!("{} | {} {}", st, fr, divs),
            &format!("{} {}", cx(a), fl(if zero { 0.0 } else { nrm.sqrt() * sc })),
          );
          ctx.k(
            "cmp_jsi",
            &format!("{} | {} {}", st, fr, divs),
            &format!("{} {} {}", fl(i), fl(0.0), fl(if zero { 0.0 } else { nrm * (sc * sc) })),
          );
        }
        _ => ctx.count("compose/jsa/panic"),
      }
    }
    if singles && p.matched && tag == "centre" {
      // the singles integrand at a few (z1, z2) through the 2-point rule is not observable directly;
      // the 2-D Simpson integral is (rayon sum: order of additions is not fixed)
      let sdivs = *ctx.rng.pick(&[4usize, 6, 8]);
      let s2 = spdc.clone();
      let r = guard(move || {
        *(phasematch_singles_fiber_coupling(w(ws), w(wi), &s2, Integrator::Simpson { divs: sdivs }) / PerMeter3::new(1.0))
      });
      ctx.k(
        "cmp_pm_singles",
        &format!("{} | {} {}", st, fr, sdivs),
        &r.map(fl).unwrap_or("PANIC".into()),
      );
      // JointSpectrum::jsi_singles (normalisation × envelope² × singles function, Simpson 2-D)
      let s2 = spdc.clone();
      let r = guard(move || {
        s2.joint_spectrum(Integrator::Simpson { divs: sdivs }).jsi_singles(w(ws), w(wi)).value_unsafe
      });
      if let Some(v) = r {
        ctx.k("cmp_jsi_singles", &format!("{} | {} {}", st, fr, sdivs), &fl(v));
      }
    }
  }
}

// ---------------------------------------------------------------------------------- part 2: auto routines

/// Snell inverse, optimum crystal angle, optimum poling period, poling sign — computed by the real
/// crate on the rebuilt setup; the K line carries the primitives only
fn auto_routines(ctx: &mut Ctx, p: &Prim, spdc: &SPDC) {
  let st = p.tokens();
  // Snell inverse for the signal at a random external angle
  let ext = match ctx.rng.below(5) {
    0 => 0.0,
    1 => ctx.rng.range(0.0, 1e-3),
    _ => ctx.rng.range(0.0, 6.0f64.to_radians()),
  };
  let s2 = spdc.clone();
  let r = guard(move || Beam::calc_internal_theta_from_external(&s2.signal, ext * RAD, &s2.crystal_setup).value_unsafe);
  ctx.k("cmpa_snell", &format!("{} | {}", st, fl(ext)), &r.map(fl).unwrap_or("PANIC".into()));
  // poling sign
  let s2 = spdc.clone();
  let r = guard(move || PeriodicPoling::compute_sign(&s2.signal, &s2.pump, &s2.crystal_setup));
  ctx.k(
    "cmpa_sign",
    &st,
    &match r {
      Some(Sign::NEGATIVE) => "NEGATIVE".to_string(),
      Some(Sign::POSITIVE) => "POSITIVE".to_string(),
      None => "PANIC".into(),
    },
  );
  // optimum poling period
  let s2 = spdc.clone();
  let r = guard(move || spdcalc::optimum_poling_period(&s2.signal, &s2.pump, &s2.crystal_setup));
  ctx.count(match &r {
    Some(Ok(_)) => "compose/opt_period/ok",
    Some(Err(_)) => "compose/opt_period/err",
    None => "compose/opt_period/panic",
  });
  ctx.k(
    "cmpa_opt_period",
    &st,
    &match &r {
      Some(Ok(v)) => fl(v.value_unsafe),
      Some(Err(_)) => "ERR".into(),
      None => "PANIC".into(),
    },
  );
  // the same search with the crystal length next to the period found (the upper bound of the search and
  // the "result sits on the bound => Err" rule): L = |period| * (1 + d)
  if let Some(Ok(v)) = &r {
    let per = v.value_unsafe.abs();
    if per.is_finite() && per > 0.0 && ctx.rng.below(2) == 0 {
      let d = *ctx.rng.pick(&[1e-12, 1e-10, 5e-10, 2e-9, 1e-8, 1e-6, 1e-4, 1e-3, 5e-3, 2e-2, 0.1, -1e-10, -1e-6, -1e-3, -0.05]);
      let mut p2 = p.clone();
      p2.l = per * (1.0 + d);
      if let Some(s3) = p2.build() {
        let r2 = guard(move || spdcalc::optimum_poling_period(&s3.signal, &s3.pump, &s3.crystal_setup));
        ctx.count(match &r2 {
          Some(Ok(_)) => "compose/opt_period_at_bound/ok",
          Some(Err(_)) => "compose/opt_period_at_bound/err",
          None => "compose/opt_period_at_bound/panic",
        });
        ctx.k(
          "cmpa_opt_period",
          &p2.tokens(),
          &match r2 {
            Some(Ok(v)) => fl(v.value_unsafe),
            Some(Err(_)) => "ERR".into(),
            None => "PANIC".into(),
          },
        );
      }
    }
  }
  // optimum crystal angle
  let s2 = spdc.clone();
  let r = guard(move || s2.crystal_setup.optimum_theta(&s2.signal, &s2.pump).value_unsafe);
  ctx.k("cmpa_opt_theta", &st, &r.map(fl).unwrap_or("PANIC".into()));
}

fn optimum_tokens(o: &SPDC) -> String {
  format!(
    "OK {} {} {} {} {}",
    fl(o.crystal_setup.theta.value_unsafe),
    beams_str(o),
    match &o.pp {
      PeriodicPoling::Off => "O".to_string(),
      PeriodicPoling::On { period, sign, .. } =>
        format!("P {}", fl(period.value_unsafe * if *sign == Sign::POSITIVE { 1.0 } else { -1.0 })),
    },
    fl(o.signal_waist_position.value_unsafe),
    fl(o.idler_waist_position.value_unsafe)
  )
}

/// `try_as_optimum` of the rebuilt setup, and once more of the optimum rebuilt from ITS primitives
fn as_optimum(ctx: &mut Ctx, p: &Prim, spdc: &SPDC) {
  let s2 = spdc.clone();
  let r = guard(move || s2.try_as_optimum());
  ctx.count(match &r {
    Some(Ok(_)) => "compose/as_optimum/ok",
    Some(Err(_)) => "compose/as_optimum/err",
    None => "compose/as_optimum/panic",
  });
  ctx.k(
    "cmpa_as_optimum",
    &p.tokens(),
    &match &r {
      Some(Ok(o)) => optimum_tokens(o),
      Some(Err(_)) => "ERR".into(),
      None => "PANIC".into(),
    },
  );
  if let Some(Ok(o)) = r {
    // second pass: the optimum as a primitive setup of its own (idler explicit, as read back)
    let p2 = prim_of(&o, false, true);
    if let Some(o1) = p2.build() {
      let r2 = guard(move || o1.try_as_optimum());
      ctx.k(
        "cmpa_as_optimum",
        &p2.tokens(),
        &match &r2 {
          Some(Ok(o2)) => optimum_tokens(o2),
          Some(Err(_)) => "ERR".into(),
          None => "PANIC".into(),
        },
      );
    }
  }
}

/// configuration descriptors (the config family's generators) through `SPDC::from_json`; the K line
/// is the descriptor alone
fn from_config(ctx: &mut Ctx, malformed: bool, spectra: bool) {
  use crate::fam::config::{gen_malformed, gen_valid, outcome_tokens};
  let d = if malformed { gen_malformed(&mut ctx.rng).0 } else { gen_valid(&mut ctx.rng) };
  let js = d.json().to_string();
  let r: Option<Result<SPDC, String>> = match guard(|| serde_json::from_str::<spdcalc::SPDCConfig>(&js).ok()).flatten() {
    None => {
      ctx.count("compose/from_config/serde-rejected");
      return;
    }
    Some(cfg) => guard(move || cfg.try_as_spdc().map_err(|e| e.0)),
  };
  ctx.count(match &r {
    Some(Ok(_)) => "compose/from_config/ok",
    Some(Err(_)) => "compose/from_config/err",
    None => "compose/from_config/panic",
  });
  let auto = |a: &crate::fam::config::AutoV| matches!(a, crate::fam::config::AutoV::Auto | crate::fam::config::AutoV::Absent);
  if auto(&d.c_theta) {
    ctx.count("compose/from_config/auto-theta");
  }
  if let crate::fam::config::PolingD::Cfg { period, .. } = &d.poling {
    ctx.count(if auto(period) { "compose/from_config/auto-period" } else { "compose/from_config/explicit-period" });
  }
  if d.signal.theta_e.is_some() {
    ctx.count("compose/from_config/signal-external-angle");
  }
  ctx.k("cmpa_from_config", &d.tokens(), &outcome_tokens(&r));
  if spectra {
    if let Some(Ok(spdc)) = &r {
      let divs = *ctx.rng.pick(&[50usize, 20, 10]);
      let s2 = spdc.clone();
      if let Some(js) = guard(move || s2.joint_spectrum(Integrator::Simpson { divs })) {
        let mut pairs = vec![(spdc.signal.frequency().value_unsafe, spdc.idler.frequency().value_unsafe)];
        pairs.push(gen_freqs(&mut ctx.rng, spdc));
        for (ws, wi) in pairs {
          let j1 = js.clone();
          if let Some(v) = guard(move || j1.jsi(w(ws), w(wi)).value_unsafe) {
            let sc = simpson_abs_scale(spdc, ws, wi, divs).unwrap_or(0.0);
            let alpha = pump_spectral_amplitude(w(ws + wi), spdc);
            let s3 = spdc.clone();
            let nrm = guard(move || *(jsi_normalization(w(ws), w(wi), &s3) / JsiNorm::new(1.0))).unwrap_or(0.0);
            // value, 0, forward-error scale of the quadrature sum behind it (see notes/compose.md)
            ctx.k(
              "cmpa_jsi_from_config",
              &format!("{} | {} {}", d.tokens(), fls(&[ws, wi]), divs),
              &format!("{} {} {}", fl(v), fl(0.0), fl(if v == 0.0 { 0.0 } else { nrm * (alpha * sc) * (alpha * sc) })),
            );
          }
        }
      }
    }
  }
}

// ---------------------------------------------------------------------------------- part 3: grid level

use spdcalc::{FrequencySpace, IntoSignalIdlerIterator, SumDiffFrequencySpace, WavelengthSpace};

/// a range as the grid-level API accepts it, as PRIMITIVES: kind (0 FrequencySpace, 1 WavelengthSpace,
/// 2 SumDiffFrequencySpace), endpoints and step counts of its own two axes
#[derive(Clone, Copy, Debug)]
pub struct Rg {
  kind: u8,
  x: (f64, f64, usize),
  y: (f64, f64, usize),
}

macro_rules! with_rg {
  ($rg:expr, $r:ident => $body:expr) => {
    match $rg.kind {
      0 => {
        let $r = FrequencySpace::new(($rg.x.0 * RAD / S, $rg.x.1 * RAD / S, $rg.x.2), ($rg.y.0 * RAD / S, $rg.y.1 * RAD / S, $rg.y.2));
        $body
      }
      1 => {
        let $r = WavelengthSpace::new(($rg.x.0 * M, $rg.x.1 * M, $rg.x.2), ($rg.y.0 * M, $rg.y.1 * M, $rg.y.2));
        $body
      }
      _ => {
        let $r = SumDiffFrequencySpace::new(($rg.x.0 * RAD / S, $rg.x.1 * RAD / S, $rg.x.2), ($rg.y.0 * RAD / S, $rg.y.1 * RAD / S, $rg.y.2));
        $body
      }
    }
  };
}

impl Rg {
  fn tokens(&self) -> String {
    format!(
      "{} {} {} {} {} {} {}",
      ["F", "W", "SD"][self.kind as usize],
      fl(self.x.0),
      fl(self.x.1),
      self.x.2,
      fl(self.y.0),
      fl(self.y.1),
      self.y.2
    )
  }
  /// `Into<FrequencySpace>` by the crate
  fn freq(&self) -> FrequencySpace {
    with_rg!(self, r => FrequencySpace::from(r))
  }
  /// the points of `Into<FrequencySpace>` (what counts / HOM / Schmidt enumerate)
  fn freq_points(&self) -> Vec<(f64, f64)> {
    self.freq().as_steps().into_iter().map(|(a, b)| (a.value_unsafe, b.value_unsafe)).collect()
  }
  /// the points of `IntoSignalIdlerIterator` (what the `*_range` methods enumerate)
  fn iter_points(&self) -> Vec<(f64, f64)> {
    with_rg!(self, r => r.into_signal_idler_iterator().map(|(a, b)| (a.value_unsafe, b.value_unsafe)).collect())
  }
}

fn steps_tokens(f: &FrequencySpace) -> String {
  let s = f.as_steps();
  format!(
    "{} {} {} {} {} {}",
    fl(s.0 .0.value_unsafe),
    fl(s.0 .1.value_unsafe),
    s.0 .2,
    fl(s.1 .0.value_unsafe),
    fl(s.1 .1.value_unsafe),
    s.1 .2
  )
}

/// a grid around the centre frequencies; `identical`: the same axis for signal and idler (the
/// HOM statement's domain); `kinds`: which range types may be drawn
fn gen_rg(r: &mut Rng, spdc: &SPDC, nx: usize, ny: usize, identical: bool, kinds: &[u8]) -> Rg {
  let ws0 = spdc.signal.frequency().value_unsafe;
  let wi0 = spdc.idler.frequency().value_unsafe;
  let sigma = spdcalc::phasematch::fwhm_to_spectral_width(spdc.pump.vacuum_wavelength(), spdc.pump_bandwidth).value_unsafe;
  let span = r.log_range(0.3, 6.0) * sigma.abs();
  let span2 = if r.coin() { span } else { r.log_range(0.3, 6.0) * sigma.abs() };
  let f = if identical {
    let c = 0.5 * (ws0 + wi0);
    Rg { kind: 0, x: (c - span, c + span, nx), y: (c - span, c + span, ny) }
  } else {
    // now and then off-centre, so that part of the grid leaves the support
    let off = if r.below(4) == 0 { r.range(-3.0, 3.0) * span } else { 0.0 };
    Rg { kind: 0, x: (ws0 - span + off, ws0 + span + off, nx), y: (wi0 - span2, wi0 + span2, ny) }
  };
  let kind = *r.pick(kinds);
  match kind {
    1 => {
      let wsp = f.freq().as_wavelength_space();
      let s = wsp.as_steps();
      Rg { kind: 1, x: (s.0 .0.value_unsafe, s.0 .1.value_unsafe, s.0 .2), y: (s.1 .0.value_unsafe, s.1 .1.value_unsafe, s.1 .2) }
    }
    2 => {
      let sd = f.freq().as_sum_diff_space();
      let s = sd.as_steps();
      Rg { kind: 2, x: (s.0 .0.value_unsafe, s.0 .1.value_unsafe, s.0 .2), y: (s.1 .0.value_unsafe, s.1 .1.value_unsafe, s.1 .2) }
    }
    _ => f,
  }
}

/// mirror of the driver's `scaleAt`: forward-error scale of `JointSpectrum::jsa` at one pair,
/// `sqrt(norm) * envelope * (1/2) sum |f| w dx/3`; 0 off the support
fn scale_at(spdc: &SPDC, ws: f64, wi: f64, divs: usize) -> f64 {
  let wp = spdc.pump.frequency().value_unsafe;
  let alpha = pump_spectral_amplitude(w(ws + wi), spdc);
  let off = ws <= 0.0 || wi <= 0.0 || ws > wp || wi > wp || (ws - wi).abs() > 0.75 * wp || alpha < spdc.pump_spectrum_threshold;
  if off {
    return 0.0;
  }
  let s3 = spdc.clone();
  let nrm = guard(move || *(jsi_normalization(w(ws), w(wi), &s3) / JsiNorm::new(1.0)));
  match (simpson_abs_scale(spdc, ws, wi, divs), nrm) {
    (Some(sc), Some(n)) => n.sqrt() * (alpha * sc),
    _ => f64::NAN,
  }
}

fn scales_on(spdc: &SPDC, pts: &[(f64, f64)], divs: usize) -> Vec<f64> {
  pts.iter().map(|&(a, b)| scale_at(spdc, a, b, divs)).collect()
}

fn sum_sq(scales: &[f64]) -> f64 {
  let mut a = 0.0;
  for s in scales {
    a += s * s;
  }
  a
}
fn norm_sq(f: &[Complex<f64>]) -> f64 {
  let mut b = 0.0;
  for z in f {
    b += z.re * z.re + z.im * z.im;
  }
  b
}
fn amplification(scales: &[f64], f: &[Complex<f64>]) -> f64 {
  sum_sq(scales) / norm_sq(f)
}

fn triples_c(zs: &[Complex<f64>], scs: &[f64]) -> String {
  zs.iter().zip(scs).map(|(z, s)| format!("{} {}", cx(*z), fl(*s))).collect::<Vec<_>>().join(" ")
}
fn triples_r(vs: &[f64], scs: &[f64]) -> String {
  vs.iter().zip(scs).map(|(v, s)| format!("{} {} {}", fl(*v), fl(0.0), fl(*s))).collect::<Vec<_>>().join(" ")
}

/// grid sizes: mostly small squares, some rectangles, 1 x n, now and then an empty axis
fn gen_shape(r: &mut Rng, max: usize) -> (usize, usize) {
  match r.below(10) {
    0 => (1, r.between(1, max)),
    1 => (r.between(1, max), 1),
    2 | 3 => (r.between(2, max), r.between(2, max)),
    4 if r.below(4) == 0 => (0, r.between(0, 3)),
    _ => {
      let n = r.between(2, max);
      (n, n)
    }
  }
}

fn gen_divs(r: &mut Rng) -> usize {
  // the 1-D rule needs divs >= 5 (5 -> 4 slices), the 2-D rule divs >= 3; 4 is the panic path of `JointSpectrum::new`
  *r.pick(&[6usize, 8, 10, 12, 20, 6, 7, 10, 5, 4])
}

fn integ(divs: usize) -> Integrator {
  Integrator::Simpson { divs }
}

/// an explicit-idler copy of the primitives (the idler-singles route exchanges the OBJECT's beams)
fn explicit(p: &Prim, spdc: &SPDC) -> Option<(Prim, SPDC)> {
  if !p.auto {
    return Some((p.clone(), spdc.clone()));
  }
  let p2 = prim_of(spdc, false, p.matched);
  let s2 = p2.build()?;
  Some((p2, s2))
}

fn c14_grid(ctx: &mut Ctx, p: &Prim, spdc: &SPDC) {
  let (nx, ny) = gen_shape(&mut ctx.rng, if ctx.thorough { 10 } else { 7 });
  let rg = gen_rg(&mut ctx.rng, spdc, nx, ny, false, &[0, 1, 2]);
  ctx.count(&format!("compose/grid/kind/{}", ["F", "W", "SD"][rg.kind as usize]));
  ctx.count(&format!("compose/grid/points/{}", if nx * ny == 0 { "0".to_string() } else if nx * ny < 10 { "1-9".to_string() } else { "10+".to_string() }));
  // the range adapters (no setup)
  let pts = rg.iter_points();
  ctx.k("cmpg_points", &rg.tokens(), &pts.iter().map(|(a, b)| format!("{} {}", fl(*a), fl(*b))).collect::<Vec<_>>().join(" "));
  ctx.k("cmpg_freq_space", &rg.tokens(), &steps_tokens(&rg.freq()));
  let divs = gen_divs(&mut ctx.rng);
  let st = format!("{} | {} {}", p.tokens(), rg.tokens(), divs);
  let s2 = spdc.clone();
  let js = guard(move || s2.joint_spectrum(integ(divs)));
  ctx.count(if js.is_some() { "compose/grid/joint-spectrum/ok" } else { "compose/grid/joint-spectrum/panic" });
  let scs = scales_on(spdc, &pts, divs);
  let j1 = js.clone();
  let r = j1.and_then(|j| guard(move || with_rg!(rg, r => j.jsa_range(r))));
  ctx.k("cmpg_jsa_range", &st, &r.map(|v| triples_c(&v, &scs)).unwrap_or("PANIC".into()));
  let j1 = js.clone();
  let r = j1.and_then(|j| guard(move || with_rg!(rg, r => j.jsi_range(r)).into_iter().map(|x| x.value_unsafe).collect::<Vec<_>>()));
  let sq: Vec<f64> = scs.iter().map(|s| s * s).collect();
  ctx.k("cmpg_jsi_range", &st, &r.map(|v| triples_r(&v, &sq)).unwrap_or("PANIC".into()));
  // singles on a smaller grid (2-D quadrature per point)
  if nx * ny <= 16 && divs <= 12 {
    let j1 = js.clone();
    let r = j1.and_then(|j| guard(move || with_rg!(rg, r => j.jsi_singles_range(r)).into_iter().map(|x| x.value_unsafe).collect::<Vec<_>>()));
    ctx.k("cmpg_jsi_singles_range", &st, &r.map(|v| fls(&v)).unwrap_or("PANIC".into()));
    if !p.auto {
      let j1 = js.clone();
      let r = j1.and_then(|j| guard(move || with_rg!(rg, r => j.jsi_singles_idler_range(r)).into_iter().map(|x| x.value_unsafe).collect::<Vec<_>>()));
      ctx.k("cmpg_jsi_singles_idler_range", &st, &r.map(|v| fls(&v)).unwrap_or("PANIC".into()));
    }
  }
}

fn c08_grid(ctx: &mut Ctx, p0: &Prim, spdc0: &SPDC) {
  let (p, spdc) = match explicit(p0, spdc0) {
    Some(x) => x,
    None => {
      ctx.count("compose/grid/explicit-rebuild-failed");
      return;
    }
  };
  let p = &p;
  let spdc = &spdc;
  let stp = p.tokens();
  // group indices (no poling: counts correction; with the setup's poling: transit times)
  let s2 = spdc.clone();
  let gi = guard(move || {
    let c = &s2.crystal_setup;
    vec![
      *s2.signal.group_index(c, PeriodicPoling::Off),
      *s2.idler.group_index(c, PeriodicPoling::Off),
      *s2.signal.group_index(c, &s2.pp),
      *s2.idler.group_index(c, &s2.pp),
    ]
  });
  ctx.k("cmpg_group_index", &stp, &gi.map(|v| fls(&v)).unwrap_or("PANIC".into()));
  let s2 = spdc.clone();
  let corr = guard(move || spdcalc::get_counts_correction(&s2));
  ctx.k("cmpg_counts_corr", &stp, &corr.map(fl).unwrap_or("PANIC".into()));
  let (nx, ny) = gen_shape(&mut ctx.rng, if ctx.thorough { 7 } else { 5 });
  let rg = gen_rg(&mut ctx.rng, spdc, nx, ny, false, &[0, 0, 1, 2]);
  let divs = *ctx.rng.pick(&[6usize, 8, 10, 6, 5, 12, 4]);
  let st = format!("{} | {} {}", stp, rg.tokens(), divs);
  ctx.count(&format!("compose/grid/kind/{}", ["F", "W", "SD"][rg.kind as usize]));
  // coincidences
  let s2 = spdc.clone();
  let c = guard(move || with_rg!(rg, r => s2.counts_coincidences(r, integ(divs))).value_unsafe);
  let out = match (c, corr) {
    (Some(v), Some(k)) => {
      let fpts = rg.freq_points();
      let (dx, dy) = rg.freq().as_steps().division_widths();
      let dw2 = (dx.value_unsafe * dy.value_unsafe).abs();
      let mut sc = 0.0;
      for s in scales_on(spdc, &fpts, divs) {
        sc += s * s * dw2;
      }
      format!("{} {} {}", fl(v), fl(0.0), fl(k.abs() * sc))
    }
    _ => "PANIC".into(),
  };
  ctx.count(if c.is_some() { "compose/grid/counts/ok" } else { "compose/grid/counts/panic" });
  ctx.k("cmpg_counts_coinc", &st, &out);
  // singles (2-D quadrature per point: small grids only)
  if nx * ny <= 16 {
    let s2 = spdc.clone();
    let r = guard(move || {
      vec![
        with_rg!(rg, r => s2.counts_singles_signal(r, integ(divs))).value_unsafe,
        with_rg!(rg, r => s2.counts_singles_idler(r, integ(divs))).value_unsafe,
      ]
    });
    ctx.k("cmpg_counts_singles", &st, &r.map(|v| fls(&v)).unwrap_or("PANIC".into()));
    let s2 = spdc.clone();
    let r = guard(move || {
      let e = with_rg!(rg, r => s2.efficiencies(r, integ(divs)));
      vec![e.symmetric, e.signal, e.idler, e.coincidences.value_unsafe, e.signal_singles.value_unsafe, e.idler_singles.value_unsafe]
    });
    ctx.k("cmpg_efficiencies", &st, &r.map(|v| fls(&v)).unwrap_or("PANIC".into()));
  }
}

fn gen_delays(r: &mut Rng, t0: f64) -> Vec<f64> {
  let t0 = if t0.is_finite() { t0 } else { 0.0 };
  let mut v = vec![0.0, t0];
  for _ in 0..r.between(1, 2) {
    v.push(t0 + r.normal() * 10f64.powf(r.range(-14.0, -11.0)));
  }
  v
}

fn c09_grid(ctx: &mut Ctx, p: &Prim, spdc: &SPDC) {
  let stp = p.tokens();
  let s2 = spdc.clone();
  let td = guard(move || spdcalc::hom_time_delay(&s2).value_unsafe);
  ctx.k("cmpg_time_delay", &stp, &td.map(fl).unwrap_or("PANIC".into()));
  let identical = ctx.rng.below(3) != 0;
  let (nx, ny) = if identical {
    let n = ctx.rng.between(1, if ctx.thorough { 10 } else { 7 });
    (n, n)
  } else {
    gen_shape(&mut ctx.rng, if ctx.thorough { 9 } else { 6 })
  };
  let rg = gen_rg(&mut ctx.rng, spdc, nx, ny, identical, if identical { &[0] } else { &[0, 1, 2] });
  let divs = gen_divs(&mut ctx.rng);
  ctx.count(if identical { "compose/grid/hom/identical-axes" } else { "compose/grid/hom/general" });
  let fpts = rg.freq_points();
  let scs = scales_on(spdc, &fpts, divs);
  let s2 = spdc.clone();
  let arr = guard(move || s2.joint_spectrum(integ(divs)).jsa_range(rg.freq()));
  let sw: Vec<(f64, f64)> = fpts.iter().map(|&(a, b)| (b, a)).collect();
  let scs_sw = scales_on(spdc, &sw, divs);
  let amp = arr.as_ref().map(|a| (sum_sq(&scs) + sum_sq(&scs_sw)) / norm_sq(a));
  let delays = gen_delays(&mut ctx.rng, td.unwrap_or(0.0));
  let s2 = spdc.clone();
  let d2 = delays.clone();
  let r = guard(move || with_rg!(rg, r => s2.hom_rate_series(d2.into_iter().map(|t| t * S), r, integ(divs))));
  ctx.k(
    "cmpg_hom_series",
    &format!("{} | {} {} | {}", stp, rg.tokens(), divs, fls(&delays)),
    &match (r, amp) {
      (Some(v), Some(a)) => triples_r(&v, &v.iter().map(|r| a * (1.0 + (1.0 - 2.0 * r).abs())).collect::<Vec<_>>()),
      _ => "PANIC".into(),
    },
  );
  let s2 = spdc.clone();
  let r = guard(move || with_rg!(rg, r => s2.hom_visibility(r, integ(divs))));
  ctx.k(
    "cmpg_hom_vis",
    &format!("{} | {} {}", stp, rg.tokens(), divs),
    &match (r, amp) {
      (Some((_, v)), Some(a)) => format!("{} {} {}", fl(v), fl(0.0), fl(2.0 * a * (1.0 + v.abs()))),
      _ => "PANIC".into(),
    },
  );
}

fn c10_grid(ctx: &mut Ctx, p: &Prim, spdc: &SPDC) {
  let stp = p.tokens();
  let identical = ctx.rng.coin();
  let (nx, ny) = match ctx.rng.below(8) {
    0 => (ctx.rng.between(1, 4), ctx.rng.between(1, 4)), // mostly the assert_eq! path
    _ => {
      let n = ctx.rng.between(1, if ctx.thorough { 5 } else { 4 });
      (n, n)
    }
  };
  let rg = gen_rg(&mut ctx.rng, spdc, nx, ny, identical, if identical { &[0] } else { &[0, 1, 2] });
  let divs = *ctx.rng.pick(&[6usize, 8, 10, 6, 5]);
  let fpts = rg.freq_points();
  let scs = scales_on(spdc, &fpts, divs);
  let s2 = spdc.clone();
  let arr = guard(move || s2.joint_spectrum(integ(divs)).jsa_range(rg.freq()));
  let amp = arr.as_ref().map(|a| {
    let f = rg.freq().as_steps();
    let grid = |x: (spdcalc::Frequency, spdcalc::Frequency, usize), y: (spdcalc::Frequency, spdcalc::Frequency, usize)| -> Vec<(f64, f64)> {
      FrequencySpace::new(x, y).as_steps().into_iter().map(|(a, b)| (a.value_unsafe, b.value_unsafe)).collect()
    };
    let b = (sum_sq(&scs) + sum_sq(&scales_on(spdc, &grid(f.1, f.1), divs)) + sum_sq(&scales_on(spdc, &grid(f.0, f.0), divs))) / norm_sq(a);
    b * b
  });
  let delays = gen_delays(&mut ctx.rng, 0.0);
  let s2 = spdc.clone();
  let d2 = delays.clone();
  let r = guard(move || with_rg!(rg, r => s2.hom_two_source_rate_series(d2.into_iter().map(|t| t * S), r, integ(divs))));
  ctx.count(if r.is_some() { "compose/grid/hom2/ok" } else { "compose/grid/hom2/panic" });
  ctx.k(
    "cmpg_hom2_series",
    &format!("{} | {} {} | {}", stp, rg.tokens(), divs, fls(&delays)),
    &match (r, amp) {
      (Some(h), Some(a)) => {
        let all: Vec<f64> = h.ss.iter().chain(h.ii.iter()).chain(h.si.iter()).cloned().collect();
        triples_r(&all, &all.iter().map(|v| a + v.abs()).collect::<Vec<_>>())
      }
      _ => "PANIC".into(),
    },
  );
  let s2 = spdc.clone();
  let r = guard(move || with_rg!(rg, r => s2.hom_two_source_visibilities(r, integ(divs))));
  ctx.k(
    "cmpg_hom2_vis",
    &format!("{} | {} {}", stp, rg.tokens(), divs),
    &match (r, amp) {
      (Some(h), Some(a)) => triples_r(&[h.ss.1, h.ii.1, h.si.1], &[2.0 * (a + h.ss.1.abs()), 2.0 * (a + h.ii.1.abs()), 2.0 * (a + h.si.1.abs())]),
      _ => "PANIC".into(),
    },
  );
}

fn c11_grid(ctx: &mut Ctx, p: &Prim, spdc: &SPDC) {
  let stp = p.tokens();
  // squares, rectangles of square length, rectangles of non-square length (Err), the empty grid (panic)
  let (nx, ny) = match ctx.rng.below(10) {
    0 => *ctx.rng.pick(&[(1usize, 4usize), (4, 1), (2, 8), (8, 2), (1, 9), (4, 9)]),
    1 => *ctx.rng.pick(&[(2usize, 3usize), (3, 2), (1, 2), (5, 1), (3, 4)]),
    2 if ctx.rng.below(3) == 0 => (0, ctx.rng.between(0, 2)),
    _ => {
      let n = ctx.rng.between(1, if ctx.thorough { 12 } else { 8 });
      (n, n)
    }
  };
  let identical = ctx.rng.below(4) == 0;
  let rg = gen_rg(&mut ctx.rng, spdc, nx, ny, identical, &[0, 0, 1, 2]);
  let divs = gen_divs(&mut ctx.rng);
  let fpts = rg.freq_points();
  let scs = scales_on(spdc, &fpts, divs);
  let s2 = spdc.clone();
  let arr = guard(move || s2.joint_spectrum(integ(divs)).jsa_range(rg.freq()));
  let amp = arr.as_ref().map(|a| amplification(&scs, a));
  let s2 = spdc.clone();
  let r = guard(move || with_rg!(rg, r => s2.joint_spectrum(integ(divs)).schmidt_number(r)));
  ctx.count(match &r {
    Some(Ok(_)) => "compose/grid/schmidt/ok",
    Some(Err(_)) => "compose/grid/schmidt/err",
    None => "compose/grid/schmidt/panic",
  });
  ctx.k(
    "cmpg_schmidt",
    &format!("{} | {} {}", stp, rg.tokens(), divs),
    &match (r, amp) {
      (Some(Ok(k)), Some(a)) => format!("{} {} {}", fl(k), fl(0.0), fl(k * a)),
      (Some(Err(e)), _) => format!("ERR:{}", if e.0.contains("not square") { "not-square" } else { "svd" }),
      _ => "PANIC".into(),
    },
  );
}

fn c20_grid(ctx: &mut Ctx, p0: &Prim, spdc0: &SPDC) {
  // half of the time the setup is the optimum itself and the grid starts AT its centre
  let at_opt = ctx.rng.coin();
  let (p, spdc) = if at_opt {
    let s2 = spdc0.clone();
    match guard(move || s2.try_as_optimum()).and_then(|r| r.ok()) {
      Some(o) => {
        let p2 = prim_of(&o, false, true);
        match p2.build() {
          Some(s) => (p2, s),
          None => (p0.clone(), spdc0.clone()),
        }
      }
      None => (p0.clone(), spdc0.clone()),
    }
  } else {
    (p0.clone(), spdc0.clone())
  };
  let (p, spdc) = (&p, &spdc);
  let stp = p.tokens();
  let (nx, ny) = gen_shape(&mut ctx.rng, if ctx.thorough { 6 } else { 4 });
  let mut rg = gen_rg(&mut ctx.rng, spdc, nx, ny, false, &[0, 0, 1, 2]);
  if at_opt && ctx.rng.coin() {
    // FrequencySpace whose first point is the centre
    let ws0 = spdc.signal.frequency().value_unsafe;
    let wi0 = spdc.idler.frequency().value_unsafe;
    let f = rg.freq_points();
    let (bx, by) = f.last().cloned().unwrap_or((ws0, wi0));
    rg = Rg { kind: 0, x: (ws0, bx, nx.max(1)), y: (wi0, by, ny.max(1)) };
    ctx.count("compose/grid/normalized/starts-at-optimum-centre");
  }
  let divs = *ctx.rng.pick(&[6usize, 8, 10, 12, 20, 5, 4]);
  let st = format!("{} | {} {}", stp, rg.tokens(), divs);
  let pts = rg.iter_points();
  let scs = scales_on(spdc, &pts, divs);
  let s2 = spdc.clone();
  let js = guard(move || s2.joint_spectrum(integ(divs)));
  // the centre's own scale (optimum setup at its centre frequencies) and the centre value itself
  let s2 = spdc.clone();
  let copt = guard(move || s2.try_as_optimum()).and_then(|r| r.ok());
  let (c, sc) = match &copt {
    Some(o) => {
      let ws = o.signal.frequency().value_unsafe;
      let wi = o.idler.frequency().value_unsafe;
      let o2 = o.clone();
      let c = guard(move || {
        let n = *(jsi_normalization(w(ws), w(wi), &o2) / JsiNorm::new(1.0));
        n.sqrt() * jsa_raw(w(ws), w(wi), &o2, integ(divs)).norm()
      })
      .unwrap_or(f64::NAN);
      (c, scale_at(o, ws, wi, divs))
    }
    None => (f64::NAN, f64::NAN),
  };
  let j1 = js.clone();
  let r = j1.and_then(|j| guard(move || with_rg!(rg, r => j.jsa_normalized_range(r))));
  ctx.k(
    "cmpg_jsa_normalized_range",
    &st,
    &r.map(|v| {
      let s: Vec<f64> = v.iter().zip(&scs).map(|(z, s)| s / c + (z.re.abs() + z.im.abs()) * sc / c).collect();
      triples_c(&v, &s)
    })
    .unwrap_or("PANIC".into()),
  );
  let j1 = js.clone();
  let r = j1.and_then(|j| guard(move || with_rg!(rg, r => j.jsi_normalized_range(r))));
  ctx.k(
    "cmpg_jsi_normalized_range",
    &st,
    &r.map(|v| {
      let s: Vec<f64> = v.iter().zip(&scs).map(|(x, s)| s * s / (c * c) + 2.0 * x * sc / c).collect();
      triples_r(&v, &s)
    })
    .unwrap_or("PANIC".into()),
  );
  if nx * ny <= 9 && divs <= 12 {
    let j1 = js.clone();
    let r = j1.and_then(|j| guard(move || with_rg!(rg, r => j.jsi_singles_normalized_range(r))));
    ctx.k("cmpg_jsi_singles_normalized_range", &st, &r.map(|v| fls(&v)).unwrap_or("PANIC".into()));
  }
}

pub fn run(ctx: &mut Ctx) {
  let mode = ctx.extra.first().cloned().unwrap_or_else(|| "all".to_string());
  if mode == "c16" || mode == "c17" {
    for _ in 0..ctx.n {
      from_config(ctx, mode == "c17", mode == "c16");
    }
    return;
  }
  let mut made = 0;
  let mut tries = 0;
  while made < ctx.n && tries < 30 * ctx.n + 100 {
    tries += 1;
    let p = match gen_prim(&mut ctx.rng) {
      Some(p) => p,
      None => {
        ctx.count("compose/setup-rejected");
        continue;
      }
    };
    // the SPDC every real computation runs on is REBUILT from the primitives
    let spdc = match p.build() {
      Some(s) => s,
      None => {
        ctx.count("compose/build-failed");
        continue;
      }
    };
    made += 1;
    count_setup(ctx, &p);
    match mode.as_str() {
      "c03" => geometry(ctx, &p, &spdc),
      "c06" => integrand(ctx, &p, &spdc),
      "c07" => spectrum(ctx, &p, &spdc, true),
      "c04" => auto_routines(ctx, &p, &spdc),
      "c20" => as_optimum(ctx, &p, &spdc),
      "c14g" => c14_grid(ctx, &p, &spdc),
      "c08" => c08_grid(ctx, &p, &spdc),
      "c09" => c09_grid(ctx, &p, &spdc),
      "c10" => c10_grid(ctx, &p, &spdc),
      "c11" => c11_grid(ctx, &p, &spdc),
      "c20n" => c20_grid(ctx, &p, &spdc),
      _ => {
        geometry(ctx, &p, &spdc);
        integrand(ctx, &p, &spdc);
        spectrum(ctx, &p, &spdc, true);
      }
    }
  }
}
