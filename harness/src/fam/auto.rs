//! C04 — auto poling period (`optimum_poling_period`, `compute_sign`) and auto crystal angle (`optimum_theta`)
use super::dk::*;
use super::nm::run_logged;
use crate::common::*;
use spdcalc::dim::ucum::{K, M, RAD, S};
use spdcalc::prelude::*;
use spdcalc::{delta_k, optimum_poling_period, CrystalSetup, PeriodicPoling, Sign, SPDC};

/// z component of Δk with the matching optimum idler (as the crate's own closures compute it)
pub fn dkz(signal: &SignalBeam, pump: &PumpBeam, cs: &CrystalSetup, pp: &PeriodicPoling) -> f64 {
  let idler = IdlerBeam::try_new_optimum(signal, pump, cs, pp).unwrap();
  raw_vec(delta_k(signal.frequency(), idler.frequency(), signal, &idler, pump, cs, pp)).z
}

/// the same quantity recomputed from first principles for the predicates: the matching optimum idler's angles, then every
/// wave vector as n ω / c along its direction with n from `index_along` and the polarization of the harness's own PM
/// table, minus 2π/Λ with the poling's sign (so that state kept inside `delta_k` cannot hide from the predicate)
pub fn dkz_indep(signal: &SignalBeam, pump: &PumpBeam, cs: &CrystalSetup, pp: &PeriodicPoling) -> f64 {
  let idler = IdlerBeam::try_new_optimum(signal, pump, cs, pp).unwrap();
  let kp = indep_k(cs, 0., 0., pump.polarization(), w_of(pump));
  let ks = indep_k(cs, th_of(signal), ph_of(signal), signal.polarization(), w_of(signal));
  let ki = indep_k(cs, th_of(&idler), ph_of(&idler), idler.polarization(), w_of(&idler));
  let kl = match pp {
    PeriodicPoling::Off => 0.0,
    PeriodicPoling::On { period, sign, .. } => TAU / (*(*period / M) * if *sign == Sign::NEGATIVE { -1.0 } else { 1.0 }),
  };
  kp.z - ks.z - ki.z - kl
}

/// conditioning of `index_along` for the three beams: the smallest relative separation |n_o − n_e|/n of the two index
/// sheets along a beam's direction.  Next to an optic axis the sheets touch, the Fresnel quadratic has a near-double
/// root and the computed index carries a relative rounding error of about ε/gap.
pub fn sheet_gap(signal: &SignalBeam, pump: &PumpBeam, cs: &CrystalSetup, pp: &PeriodicPoling) -> f64 {
  let idler = IdlerBeam::try_new_optimum(signal, pump, cs, pp).unwrap();
  let mut g = f64::INFINITY;
  for b in [&**signal, &**pump, &*idler] {
    let no = *cs.index_along(b.vacuum_wavelength(), b.direction(), PolarizationType::Ordinary);
    let ne = *cs.index_along(b.vacuum_wavelength(), b.direction(), PolarizationType::Extraordinary);
    g = g.min((no - ne).abs() / no);
  }
  g
}

// ---- history independence (C04): a sample of optimiser calls is repeated at the end of the run in another order
struct AutoCall {
  cs: CrystalSetup,
  signal: SignalBeam,
  pump: PumpBeam,
  period: Option<Option<u64>>, // bits of Ok(period) / None for Err
  theta: Option<u64>,
}
thread_local! {
  static AUTO_CALLS: std::cell::RefCell<(usize, Vec<AutoCall>)> = const { std::cell::RefCell::new((0, Vec::new())) };
}
fn record_auto(stride: usize, cs: &CrystalSetup, signal: &SignalBeam, pump: &PumpBeam, period: Option<Option<u64>>, theta: Option<u64>) {
  AUTO_CALLS.with(|c| {
    let mut c = c.borrow_mut();
    c.0 += 1;
    if c.0 % stride == 0 && c.1.len() < 400 {
      c.1.push(AutoCall { cs: cs.clone(), signal: signal.clone(), pump: pump.clone(), period, theta });
    }
  });
}
fn replay_auto(ctx: &mut Ctx) {
  let calls = AUTO_CALLS.with(|c| std::mem::take(&mut c.borrow_mut().1));
  let n = calls.len();
  let mut order: Vec<usize> = (0..n).collect();
  for i in (1..n).rev() {
    let j = ctx.rng.below(i + 1);
    order.swap(i, j);
  }
  for k in order {
    let c = &calls[k];
    let what = setup_detail(&c.cs, l_of(&c.pump), l_of(&c.signal), th_of(&c.signal), ph_of(&c.signal));
    if let Some(first) = c.period {
      let again = guard(|| optimum_poling_period(&c.signal, &c.pump, &c.cs).ok().map(|p| (*(p / M)).to_bits()));
      let same = again == Some(first);
      ctx.s("C04.period", same, if same { "history/period-reproducible" } else { "history/period-depends-on-earlier-calls" }, &format!("{} first={:?} again={:?}", what, first.map(f64::from_bits), again.map(|a| a.map(f64::from_bits))));
    }
    if let Some(first) = c.theta {
      let again = guard(|| (*(c.cs.optimum_theta(&c.signal, &c.pump) / RAD)).to_bits());
      let same = again == Some(first);
      ctx.s("C04.theta", same, if same { "history/theta-reproducible" } else { "history/theta-depends-on-earlier-calls" }, &format!("{} first={:e} again={:?}", what, f64::from_bits(first), again.map(f64::from_bits)));
    }
  }
  ctx.count(&format!("history/replayed={}", n));
}

fn table(log: &[(f64, f64)]) -> String {
  log.iter().map(|(x, y)| format!("{} {}", fl(*x), fl(*y))).collect::<Vec<_>>().join(" ")
}

fn setup_detail(cs: &CrystalSetup, lp: f64, ls: f64, ths: f64, phs: f64) -> String {
  format!(
    "crystal={} pm={} ctheta={:e} cphi={:e} T={:e} L={:e} lp={:e} ls={:e} theta_s={:e} phi_s={:e}",
    cs.crystal,
    cs.pm_type,
    *(cs.theta / RAD),
    *(cs.phi / RAD),
    *(cs.temperature / K),
    *(cs.length / M),
    lp,
    ls,
    ths,
    phs
  )
}

fn period_case(ctx: &mut Ctx, cs: &CrystalSetup, lp: f64, ls: f64, ths: f64, phs: f64) {
  let (signal, pump) = mk_beams(cs.pm_type, lp, ls, ths, phs, 100e-6);
  let what = setup_detail(cs, lp, ls, ths, phs);
  let len = *(cs.length / M);
  let z = dkz(&signal, &pump, cs, &PeriodicPoling::Off);
  let collinear = th_of(&signal) == 0.0;
  let r = guard(|| optimum_poling_period(&signal, &pump, cs));
  if let Some(rr) = &r {
    record_auto(25, cs, &signal, &pump, Some(rr.as_ref().ok().map(|p| (*(*p / M)).to_bits())), None);
  }
  let out = match &r {
    None => "PANIC".to_string(),
    Some(Err(_)) => "ERR".to_string(),
    Some(Ok(p)) => {
      let v = *(*p / M);
      if v.is_infinite() {
        "OKINF".to_string()
      } else {
        format!("OK {}", fl(v))
      }
    }
  };
  ctx.count(&format!("period/crystal/{}", cs.crystal));
  ctx.count(&format!("period/type/{}", cs.pm_type));
  ctx.count(if collinear { "period/signal/collinear" } else { "period/signal/non-collinear" });

  // ---- K: sign, control flow with the closed-form cost (collinear), control flow with the recorded cost
  let sg = guard(|| PeriodicPoling::compute_sign(&signal, &pump, cs));
  ctx.k(
    "compute_sign",
    &fl(z),
    match sg {
      Some(Sign::POSITIVE) => "POSITIVE",
      Some(Sign::NEGATIVE) => "NEGATIVE",
      None => "PANIC",
    },
  );
  if collinear {
    ctx.k("opt_period_col", &format!("{} {}", fl(z), fl(len)), &out);
  }
  if z != 0.0 {
    // the closure `pm` of optimum_poling_period, rebuilt from the public API, run through the real optimiser with
    // the crate's parameters only to record the (period, cost) pairs the model then looks up
    let sign: Sign = z.into();
    let pm = |period: f64| {
      let pp = PeriodicPoling::On { period: period * M, sign, apodization: Apodization::Off };
      dkz(&signal, &pump, cs, &pp).abs()
    };
    let g = (TAU / z).abs();
    let (_, _, _, log) = run_logged(&pm, (g, g + 1e-6), 1000, f64::MIN_POSITIVE, len, 1e-12);
    if log.len() <= 3200 {
      ctx.k("opt_period_tab", &format!("{} {} {}", fl(z), fl(len), table(&log)), &out);
      ctx.count("period/table/used");
    } else {
      ctx.count("period/table/too-long");
    }
  }

  // ---- S: the statement
  let out = match r {
    None => PeriodOut::Panic,
    Some(Err(_)) => PeriodOut::Err,
    Some(Ok(p)) if (*(p / M)).is_infinite() => PeriodOut::Infinite,
    Some(Ok(p)) => PeriodOut::Ok(PeriodicPoling::new(p, Apodization::Off)),
  };
  judge_period(ctx, "", cs, &signal, &pump, &out, &what);
}

/// what a route that "returns the optimum poling period" produced
pub enum PeriodOut {
  Panic,
  Err,
  Infinite,
  Ok(PeriodicPoling),
}

/// the statement's clauses on the poling a route returned for `(signal, pump, cs)`; `route` = "" for the free function
/// `optimum_poling_period` (signatures `period/<clause>`), otherwise signatures `period@<route>/<clause>`
fn judge_period(ctx: &mut Ctx, route: &str, cs: &CrystalSetup, signal: &SignalBeam, pump: &PumpBeam, out: &PeriodOut, what: &str) {
  let pre = if route.is_empty() { "period".to_string() } else { format!("period@{}", route) };
  let len = *(cs.length / M);
  let (lp, ls) = (l_of(pump), l_of(signal));
  let z = dkz_indep(signal, pump, cs, &PeriodicPoling::Off);
  let collinear = th_of(signal) == 0.0;
  match out {
    // a panic is neither a returned period nor decidably "no period can phase-match": outside the statement's
    // clauses (tied by K on the direct route: the model panics on the same NaN cost); counted, see notes/C04.md
    PeriodOut::Panic => ctx.count(&format!("{}/outcome/panic", pre)),
    PeriodOut::Infinite => {
      ctx.count(&format!("{}/outcome/infinite", pre));
      ctx.s("C04.period", z == 0.0, &format!("{}/infinite", pre), what);
      return;
    }
    PeriodOut::Ok(pp) => {
      let v = *(pp.signed_period() / M);
      ctx.count(&format!("{}/outcome/ok", pre));
      let d = dkz_indep(signal, pump, cs, pp);
      let phase = d.abs() * len / 2.0;
      // a period returned AT the upper bound L is the bound, not an optimum: own signature
      let clamped = v.abs() >= len * (1.0 - 1e-12);
      ctx.s(
        "C04.period",
        phase < 1e-3,
        &(if phase < 1e-3 {
          format!("{}/phasematch", pre)
        } else if (v < 0.0) != (z < 0.0) {
          format!("{}/phasematch/wrong-sign", pre)
        } else if clamped {
          format!("{}/phasematch/clamped-at-length", pre)
        } else if d.abs() <= 1e-5 * z.abs() {
          // the search did reduce the mismatch by five orders of magnitude: what is left is the floor of the
          // computed Δkz itself (rounding of the indices), not a failure to find the minimum
          format!("{}/phasematch/at-noise-floor", pre)
        } else {
          format!("{}/phasematch/not-converged", pre)
        }),
        &format!(
          "{} period={:e} dkz={:e} half_phase={:e} z_unpoled={:e} over_um={:.4} guess_um={:.4} theta_i_unpoled={:.4} lp_nm={:.3} ls_nm={:.3} li_nm={:.3} sheet_gap={:e} theta_i_poled={:.4} theta_i_max={:.4}",
          what,
          v,
          d,
          phase,
          z,
          (TAU / z.abs() - len) * 1e6,
          TAU / z.abs() * 1e6,
          th_of(&IdlerBeam::try_new_optimum(signal, pump, cs, &PeriodicPoling::Off).unwrap()),
          lp * 1e9,
          ls * 1e9,
          ls * lp / (ls - lp) * 1e9,
          sheet_gap(signal, pump, cs, pp),
          th_of(&IdlerBeam::try_new_optimum(signal, pump, cs, pp).unwrap()),
          th_of(&IdlerBeam::try_new_optimum(signal, pump, cs, pp).unwrap())
            .abs()
            .max(th_of(&IdlerBeam::try_new_optimum(signal, pump, cs, &PeriodicPoling::Off).unwrap()).abs())
        ),
      );
      ctx.s("C04.period", (v < 0.0) == (z < 0.0), &format!("{}/sign", pre), &format!("{} period={:e} z_unpoled={:e}", what, v, z));
      ctx.s("C04.period", v.abs() <= len, &format!("{}/le-length", pre), &format!("{} period={:e}", what, v));
      if collinear {
        let want = TAU / z.abs();
        let okc = (v.abs() - want).abs() <= 1e-6 * want;
        ctx.s(
          "C04.period",
          okc,
          &(if okc || !clamped { format!("{}/collinear-closed-form", pre) } else { format!("{}/collinear-closed-form/clamped-at-length", pre) }),
          &format!("{} period={:e} want={:e} over_um={:.4}", what, v, want, (want - len) * 1e6),
        );
      }
    }
    PeriodOut::Err => {
      ctx.count(&format!("{}/outcome/err", pre));
      if collinear {
        ctx.count(&format!("{}/err/{}", pre, if TAU / z.abs() > len { "needed-longer-than-L" } else { "needed-within-L" }));
      }
    }
  }
  // "no period up to the crystal length can phase-match" ⇒ Err.  Decidable for a collinear signal: Δkz(Λ) = z − 2π/(±Λ)
  // is monotone in Λ, its zero 2π/|z| lies beyond L, so the best admissible period is L itself; if even that leaves
  // |Δkz|·L/2 ≥ 1e-3 nothing admissible phase-matches.
  if collinear && TAU / z.abs() > len && (z.abs() - TAU / len).abs() * len / 2.0 >= 1e-3 {
    ctx.count(&format!("{}/unmatchable-collinear", pre));
    let over = (TAU / z.abs() - len) * 1e6;
    let ok = matches!(out, PeriodOut::Err);
    ctx.s(
      "C04.period",
      ok,
      &(if ok || over > 1.0001 { format!("{}/err-when-unmatchable", pre) } else { format!("{}/err-when-unmatchable/clamped-at-length", pre) }),
      &format!("{} z_unpoled={:e} needed={:e} over_um={:.4}", what, z, TAU / z.abs(), over),
    );
  }
}

fn gen_apodization(r: &mut Rng) -> Apodization {
  match r.below(9) {
    0 => Apodization::Off,
    1 => Apodization::Gaussian { fwhm: r.range(0.2e-3, 5e-3) * M },
    2 => Apodization::Bartlett(r.range(0.3, 2.0)),
    3 => Apodization::Blackman(r.range(0.3, 2.0)),
    4 => Apodization::Connes(r.range(0.3, 2.0)),
    5 => Apodization::Cosine(r.range(0.3, 2.0)),
    6 => Apodization::Hamming(r.range(0.3, 2.0)),
    7 => Apodization::Welch(r.range(0.3, 2.0)),
    _ => Apodization::Interpolate(vec![0.2, 0.7, 1.0, 0.7, 0.2]),
  }
}

fn out_of(r: Option<Result<PeriodicPoling, spdcalc::SPDCError>>) -> PeriodOut {
  match r {
    None => PeriodOut::Panic,
    Some(Err(_)) => PeriodOut::Err,
    Some(Ok(PeriodicPoling::Off)) => PeriodOut::Err, // cannot happen: every route returns On
    Some(Ok(pp)) => {
      if (*(pp.signed_period() / M)).is_infinite() {
        PeriodOut::Infinite
      } else {
        PeriodOut::Ok(pp)
      }
    }
  }
}

fn stored_name(pp: &PeriodicPoling) -> &'static str {
  match pp {
    PeriodicPoling::Off => "off",
    PeriodicPoling::On { sign: Sign::POSITIVE, .. } => "on+",
    _ => "on-",
  }
}

/// every API route that returns "the optimum poling period", each after a history on ONE SPDC object whose poling is
/// already On with an arbitrary sign / magnitude / apodization (or Off), and whose setup was changed so that the needed
/// sign flips
fn period_route_session(ctx: &mut Ctx, spdc0: &SPDC, cr: &[CrystalType]) {
  let mut crystal = ctx.rng.pick(cr).clone();
  let (lp0, ls0) = gen_wavelengths(&mut ctx.rng, &crystal);
  let pm0 = *ctx.rng.pick(&PMS);
  let mut spdc = spdc0.clone();
  spdc.crystal_setup = mk_setup(crystal.clone(), pm0, ctx.rng.range(0.0, std::f64::consts::FRAC_PI_2), ctx.rng.range(0.0, TAU), ctx.rng.range(1e-3, 30e-3), ctx.rng.range(0.0, 100.0), false);
  let ths0 = if ctx.rng.coin() { 0.0 } else { ctx.rng.range(0.0, 0.05) };
  let (sg, pu) = mk_beams(pm0, lp0, ls0, ths0, ctx.rng.range(0.0, TAU), 100e-6);
  spdc.signal = sg;
  spdc.pump = pu;
  // the poling the object starts with: Off, or a placeholder that is On with either sign
  spdc.pp = match ctx.rng.below(4) {
    0 => PeriodicPoling::Off,
    _ => PeriodicPoling::On {
      period: ctx.rng.log_range(1e-9, 1.0) * M,
      sign: if ctx.rng.coin() { Sign::NEGATIVE } else { Sign::POSITIVE },
      apodization: gen_apodization(&mut ctx.rng),
    },
  };
  match IdlerBeam::try_new_optimum(&spdc.signal, &spdc.pump, &spdc.crystal_setup, &spdc.pp) {
    Ok(i) => spdc.idler = i,
    Err(_) => return,
  }
  let mut hist = format!("start:{}:{}:{}", crystal, pm0, stored_name(&spdc.pp));
  for _ in 0..ctx.rng.between(2, 6) {
    // ---- mutate the object (none = feed the optimum straight back in)
    match ctx.rng.below(8) {
      0 => hist.push_str(">none"),
      1 | 2 => {
        let pm = *ctx.rng.pick(&PMS);
        spdc.crystal_setup.pm_type = pm;
        spdc.signal.set_polarization(pm.signal_polarization());
        spdc.pump.set_polarization(pm.pump_polarization());
        hist.push_str(&format!(">pm:{}", pm));
      }
      3 | 4 => {
        spdc.crystal_setup.theta = ctx.rng.range(0.0, std::f64::consts::FRAC_PI_2) * RAD;
        spdc.crystal_setup.phi = ctx.rng.range(0.0, TAU) * RAD;
        hist.push_str(">corient");
      }
      5 => {
        crystal = ctx.rng.pick(cr).clone();
        let (lp, ls) = gen_wavelengths(&mut ctx.rng, &crystal);
        spdc.crystal_setup.crystal = crystal.clone();
        spdc.pump.set_vacuum_wavelength(lp * M);
        spdc.signal.set_vacuum_wavelength(ls * M);
        hist.push_str(&format!(">crystal:{}", crystal));
      }
      6 => {
        spdc.crystal_setup.temperature = (ctx.rng.range(0.0, 100.0) + 273.15) * K;
        spdc.crystal_setup.length = ctx.rng.range(1e-3, 30e-3) * M;
        hist.push_str(">T,L");
      }
      _ => {
        // flip / replace the stored poling by hand
        spdc.pp = match &spdc.pp {
          PeriodicPoling::On { period, sign, apodization } => PeriodicPoling::On {
            period: *period,
            sign: if *sign == Sign::POSITIVE { Sign::NEGATIVE } else { Sign::POSITIVE },
            apodization: apodization.clone(),
          },
          PeriodicPoling::Off => PeriodicPoling::new(10e-6 * M, gen_apodization(&mut ctx.rng)),
        };
        hist.push_str(">pp-flipped");
      }
    }
    let stored = stored_name(&spdc.pp);
    // ---- one route
    let route = *ctx.rng.pick(&["PeriodicPoling::try_as_optimum", "PeriodicPoling::try_new_optimum", "assign_optimum_periodic_poling", "with_optimum_periodic_poling", "optimum_periodic_poling", "SPDC::try_as_optimum"]);
    if route == "SPDC::try_as_optimum" && spdc.pp == PeriodicPoling::Off {
      continue; // with the poling Off that method optimises the crystal angle instead
    }
    let (cs, sg, pu) = (spdc.crystal_setup.clone(), spdc.signal.clone(), spdc.pump.clone());
    let what = format!(
      "route={} stored_poling={} history={} {}",
      route,
      stored,
      hist,
      setup_detail(&cs, l_of(&pu), l_of(&sg), th_of(&sg), ph_of(&sg))
    );
    ctx.count(&format!("period-route/{}/from-{}", route, stored));
    if route == "SPDC::try_as_optimum" {
      // makes the signal collinear and returns a new object: judge the object it returns
      match guard(|| spdc.clone().try_as_optimum()) {
        Some(Ok(s2)) => {
          let what2 = format!(
            "route={} stored_poling={} history={} {}",
            route,
            stored,
            hist,
            setup_detail(&s2.crystal_setup, l_of(&s2.pump), l_of(&s2.signal), th_of(&s2.signal), ph_of(&s2.signal))
          );
          judge_period(ctx, route, &s2.crystal_setup, &s2.signal, &s2.pump, &out_of(Some(Ok(s2.pp.clone()))), &what2);
          spdc = s2;
        }
        Some(Err(_)) => {
          let mut sg0 = sg.clone();
          sg0.set_angles(0. * RAD, 0. * RAD);
          judge_period(ctx, route, &cs, &sg0, &pu, &PeriodOut::Err, &what);
        }
        None => ctx.count("period@SPDC::try_as_optimum/outcome/panic"),
      }
    } else {
      let r = match route {
        "PeriodicPoling::try_as_optimum" => guard(|| spdc.pp.clone().try_as_optimum(&sg, &pu, &cs)),
        "PeriodicPoling::try_new_optimum" => {
          let ap = spdc.pp.apodization().clone();
          guard(|| PeriodicPoling::try_new_optimum(&sg, &pu, &cs, ap))
        }
        "assign_optimum_periodic_poling" => guard(|| {
          let mut s2 = spdc.clone();
          s2.assign_optimum_periodic_poling().map(|_| ()).map(|_| s2.pp.clone())
        }),
        "with_optimum_periodic_poling" => guard(|| spdc.clone().with_optimum_periodic_poling().map(|s| s.pp)),
        _ => guard(|| spdc.optimum_periodic_poling()),
      };
      if let Some(Ok(pp)) = &r {
        spdc.pp = pp.clone();
      }
      judge_period(ctx, route, &cs, &sg, &pu, &out_of(r), &what);
    }
    hist.push_str(&format!(">{}", route));
  }
}

/// K case `opt_period_tab` for `(signal, pump, cs)` with the outcome a route produced: the closure `pm` of
/// optimum_poling_period rebuilt from the public API and recorded through the real optimiser (as in `period_case`)
fn period_tab_k(ctx: &mut Ctx, cs: &CrystalSetup, signal: &SignalBeam, pump: &PumpBeam, out: &PeriodOut) {
  let z = dkz(signal, pump, cs, &PeriodicPoling::Off);
  let len = *(cs.length / M);
  if z == 0.0 || z.is_nan() {
    return;
  }
  let outs = match out {
    PeriodOut::Panic => "PANIC".to_string(),
    PeriodOut::Err => "ERR".to_string(),
    PeriodOut::Infinite => "OKINF".to_string(),
    PeriodOut::Ok(pp) => format!("OK {}", fl(*(pp.signed_period() / M))),
  };
  let sign: Sign = z.into();
  let pm = |period: f64| {
    let pp = PeriodicPoling::On { period: period * M, sign, apodization: Apodization::Off };
    dkz(signal, pump, cs, &pp).abs()
  };
  let g = (TAU / z).abs();
  // the cost can be NaN (steep idler): the real search then panics, and so does this recording
  if let Some((_, _, _, log)) = guard(|| run_logged(&pm, (g, g + 1e-6), 1000, f64::MIN_POSITIVE, len, 1e-12)) {
    if log.len() <= 3200 {
      ctx.k("opt_period_tab", &format!("{} {} {}", fl(z), fl(len), table(&log)), &outs);
    }
  }
}

/// warm start of the poling routes: the object ALREADY stores (nearly) the optimum poling — the optimum to the last bit,
/// the optimum written to a configuration (4 decimals of a µm) and read back, converted m → µm → m, or off by a relative
/// 1e-9 … 1e-1 (either sign of the offset; the stored SIGN right or flipped) — and is optimised again through every
/// route.  The stored poling is an input the result must not depend on: the statement's clauses on every result,
/// and the K case `opt_period_tab` on the same state.
fn period_warm_case(ctx: &mut Ctx, spdc0: &SPDC, cr: &[CrystalType]) {
  let crystal = ctx.rng.pick(cr).clone();
  let pm = *ctx.rng.pick(&PMS);
  let (lp, ls) = gen_wavelengths(&mut ctx.rng, &crystal);
  let cs = mk_setup(crystal, pm, ctx.rng.range(0.0, std::f64::consts::FRAC_PI_2), ctx.rng.range(0.0, TAU), ctx.rng.range(1e-3, 30e-3), ctx.rng.range(0.0, 100.0), false);
  let ths = if ctx.rng.coin() { 0.0 } else { ctx.rng.range(0.0, 0.05) };
  let (signal, pump) = mk_beams(pm, lp, ls, ths, ctx.rng.range(0.0, TAU), 100e-6);
  let opt = match guard(|| optimum_poling_period(&signal, &pump, &cs)) {
    Some(Ok(p)) if (*(p / M)).is_finite() => *(p / M),
    _ => {
      ctx.count("period-warm/no-optimum");
      return;
    }
  };
  for _ in 0..3 {
    let (kind, mag): (String, f64) = match ctx.rng.below(6) {
      0 => ("own-optimum".into(), opt.abs()),
      1 => {
        // through the real conversions: PeriodicPoling → PeriodicPolingConfig (rounded) → PeriodicPoling
        let cfg: spdcalc::PeriodicPolingConfig = PeriodicPoling::new(opt * M, Apodization::Off).into();
        match guard(|| cfg.try_as_periodic_poling(&signal, &pump, &cs)) {
          Some(Ok(PeriodicPoling::On { period, .. })) => ("own-optimum-through-config".into(), *(period / M)),
          _ => continue,
        }
      }
      2 => ("own-optimum-um-roundtrip".into(), (opt.abs() * 1e6) * 1e-6),
      3 => {
        // the stored period's OWN half phase |Δkz|L/2 ≈ |z|·rel·L/2 log-uniform over 1e-5 … 1e-1 (two decades either
        // side of the statement's threshold)
        let h = ctx.rng.log_range(1e-5, 1e-1);
        let d = h * 2.0 / (TAU / opt.abs() * *(cs.length / M)) * if ctx.rng.coin() { 1.0 } else { -1.0 };
        ("near-threshold".into(), opt.abs() * (1.0 + d))
      }
      _ => {
        let d = ctx.rng.log_range(1e-9, 1e-1) * if ctx.rng.coin() { 1.0 } else { -1.0 };
        ("offset".into(), opt.abs() * (1.0 + d))
      }
    };
    let flipped = ctx.rng.below(4) == 0;
    let neg = (opt < 0.0) != flipped;
    let stored = PeriodicPoling::On { period: mag * M, sign: if neg { Sign::NEGATIVE } else { Sign::POSITIVE }, apodization: gen_apodization(&mut ctx.rng) };
    let mut spdc = spdc0.clone();
    spdc.crystal_setup = cs.clone();
    spdc.signal = signal.clone();
    spdc.pump = pump.clone();
    spdc.pp = stored.clone();
    match IdlerBeam::try_new_optimum(&spdc.signal, &spdc.pump, &spdc.crystal_setup, &spdc.pp) {
      Ok(i) => spdc.idler = i,
      Err(_) => continue,
    }
    let route = *ctx.rng.pick(&["PeriodicPoling::try_as_optimum", "assign_optimum_periodic_poling", "with_optimum_periodic_poling", "optimum_periodic_poling", "SPDC::try_as_optimum"]);
    ctx.count(&format!("period-warm/{}/{}", kind, route));
    let what = |c: &CrystalSetup, sg: &SignalBeam, pu: &PumpBeam| {
      format!(
        "route={} warm={} stored_poling={} stored_period={:e} optimum_before={:e} warm_rel_offset={:e} {}",
        route,
        kind,
        stored_name(&stored),
        mag * if neg { -1.0 } else { 1.0 },
        opt,
        mag / opt.abs() - 1.0,
        setup_detail(c, l_of(pu), l_of(sg), th_of(sg), ph_of(sg))
      )
    };
    if route == "SPDC::try_as_optimum" {
      // makes the signal collinear and returns a new object: judge the object it returns
      let s1 = spdc.clone();
      match guard(move || s1.try_as_optimum()) {
        Some(Ok(s2)) => {
          let out = out_of(Some(Ok(s2.pp.clone())));
          period_tab_k(ctx, &s2.crystal_setup, &s2.signal, &s2.pump, &out);
          judge_period(ctx, route, &s2.crystal_setup, &s2.signal, &s2.pump, &out, &what(&s2.crystal_setup, &s2.signal, &s2.pump));
        }
        Some(Err(_)) => {
          let mut sg0 = signal.clone();
          sg0.set_angles(0. * RAD, 0. * RAD);
          period_tab_k(ctx, &cs, &sg0, &pump, &PeriodOut::Err);
          judge_period(ctx, route, &cs, &sg0, &pump, &PeriodOut::Err, &what(&cs, &sg0, &pump));
        }
        None => ctx.count("period@SPDC::try_as_optimum/outcome/panic"),
      }
    } else {
      let r = match route {
        "PeriodicPoling::try_as_optimum" => guard(|| stored.clone().try_as_optimum(&signal, &pump, &cs)),
        "assign_optimum_periodic_poling" => guard(|| {
          let mut s2 = spdc.clone();
          s2.assign_optimum_periodic_poling().map(|_| ()).map(|_| s2.pp.clone())
        }),
        "with_optimum_periodic_poling" => guard(|| spdc.clone().with_optimum_periodic_poling().map(|s| s.pp)),
        _ => guard(|| spdc.optimum_periodic_poling()),
      };
      let out = out_of(r);
      period_tab_k(ctx, &cs, &signal, &pump, &out);
      judge_period(ctx, route, &cs, &signal, &pump, &out, &what(&cs, &signal, &pump));
    }
  }
}

fn theta_case(ctx: &mut Ctx, spdc0: &SPDC, cs0: &CrystalSetup, lp: f64, ls: f64, routes: bool) {
  let (signal, pump) = mk_beams(cs0.pm_type, lp, ls, 0.0, 0.0, 100e-6);
  let what = setup_detail(cs0, lp, ls, 0.0, 0.0);
  let len = *(cs0.length / M);
  ctx.count(&format!("theta/crystal/{}", cs0.crystal));
  ctx.count(&format!("theta/type/{}", cs0.pm_type));
  let r = guard(|| *(cs0.optimum_theta(&signal, &pump) / RAD));
  if let Some(t) = r {
    record_auto(12, cs0, &signal, &pump, None, Some(t.to_bits()));
  }

  // ---- K: the closure of optimum_theta rebuilt from the public API, recorded through the real optimiser
  let theta_s_e = signal.theta_external(cs0);
  let cost = |theta: f64| {
    let mut cs = cs0.clone();
    let mut sg = signal.clone();
    cs.theta = theta * RAD;
    sg.set_theta_external(theta_s_e, &cs);
    dkz(&sg, &pump, &cs, &PeriodicPoling::Off).abs()
  };
  let g = std::f64::consts::PI / 6.;
  let (_, _, _, log) = run_logged(&cost, (g, g + 1.), 1000, 0., std::f64::consts::FRAC_PI_2, 1e-6);
  if log.len() <= 3200 {
    ctx.k("opt_theta_tab", &table(&log), &r.map(fl).unwrap_or("PANIC".into()));
  } else {
    ctx.count("theta/table/too-long");
  }

  // ---- S: if a scan of θ ∈ [0°,90°] shows a sign change of Δkz, the auto angle must phase-match
  let at = |theta: f64| {
    let mut cs = cs0.clone();
    cs.theta = theta * RAD;
    dkz(&signal, &pump, &cs, &PeriodicPoling::Off)
  };
  let npts = 2000;
  let mut bracket: Option<(f64, f64)> = None;
  let mut prev = at(0.0);
  for k in 1..npts {
    let th = std::f64::consts::FRAC_PI_2 * (k as f64) / ((npts - 1) as f64);
    let cur = at(th);
    if prev == 0.0 || (prev < 0.0) != (cur < 0.0) {
      bracket = Some((std::f64::consts::FRAC_PI_2 * ((k - 1) as f64) / ((npts - 1) as f64), th));
      break;
    }
    prev = cur;
  }
  let (ra, rb) = match bracket {
    None => {
      ctx.count("theta/scan/no-sign-change");
      return;
    }
    Some(x) => x,
  };
  ctx.count("theta/scan/sign-change");
  let tail_of = |prior: f64| {
    format!(
      "root_lo_deg={:.3} root_hi_deg={:.3} lp_nm={:.3} ls_nm={:.3} li_nm={:.3} long_nm={:.3} prior_deg={:.4}",
      ra.to_degrees(),
      rb.to_degrees(),
      lp * 1e9,
      ls * 1e9,
      ls * lp / (ls - lp) * 1e9,
      ls.max(ls * lp / (ls - lp)) * 1e9,
      prior.to_degrees()
    )
  };
  let tail = tail_of(*(cs0.theta / RAD));
  let step = std::f64::consts::FRAC_PI_2 / ((npts - 1) as f64);
  // the result from prior angle 0 (history independence: the coded start simplex is fixed, so the prior crystal angle must
  // not matter)
  let reference = {
    let mut c = cs0.clone();
    c.theta = 0. * RAD;
    guard(|| *(c.optimum_theta(&signal, &pump) / RAD))
  };
  // the statement's clause for one route's result
  let judge_on = |ctx: &mut Ctx, what: &str, tail: &str, route: &str, r: Option<f64>| match r {
    None => ctx.s("C04.theta", false, &format!("theta/{}/panic", route), &format!("{} {}", what, tail)),
    Some(th) => {
      let in_range = (0.0..=std::f64::consts::FRAC_PI_2).contains(&th);
      let d = at(th);
      let phase = d.abs() * len / 2.0;
      let ok = in_range && phase < 1e-3;
      let near_root = th >= ra - step && th <= rb + step;
      let kind = if ok {
        format!("theta/{}", route)
      } else if !in_range {
        format!("theta/{}/out-of-range", route)
      } else if th < 1e-3 {
        format!("theta/{}/stuck-at-lower-bound", route)
      } else if th > std::f64::consts::FRAC_PI_2 - 1e-3 {
        format!("theta/{}/stuck-at-upper-bound", route)
      } else if near_root {
        // the simplex stopped within one scan step of the root with the two vertex costs equal but not small
        format!("theta/{}/stopped-next-to-root", route)
      } else {
        format!("theta/{}/not-phasematched", route)
      };
      // a failure that the same setup does NOT show from prior angle 0 is caused by the prior state, not by the
      // search on this setup (the mechanisms of D3/D91/D94 do not depend on the prior angle): own signature
      let kind = if !ok && reference.map(f64::to_bits) != Some(th.to_bits()) { format!("{}/prior-dependent", kind) } else { kind };
      ctx.count(&format!("theta/route/{}", route));
      ctx.s(
        "C04.theta",
        ok,
        &kind,
        &format!("{} auto_deg={:e} dkz={:e} half_phase={:e} {}", what, th.to_degrees(), d, phase, tail),
      );
    }
  };
  let judge = |ctx: &mut Ctx, route: &str, r: Option<f64>| judge_on(ctx, &what, &tail, route, r);
  judge(ctx, "auto", r);
  // history independence: the coded start simplex is fixed, so the prior crystal angle must not matter
  let indep_on = |ctx: &mut Ctx, what: &str, tail: &str, route: &str, r: Option<f64>| {
    let same = match (r, reference) {
      (Some(x), Some(y)) => x.to_bits() == y.to_bits(),
      (None, None) => true,
      _ => false,
    };
    ctx.s(
      "C04.theta",
      same,
      &format!("theta/{}/{}", route, if same { "history-independent" } else { "depends-on-prior-angle" }),
      &format!("{} got_deg={:?} from_prior_0_deg={:?} {}", what, r.map(f64::to_degrees), reference.map(f64::to_degrees), tail),
    );
  };
  let indep = |ctx: &mut Ctx, route: &str, r: Option<f64>| indep_on(ctx, &what, &tail, route, r);
  indep(ctx, "auto", r);
  if routes {
    // the computed optimum fed back in as the prior crystal angle (to the last bit)
    if let Some(t) = r {
      let mut c = cs0.clone();
      c.theta = t * RAD;
      let again = guard(|| *(c.optimum_theta(&signal, &pump) / RAD));
      indep(ctx, "auto-from-its-own-optimum", again);
    }
    // the other routes that auto-calculate the crystal angle, from the same prior angle
    let ra1 = guard(|| {
      let mut c = cs0.clone();
      c.assign_optimum_theta(&signal, &pump);
      *(c.theta / RAD)
    });
    judge(ctx, "assign_optimum_theta", ra1);
    indep(ctx, "assign_optimum_theta", ra1);
    let mut spdc = spdc0.clone();
    spdc.crystal_setup = cs0.clone();
    spdc.signal = signal.clone();
    spdc.pump = pump.clone();
    spdc.pp = PeriodicPoling::Off;
    if let Ok(i) = IdlerBeam::try_new_optimum(&spdc.signal, &spdc.pump, &spdc.crystal_setup, &spdc.pp) {
      spdc.idler = i;
      let s1 = spdc.clone();
      let rw = guard(move || *(s1.with_optimum_crystal_theta().crystal_setup.theta / RAD));
      judge(ctx, "with_optimum_crystal_theta", rw);
      indep(ctx, "with_optimum_crystal_theta", rw);
      let s2 = spdc.clone();
      match guard(move || s2.try_as_optimum().map(|s| *(s.crystal_setup.theta / RAD))) {
        Some(Ok(t)) => {
          judge(ctx, "try_as_optimum", Some(t));
          indep(ctx, "try_as_optimum", Some(t));
        }
        Some(Err(_)) => ctx.count("theta/route/try_as_optimum/err"),
        None => judge(ctx, "try_as_optimum", None),
      }
    }
  }

  // ---- warm start: the crystal ALREADY sits at / next to the answer (an optimised setup optimised again, an angle typed
  // in from a data sheet or written by as_config and read back, a scan that re-optimises at every step).  The prior
  // angle is an input the result must not depend on, so every such state gets the statement's clause on every route
  // (and bit-for-bit independence of the prior angle), and the direct route a K case on the same state.
  let root = {
    // the phase-matching angle itself, by bisection of Δkz on the scan's bracket
    let (mut a, mut b) = (ra, rb);
    let fa = at(a);
    for _ in 0..60 {
      let m = 0.5 * (a + b);
      if m <= a || m >= b {
        break;
      }
      let fm = at(m);
      if (fm < 0.0) == (fa < 0.0) && fm != 0.0 { a = m } else { b = m }
    }
    if at(a).abs() <= at(b).abs() { a } else { b }
  };
  let slope = ((at(rb) - at(ra)) / (rb - ra)).abs(); // |dΔkz/dθ| at the root, rad/m per rad
  let own = r.filter(|t| (0.0..=std::f64::consts::FRAC_PI_2).contains(t) && at(*t).abs() * len / 2.0 < 1e-3);
  let mut priors: Vec<(String, f64, f64)> = Vec::new(); // (kind, prior angle, offset from its centre)
  // one "special" state per case, in rotation: the routine's own answer to the last bit / written to a configuration
  // (4 decimals of a degree) and read back through the real conversions / converted rad → deg → rad / typed in with
  // 1…6 decimals of a degree / the bisected phase-matching angle
  match (own, ctx.rng.below(5)) {
    (Some(t), 0) => priors.push(("own-optimum".into(), t, 0.0)),
    (Some(t), 1) => {
      let mut c = cs0.clone();
      c.theta = t * RAD;
      let cfg: spdcalc::CrystalConfig = c.into();
      let back: CrystalSetup = cfg.into();
      let v = *(back.theta / RAD);
      priors.push(("own-optimum-through-config".into(), v, v - t));
    }
    (Some(t), 2) => {
      let rt = t.to_degrees().to_radians();
      priors.push(("own-optimum-deg-rad-roundtrip".into(), rt, rt - t));
    }
    (Some(t), 3) => {
      let dec = ctx.rng.between(1, 6) as i32;
      let typed = ((t.to_degrees() * 10f64.powi(dec)).round() / 10f64.powi(dec)).to_radians();
      priors.push((format!("own-optimum-typed-{}-decimals", dec), typed, typed - t));
    }
    _ => priors.push(("bisected-root".into(), root, 0.0)),
  }
  {
    // x* + d, d log-uniform over 1e-9 … 1e-1 of the search interval, both signs
    let c = match own {
      Some(t) if ctx.rng.coin() => t,
      _ => root,
    };
    let d = ctx.rng.log_range(1e-9, 1e-1) * std::f64::consts::FRAC_PI_2 * if ctx.rng.coin() { 1.0 } else { -1.0 };
    priors.push(("offset".into(), c + d, d));
  }
  if slope > 0.0 && slope.is_finite() {
    for _ in 0..2 {
      // the prior angle's OWN half phase |Δkz|L/2 log-uniform over 1e-5 … 1e-1: two decades either side of the
      // statement's threshold (the prior state "almost" satisfies the clause, or satisfies it only just)
      let h = ctx.rng.log_range(1e-5, 1e-1);
      let d = h * 2.0 / (len * slope) * if ctx.rng.coin() { 1.0 } else { -1.0 };
      priors.push(("near-threshold".into(), root + d, d));
    }
  }
  let tab = if log.len() <= 3200 { Some(table(&log)) } else { None };
  let warm_routes = ["auto", "assign_optimum_theta", "assign_optimum_crystal_theta", "auto", "with_optimum_crystal_theta", "optimum_crystal_theta", "try_as_optimum"];
  let first_route = ctx.rng.below(warm_routes.len());
  for (i, (kind, prior, off)) in priors.iter().enumerate() {
    let mut cw = cs0.clone();
    cw.theta = *prior * RAD;
    let whatw = setup_detail(&cw, lp, ls, 0.0, 0.0);
    let php = at(*prior).abs() * len / 2.0;
    let tailw = format!("{} warm={} warm_offset_rad={:e} prior_half_phase={:e}", tail_of(*prior), kind, off, php);
    ctx.count(&format!("theta/warm/{}", kind.split("-typed-").next().unwrap()));
    ctx.count(&format!("theta/warm/prior-half-phase/1e{}", php.max(1e-12).log10().floor().clamp(-7.0, 3.0)));
    // one route per state, in rotation
    let route = warm_routes[(first_route + i) % warm_routes.len()];
    if route == "auto" {
      // direct route: S + K (the cost closure does not depend on the prior angle of a collinear signal, so the
      // recorded table of the base case is the table of this state)
      let rd = guard(|| *(cw.optimum_theta(&signal, &pump) / RAD));
      if let Some(t) = &tab {
        ctx.k("opt_theta_tab", t, &rd.map(fl).unwrap_or("PANIC".into()));
      }
      judge_on(ctx, &whatw, &tailw, "auto", rd);
      indep_on(ctx, &whatw, &tailw, "auto", rd);
      continue;
    }
    let rr: Option<f64> = if route == "assign_optimum_theta" {
      guard(|| {
        let mut c = cw.clone();
        c.assign_optimum_theta(&signal, &pump);
        *(c.theta / RAD)
      })
    } else {
      let mut spdc = spdc0.clone();
      spdc.crystal_setup = cw.clone();
      spdc.signal = signal.clone();
      spdc.pump = pump.clone();
      // "auto-calculated without poling": the assign_/with_ routes switch a stored poling off themselves
      spdc.pp = if (route == "assign_optimum_crystal_theta" || route == "with_optimum_crystal_theta") && ctx.rng.coin() {
        PeriodicPoling::On { period: ctx.rng.log_range(1e-6, 1e-3) * M, sign: if ctx.rng.coin() { Sign::NEGATIVE } else { Sign::POSITIVE }, apodization: Apodization::Off }
      } else {
        PeriodicPoling::Off
      };
      match IdlerBeam::try_new_optimum(&spdc.signal, &spdc.pump, &spdc.crystal_setup, &PeriodicPoling::Off) {
        Err(_) => continue,
        Ok(idl) => spdc.idler = idl,
      }
      match route {
        "assign_optimum_crystal_theta" => guard(move || {
          spdc.assign_optimum_crystal_theta();
          if spdc.pp == PeriodicPoling::Off { *(spdc.crystal_setup.theta / RAD) } else { f64::NAN }
        }),
        "with_optimum_crystal_theta" => guard(move || {
          let s = spdc.with_optimum_crystal_theta();
          if s.pp == PeriodicPoling::Off { *(s.crystal_setup.theta / RAD) } else { f64::NAN }
        }),
        "optimum_crystal_theta" => guard(move || *(spdc.optimum_crystal_theta() / RAD)),
        _ => match guard(move || spdc.try_as_optimum().map(|s| *(s.crystal_setup.theta / RAD))) {
          Some(Ok(t)) => Some(t),
          Some(Err(_)) => {
            ctx.count("theta/route/try_as_optimum/err");
            continue;
          }
          None => None,
        },
      }
    };
    judge_on(ctx, &whatw, &tailw, route, rr);
    indep_on(ctx, &whatw, &tailw, route, rr);
  }
}

/// the statement through the configuration route: `"poling_period_um": "auto"` / `"theta_deg": "auto"`
fn config_case(ctx: &mut Ctx, crystal: &CrystalType, pm: PMType, cphi_deg: f64, ctheta_deg: f64, len_um: f64, celsius: f64, lp_nm: f64, ls_nm: f64, ths_deg: f64, phs_deg: f64, auto_theta: bool) {
  let id = crystal.get_meta().id;
  let json = format!(
    r#"{{"crystal":{{"kind":"{}","pm_type":"{}","phi_deg":{},"theta_deg":{},"length_um":{},"temperature_c":{}}},
        "pump":{{"wavelength_nm":{},"waist_um":100,"bandwidth_nm":5,"average_power_mw":1}},
        "signal":{{"wavelength_nm":{},"phi_deg":{},"theta_deg":{},"waist_um":100,"waist_position_um":"auto"}},
        "idler":"auto",{} "deff_pm_per_volt":1}}"#,
    id,
    pm,
    cphi_deg,
    if auto_theta { "\"auto\"".to_string() } else { format!("{}", ctheta_deg) },
    len_um,
    celsius,
    lp_nm,
    ls_nm,
    phs_deg,
    ths_deg,
    if auto_theta { "" } else { r#""periodic_poling":{"poling_period_um":"auto"},"# }
  );
  let what = format!(
    "route=config crystal={} pm={} cphi_deg={} ctheta_deg={} L={:e} T_c={} lp_nm={} ls_nm={} theta_s_deg={} phi_s_deg={}",
    id, pm, cphi_deg, ctheta_deg, len_um * 1e-6, celsius, lp_nm, ls_nm, ths_deg, phs_deg
  );
  let cfg: SPDCConfig = match serde_json::from_str(&json) {
    Ok(c) => c,
    Err(e) => {
      ctx.s("C04.config", false, "config/parse", &format!("{} err={}", what, e.to_string().replace(' ', "_")));
      return;
    }
  };
  // the setup the configuration describes, assembled from its parts (needed to judge an Err outcome)
  let parts = {
    let cs: CrystalSetup = cfg.crystal.clone().into();
    let pu = cfg.pump.clone().as_beam(&cs);
    cfg.signal.clone().try_as_beam(&cs).ok().map(|sg| (cs, sg, pu))
  };
  let via_json = ctx.rng.coin();
  let r = if via_json { guard(|| SPDC::from_json(&json).map_err(|e| spdcalc::SPDCError(e.to_string()))) } else { guard(|| cfg.try_as_spdc()) };
  let len = len_um * 1e-6;
  if !auto_theta {
    // "poling_period_um": "auto" — every clause, whatever the outcome
    let what = format!("{} via={}", what, if via_json { "from_json" } else { "try_as_spdc" });
    match (&r, &parts) {
      (Some(Ok(spdc)), _) => {
        let on = spdc.pp != PeriodicPoling::Off;
        ctx.s("C04.config", on, if on { "config/period-auto-is-poled" } else { "config/period-auto-returned-unpoled" }, &what);
        if on {
          ctx.count("config/period/ok");
          judge_period(ctx, "config-auto", &spdc.crystal_setup, &spdc.signal, &spdc.pump, &PeriodOut::Ok(spdc.pp.clone()), &what);
        }
      }
      (Some(Err(_)), Some((cs, sg, pu))) => {
        ctx.count("config/period/err");
        judge_period(ctx, "config-auto", cs, sg, pu, &PeriodOut::Err, &what);
      }
      (Some(Err(_)), None) => ctx.count("config/period/err-no-parts"),
      (None, _) => ctx.count("period@config-auto/outcome/panic"),
    }
    return;
  }
  match r {
    None => ctx.s("C04.config", false, "config/panic", &what),
    Some(Err(_)) => {
      ctx.count("config/theta/err");
    }
    Some(Ok(spdc)) => {
      let d = raw_vec(spdc.delta_k(spdc.signal.frequency(), spdc.idler.frequency())).z;
      let phase = d.abs() * len / 2.0;
      if auto_theta {
        // the statement's angle clause on the SPDC object the configuration produced
        let (sg, pu) = (spdc.signal.clone(), spdc.pump.clone());
        let at = |theta: f64| {
          let mut cs = spdc.crystal_setup.clone();
          cs.theta = theta * RAD;
          dkz(&sg, &pu, &cs, &PeriodicPoling::Off)
        };
        let mut prev = at(0.0);
        let mut found = false;
        let mut root = (0.0, 0.0);
        for k in 1..2000 {
          let th = std::f64::consts::FRAC_PI_2 * (k as f64) / 1999.0;
          let cur = at(th);
          if prev == 0.0 || (prev < 0.0) != (cur < 0.0) {
            found = true;
            root = (std::f64::consts::FRAC_PI_2 * ((k - 1) as f64) / 1999.0, th);
            break;
          }
          prev = cur;
        }
        let got = *(spdc.crystal_setup.theta / RAD);
        let mut cs0 = spdc.crystal_setup.clone();
        cs0.theta = 0. * RAD;
        ctx.count(if got == *(cs0.optimum_theta(&spdc.signal, &spdc.pump) / RAD) { "config/theta/equals-direct-call" } else { "config/theta/differs-from-direct-call" });
        if found {
          ctx.count("config/theta/matchable");
          let ok = (0.0..=std::f64::consts::FRAC_PI_2).contains(&got) && phase < 1e-3 && spdc.pp == PeriodicPoling::Off;
          let step = std::f64::consts::FRAC_PI_2 / 1999.0;
          let near_root = got >= root.0 - step && got <= root.1 + step;
          ctx.s(
            "C04.config",
            ok,
            if ok || !near_root { "config/theta-statement" } else { "config/theta-statement/stopped-next-to-root" },
            &format!("{} auto_deg={:e} half_phase={:e} root_lo_deg={:.3} root_hi_deg={:.3}", what, got.to_degrees(), phase, root.0.to_degrees(), root.1.to_degrees()),
          );
        } else {
          ctx.count("config/theta/unmatchable");
        }
      }
    }
  }
}

pub fn run(ctx: &mut Ctx) {
  let spdc0 = SPDC::default();
  let mut cr = crystals();
  let mode = ctx.extra.first().cloned().unwrap_or("all".into());
  // optional second argument: comma-separated crystal ids (region mapping / replays)
  if let Some(f) = ctx.extra.get(1) {
    let ids: Vec<&str> = f.split(',').collect();
    cr.retain(|c| ids.contains(&c.get_meta().id));
  }
  let n_theta = if ctx.thorough { ctx.n / 8 } else { ctx.n / 6 };

  if mode == "all" || mode == "period" {
    // pinned examples of the test-suite (KTP 775 → 1550 nm collinear, e → eo)
    {
      let cs = mk_setup(CrystalType::KTP, PMType::Type2_e_eo, std::f64::consts::FRAC_PI_2, 0.0, 2e-3, 20.0, false);
      period_case(ctx, &cs, 775e-9, 1550e-9, 0.0, 0.0);
      period_case(ctx, &cs, 775e-9, 1550e-9, 0.02, 0.3);
    }
    for _ in 0..ctx.n {
      let crystal = ctx.rng.pick(&cr).clone();
      let pm = *ctx.rng.pick(&PMS);
      let ctheta = match ctx.rng.below(6) {
        0 => 0.0,
        1 => std::f64::consts::FRAC_PI_2,
        _ => ctx.rng.range(0.0, std::f64::consts::FRAC_PI_2),
      };
      let cphi = match ctx.rng.below(4) {
        0 => 0.0,
        _ => ctx.rng.range(0.0, TAU),
      };
      let celsius = ctx.rng.range(0.0, 100.0);
      let length = ctx.rng.range(1e-3, 30e-3);
      let (lp, ls) = gen_wavelengths(&mut ctx.rng, &crystal);
      let ths = match ctx.rng.below(3) {
        0 => 0.0,
        _ => ctx.rng.range(0.0, 0.05),
      };
      let phs = ctx.rng.range(0.0, TAU);
      let cs = mk_setup(crystal.clone(), pm, ctheta, cphi, length, celsius, false);
      period_case(ctx, &cs, lp, ls, ths, phs);

      // targeted: crystal angle close to a phase-matching angle, so that the needed period is comparable
      // with (and sometimes longer than) the crystal: exercises the `period > L ⇒ Err` rule
      if ctx.rng.below(5) == 0 && pm != PMType::Type0_o_oo && pm != PMType::Type0_e_ee {
        let (sg, pu) = mk_beams(pm, lp, ls, 0.0, 0.0, 100e-6);
        if let Some(auto) = guard(|| *(cs.optimum_theta(&sg, &pu) / RAD)) {
          let mut cs2 = cs.clone();
          cs2.theta = auto * RAD;
          if dkz(&sg, &pu, &cs2, &PeriodicPoling::Off).abs() * length / 2.0 < 1e-3 {
            let dir = if ctx.rng.coin() { 1.0 } else { -1.0 };
            let delta = ctx.rng.log_range(1e-7, 3e-2) * dir;
            cs2.theta = (auto + delta) * RAD;
            ctx.count("period/targeted-near-phasematching");
            let ths2 = if ctx.rng.coin() { 0.0 } else { ths };
            period_case(ctx, &cs2, lp, ls, ths2, phs);
            // edge: the needed period 2π/|z| placed at L + u µm, u ∈ {−0.5, 0.2, 0.7, 1.5} (bisection on the angle)
            let u = *ctx.rng.pick(&[-0.5e-6, 0.0, 0.2e-6, 0.7e-6, 1.5e-6]);
            let target = TAU / (length + u);
            let zat = |d: f64| {
              let mut c = cs.clone();
              c.theta = (auto + dir * d) * RAD;
              dkz(&sg, &pu, &c, &PeriodicPoling::Off).abs()
            };
            if zat(0.05) > target {
              let (mut a, mut b) = (0.0, 0.05);
              for _ in 0..100 {
                let m = 0.5 * (a + b);
                if zat(m) < target { a = m } else { b = m }
              }
              if (zat(a) - target).abs() <= 1e-7 * target {
                cs2.theta = (auto + dir * a) * RAD;
                ctx.count(&format!("period/edge/needed-minus-L={:+.1}um", u * 1e6));
                period_case(ctx, &cs2, lp, ls, 0.0, phs);
              }
            }
          }
        }
      }
    }
  }

  if mode == "all" || mode == "routes" {
    let nses = if mode == "routes" { ctx.n } else { ctx.n / 15 };
    for _ in 0..nses {
      period_route_session(ctx, &spdc0, &cr);
    }
  }

  if mode == "all" || mode == "warm" {
    let nw = if mode == "warm" { ctx.n } else { ctx.n / 20 };
    for _ in 0..nw {
      period_warm_case(ctx, &spdc0, &cr);
    }
  }

  if mode == "all" || mode == "axis" {
    // targeted: beams within a few mrad of the optic axis of a uniaxial crystal (crystal θ = 0 or tiny), non-collinear
    // signal: `index_along` is ill-conditioned there (near-double root) and the computed Δkz carries rounding noise
    let nax = if mode == "axis" { ctx.n } else { ctx.n / 20 };
    for _ in 0..nax {
      let crystal = ctx.rng.pick(&cr).clone();
      let pm = *ctx.rng.pick(&PMS);
      let ctheta = match ctx.rng.below(3) {
        0 => 0.0,
        _ => ctx.rng.log_range(1e-6, 3e-2),
      };
      let cphi = ctx.rng.range(0.0, TAU);
      let celsius = ctx.rng.range(0.0, 100.0);
      let length = ctx.rng.range(1e-3, 30e-3);
      let (lp, ls) = gen_wavelengths(&mut ctx.rng, &crystal);
      let ths = if ctx.rng.below(4) == 0 { 0.0 } else { ctx.rng.log_range(1e-5, 0.05) };
      let phs = ctx.rng.range(0.0, TAU);
      let cs = mk_setup(crystal, pm, ctheta, cphi, length, celsius, false);
      ctx.count("period/targeted-near-optic-axis");
      period_case(ctx, &cs, lp, ls, ths, phs);
    }
  }

  if mode == "all" || mode == "steep" {
    // targeted: strongly non-degenerate pairs (signal just above the pump, idler far in the infrared) with a
    // non-collinear signal: the optimum idler is steep and Δkz(Λ) is far from the linear estimate z − 2π/Λ
    let nsteep = if mode == "steep" { ctx.n } else { ctx.n / 10 };
    for _ in 0..nsteep {
      let crystal = ctx.rng.pick(&cr).clone();
      let pm = *ctx.rng.pick(&PMS);
      let (lo, hi) = window(&crystal);
      let ratio = ctx.rng.range(1.02, 1.4);
      // idler = ls·lp/(ls−lp) = lp·ratio/(ratio−1) ≤ hi
      let lp_max = (hi * (ratio - 1.0) / ratio).min(hi / ratio);
      if lp_max <= lo * 1.001 {
        continue;
      }
      let lp = ctx.rng.range(lo * 1.001, lp_max * 0.999);
      let ls = lp * ratio;
      let ctheta = match ctx.rng.below(3) {
        0 => std::f64::consts::FRAC_PI_2,
        _ => ctx.rng.range(0.0, std::f64::consts::FRAC_PI_2),
      };
      let cphi = ctx.rng.range(0.0, TAU);
      let celsius = ctx.rng.range(0.0, 100.0);
      let length = ctx.rng.range(1e-3, 30e-3);
      let ths = ctx.rng.range(0.005, 0.05);
      let phs = ctx.rng.range(0.0, TAU);
      let cs = mk_setup(crystal, pm, ctheta, cphi, length, celsius, false);
      ctx.count("period/targeted-steep-idler");
      period_case(ctx, &cs, lp, ls, ths, phs);
    }
  }

  if mode == "all" || mode == "config" {
    let pms3 = [PMType::Type1_e_oo, PMType::Type2_e_eo, PMType::Type2_e_oe];
    for k in 0..(ctx.n / 25).max(8) {
      let crystal = ctx.rng.pick(&cr).clone();
      let auto_theta = k % 3 == 0;
      // the angle route only on uniaxial crystals here (the biaxial findings D3/D91 are searched by the direct route)
      if auto_theta && (crystal == CrystalType::BiBO_1 || crystal == CrystalType::KTP) {
        continue;
      }
      let pm = if auto_theta { *ctx.rng.pick(&pms3) } else { *ctx.rng.pick(&PMS) };
      let (lp, ls) = gen_wavelengths(&mut ctx.rng, &crystal);
      let rnd = |r: &mut Rng, lo: f64, hi: f64| (r.range(lo, hi) * 1e4).round() / 1e4;
      let cphi = rnd(&mut ctx.rng, 0.0, 360.0);
      let cth = rnd(&mut ctx.rng, 0.0, 90.0);
      let len = rnd(&mut ctx.rng, 1000.0, 30000.0);
      let t = rnd(&mut ctx.rng, 0.0, 100.0);
      let ths = if auto_theta || ctx.rng.coin() { 0.0 } else { rnd(&mut ctx.rng, 0.0, 2.8) };
      let phs = rnd(&mut ctx.rng, 0.0, 360.0);
      let lp_nm = (lp * 1e9 * 1e3).round() / 1e3;
      let ls_nm = (ls * 1e9 * 1e3).round() / 1e3;
      config_case(ctx, &crystal, pm, cphi, cth, len, t, lp_nm, ls_nm, ths, phs, auto_theta);

      // targeted (Err clause through the configuration route): auto poling on a crystal cut 0.05°…1° away from its
      // birefringent phase-matching angle, collinear, with the crystal shorter than the needed period by a factor 1.05…10
      if k % 2 == 0 && crystal != CrystalType::BiBO_1 && crystal != CrystalType::KTP {
        let pm3 = *ctx.rng.pick(&pms3);
        let (lp_m, ls_m) = (lp_nm * 1e-9, ls_nm * 1e-9);
        let cs0 = mk_setup(crystal.clone(), pm3, 0.0, cphi.to_radians(), 2e-3, t, false);
        let (sg, pu) = mk_beams(pm3, lp_m, ls_m, 0.0, 0.0, 100e-6);
        if let Some(auto) = guard(|| *(cs0.optimum_theta(&sg, &pu) / RAD)) {
          let mut c1 = cs0.clone();
          c1.theta = auto * RAD;
          if dkz(&sg, &pu, &c1, &PeriodicPoling::Off).abs() < 1.0 {
            let delta = ctx.rng.log_range(0.05, 1.0) * if ctx.rng.coin() { 1.0 } else { -1.0 };
            let cth2 = rnd(&mut ctx.rng, 0.0, 0.0) + ((auto.to_degrees() + delta) * 1e4).round() / 1e4;
            c1.theta = cth2.to_radians() * RAD;
            let z = dkz(&sg, &pu, &c1, &PeriodicPoling::Off);
            let needed_um = TAU / z.abs() * 1e6;
            let factor = ctx.rng.log_range(1.05, 10.0);
            let l_um = ((needed_um / factor) * 1e4).round() / 1e4;
            if (1000.0..=30000.0).contains(&l_um) && (0.0..=90.0).contains(&cth2) {
              ctx.count("config/period/targeted-needed-longer-than-L");
              config_case(ctx, &crystal, pm3, cphi, cth2, l_um, t, lp_nm, ls_nm, 0.0, phs, false);
            }
            // and the mirror case: the crystal comfortably longer than the needed period (must be poled and nulled)
            let l2 = ((needed_um * ctx.rng.log_range(1.05, 5.0)) * 1e4).round() / 1e4;
            if (1000.0..=30000.0).contains(&l2) && (0.0..=90.0).contains(&cth2) {
              ctx.count("config/period/targeted-needed-shorter-than-L");
              config_case(ctx, &crystal, pm3, cphi, cth2, l2, t, lp_nm, ls_nm, 0.0, phs, false);
            }
          }
        }
      }
    }
  }

  if mode == "all" || mode == "theta" {
    // the design-phase observation D3 and the test-suite's BBO example
    {
      let cs = mk_setup(CrystalType::BiBO_1, PMType::Type2_e_eo, 0.0, 0.0, 2e-3, 20.0, false);
      theta_case(ctx, &spdc0, &cs, 775e-9, 1550e-9, true);
      // the test-suite's BBO example from flipped / tilted prior orientations
      for prior_deg in [0.0f64, 180.0, 160.0, -75.0, -179.0, 90.0, -3.0] {
        let cs = mk_setup(CrystalType::BBO_1, PMType::Type2_e_eo, prior_deg.to_radians(), 0.0, 2e-3, 20.0, false);
        theta_case(ctx, &spdc0, &cs, 775e-9, 1550e-9, true);
      }
    }
    let pms = [PMType::Type1_e_oo, PMType::Type2_e_eo, PMType::Type2_e_oe];
    for _ in 0..n_theta {
      let crystal = ctx.rng.pick(&cr).clone();
      let pm = *ctx.rng.pick(&pms);
      let cphi = match ctx.rng.below(4) {
        0 => 0.0,
        _ => ctx.rng.range(0.0, TAU),
      };
      let celsius = ctx.rng.range(0.0, 100.0);
      let length = ctx.rng.range(1e-3, 30e-3);
      let (lp, ls) = gen_wavelengths(&mut ctx.rng, &crystal);
      // the PRIOR crystal angle is arbitrary in (−180°, 180°]
      let start = match ctx.rng.below(8) {
        0 => std::f64::consts::PI,
        1 => 160f64.to_radians(),
        2 => (-75f64).to_radians(),
        3 => (-179f64).to_radians(),
        4 => 0.0,
        _ => ctx.rng.range(-std::f64::consts::PI, std::f64::consts::PI),
      };
      let cs = mk_setup(crystal, pm, start, cphi, length, celsius, false);
      let routes = ctx.rng.below(3) == 0;
      theta_case(ctx, &spdc0, &cs, lp, ls, routes);
    }
  }
  replay_auto(ctx);
  let _ = S;
}
