//! C18 — parameter sweeps: the 25 setter paths, unknown paths, sweep order, swept values
use crate::common::*;
use crate::fam::config::*;
use crate::fam::pmtype::enc;
use serde_json::Value;
use spdcalc::beam::Beam;
use spdcalc::dim::ucum::{DEG, M, RAD};
use spdcalc::math::Integrator;
use spdcalc::prelude::*;
use spdcalc::{PeriodicPoling, Sign};

pub const PATHS: [&str; 25] = [
  "crystal.phi_deg",
  "crystal.theta_deg",
  "crystal.length_um",
  "crystal.temperature_c",
  "signal.theta_deg",
  "signal.theta_external_deg",
  "signal.phi_deg",
  "signal.frequency_thz",
  "signal.wavelength_nm",
  "signal.waist_um",
  "signal.waist_position_um",
  "idler.theta_deg",
  "idler.theta_external_deg",
  "idler.phi_deg",
  "idler.frequency_thz",
  "idler.wavelength_nm",
  "idler.waist_um",
  "idler.waist_position_um",
  "pump.frequency_thz",
  "pump.wavelength_nm",
  "pump.waist_um",
  "pump.average_power_mw",
  "pump.bandwidth_nm",
  "periodic_poling.poling_period_um",
  "deff_pm_per_volt",
];

/// the configuration field in which a path's effect is visible
fn field_of(path: &str) -> String {
  if let Some(b) = path.strip_suffix(".frequency_thz") {
    format!("{}.wavelength_nm", b)
  } else if let Some(b) = path.strip_suffix(".theta_external_deg") {
    format!("{}.theta_deg", b)
  } else {
    path.to_string()
  }
}

fn is_ext(path: &str) -> bool {
  path.ends_with("theta_external_deg") || path == "periodic_poling.poling_period_um"
}

/// values across the field's physical range; `canon` keeps to the range in which the statement
/// promises read-back of the very value (angles in their canonical interval, positive period)
fn extreme_value(r: &mut Rng, path: &str, leaf: &str, base: &SPDC) -> Option<f64> {
  let lg = |r: &mut Rng, lo: f64, hi: f64| r.log_range(lo, hi);
  Some(match (path, leaf) {
    (_, "bandwidth_nm") => lg(r, 1e-7, 1e2),
    (_, "waist_um") => lg(r, 1e-2, 1e5),
    (_, "average_power_mw") => lg(r, 1e-9, 1e6),
    (_, "deff_pm_per_volt") => lg(r, 1e-6, 1e3),
    (_, "length_um") => lg(r, 1e-1, 1e6),
    (_, "poling_period_um") => lg(r, 1e-3, 1e5),
    (_, "waist_position_um") => lg(r, 1e-6, 1e6) * if r.coin() { -1.0 } else { 1.0 },
    (_, "temperature_c") => *r.pick(&[-273.0, -200.0, -1e-7, 1e-7, 600.0, 1500.0]),
    ("crystal.phi_deg", _) | ("crystal.theta_deg", _) => *r.pick(&[-400.0, 400.0, 1e-9, -1e-9, 359.99999, 720.0]),
    ("pump.wavelength_nm", _) => base.pump.vacuum_wavelength().value_unsafe * 1e9 * r.range(0.3, 1.0),
    (_, "wavelength_nm") => {
      let b: &Beam = if path.starts_with("signal") { &base.signal } else { &base.idler };
      b.vacuum_wavelength().value_unsafe * 1e9 * r.range(1.0, 4.0)
    }
    ("pump.frequency_thz", _) => 299_792.458 / (base.pump.vacuum_wavelength().value_unsafe * 1e9) * r.range(1.0, 3.0),
    (_, "frequency_thz") => {
      let b: &Beam = if path.starts_with("signal") { &base.signal } else { &base.idler };
      299_792.458 / (b.vacuum_wavelength().value_unsafe * 1e9) * r.range(0.25, 1.0)
    }
    (_, "theta_deg") => *r.pick(&[1e-9, -1e-9, 179.99999, -179.99999, 1e-300]),
    (_, "phi_deg") => *r.pick(&[1e-9, 359.9999, 1e-300, 180.0]),
    _ => return None,
  })
}

/// the swept setup's physical value behind a path, in the path's unit, read through the getters
/// (the configuration rounds to 4 decimals and would hide differences below 1e-4)
fn physical_of(s: &SPDC, path: &str) -> Option<f64> {
  let deg = DEG.value_unsafe;
  let two_pi = spdcalc::TWO_PI;
  let (head, leaf) = path.split_once('.').unwrap_or(("", path));
  let beam: Option<&Beam> = match head {
    "signal" => Some(&s.signal),
    "idler" => Some(&s.idler),
    "pump" => Some(&s.pump),
    _ => None,
  };
  Some(match (head, leaf) {
    ("crystal", "phi_deg") => s.crystal_setup.phi.value_unsafe / deg,
    ("crystal", "theta_deg") => s.crystal_setup.theta.value_unsafe / deg,
    ("crystal", "length_um") => s.crystal_setup.length.value_unsafe / 1e-6,
    ("crystal", "temperature_c") => s.crystal_setup.temperature.value_unsafe - 273.15,
    (_, "theta_deg") => beam?.theta_internal().value_unsafe / deg,
    (_, "phi_deg") => beam?.phi().value_unsafe / deg,
    (_, "frequency_thz") => beam?.frequency().value_unsafe / (two_pi * 1e12),
    (_, "wavelength_nm") => beam?.vacuum_wavelength().value_unsafe / 1e-9,
    (_, "waist_um") => {
      let w = beam?.waist();
      if w.x != w.y {
        return None;
      }
      w.x.value_unsafe / 1e-6
    }
    ("signal", "waist_position_um") => s.signal_waist_position.value_unsafe / 1e-6,
    ("idler", "waist_position_um") => s.idler_waist_position.value_unsafe / 1e-6,
    ("pump", "average_power_mw") => s.pump_average_power.value_unsafe,
    ("pump", "bandwidth_nm") => s.pump_bandwidth.value_unsafe / 1e-9,
    ("periodic_poling", "poling_period_um") => match &s.pp {
      PeriodicPoling::On { period, .. } => period.value_unsafe / 1e-6,
      PeriodicPoling::Off => return None,
    },
    ("", "deff_pm_per_volt") => s.deff.value_unsafe / 1e-15,
    _ => return None,
  })
}

/// requested value vs physical value: 1e-12 relative (kelvin offset and angle normalisation: absolute)
fn physical_matches(path: &str, v: f64, got: f64) -> bool {
  let leaf = path.rsplit('.').next().unwrap();
  let want = if leaf == "poling_period_um" { v.abs() } else { v };
  let abs_floor = match leaf {
    "temperature_c" => 1e-10,
    "theta_deg" | "phi_deg" => 1e-10,
    _ => 0.0,
  };
  got == want || (got - want).abs() <= 1e-12 * want.abs().max(got.abs()) + abs_floor
}

fn gen_value(r: &mut Rng, path: &str, canon: bool, base: &SPDC) -> f64 {
  let d4 = |r: &mut Rng, lo: f64, hi: f64| {
    let v = r.range(lo, hi);
    match r.below(3) {
      0 => (v * 1e4).round() / 1e4,
      1 => (v * 10.).round() / 10.,
      _ => v,
    }
  };
  let leaf = path.rsplit('.').next().unwrap();
  // a third of the canonical draws spans the whole physical range of the field, log-uniform over
  // many decades (very small and very large magnitudes)
  if canon && r.below(3) == 0 {
    if let Some(v) = extreme_value(r, path, leaf, base) {
      return v;
    }
  }
  match (path, leaf) {
    ("crystal.phi_deg", _) => d4(r, if canon { 0. } else { -360. }, 360.),
    ("crystal.theta_deg", _) => d4(r, if canon { 0. } else { -180. }, 180.),
    (_, "length_um") => d4(r, 50., 50_000.),
    (_, "temperature_c") => d4(r, -50., 250.),
    (_, "theta_deg") => {
      if canon {
        d4(r, -179.9, 180.)
      } else {
        *r.pick(&[-400., -180., 180., 270., 400., 0., -0.0, 360.])
      }
    }
    (_, "theta_external_deg") => {
      // sweeps symmetric about the pump direction: the setter takes |v|
      if canon {
        d4(r, -60., 60.)
      } else {
        d4(r, -89., 89.)
      }
    }
    (_, "phi_deg") => {
      if canon {
        d4(r, 0., 359.99)
      } else {
        *r.pick(&[-400., -90., 360., 400., 720., -0.0])
      }
    }
    // wavelengths / frequencies relative to the base so that the swept setup stays a down-conversion
    // (pump wavelength never above, signal and idler never below their base values)
    ("pump.frequency_thz", _) => {
      let nu = 299_792.458 / (base.pump.vacuum_wavelength().value_unsafe * 1e9);
      d4(r, nu, 1.3 * nu)
    }
    (_, "frequency_thz") => {
      let b: &Beam = if path.starts_with("signal") { &base.signal } else { &base.idler };
      let nu = 299_792.458 / (b.vacuum_wavelength().value_unsafe * 1e9);
      d4(r, 0.77 * nu, nu)
    }
    ("pump.wavelength_nm", _) => {
      let l = base.pump.vacuum_wavelength().value_unsafe * 1e9;
      d4(r, 0.75 * l, l)
    }
    (_, "wavelength_nm") => {
      let b: &Beam = if path.starts_with("signal") { &base.signal } else { &base.idler };
      let l = b.vacuum_wavelength().value_unsafe * 1e9;
      d4(r, l, 1.3 * l)
    }
    (_, "waist_um") => d4(r, 5., 1000.),
    (_, "waist_position_um") => d4(r, -5000., 5000.),
    (_, "average_power_mw") => d4(r, 0.01, 1000.),
    (_, "bandwidth_nm") => d4(r, 0.01, 30.),
    (_, "poling_period_um") => {
      if canon {
        d4(r, 1., 500.)
      } else {
        -d4(r, 1., 500.)
      }
    }
    (_, "deff_pm_per_volt") => d4(r, 0.05, 50.),
    _ => 1.0,
  }
}

/// Crystals given by refractive-index expressions (`CrystalType::Expr`; l = wavelength in µm, T = °C − 20):
/// the formula of a built-in crystal and genuinely different ones — positive uniaxial (ne > no: the beam
/// labelled "ordinary" sees the direction-dependent index), weakly birefringent, biaxial.
/// (name, kind, crystal theta_deg, crystal phi_deg)
pub const EXPR_CRYSTALS: [(&str, &str, f64, f64); 6] = [
  // the BBO expression of the crate's documentation (negative uniaxial)
  (
    "expr-bbo",
    r#"{"no":"sqrt(2.7359+0.01878/(l^2-0.01822)-0.01354*l^2) - 9.3e-6 * T","ne":"sqrt(2.3753+0.01224/(l^2-0.01667)-0.01516*l^2) - 16.6e-6 * T"}"#,
    45.0,
    0.0,
  ),
  // YVO4 (positive uniaxial, strong)
  (
    "expr-yvo4",
    r#"{"no":"sqrt(3.77834 + 0.069736/(l^2 - 0.04724) - 0.0108133*l^2)","ne":"sqrt(4.59905 + 0.110534/(l^2 - 0.04813) - 0.0122676*l^2)"}"#,
    45.0,
    0.0,
  ),
  // crystalline quartz (positive uniaxial, weak)
  (
    "expr-quartz",
    r#"{"no":"sqrt(1 + 0.663044*l^2/(l^2-0.0036) + 0.517852*l^2/(l^2-0.011236) + 0.175912*l^2/(l^2-0.014161) + 0.565380*l^2/(l^2-78.216336) + 1.675299*l^2/(l^2-430.230564))","ne":"sqrt(1 + 0.665721*l^2/(l^2-0.0036) + 0.503511*l^2/(l^2-0.011236) + 0.214792*l^2/(l^2-0.014161) + 0.539173*l^2/(l^2-77.299264) + 1.807613*l^2/(l^2-388.09))"}"#,
    30.0,
    15.0,
  ),
  // a positive uniaxial crystal with a temperature term
  (
    "expr-positive-t",
    r#"{"no":"sqrt(4.0 + 0.05/(l^2 - 0.03) - 0.01*l^2) + 1.2e-5 * T","ne":"sqrt(5.5 + 0.08/(l^2 - 0.03) - 0.012*l^2) + 4.5e-5 * T"}"#,
    60.0,
    200.0,
  ),
  // KTP-like biaxial
  (
    "expr-biaxial-ktp",
    r#"{"nx":"sqrt(3.0065 + 0.03901/(l^2 - 0.04251) - 0.01327*l^2)","ny":"sqrt(3.0333 + 0.04154/(l^2 - 0.04547) - 0.01408*l^2)","nz":"sqrt(3.3134 + 0.05694/(l^2 - 0.05658) - 0.01682*l^2)"}"#,
    90.0,
    0.0,
  ),
  // BiBO-like biaxial, off the principal planes
  (
    "expr-biaxial-bibo",
    r#"{"nx":"sqrt(3.0740 + 0.0323/(l^2 - 0.0316) - 0.01337*l^2)","ny":"sqrt(3.1685 + 0.0373/(l^2 - 0.0346) - 0.01750*l^2)","nz":"sqrt(3.6545 + 0.0511/(l^2 - 0.0371) - 0.0226*l^2)"}"#,
    57.0,
    33.0,
  ),
];

pub const PM_TYPES: [&str; 5] = ["Type0_o_oo", "Type0_e_ee", "Type1_e_oo", "Type2_e_eo", "Type2_e_oe"];

/// a setup on expression crystal `k` with phase-matching type `pm`; `variant` 0: collinear, idler "auto",
/// poling off; 1: non-collinear signal, explicit idler, poling on
pub fn expr_base(k: usize, pm: &str, variant: usize) -> Option<SPDC> {
  let (_, kind, ctheta, cphi) = EXPR_CRYSTALS[k % EXPR_CRYSTALS.len()];
  let js = if variant == 0 {
    format!(
      r#"{{"crystal":{{"kind":{},"pm_type":"{}","phi_deg":{},"theta_deg":{},"length_um":2000,"temperature_c":20}},
      "pump":{{"wavelength_nm":775,"waist_um":100,"bandwidth_nm":5.35,"average_power_mw":1}},
      "signal":{{"wavelength_nm":1550,"phi_deg":0,"theta_deg":0,"waist_um":100,"waist_position_um":"auto"}},
      "idler":"auto","deff_pm_per_volt":1}}"#,
      kind, pm, cphi, ctheta
    )
  } else {
    format!(
      r#"{{"crystal":{{"kind":{},"pm_type":"{}","phi_deg":{},"theta_deg":{},"length_um":3500,"temperature_c":41.5}},
      "pump":{{"wavelength_nm":775,"waist_um":150,"bandwidth_nm":1.2,"average_power_mw":12}},
      "signal":{{"wavelength_nm":1500,"phi_deg":25,"theta_deg":1.25,"waist_um":70,"waist_position_um":-900}},
      "idler":{{"wavelength_nm":1603.4483,"phi_deg":205,"theta_deg":1.4,"waist_um":80,"waist_position_um":-850}},
      "periodic_poling":{{"poling_period_um":37.5}},"deff_pm_per_volt":3.2}}"#,
      kind, pm, cphi, ctheta
    )
  };
  match guard(|| SPDC::from_json(&js)) {
    Some(Ok(s)) => Some(s),
    _ => None,
  }
}

/// The Snell clause of the statement on a swept setup, through the public getters only: the beam's stored
/// internal angle θi, the index n the crate uses for that beam along its stored direction
/// (`Beam::refractive_index`), and the external angle n·sin θi refracts to.
/// (internal_deg, index, refracts_to_deg, snell_residual = sin|v| − n·sin θi)
fn snell_of(s: &SPDC, beam: &str, v_deg: f64) -> Option<(f64, f64, f64, f64)> {
  let b: &Beam = if beam == "signal" { &s.signal } else { &s.idler };
  guard(|| {
    let ti = b.theta_internal().value_unsafe;
    let n = *b.refractive_index(b.frequency(), &s.crystal_setup);
    let x = n * ti.sin();
    (ti.to_degrees(), n, x.asin().to_degrees(), v_deg.abs().to_radians().sin() - x)
  })
}

/// One point of a sweep through `<beam>.theta_external_deg`, either followed by a path that leaves the
/// beam's refraction alone (`lead` = None: crystal length re-set to its value) or preceded by a path that
/// changes what the refraction depends on (`lead` = crystal angle / temperature, the beam's wavelength or
/// azimuth: the external-angle setter then sees the changed setup).
/// S: the stored internal angle is the Snell-equivalent of the requested angle, sin θe = n(θi)·sin θi, to the
///    resolution of the configuration field (1e-4°);
/// K: the stored angle and its read-back against the model of the Snell inversion (`sweep_snell`).
fn snell_case(ctx: &mut Ctx, name: &str, base: &SPDC, beam: &str, v: f64, lead: Option<(&str, f64)>) {
  let path = format!("{}.theta_external_deg", beam);
  let len_um = base.crystal_setup.length.value_unsafe / 1e-6;
  let (p1, v1, p2, v2): (&str, f64, &str, f64) = match lead {
    Some((p, x)) => (p, x, path.as_str(), v),
    None => (path.as_str(), v, "crystal.length_um", len_um),
  };
  let pol = pol_tok(if beam == "signal" { base.signal.polarization() } else { base.idler.polarization() });
  let det = format!("base={} pm_type={:?} polarization={} p1={} v1={:?} p2={} v2={:?}", name, base.crystal_setup.pm_type, pol, p1, v1, p2, v2);
  ctx.count(&format!("snell/{}/{}", if name.contains("expr") { "expr" } else { "builtin" }, pol));
  let swept = match sweep_one(base, p1, v1, p2, v2) {
    Some(Ok(s)) => s,
    None => {
      ctx.s("C18.frame", false, "setter/panic", &det);
      return;
    }
    Some(Err(e)) => {
      ctx.s("C18.frame", false, "setter/rejected-known-path", &format!("err={:?} {}", e, det));
      return;
    }
  };
  match snell_of(&swept, beam, v) {
    Some((ti, n, back, resid)) => {
      let ok = ti >= 0.0 && (back - v.abs()).abs() <= 1e-4;
      ctx.s(
        "C18.frame",
        ok,
        "setter/theta_external_deg/snell",
        &format!("path={} value={:?} internal_deg={:?} index={:?} refracts_to_deg={:?} snell_residual={:e} {}", path, v, ti, n, back, resid, det),
      );
    }
    None => ctx.s("C18.frame", false, "setter/theta_external_deg/snell-panic", &format!("path={} value={:?} {}", path, v, det)),
  }
  // K: principal indices of the swept setup's crystal at the beam's wavelength are passed in
  let b: &Beam = if beam == "signal" { &swept.signal } else { &swept.idler };
  let cs = &swept.crystal_setup;
  if let Some(n) = guard(|| *cs.crystal.get_indices(b.vacuum_wavelength(), cs.temperature)) {
    let back = guard(|| b.theta_external(cs).value_unsafe);
    ctx.k(
      "sweep_snell",
      &format!(
        "{} {} {} {} {} {} {} {}",
        fl(n.x),
        fl(n.y),
        fl(n.z),
        fl(cs.theta.value_unsafe),
        fl(cs.phi.value_unsafe),
        fl(b.phi().value_unsafe),
        pol,
        fl((v * DEG).value_unsafe.abs())
      ),
      &format!("{} {}", fl(b.theta_internal().value_unsafe), back.map(fl).unwrap_or_else(|| "PANIC".into())),
    );
  }
}

/// independent Snell solve by bisection on [0°, 90°] with the index the crate reports for the beam
fn snell_bisect(s: &SPDC, beam: &str, v_deg: f64) -> Option<f64> {
  guard(|| {
    let target = v_deg.abs().to_radians().sin();
    let mut b: Beam = if beam == "signal" { s.signal.clone().into() } else { s.idler.clone().into() };
    let (mut lo, mut hi) = (0.0f64, std::f64::consts::FRAC_PI_2);
    for _ in 0..200 {
      let mid = 0.5 * (lo + hi);
      b.set_theta_internal(mid * RAD);
      let n = *b.refractive_index(b.frequency(), &s.crystal_setup);
      if target - n * mid.sin() > 0.0 {
        lo = mid;
      } else {
        hi = mid;
      }
    }
    0.5 * (lo + hi)
  })
}

/// swept spectrum values of (<beam>.theta_external_deg × crystal.length_um) against setups constructed by
/// hand: internal angle from the independent bisection, length written directly
fn snell_values_case(ctx: &mut Ctx, name: &str, base: &SPDC, beam: &str, amax: f64, nx: usize) {
  let integ = Integrator::Simpson { divs: 10 };
  let path = format!("{}.theta_external_deg", beam);
  let len_um = base.crystal_setup.length.value_unsafe / 1e-6;
  let steps = Steps2D((0.0, amax, nx), (len_um, 1.5 * len_um, 2));
  let det = format!("base={} pm_type={:?} p1={} p2=crystal.length_um x=(0.0,{:?},{}) y=({:?},{:?},2)", name, base.crystal_setup.pm_type, path, amax, nx, len_um, 1.5 * len_um);
  let swept = guard(|| SPDCIter::try_new(base.clone(), path.as_str(), "crystal.length_um", steps).map(|it| it.jsi_values(integ)));
  // The by-hand internal angle comes from an INDEPENDENT Snell solve; the crate's own inverse is only required to
  // reproduce the external angle within 1e-5 degrees (C13), i.e. the two internal angles may differ by ~2e-7 rad, and a
  // sharply peaked spectrum turns that into more than 1e-6 of its value (seed 83: 1.1e-6).  The reference is therefore the
  // RANGE of the by-hand value over internal angles within that tolerance.
  let dti = 2.0e-7;
  let want3: Option<Vec<[f64; 3]>> = guard(|| {
    (0..2 * nx)
      .map(|k| {
        let ti = snell_bisect(base, beam, lin(0.0, amax, nx, k % nx)).unwrap_or(f64::NAN);
        let mut out = [0.0f64; 3];
        for (j, d) in [0.0, dti, -dti].iter().enumerate() {
          let mut s = base.clone();
          if beam == "signal" {
            s.signal.set_theta_internal((ti + d) * RAD);
          } else {
            s.idler.set_theta_internal((ti + d) * RAD);
          }
          s.crystal_setup.length = lin(len_um, 1.5 * len_um, 2, k / nx) * MICRO * M;
          out[j] = jsi_center(&s, integ);
        }
        out
      })
      .collect()
  });
  let want: Option<Vec<f64>> = want3.as_ref().map(|v| v.iter().map(|t| t[0]).collect());
  match (swept, want) {
    (Some(Ok(a)), Some(b)) => {
      let peak = b.iter().fold(0.0f64, |m, x| m.max(x.abs()));
      let close = |x: f64, y: f64| x == y || (x - y).abs() <= 1e-6 * x.abs().max(y.abs()) + 1e-9 * peak || (x.is_nan() && y.is_nan());
      let w3 = want3.as_ref().unwrap();
      let within = |k: usize| {
        let t = w3[k];
        let (lo, hi) = (t[0].min(t[1]).min(t[2]), t[0].max(t[1]).max(t[2]));
        // within the range spanned by the tolerated internal angles (widened by the same relative / absolute slack)
        close(a[k], b[k]) || (a[k] >= lo - (1e-6 * lo.abs() + 1e-9 * peak) && a[k] <= hi + (1e-6 * hi.abs() + 1e-9 * peak))
      };
      let bad = if a.len() != b.len() { Some(0) } else { (0..a.len()).find(|k| !within(*k)) };
      ctx.count(if b.iter().filter(|x| **x > 1e-3 * peak).count() * 2 > b.len() { "snell-values/mostly-lit" } else { "snell-values/mostly-dark" });
      match bad {
        None => ctx.s("C18.values", true, "sweep/jsi-values-external-angle", &det),
        Some(k) => ctx.s(
          "C18.values",
          false,
          "sweep/jsi-values-external-angle",
          &format!("k={} swept={:e} individually={:e} count={} {}", k, a.get(k).copied().unwrap_or(f64::NAN), b.get(k).copied().unwrap_or(f64::NAN), a.len(), det),
        ),
      }
    }
    (None, _) => ctx.s("C18.values", false, "sweep/jsi-values-panic", &det),
    (_, None) => ctx.count("snell-values/by-hand-panic"),
    _ => ctx.s("C18.values", false, "sweep/jsi-values-failed", &det),
  }
}

fn base_setups(ctx: &mut Ctx) -> Vec<(String, SPDC)> {
  let mut v: Vec<(String, SPDC)> = vec![];
  if let Some(s) = guard(SPDC::default) {
    v.push(("default".into(), s));
  }
  let doc = r#"{"crystal":{"kind":"KTP","pm_type":"e->eo","phi_deg":0,"theta_deg":90,"length_um":14000,"temperature_c":20},
    "pump":{"wavelength_nm":775,"waist_um":200,"bandwidth_nm":0.5,"average_power_mw":300},
    "signal":{"wavelength_nm":1550,"phi_deg":0,"theta_external_deg":0,"waist_um":100,"waist_position_um":"auto"},
    "idler":"auto","periodic_poling":{"poling_period_um":"auto"},"deff_pm_per_volt":7.6}"#;
  if let Some(Ok(s)) = guard(|| SPDC::from_json(doc)) {
    v.push(("ktp-ppauto".into(), s));
  }
  let bbo = r#"{"crystal":{"kind":"BBO_1","pm_type":"e->oo","phi_deg":15,"theta_deg":"auto","length_um":2000,"temperature_c":35.5},
    "pump":{"wavelength_nm":405,"waist_um":150,"bandwidth_nm":0.2,"average_power_mw":20,"spectrum_threshold":0.001},
    "signal":{"wavelength_nm":780,"phi_deg":30,"theta_external_deg":3,"waist_um":60,"waist_position_um":-300},
    "idler":"auto","deff_pm_per_volt":2.1}"#;
  if let Some(Ok(s)) = guard(|| SPDC::from_json(bbo)) {
    v.push(("bbo-noncollinear".into(), s));
  }
  let apod = r#"{"crystal":{"kind":"LiNbO3_1","pm_type":"Type0_e_ee","theta_deg":90,"length_um":5000,"temperature_c":80},
    "pump":{"wavelength_nm":532,"waist_um":80,"bandwidth_nm":1.5,"average_power_mw":5},
    "signal":{"wavelength_nm":1000,"theta_deg":0.5,"phi_deg":200,"waist_um":45,"waist_position_um":-1200.5},
    "idler":{"wavelength_nm":1136.7521,"theta_deg":0.6,"phi_deg":20,"waist_um":55},
    "periodic_poling":{"poling_period_um":6.9,"apodization":{"kind":"Gaussian","parameter":{"fwhm_um":1600}}},"deff_pm_per_volt":14}"#;
  if let Some(Ok(s)) = guard(|| SPDC::from_json(apod)) {
    v.push(("ln-apodized".into(), s));
  }
  for (name, theta, period) in [("bbo-pp-neg", 44.0, 51.4), ("bbo-pp-pos", 12.0, 64.9)] {
    let js = format!(
      r#"{{"crystal":{{"kind":"BBO_1","pm_type":"e->eo","phi_deg":0,"theta_deg":{},"length_um":2000,"temperature_c":20}},
      "pump":{{"wavelength_nm":775,"waist_um":100,"bandwidth_nm":5.35,"average_power_mw":1}},
      "signal":{{"wavelength_nm":1550,"phi_deg":0,"theta_deg":0,"waist_um":100,"waist_position_um":-600}},
      "idler":{{"wavelength_nm":1550,"phi_deg":180,"theta_deg":0,"waist_um":100,"waist_position_um":-600}},
      "periodic_poling":{{"poling_period_um":{}}},"deff_pm_per_volt":1}}"#,
      theta, period
    );
    if let Some(Ok(s)) = guard(|| SPDC::from_json(&js)) {
      v.push((name.into(), s));
    }
  }
  let nextra = if ctx.thorough { 8 } else { 2 };
  let mut tries = 0;
  while v.len() < 6 + nextra && tries < 200 {
    tries += 1;
    let d = gen_valid(&mut ctx.rng);
    if let Some(Ok(s)) = guard(|| SPDC::from_json(d.json().to_string())) {
      v.push((format!("random{}", tries), s));
    }
  }
  // expression crystals: a negative uniaxial formula, a positive uniaxial and a biaxial one (all six in
  // thorough), phase-matching type and variant seeded
  let picks: Vec<usize> = if ctx.thorough {
    (0..EXPR_CRYSTALS.len()).collect()
  } else {
    vec![ctx.rng.below(1), 1 + ctx.rng.below(3), 4 + ctx.rng.below(2)]
  };
  for k in picks {
    let pm = *ctx.rng.pick(&PM_TYPES);
    let variant = ctx.rng.below(2);
    if let Some(s) = expr_base(k, pm, variant) {
      v.push((format!("{}/{}/{}", EXPR_CRYSTALS[k].0, pm, variant), s));
    }
  }
  v
}

/// result of the real sweep machinery on a 1×1 grid
fn sweep_one(base: &SPDC, p1: &str, v1: f64, p2: &str, v2: f64) -> Option<Result<SPDC, String>> {
  guard(|| {
    let it = SPDCIter::try_new(base.clone(), p1, p2, Steps2D((v1, v1, 1), (v2, v2, 1)))?;
    let mut all: Vec<SPDC> = it.into_iter().collect();
    if all.len() != 1 {
      return Err(format!("count={}", all.len()));
    }
    Ok(all.remove(0))
  })
}

/// explicit public call a path's setter relies on, evaluated on state `s`
fn ext_for(s: &SPDC, path: &str, v: f64, slot: usize) -> String {
  let beam: Option<&Beam> = match path {
    "signal.theta_external_deg" => Some(&s.signal),
    "idler.theta_external_deg" => Some(&s.idler),
    _ => None,
  };
  if let Some(b) = beam {
    let r = guard(|| Beam::calc_internal_theta_from_external(b, (v * DEG).value_unsafe.abs() * RAD, &s.crystal_setup));
    return match r {
      Some(a) => format!("snell{}={}", slot, fl(a.value_unsafe)),
      None => format!("snell{}=PANIC", slot),
    };
  }
  if path == "periodic_poling.poling_period_um" {
    let r = guard(|| PeriodicPoling::compute_sign(&s.signal, &s.pump, &s.crystal_setup));
    return match r {
      Some(x) => format!("sign{}={}", slot, if x == Sign::NEGATIVE { 1 } else { 0 }),
      None => format!("sign{}=PANIC", slot),
    };
  }
  String::new()
}

fn same_field(p1: &str, p2: &str) -> bool {
  field_of(p1) == field_of(p2)
}

fn on_grid(x: f64) -> bool {
  ((x * 1e4).round() / 1e4 - x).abs() <= 1e-12 * x.abs().max(1.0)
}
fn rounded_of(got: f64, phys: f64) -> bool {
  on_grid(got) && (got - phys).abs() <= 0.5e-4 * (1.0 + 1e-9) + 1e-11 * phys.abs()
}

/// expected value of the named field by the statement, or a reason why not
/// `pre` = the setup the path's setter was applied to; `disturbed` = a later setter changed what the
/// Snell relation of that beam depends on (crystal, the beam's wavelength or azimuth)
fn expect_field(pre: &SPDC, swept: &SPDC, path: &str, v: f64, got: &Value, disturbed: bool) -> Result<(), String> {
  let g = got.as_f64().ok_or_else(|| format!("field-not-numeric:{}", got))?;
  let leaf = path.rsplit('.').next().unwrap();
  match leaf {
    "frequency_thz" => {
      // THz = 10^12 cycles per second  ⇒  λ = c / ν
      let want = 299_792_458.0 / (v * 1e12) / 1e-9;
      if rounded_of(g, want) {
        Ok(())
      } else {
        Err(format!("got_wavelength_nm={:?} want_wavelength_nm={:.4}", g, want))
      }
    }
    "theta_external_deg" => {
      let b: &Beam = if path.starts_with("signal") { &swept.signal } else { &swept.idler };
      let internal = b.theta_internal().value_unsafe / DEG.value_unsafe;
      let back = b.theta_external(&swept.crystal_setup).value_unsafe / DEG.value_unsafe;
      if !rounded_of(g, internal) {
        return Err(format!("got={:?} internal_deg={:?}", g, internal));
      }
      // the stored internal angle refracts back to |v| …
      if !disturbed && (back - v.abs()).abs() > 1e-4 {
        return Err(format!("external_readback_deg={:?} requested_abs={:?}", back, v.abs()));
      }
      // … and is what `Beam::set_theta_external` stores on the beam the setter was applied to
      let pb: &Beam = if path.starts_with("signal") { &pre.signal } else { &pre.idler };
      let mut probe = pb.clone();
      if guard(|| {
        probe.set_theta_external(v * DEG, &pre.crystal_setup);
      })
      .is_some()
      {
        let want = probe.theta_internal().value_unsafe;
        if want != b.theta_internal().value_unsafe {
          return Err(format!("internal_rad={:e} set_theta_external_rad={:e}", b.theta_internal().value_unsafe, want));
        }
      }
      Ok(())
    }
    "poling_period_um" => {
      if !rounded_of(g, v.abs()) {
        return Err(format!("got={:?} want={:?}", g, v.abs()));
      }
      let want_sign = guard(|| PeriodicPoling::compute_sign(&pre.signal, &pre.pump, &pre.crystal_setup));
      let got_sign = match &swept.pp {
        PeriodicPoling::On { sign, .. } => Some(*sign),
        _ => None,
      };
      if want_sign != got_sign {
        return Err(format!("sign={:?} derived={:?}", got_sign, want_sign));
      }
      Ok(())
    }
    _ => {
      if rounded_of(g, v) {
        Ok(())
      } else {
        Err(format!("got={:?} want={:?}", g, v))
      }
    }
  }
}

fn cfg_value(s: &SPDC) -> Option<Value> {
  guard(|| serde_json::to_value(s.clone().as_config()).ok()).flatten()
}

/// S: the swept configuration differs from the base configuration only in the named fields
fn frame_case(ctx: &mut Ctx, name: &str, base: &SPDC, p1: &str, v1: f64, p2: &str, v2: f64) {
  let det = format!("base={} p1={} v1={:?} p2={} v2={:?}", name, p1, v1, p2, v2);
  ctx.count(&format!("frame/p1={}", p1));
  let swept = match sweep_one(base, p1, v1, p2, v2) {
    None => {
      ctx.s("C18.frame", false, "setter/panic", &det);
      return;
    }
    Some(Err(e)) => {
      ctx.s("C18.frame", false, "setter/rejected-known-path", &format!("err={:?} {}", e, det));
      return;
    }
    Some(Ok(s)) => s,
  };
  let (cb, cs) = match (cfg_value(base), cfg_value(&swept)) {
    (Some(a), Some(b)) => (a, b),
    _ => {
      ctx.s("C18.frame", false, "setter/as_config-panic", &det);
      return;
    }
  };
  let (mut fb, mut fs) = (vec![], vec![]);
  flatten("", &cb, &mut fb);
  flatten("", &cs, &mut fs);
  let f1 = field_of(p1);
  let f2 = field_of(p2);
  let allowed = |k: &str| {
    k == f1 || k == f2 || ((p1.starts_with("periodic_poling") || p2.starts_with("periodic_poling")) && k.starts_with("periodic_poling"))
  };
  let mut other: Vec<String> = vec![];
  for (k, v) in fs.iter() {
    let old = fb.iter().find(|(kb, _)| kb == k).map(|x| &x.1);
    if old != Some(v) && !allowed(k) {
      other.push(format!("{}:{}->{}", k, old.map(|x| x.to_string()).unwrap_or("missing".into()), v));
    }
  }
  for (k, _) in fb.iter() {
    if !fs.iter().any(|(ks, _)| ks == k) && !allowed(k) {
      other.push(format!("{}:dropped", k));
    }
  }
  // the state the second setter sees = base with the first setter applied
  let mid = match sweep_one(base, p1, v1, p1, v1) {
    Some(Ok(s)) => s,
    _ => base.clone(),
  };
  let disturbs = |later: &str, ext_path: &str| {
    let beam = ext_path.split('.').next().unwrap();
    later.starts_with("crystal.")
      || later == format!("{}.wavelength_nm", beam)
      || later == format!("{}.frequency_thz", beam)
      || later == format!("{}.phi_deg", beam)
  };
  for (slot, (p, v)) in [(p1, v1), (p2, v2)].into_iter().enumerate() {
    let pre: &SPDC = if slot == 0 { base } else { &mid };
    let disturbed = slot == 0 && disturbs(p2, p);
    let f = field_of(p);
    let leaf = p.rsplit('.').next().unwrap();
    let sig_base = format!("setter/{}", leaf);
    let got = fs.iter().find(|(k, _)| *k == f).map(|x| x.1.clone());
    match got {
      None => {
        let sig = if p == "periodic_poling.poling_period_um" && pre.pp == PeriodicPoling::Off {
          "setter/poling_period_um/base-poling-off".to_string()
        } else {
          format!("{}/field-missing", sig_base)
        };
        ctx.s("C18.frame", false, &sig, &format!("path={} value={:?} {}", p, v, det));
      }
      Some(g) => match expect_field(pre, &swept, p, v, &g, disturbed) {
        Ok(()) => ctx.s("C18.frame", true, &sig_base, &format!("path={} value={:?} {}", p, v, det)),
        Err(why) => ctx.s("C18.frame", false, &sig_base, &format!("path={} value={:?} {} {}", p, v, why, det)),
      },
    }
    // the physical value itself, not only its 4-decimal image
    if !p.ends_with("theta_external_deg") {
      if let Some(got) = physical_of(&swept, p) {
        ctx.s(
          "C18.frame",
          physical_matches(p, v, got),
          &format!("{}/physical", sig_base),
          &format!("path={} requested={:e} physical={:e} {}", p, v, got, det),
        );
      }
    }
  }
  ctx.s("C18.frame", other.is_empty(), "setter/other-fields-changed", &format!("changed={} {}", other.join(","), det));
}

/// K: one sweep point, model recomputes `as_config` of the result
fn k_point(ctx: &mut Ctx, base: &SPDC, p1: &str, v1: f64, p2: &str, v2: f64) {
  let res = sweep_one(base, p1, v1, p2, v2);
  let mut ext = vec![];
  if is_ext(p1) {
    ext.push(ext_for(base, p1, v1, 1));
  }
  if is_ext(p2) {
    // the state the second setter sees = base with the first setter applied
    match sweep_one(base, p1, v1, p1, v1) {
      Some(Ok(s1)) => ext.push(ext_for(&s1, p2, v2, 2)),
      _ => ext.push(if p2.ends_with("theta_external_deg") { "snell2=PANIC".into() } else { "sign2=PANIC".into() }),
    }
  }
  let out = match &res {
    None => "PANIC".to_string(),
    Some(Err(_)) => "ERR".to_string(),
    Some(Ok(s)) => match guard(|| s.clone().as_config()) {
      // the configuration shows the period's magnitude only: the stored sign is appended
      Some(c) => format!(
        "{} {}",
        config_tokens(&c, s),
        match &s.pp {
          PeriodicPoling::Off => "sign:off",
          PeriodicPoling::On { sign, .. } => if *sign == Sign::NEGATIVE { "sign:neg" } else { "sign:pos" },
        }
      ),
      None => "PANIC".to_string(),
    },
  };
  ctx.k(
    "sweep_pt",
    &format!("{} | {} {} {} {} ext {}", setup_tokens(base), p1, fl(v1), p2, fl(v2), ext.join(" ")),
    &out,
  );
}

fn derived_sign(s: &SPDC) -> Option<Sign> {
  guard(|| PeriodicPoling::compute_sign(&s.signal, &s.pump, &s.crystal_setup))
}

/// values of path `p1` (in its unit) at which the sign derived for the swept setup differs from /
/// equals the sign stored in the base's poling: (flipping, keeping)
fn sign_scan(base: &SPDC, p1: &str) -> (Vec<f64>, Vec<f64>) {
  let stored = match &base.pp {
    PeriodicPoling::On { sign, .. } => *sign,
    PeriodicPoling::Off => return (vec![], vec![]),
  };
  let lp = base.pump.vacuum_wavelength().value_unsafe * 1e9;
  let ls = base.signal.vacuum_wavelength().value_unsafe * 1e9;
  let cands: Vec<f64> = match p1 {
    "crystal.theta_deg" => (0..=30).map(|k| 3.0 * k as f64 + 0.5).collect(),
    "crystal.phi_deg" => (0..=12).map(|k| 15.0 * k as f64 + 0.25).collect(),
    "crystal.temperature_c" => (0..=10).map(|k| -40.0 + 28.0 * k as f64).collect(),
    "signal.wavelength_nm" => (0..=8).map(|k| ls * (1.0 + 0.04 * k as f64)).collect(),
    "pump.wavelength_nm" => (0..=8).map(|k| lp * (1.0 - 0.03 * k as f64)).collect(),
    "signal.theta_deg" => (0..=8).map(|k| 0.75 * k as f64).collect(),
    _ => vec![],
  };
  let (mut flip, mut keep) = (vec![], vec![]);
  for v in cands {
    if let Some(Ok(mid)) = sweep_one(base, p1, v, p1, v) {
      match derived_sign(&mid) {
        Some(sg) if sg != stored => flip.push(v),
        Some(_) => keep.push(v),
        None => {}
      }
    }
  }
  (flip, keep)
}

fn set_path(v: &mut Value, path: &str, x: f64) -> bool {
  let mut cur = v;
  let parts: Vec<&str> = path.split('.').collect();
  for (i, k) in parts.iter().enumerate() {
    if i + 1 == parts.len() {
      if let Value::Object(m) = cur {
        m.insert(k.to_string(), serde_json::json!(x));
        return true;
      }
      return false;
    }
    match cur.get_mut(*k) {
      Some(n) => cur = n,
      None => return false,
    }
  }
  false
}

fn signed_period(s: &SPDC) -> Option<f64> {
  match &s.pp {
    PeriodicPoling::On { period, sign, .. } => Some(if *sign == Sign::NEGATIVE { -period.value_unsafe } else { period.value_unsafe }),
    PeriodicPoling::Off => None,
  }
}

/// `config_close`, except in a swept field whose REQUESTED value sits on a 4-decimal rounding tie
/// (x.xxxx5 to within 1e-6 of a unit of the 4th decimal): the swept setup (value·unit → physical → config
/// unit) and the configuration-constructed one legitimately round to different neighbours there, so in
/// that field only, both neighbours of the requested value are accepted.  Applies to paths whose field
/// is in the requested value's own unit (not THz / external angles).
fn config_close_at_ties(a: &SPDCConfig, b: &SPDCConfig, eps: f64, requested: &[(&str, f64)]) -> Result<(), String> {
  let (mut fa, mut fb) = (vec![], vec![]);
  flatten("", &serde_json::to_value(a).unwrap_or(Value::Null), &mut fa);
  flatten("", &serde_json::to_value(b).unwrap_or(Value::Null), &mut fb);
  if fa.len() != fb.len() {
    return Err("shape".into());
  }
  for ((ka, va), (kb, vb)) in fa.iter().zip(fb.iter()) {
    if ka != kb {
      return Err(format!("shape:{}!={}", ka, kb));
    }
    match (va.as_f64(), vb.as_f64()) {
      (Some(x), Some(y)) => {
        if x == y || (x - y).abs() <= eps * x.abs().max(y.abs()) {
          continue;
        }
        let at_tie = requested.iter().any(|(path, v)| {
          let v = if *path == "periodic_poling.poling_period_um" { v.abs() } else { *v };
          let t = v * 1e4;
          let near_tie = (t - t.floor() - 0.5).abs() < 1e-6;
          let neighbour = |g: f64| on_grid(g) && (g - v).abs() <= 0.5e-4 * (1.0 + 1e-6);
          field_of(path) == *path && ka.as_str() == *path && near_tie && neighbour(x) && neighbour(y)
        });
        if !at_tie {
          return Err(format!("field={} first={:e} second={:e}", ka, x, y));
        }
      }
      _ => {
        if va != vb {
          return Err(format!("field={} first={} second={}", ka, va, vb));
        }
      }
    }
  }
  Ok(())
}

/// the statement's last clause against configurations: every element of a sweep
/// (p1, periodic_poling.poling_period_um) equals the setup constructed from the base's
/// configuration with the two swept values written in (period as a magnitude, sign derived)
fn config_constructed_case(ctx: &mut Ctx, name: &str, base0: &SPDC, p1: &str, a: f64, b: f64, nx: usize, per: (f64, f64, usize)) {
  let integ = Integrator::Simpson { divs: 20 };
  // canonical base: the setup its own configuration describes
  let cfg0 = match cfg_value(base0) {
    Some(c) => c,
    None => return,
  };
  let base = match guard(|| SPDC::from_json(cfg0.to_string())) {
    Some(Ok(s)) => s,
    _ => return,
  };
  let cfgb = match cfg_value(&base) {
    Some(c) => c,
    None => return,
  };
  let p2 = "periodic_poling.poling_period_um";
  let steps = Steps2D((a, b, nx), per);
  let det = format!("base={} p1={} p2={} x=({:?},{:?},{}) y=({:?},{:?},{})", name, p1, p2, a, b, nx, per.0, per.1, per.2);
  ctx.count(&format!("config-constructed/p1={}", p1));
  let swept = guard(|| SPDCIter::try_new(base.clone(), p1, p2, steps).map(|it| it.into_iter().collect::<Vec<SPDC>>()));
  let values = guard(|| SPDCIter::try_new(base.clone(), p1, p2, steps).map(|it| it.jsi_values(integ)));
  let (swept, values) = match (swept, values) {
    (Some(Ok(a)), Some(Ok(b))) => (a, b),
    _ => {
      ctx.s("C18.values", false, "sweep/vs-config/sweep-failed", &det);
      return;
    }
  };
  let pts: Vec<(f64, f64)> = steps.into_iter().collect();
  if swept.len() != pts.len() || values.len() != pts.len() {
    ctx.s("C18.order", false, "sweep/vs-config/count", &format!("count={} {}", swept.len(), det));
    return;
  }
  let mut crossed = false;
  for (k, (v1, v2)) in pts.iter().enumerate() {
    let mut c = cfgb.clone();
    if !set_path(&mut c, &field_of(p1), *v1) || !set_path(&mut c, p2, *v2) {
      return;
    }
    let ind = match guard(|| SPDC::from_json(c.to_string())) {
      Some(Ok(s)) => s,
      _ => continue, // the configuration route rejects this point (e.g. λs ≤ λp): nothing to compare with
    };
    let kdet = format!("k={} v1={:?} v2={:?} {}", k, v1, v2, det);
    let (sp, ip) = (signed_period(&swept[k]), signed_period(&ind));
    if let (Some(x), Some(y)) = (sp, signed_period(&base)) {
      if x.signum() != y.signum() {
        crossed = true;
      }
    }
    let same_sign = match (sp, ip) {
      (Some(x), Some(y)) => x.signum() == y.signum() && (x - y).abs() <= 1e-12 * y.abs(),
      _ => false,
    };
    ctx.s("C18.frame", same_sign, "sweep/vs-config/signed-period", &format!("swept_period_m={:?} constructed_period_m={:?} {}", sp, ip, kdet));
    match (guard(|| swept[k].clone().as_config()), guard(|| ind.clone().as_config())) {
      (Some(cs), Some(ci)) => match config_close_at_ties(&cs, &ci, 1e-9, &[(p1, *v1), (p2, *v2)]) {
        Ok(()) => ctx.s("C18.frame", true, "sweep/vs-config/config", &kdet),
        Err(why) => ctx.s("C18.frame", false, "sweep/vs-config/config", &format!("{} {}", why, kdet)),
      },
      _ => ctx.s("C18.frame", false, "sweep/vs-config/as_config-panic", &kdet),
    }
    match guard(|| jsi_center(&ind, integ)) {
      Some(want) => {
        let got = values[k];
        let ok = got == want || (got - want).abs() <= 1e-9 * got.abs().max(want.abs());
        ctx.s("C18.values", ok, "sweep/vs-config/jsi-values", &format!("swept={:e} constructed={:e} {}", got, want, kdet));
      }
      None => ctx.s("C18.values", false, "sweep/vs-config/jsi-panic", &kdet),
    }
  }
  ctx.count(if crossed { "config-constructed/sign-crossed" } else { "config-constructed/one-sided" });
}

fn mutate_name(r: &mut Rng, s: &str) -> String {
  let mut v: Vec<char> = s.chars().collect();
  let alphabet: Vec<char> = "._abdeghilmnoprstuwyz_ ".chars().collect();
  match r.below(4) {
    0 if !v.is_empty() => {
      let i = r.below(v.len());
      v.remove(i);
    }
    1 => {
      let i = r.below(v.len() + 1);
      v.insert(i, *r.pick(&alphabet));
    }
    2 if !v.is_empty() => {
      let i = r.below(v.len());
      v[i] = *r.pick(&alphabet);
    }
    _ => {
      let i = r.below(v.len().max(1));
      v[i] = v[i].to_ascii_uppercase();
    }
  }
  v.into_iter().collect()
}

fn path_case(ctx: &mut Ctx, base: &SPDC, s: &str) {
  let known = PATHS.contains(&s);
  let r1 = guard(|| SPDCIter::try_new(base.clone(), s, "deff_pm_per_volt", Steps2D((1., 2., 2), (1., 2., 2))).is_ok());
  let r2 = guard(|| SPDCIter::try_new(base.clone(), "crystal.phi_deg", s, Steps2D((1., 2., 2), (1., 2., 2))).is_ok());
  let tok = |r: Option<bool>| match r {
    None => "PANIC",
    Some(true) => "OK",
    Some(false) => "ERR",
  };
  ctx.k("path_parse", &enc(s), &format!("{} {}", tok(r1), tok(r2)));
  let det = format!("path={:?}", s);
  if known {
    ctx.s("C18.paths", r1 == Some(true) && r2 == Some(true), "paths/known-accepted", &det);
  } else {
    ctx.s("C18.paths", r1 == Some(false) && r2 == Some(false), "paths/unknown-rejected", &det);
  }
}

/// apply a path by hand through public API, by the statement's semantics ("individually constructed")
fn apply_by_hand(s: &mut SPDC, path: &str, v: f64) -> bool {
  match path {
    "crystal.theta_deg" => s.crystal_setup.theta = v * DEG,
    "crystal.length_um" => s.crystal_setup.length = v * MICRO * M,
    "crystal.temperature_c" => s.crystal_setup.temperature = spdcalc::utils::from_celsius_to_kelvin(v),
    "signal.theta_deg" => {
      s.signal.set_theta_internal(v * DEG);
    }
    "signal.wavelength_nm" => {
      s.signal.set_vacuum_wavelength(v * NANO * M);
    }
    "idler.wavelength_nm" => {
      s.idler.set_vacuum_wavelength(v * NANO * M);
    }
    "signal.waist_um" => {
      s.signal.set_waist(v * MICRO * M);
    }
    "idler.waist_um" => {
      s.idler.set_waist(v * MICRO * M);
    }
    "pump.waist_um" => {
      s.pump.set_waist(v * MICRO * M);
    }
    "pump.bandwidth_nm" => s.pump_bandwidth = v * NANO * M,
    "signal.waist_position_um" => s.signal_waist_position = v * MICRO * M,
    "signal.frequency_thz" => {
      s.signal.set_vacuum_wavelength(299_792_458.0 / (v * 1e12) * M);
    }
    "deff_pm_per_volt" => s.deff = v * PICO * M / V,
    _ => return false,
  }
  true
}

fn jsi_center(s: &SPDC, integ: Integrator) -> f64 {
  let j = spdcalc::jsa_raw(s.signal.frequency(), s.idler.frequency(), s, integ).norm_sqr();
  if j == 0. {
    0.
  } else {
    j * *(spdcalc::jsi_normalization(s.signal.frequency(), s.idler.frequency(), s) / spdcalc::JsiNorm::new(1.))
  }
}

/// sweep shapes whose point count sits on, just below and just above the sizes at which block-wise /
/// chunked / parallel evaluation changes behaviour (64, 128, 256, 512, 1024 …), the shapes named in the
/// crate's documentation style (17×17, 20×20, 24×12, 50×50), and the degenerate ones (1×n, n×1, 0)
fn resonance_shapes(thorough: bool) -> Vec<(usize, usize)> {
  let mut v = vec![
    (0, 0), (0, 300), (300, 0), (1, 1), (1, 257), (257, 1), (1, 1000),
    (9, 7), (8, 8), (13, 5), (127, 1), (16, 8), (43, 3),
    (15, 17), (16, 16), (17, 17), (24, 12), (20, 20), (32, 16), (27, 19),
    (33, 31), (32, 32), (41, 25),
  ];
  if thorough {
    v.extend([
      (255, 1), (1, 256), (256, 1), (2, 128), (128, 2), (3, 171), (255, 3), (256, 3), (1000, 1), (1, 1025), (1025, 1),
      (50, 50), (23, 89), (64, 32), (3, 683), (64, 64), (17, 241), (100, 100), (5, 51), (51, 5), (19, 27), (12, 24),
    ]);
  }
  v
}

/// the float `n` representable steps away from `x` (away from zero for n > 0)
fn ulp_step(x: f64, n: i64) -> f64 {
  if n == 0 || x == 0.0 || !x.is_finite() {
    return x;
  }
  f64::from_bits((x.to_bits() as i64 + n) as u64)
}

fn lin(a: f64, b: f64, n: usize, i: usize) -> f64 {
  if n <= 1 {
    a
  } else {
    a + (b - a) * (i as f64 / (n - 1) as f64)
  }
}

/// One sweep of the given shape over two hand-applicable paths around the base's own values: number and
/// order of the setups, and EVERY value of `jsi_values` / `jsi_values_normalized` against the setup
/// constructed individually for that grid point (value of cell k = point (k mod nx, k div nx)).
fn shape_case(ctx: &mut Ctx, name: &str, base: &SPDC, p1: &str, p2: &str, nx: usize, ny: usize, integ: Integrator, raw_setters: bool) {
  let c = cfg_value(base).unwrap_or(Value::Null);
  let mut f = vec![];
  flatten("", &c, &mut f);
  let mut span = |p: &str| -> (f64, f64) {
    let x0 = f.iter().find(|(k, _)| *k == field_of(p)).and_then(|x| x.1.as_f64()).unwrap_or(1.0);
    let x0 = if p.ends_with("frequency_thz") { 299_792.458 / x0 } else { x0 };
    let w = if p.ends_with("_deg") {
      0.3
    } else if p.ends_with("temperature_c") {
      5.0
    } else if p.ends_with("position_um") {
      200.0
    } else if p.ends_with("wavelength_nm") || p.ends_with("frequency_thz") {
      0.0005 * x0.abs()
    } else {
      0.2 * x0.abs().max(1e-3)
    };
    (x0 - w * (0.5 + 0.5 * ctx.rng.unit()), x0 + w * (0.5 + 0.5 * ctx.rng.unit()))
  };
  let (a1, b1) = span(p1);
  let (a2, b2) = span(p2);
  let steps = Steps2D((a1, b1, nx), (a2, b2, ny));
  let det = format!("base={} p1={} p2={} x=({:?},{:?},{}) y=({:?},{:?},{}) points={}", name, p1, p2, a1, b1, nx, a2, b2, ny, nx * ny);
  ctx.count(&format!("shape/points={}", nx * ny));
  let make = |b: &SPDC| -> Result<SPDCIter, String> {
    if raw_setters {
      // the same sweep through `SPDCIter::new` with hand-written setter closures
      let (q1, q2) = (p1.to_string(), p2.to_string());
      Ok(SPDCIter::new(
        b.clone(),
        (
          Box::new(move |s: &mut SPDC, v: f64| {
            apply_by_hand(s, &q1, v);
          }),
          Box::new(move |s: &mut SPDC, v: f64| {
            apply_by_hand(s, &q2, v);
          }),
        ),
        steps,
      ))
    } else {
      SPDCIter::try_new(b.clone(), p1, p2, steps)
    }
  };
  let route = if raw_setters { "SPDCIter::new" } else { "SPDCIter::try_new" };
  // number and order of the setups
  let all = match guard(|| make(base).map(|it| it.into_iter().collect::<Vec<SPDC>>())) {
    Some(Ok(v)) => v,
    _ => {
      ctx.s("C18.order", false, "sweep/shape/failed", &format!("route={} {}", route, det));
      return;
    }
  };
  let mut ok = all.len() == nx * ny;
  let mut why = format!("count={}", all.len());
  if ok {
    for (k, s) in all.iter().enumerate() {
      let (wx, wy) = (lin(a1, b1, nx, k % nx), lin(a2, b2, ny, k / nx));
      let (g1, g2) = (physical_of(s, p1), physical_of(s, p2));
      if !matches!((g1, g2), (Some(x), Some(y)) if physical_matches(p1, wx, x) && physical_matches(p2, wy, y)) {
        ok = false;
        why = format!("k={} column={} row={} got=({:?},{:?}) want=({:?},{:?})", k, k % nx, k / nx, g1, g2, wx, wy);
        break;
      }
    }
  }
  ctx.s("C18.order", ok, "sweep/shape/row-major-first-fastest", &format!("{} route={} {}", why, route, det));
  // the individually constructed setups, point by point
  let want: Option<Vec<f64>> = guard(|| {
    (0..nx * ny)
      .map(|k| {
        let mut s = base.clone();
        apply_by_hand(&mut s, p1, lin(a1, b1, nx, k % nx));
        apply_by_hand(&mut s, p2, lin(a2, b2, ny, k / nx));
        jsi_center(&s, integ)
      })
      .collect()
  });
  let want = match want {
    Some(w) => w,
    None => {
      ctx.count("shape/by-hand-panic");
      return;
    }
  };
  let close = |x: f64, y: f64| x == y || (x - y).abs() <= 1e-6 * x.abs().max(y.abs()) || (x.is_nan() && y.is_nan());
  let compare = |ctx: &mut Ctx, sig: &str, got: Option<Result<Vec<f64>, String>>, want: &[f64]| match got {
    Some(Ok(a)) => {
      let bad = if a.len() != want.len() { Some(usize::MAX) } else { (0..a.len()).find(|k| !close(a[*k], want[*k])) };
      let nbad = if a.len() == want.len() { (0..a.len()).filter(|k| !close(a[*k], want[*k])).count() } else { 0 };
      match bad {
        None => ctx.s("C18.values", true, sig, &format!("route={} {}", route, det)),
        Some(usize::MAX) => ctx.s("C18.values", false, sig, &format!("count={} want={} route={} {}", a.len(), want.len(), route, det)),
        Some(k) => ctx.s(
          "C18.values",
          false,
          sig,
          &format!("k={} column={} row={} swept={:e} individually={:e} cells_differing={} route={} {}", k, k % nx, k / nx, a[k], want[k], nbad, route, det),
        ),
      }
    }
    None => ctx.s("C18.values", false, &format!("{}-panic", sig), &format!("route={} {}", route, det)),
    Some(Err(_)) => ctx.s("C18.values", false, &format!("{}-failed", sig), &format!("route={} {}", route, det)),
  };
  // A grid point is a real number; its float image is fixed only to a few ulp (`Steps2D` and `lin` round
  // differently), and on ill-conditioned setups (long counter-propagating crystals: 1 ulp of the crystal angle
  // moves the value by 1e-6) that matters.  A cell that differs from the by-hand value at `lin`'s float is
  // therefore also compared with the by-hand values at the neighbouring floats (±2 ulp per coordinate);
  // which point a cell holds is pinned to 1e-12 by the order check above.
  let refine = |got: &Option<Result<Vec<f64>, String>>, want: &mut Vec<f64>, value: &dyn Fn(&SPDC) -> f64| -> usize {
    let mut accepted = 0;
    if let Some(Ok(g)) = got {
      if g.len() == want.len() {
        let bad: Vec<usize> = (0..g.len()).filter(|k| !close(g[*k], want[*k])).take(40).collect();
        for k in bad {
          let (x0, y0) = (lin(a1, b1, nx, k % nx), lin(a2, b2, ny, k / nx));
          'search: for dx in [0i64, -1, 1, -2, 2] {
            for dy in [0i64, -1, 1, -2, 2] {
              let w = guard(|| {
                let mut s = base.clone();
                apply_by_hand(&mut s, p1, ulp_step(x0, dx));
                apply_by_hand(&mut s, p2, ulp_step(y0, dy));
                value(&s)
              });
              if let Some(w) = w {
                if close(g[k], w) {
                  want[k] = w;
                  accepted += 1;
                  break 'search;
                }
              }
            }
          }
        }
      }
    }
    accepted
  };
  let mut want = want;
  let got = guard(|| make(base).map(|it| it.jsi_values(integ)));
  if refine(&got, &mut want, &|s: &SPDC| jsi_center(s, integ)) > 0 {
    ctx.count("shape/ulp-neighbour-of-grid-point");
  }
  compare(ctx, "sweep/shape/jsi-values", got, &want);
  let lit = want.iter().filter(|x| **x > 0.).count();
  ctx.count(if 2 * lit > want.len() { "shape/mostly-lit" } else if lit > 0 { "shape/partly-lit" } else { "shape/dark-or-empty" });
  // normalised to the centre of the base's optimum setup (needs one)
  let centre = guard(|| {
    let opt = base.clone().try_as_optimum().ok()?;
    Some(spdcalc::jsa_raw(opt.signal.frequency(), opt.idler.frequency(), &opt, integ).norm_sqr() * spdcalc::jsi_normalization(opt.signal.frequency(), opt.idler.frequency(), &opt))
  })
  .flatten();
  if let Some(centre) = centre {
    let wantn: Option<Vec<f64>> = guard(|| {
      (0..nx * ny)
        .map(|k| {
          let mut s = base.clone();
          apply_by_hand(&mut s, p1, lin(a1, b1, nx, k % nx));
          apply_by_hand(&mut s, p2, lin(a2, b2, ny, k / nx));
          let j = spdcalc::jsa_raw(s.signal.frequency(), s.idler.frequency(), &s, integ).norm_sqr();
          if j == 0. {
            0.
          } else {
            j * *(spdcalc::jsi_normalization(s.signal.frequency(), s.idler.frequency(), &s) / centre)
          }
        })
        .collect()
    });
    if let Some(mut wantn) = wantn {
      let gotn = guard(|| make(base).map(|it| it.jsi_values_normalized(integ)));
      refine(&gotn, &mut wantn, &|s: &SPDC| {
        let j = spdcalc::jsa_raw(s.signal.frequency(), s.idler.frequency(), s, integ).norm_sqr();
        if j == 0. {
          0.
        } else {
          j * *(spdcalc::jsi_normalization(s.signal.frequency(), s.idler.frequency(), s) / centre)
        }
      });
      compare(ctx, "sweep/shape/jsi-values-normalized", gotn, &wantn);
    }
  }
}

pub fn run(ctx: &mut Ctx) {
  if std::env::var("VERIF_PANIC_LOG").is_ok() {
    record_panic_sites(); // (debugging aid: panic messages on stderr)
  }
  let bases = base_setups(ctx);
  for (n, _) in bases.iter() {
    ctx.count(&format!("base/{}", n));
  }
  if bases.is_empty() {
    ctx.s("C18.frame", false, "setup/no-base-setup", "SPDC::default() and the documented configurations failed to build");
    return;
  }

  // ---- paths: all 25, near misses, random edits
  let b0 = bases[0].1.clone();
  for p in PATHS.iter() {
    path_case(ctx, &b0, p);
  }
  for p in [
    "", " ", "crystal", "crystal.", "crystal.phi", "crystal.phi_deg ", " crystal.phi_deg", "Crystal.phi_deg", "crystal.kind", "crystal.pm_type",
    "crystal.counter_propagation", "signal.frequency_hz", "signal.frequency", "idler.wavelength_um", "pump.theta_deg", "pump.phi_deg",
    "pump.theta_external_deg", "pump.waist_position_um", "pump.spectrum_threshold", "periodic_poling.period_um", "periodic_poling",
    "periodic_poling.apodization", "poling_period_um", "deff", "deff_pm_per_volt.", "signal.waist_position_nm", "idler", "signal.theta_internal_deg",
    "crystal.phi_deg.x", "crystal/phi_deg", "crystal.phi_rad",
  ] {
    path_case(ctx, &b0, p);
  }
  // every proper prefix and suffix of every valid name, and the names with the unit suffix dropped
  // or exchanged (an alias such as "signal.theta" must not be accepted)
  for p in PATHS.iter() {
    let cs: Vec<char> = p.chars().collect();
    for k in 1..cs.len() {
      let pre: String = cs[..k].iter().collect();
      let suf: String = cs[k..].iter().collect();
      if !PATHS.contains(&pre.as_str()) {
        path_case(ctx, &b0, &pre);
      }
      if !PATHS.contains(&suf.as_str()) {
        path_case(ctx, &b0, &suf);
      }
    }
    if let Some(i) = p.rfind('_') {
      let stem = &p[..i];
      for unit in ["", "_deg", "_rad", "_um", "_nm", "_mm", "_m", "_thz", "_hz", "_c", "_k", "_mw", "_w"] {
        let cand = format!("{}{}", stem, unit);
        if !PATHS.contains(&cand.as_str()) {
          path_case(ctx, &b0, &cand);
        }
      }
    }
  }
  let nmut = if ctx.thorough { ctx.n * 4 } else { ctx.n / 2 };
  for _ in 0..nmut {
    let which = *ctx.rng.pick(&PATHS);
    let s = mutate_name(&mut ctx.rng, which);
    path_case(ctx, &b0, &s);
  }

  // ---- every path on every base (S: frame rule, K: model of setter + as_config)
  let reps = if ctx.thorough { 6 } else { 2 };
  for (name, base) in bases.iter() {
    for p1 in PATHS.iter() {
      for _ in 0..reps {
        // partner path touching a different field
        let mut p2 = *ctx.rng.pick(&PATHS);
        while same_field(p1, p2) {
          p2 = *ctx.rng.pick(&PATHS);
        }
        let v1 = gen_value(&mut ctx.rng, p1, true, base);
        let v2 = gen_value(&mut ctx.rng, p2, true, base);
        // order (p1,p2) and (p2,p1)
        if ctx.rng.coin() {
          frame_case(ctx, name, base, p1, v1, p2, v2);
          k_point(ctx, base, p1, v1, p2, v2);
        } else {
          frame_case(ctx, name, base, p2, v2, p1, v1);
          k_point(ctx, base, p2, v2, p1, v1);
        }
      }
      // K only: non-canonical values (angles outside their interval, negative period / external angle),
      // and pairs writing the same field
      let v1 = gen_value(&mut ctx.rng, p1, false, base);
      let p2 = *ctx.rng.pick(&PATHS);
      let canon2 = ctx.rng.coin();
      let v2 = gen_value(&mut ctx.rng, p2, canon2, base);
      k_point(ctx, base, p1, v1, p2, v2);
    }
  }
  // random pairs
  for _ in 0..ctx.n {
    let (name, base) = ctx.rng.pick(&bases).clone();
    let p1 = *ctx.rng.pick(&PATHS);
    let p2 = *ctx.rng.pick(&PATHS);
    let v1 = gen_value(&mut ctx.rng, p1, true, &base);
    let v2 = gen_value(&mut ctx.rng, p2, true, &base);
    if !same_field(p1, p2) {
      frame_case(ctx, &name, &base, p1, v1, p2, v2);
    }
    k_point(ctx, &base, p1, v1, p2, v2);
  }

  // ---- beam angles outside their canonical interval are stored modulo 360°
  for (name, base) in bases.iter().take(4) {
    for p in ["signal.theta_deg", "signal.phi_deg", "idler.theta_deg", "idler.phi_deg"] {
      for v in [-400.0, 400.0, 720.0, -360.0, 359.99999, -179.99999, 270.0, -90.5] {
        let cur = physical_of(base, "deff_pm_per_volt").unwrap_or(1.0);
        let det = format!("base={} path={} value={:?}", name, p, v);
        match sweep_one(base, p, v, "deff_pm_per_volt", cur) {
          Some(Ok(s)) => {
            let got = physical_of(&s, p).unwrap_or(f64::NAN);
            let turns = ((got - v) / 360.0).round();
            let ok = (got - v - 360.0 * turns).abs() <= 1e-9;
            ctx.s("C18.frame", ok, "setter/angle/physical-mod-360", &format!("physical={:e} {}", got, det));
          }
          _ => ctx.s("C18.frame", false, "setter/panic", &det),
        }
      }
    }
  }

  // ---- sweep shapes and order
  let direct: Vec<&str> = PATHS.iter().copied().filter(|p| !is_ext(p) && !p.ends_with("frequency_thz")).collect();
  let shapes: Vec<(usize, usize)> = if ctx.thorough {
    let mut v = vec![];
    for nx in 0..=7 {
      for ny in 0..=5 {
        v.push((nx, ny));
      }
    }
    v
  } else {
    vec![(1, 1), (1, 4), (5, 1), (2, 2), (3, 2), (7, 5), (0, 3), (4, 0)]
  };
  // (larger ones too, through the model: below / on / above a block of 256, one long row, one long column)
  let mut shapes = shapes;
  shapes.extend([(15, 17), (16, 16), (17, 17), (257, 1), (1, 129)]);
  if ctx.thorough {
    shapes.extend([(20, 20), (24, 12), (33, 31), (1, 513)]);
  }
  for (nx, ny) in shapes {
    let (name, base) = ctx.rng.pick(&bases).clone();
    let p1 = *ctx.rng.pick(&direct);
    let mut p2 = *ctx.rng.pick(&direct);
    while same_field(p1, p2) {
      p2 = *ctx.rng.pick(&direct);
    }
    let (a1, b1) = (gen_value(&mut ctx.rng, p1, true, &base), gen_value(&mut ctx.rng, p1, true, &base));
    let (a2, b2) = (gen_value(&mut ctx.rng, p2, true, &base), gen_value(&mut ctx.rng, p2, true, &base));
    let steps = Steps2D((a1, b1, nx), (a2, b2, ny));
    let det = format!("base={} p1={} p2={} x=({:?},{:?},{}) y=({:?},{:?},{})", name, p1, p2, a1, b1, nx, a2, b2, ny);
    let got = guard(|| SPDCIter::try_new(base.clone(), p1, p2, steps).map(|it| it.into_iter().collect::<Vec<SPDC>>()));
    let all = match got {
      Some(Ok(v)) => v,
      _ => {
        ctx.s("C18.order", false, "sweep/failed", &det);
        continue;
      }
    };
    let cfgs: Vec<String> = all.iter().map(|s| guard(|| config_tokens(&s.clone().as_config(), s)).unwrap_or("PANIC".into())).collect();
    ctx.k(
      "sweep_order",
      &format!("{} | {} {} {} {} {} {} {} {}", setup_tokens(&base), p1, p2, fl(a1), fl(b1), nx, fl(a2), fl(b2), ny),
      &format!("{} {}", all.len(), cfgs.join(" ")),
    );
    let mut ok = all.len() == nx * ny;
    let mut why = format!("count={}", all.len());
    if ok {
      let xs: Vec<f64> = Steps(a1, b1, nx).into_iter().collect();
      let ys: Vec<f64> = Steps(a2, b2, ny).into_iter().collect();
      for (k, s) in all.iter().enumerate() {
        let c = cfg_value(s).unwrap_or(Value::Null);
        let mut f = vec![];
        flatten("", &c, &mut f);
        let g1 = f.iter().find(|(kk, _)| *kk == field_of(p1)).and_then(|x| x.1.as_f64());
        let g2 = f.iter().find(|(kk, _)| *kk == field_of(p2)).and_then(|x| x.1.as_f64());
        let (wx, wy) = (xs[k % nx], ys[k / nx]);
        let good = matches!((g1, g2), (Some(a), Some(b)) if rounded_of(a, wx) && rounded_of(b, wy));
        if !good {
          ok = false;
          why = format!("k={} got=({:?},{:?}) want=({:?},{:?})", k, g1, g2, wx, wy);
          break;
        }
      }
    }
    ctx.s("C18.order", ok, "sweep/row-major-first-fastest", &format!("{} {}", why, det));
  }

  // ---- poling already on: the first parameter drives Δk across its sign change, the second
  // assigns the period; sign and values against the state the setter sees and against
  // configuration-constructed setups
  let drivers = ["crystal.theta_deg", "crystal.phi_deg", "crystal.temperature_c", "signal.wavelength_nm", "pump.wavelength_nm", "signal.theta_deg"];
  for (name, base) in bases.iter() {
    let per0 = match signed_period(base) {
      Some(p) => p.abs() / 1e-6,
      None => continue,
    };
    for p1 in drivers.iter() {
      let (flip, keep) = sign_scan(base, p1);
      ctx.count(&format!("sign-scan/{}/{}", p1, if flip.is_empty() { "no-flip" } else { "flips" }));
      let mut picks: Vec<f64> = vec![];
      picks.extend(flip.iter().take(if ctx.thorough { 4 } else { 2 }));
      picks.extend(keep.iter().take(1));
      for v1 in picks.iter() {
        let v2 = ((per0 * (0.8 + 0.4 * ctx.rng.unit())) * 1e3).round() / 1e3;
        frame_case(ctx, name, base, p1, *v1, "periodic_poling.poling_period_um", v2);
        k_point(ctx, base, p1, *v1, "periodic_poling.poling_period_um", v2);
      }
      // a sweep whose first axis spans both sides of the sign change
      if let (Some(f), Some(k)) = (flip.first(), keep.first()) {
        let nx = if ctx.thorough { 4 } else { 3 };
        config_constructed_case(ctx, name, base, p1, *f, *k, nx, (per0, per0 * 1.25, 2));
      } else if let (Some(k0), Some(k1)) = (keep.first(), keep.last()) {
        if ctx.thorough {
          config_constructed_case(ctx, name, base, p1, *k0, *k1, 2, (per0, per0 * 1.25, 2));
        }
      }
    }
  }

  // ---- swept spectrum values = values of individually constructed setups
  let integ = Integrator::Simpson { divs: 20 };
  let hand: [&str; 13] = [
    "crystal.theta_deg", "crystal.length_um", "crystal.temperature_c", "signal.theta_deg", "signal.wavelength_nm", "idler.wavelength_nm",
    "signal.waist_um", "idler.waist_um", "pump.waist_um", "pump.bandwidth_nm", "signal.waist_position_um", "signal.frequency_thz", "deff_pm_per_volt",
  ];
  // dark sweep cells whose normalisation is not finite must read 0, exactly as for a single setup:
  // (a) signal past total internal reflection with a signal wavelength outside the pump band,
  // (b) zero pump bandwidth with a signal wavelength that does not conserve energy
  for (name, base) in bases.iter().take(if ctx.thorough { bases.len() } else { 4 }) {
    let ls = base.signal.vacuum_wavelength().value_unsafe * 1e9;
    for (p1, x, p2, y) in [
      ("signal.theta_deg", (50.0, 85.0, 3usize), "signal.wavelength_nm", (ls * 1.05, ls * 1.2, 2usize)),
      ("signal.wavelength_nm", (ls * 1.07, ls * 1.3, 2), "signal.theta_deg", (60.0, -70.0, 2)),
      ("pump.bandwidth_nm", (0.0, 0.0, 1), "signal.wavelength_nm", (ls * 1.03, ls * 1.1, 3)),
      ("signal.wavelength_nm", (ls, ls * 1.1, 3), "pump.bandwidth_nm", (0.0, 1e-9, 2)),
    ] {
      let steps = Steps2D(x, y);
      let det = format!("base={} p1={} p2={} x={:?} y={:?}", name, p1, p2, x, y);
      let swept = guard(|| SPDCIter::try_new(base.clone(), p1, p2, steps).map(|it| it.jsi_values(integ)));
      let want: Option<Vec<f64>> = guard(|| {
        steps
          .into_iter()
          .map(|(v1, v2)| {
            let mut s = base.clone();
            apply_by_hand(&mut s, p1, v1);
            apply_by_hand(&mut s, p2, v2);
            jsi_center(&s, integ)
          })
          .collect()
      });
      match (swept, want) {
        (Some(Ok(a)), Some(b)) => {
          // exact, NaN only against NaN
          let ok = a.len() == b.len() && a.iter().zip(b.iter()).all(|(x, y)| x == y || (x.is_nan() && y.is_nan()));
          ctx.s("C18.values", ok, "sweep/jsi-values-dark-cells", &format!("swept={:?} individually={:?} {}", a, b, det));
          ctx.count(if b.iter().all(|x| *x == 0.) { "dark-cells/all-zero" } else { "dark-cells/mixed" });
        }
        (None, _) => ctx.s("C18.values", false, "sweep/jsi-values-panic", &det),
        _ => ctx.s("C18.values", false, "sweep/jsi-values-failed", &det),
      }
    }
  }
  let nval = if ctx.thorough { 120 } else { 24 };
  for _ in 0..nval {
    let (name, base) = ctx.rng.pick(&bases).clone();
    let p1 = *ctx.rng.pick(&hand);
    let mut p2 = *ctx.rng.pick(&hand);
    while same_field(p1, p2) {
      p2 = *ctx.rng.pick(&hand);
    }
    // small excursions around the base's own values keep the points physically meaningful
    let around = |r: &mut Rng, p: &str| -> (f64, f64) {
      let c = cfg_value(&base).unwrap_or(Value::Null);
      let mut f = vec![];
      flatten("", &c, &mut f);
      let x0 = f.iter().find(|(k, _)| *k == field_of(p)).and_then(|x| x.1.as_f64()).unwrap_or(1.0);
      let x0 = if p.ends_with("frequency_thz") { 299_792.458 / x0 } else { x0 };
      let span = if p.ends_with("_deg") || p.ends_with("temperature_c") || p.ends_with("position_um") { 2.0 } else { 0.02 * x0.abs().max(1.0) };
      (x0 - span * r.unit(), x0 + span * r.unit())
    };
    let (mut a1, mut b1) = around(&mut ctx.rng, p1);
    let (mut a2, mut b2) = around(&mut ctx.rng, p2);
    // every other case: one axis at the far ends of its physical range
    if ctx.rng.coin() {
      let leaf = p1.rsplit('.').next().unwrap();
      if let (Some(x), Some(y)) = (extreme_value(&mut ctx.rng, p1, leaf, &base), extreme_value(&mut ctx.rng, p1, leaf, &base)) {
        if !leaf.ends_with("_deg") {
          a1 = x;
          b1 = y;
        }
      }
    } else {
      let leaf = p2.rsplit('.').next().unwrap();
      if let (Some(x), Some(y)) = (extreme_value(&mut ctx.rng, p2, leaf, &base), extreme_value(&mut ctx.rng, p2, leaf, &base)) {
        if !leaf.ends_with("_deg") {
          a2 = x;
          b2 = y;
        }
      }
    }
    let (nx, ny) = (ctx.rng.between(1, 3), ctx.rng.between(1, 3));
    let steps = Steps2D((a1, b1, nx), (a2, b2, ny));
    let det = format!("base={} p1={} p2={} x=({:?},{:?},{}) y=({:?},{:?},{})", name, p1, p2, a1, b1, nx, a2, b2, ny);
    let swept = guard(|| SPDCIter::try_new(base.clone(), p1, p2, steps).map(|it| it.jsi_values(integ)));
    let want: Option<Vec<f64>> = guard(|| {
      steps
        .into_iter()
        .map(|(v1, v2)| {
          let mut s = base.clone();
          apply_by_hand(&mut s, p1, v1);
          apply_by_hand(&mut s, p2, v2);
          jsi_center(&s, integ)
        })
        .collect()
    });
    match (swept, want) {
      (Some(Ok(a)), Some(b)) => {
        let ok = a.len() == b.len()
          && a.iter().zip(b.iter()).all(|(x, y)| x == y || (x - y).abs() <= 1e-6 * x.abs().max(y.abs()) || (x.is_nan() && y.is_nan()));
        ctx.s("C18.values", ok, "sweep/jsi-values-pointwise", &format!("swept={:?} individually={:?} {}", a, b, det));
        ctx.count(if a.iter().any(|x| *x > 0.) { "values/nonzero" } else { "values/all-zero" });
      }
      (None, _) => ctx.s("C18.values", false, "sweep/jsi-values-panic", &det),
      _ => ctx.s("C18.values", false, "sweep/jsi-values-failed", &det),
    }
  }

  // ---- all sweep shapes: point counts around 64 / 128 / 256 / 512 / 1024 (…), 1×n, n×1, empty; every cell of
  // jsi_values and jsi_values_normalized against the individually constructed setup (cheap integrator)
  let cheap = Integrator::Simpson { divs: 6 }; // (the smallest the crate accepts)
  let pairs: [(&str, &str); 8] = [
    ("crystal.theta_deg", "signal.waist_um"),
    ("signal.waist_um", "deff_pm_per_volt"),
    ("crystal.length_um", "pump.waist_um"),
    ("crystal.temperature_c", "idler.waist_um"),
    ("pump.bandwidth_nm", "crystal.theta_deg"),
    ("signal.waist_position_um", "crystal.length_um"),
    ("idler.waist_um", "signal.theta_deg"),
    ("deff_pm_per_volt", "signal.wavelength_nm"),
  ];
  for (i, (nx, ny)) in resonance_shapes(ctx.thorough).into_iter().enumerate() {
    // the default setup first (lit at its centre), a seeded base as well in thorough
    let (p1, p2) = pairs[(i + ctx.rng.below(pairs.len())) % pairs.len()];
    let (name, base) = bases[0].clone();
    shape_case(ctx, &name, &base, p1, p2, nx, ny, cheap, i % 7 == 3);
    if ctx.thorough || i % 4 == 0 {
      let (name, base) = ctx.rng.pick(&bases).clone();
      let (p1, p2) = *ctx.rng.pick(&pairs);
      shape_case(ctx, &name, &base, p1, p2, nx, ny, cheap, false);
    }
  }

  // ---- external angles are stored as the Snell-equivalent internal angle: every base, every expression
  // crystal × every phase-matching type (both polarizations on both beams), both external-angle paths,
  // angles from 0 to 60°, alone and after a setter that changes what the refraction depends on
  let mut snell_bases: Vec<(String, SPDC)> = bases.clone();
  for k in 0..EXPR_CRYSTALS.len() {
    for (j, pm) in PM_TYPES.iter().enumerate() {
      let variant = (k + j + ctx.rng.below(2)) % 2;
      match expr_base(k, pm, variant) {
        Some(s) => snell_bases.push((format!("{}/{}/{}", EXPR_CRYSTALS[k].0, pm, variant), s)),
        None => ctx.s("C18.frame", false, "setup/expression-crystal-rejected", &format!("crystal={} pm_type={} variant={}", EXPR_CRYSTALS[k].0, pm, variant)),
      }
    }
  }
  let nrep = if ctx.thorough { 4 } else { 1 };
  for (name, base) in snell_bases.iter() {
    for beam in ["signal", "idler"] {
      let b: &Beam = if beam == "signal" { &base.signal } else { &base.idler };
      let lam = b.vacuum_wavelength().value_unsafe * 1e9;
      let cth = base.crystal_setup.theta.value_unsafe / DEG.value_unsafe;
      let cph = base.crystal_setup.phi.value_unsafe / DEG.value_unsafe;
      let tc = base.crystal_setup.temperature.value_unsafe - 273.15;
      let bph = b.phi().value_unsafe / DEG.value_unsafe;
      for _ in 0..nrep {
        // alone: a fixed ladder point and a random angle
        let v = *ctx.rng.pick(&[0.0, 0.125, 1.0, 5.0, 10.0, 20.0, 30.0, 45.0, 60.0]);
        snell_case(ctx, name, base, beam, v, None);
        let v = (ctx.rng.range(0.05, 60.0) * 1e3).round() / 1e3;
        snell_case(ctx, name, base, beam, v, None);
        // after a setter the refraction depends on
        let v = (ctx.rng.range(0.5, 50.0) * 1e3).round() / 1e3;
        let wl = format!("{}.wavelength_nm", beam);
        let ph = format!("{}.phi_deg", beam);
        let lead: (&str, f64) = match ctx.rng.below(5) {
          0 => ("crystal.theta_deg", (cth + ctx.rng.range(-25.0, 25.0)).clamp(1.0, 179.0)),
          1 => ("crystal.phi_deg", (cph + ctx.rng.range(10.0, 80.0)) % 360.0),
          2 => ("crystal.temperature_c", tc + ctx.rng.range(20.0, 120.0)),
          3 => (wl.as_str(), lam * ctx.rng.range(1.02, 1.25)),
          _ => (ph.as_str(), (bph + ctx.rng.range(20.0, 300.0)) % 360.0),
        };
        snell_case(ctx, name, base, beam, v, Some(lead));
      }
    }
  }
  // swept spectrum values through the external-angle paths against setups constructed by hand with an
  // independent Snell solve (angles inside the collection cone)
  let nv = if ctx.thorough { snell_bases.len() } else { 8 };
  for i in 0..nv {
    let (name, base) = if ctx.thorough { snell_bases[i].clone() } else { ctx.rng.pick(&snell_bases[bases.len()..]).clone() };
    let beam = if ctx.rng.coin() { "signal" } else { "idler" };
    let amax = *ctx.rng.pick(&[0.25, 0.5, 1.0]);
    snell_values_case(ctx, &name, &base, beam, amax, 3);
  }
}
