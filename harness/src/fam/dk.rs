//! C03 — phase mismatch `delta_k` and the optimum idler `IdlerBeam::try_new_optimum`
use crate::common::*;
use nalgebra::Vector3;
use spdcalc::dim::ucum::{DEG, K, M, RAD, S};
use spdcalc::prelude::*;
use spdcalc::utils::Steps2D;
use spdcalc::beam::BeamWaist;
use spdcalc::{delta_k, AutoCalcParam, CrystalSetup, PeriodicPoling, Sign, SPDC};

pub const C: f64 = 299_792_458.0;
pub const TAU: f64 = std::f64::consts::TAU;

pub fn crystals() -> Vec<CrystalType> {
  vec![
    CrystalType::BBO_1,
    CrystalType::KTP,
    CrystalType::BiBO_1,
    CrystalType::LiNbO3_1,
    CrystalType::LiNb_MgO,
    CrystalType::KDP_1,
    CrystalType::AgGaSe2_1,
    CrystalType::AgGaSe2_2,
    CrystalType::LiIO3_2,
    CrystalType::LiIO3_1,
    CrystalType::AgGaS2_1,
  ]
}

pub const PMS: [PMType; 5] = [
  PMType::Type0_o_oo,
  PMType::Type0_e_ee,
  PMType::Type1_e_oo,
  PMType::Type2_e_eo,
  PMType::Type2_e_oe,
];

/// the crystal's declared transmission window in metres (LiNbO3_1: 400–3400 nm, see D1)
pub fn window(c: &CrystalType) -> (f64, f64) {
  if *c == CrystalType::LiNbO3_1 {
    return (400e-9, 3400e-9);
  }
  match c.get_meta().transmission_range {
    Some(r) => (r.0, r.1),
    None => (400e-9, 2000e-9),
  }
}

/// pump / signal wavelengths with pump, signal and idler all inside the window and λs > λp
pub fn gen_wavelengths(r: &mut Rng, c: &CrystalType) -> (f64, f64) {
  let (lo, hi) = window(c);
  let lp = r.range(lo * 1.0001, hi / 2.0 * 0.999);
  let ls_min = lp * hi / (hi - lp); // idler ≤ hi
  let ls = match r.below(4) {
    0 => 2.0 * lp, // degenerate
    _ => r.range(ls_min * 1.0001, hi * 0.9999),
  };
  (lp, ls)
}

pub fn pol_of(pm: PMType) -> (PolarizationType, PolarizationType, PolarizationType) {
  // (pump, signal, idler): independent transcription of the type names "p -> s i"
  use PolarizationType::{Extraordinary as E, Ordinary as O};
  match pm {
    PMType::Type0_o_oo => (O, O, O),
    PMType::Type0_e_ee => (E, E, E),
    PMType::Type1_e_oo => (E, O, O),
    PMType::Type2_e_eo => (E, E, O),
    PMType::Type2_e_oe => (E, O, E),
  }
}

pub fn mk_setup(
  crystal: CrystalType,
  pm: PMType,
  theta: f64,
  phi: f64,
  length: f64,
  celsius: f64,
  cp: bool,
) -> CrystalSetup {
  CrystalSetup {
    crystal,
    pm_type: pm,
    theta: theta * RAD,
    phi: phi * RAD,
    length: length * M,
    temperature: (celsius + 273.15) * K,
    counter_propagation: cp,
  }
}

pub fn mk_beams(pm: PMType, lp: f64, ls: f64, theta_s: f64, phi_s: f64, waist: f64) -> (SignalBeam, PumpBeam) {
  let signal: SignalBeam = Beam::new(pm.signal_polarization(), phi_s * RAD, theta_s * RAD, ls * M, waist * M).into();
  let pump: PumpBeam = Beam::new(pm.pump_polarization(), 0. * RAD, 0. * RAD, lp * M, waist * M).into();
  (signal, pump)
}

/// beams with given (possibly elliptic) waists; the pump's waist is independent of the signal's
pub fn mk_beams_w(pm: PMType, lp: f64, ls: f64, theta_s: f64, phi_s: f64, ws: BeamWaist, wp: BeamWaist) -> (SignalBeam, PumpBeam) {
  let signal: SignalBeam = Beam::new(pm.signal_polarization(), phi_s * RAD, theta_s * RAD, ls * M, ws).into();
  let pump: PumpBeam = Beam::new(pm.pump_polarization(), 0. * RAD, 0. * RAD, lp * M, wp).into();
  (signal, pump)
}

/// a beam waist `BeamWaist { x, y }` (public fields; `Beam::new` and `set_waist` take `Into<BeamWaist>`): 2/5 circular,
/// 3/5 ELLIPTIC — nearly circular (relative difference 1e-12…1e-2), moderate aspect ratio, or both axes independent
pub fn gen_waist(r: &mut Rng) -> BeamWaist {
  let x = r.log_range(20e-6, 2e-3);
  let y = match r.below(10) {
    0..=3 => x,
    4 => x * (1.0 + r.log_range(1e-12, 1e-2) * if r.coin() { -1.0 } else { 1.0 }),
    5 | 6 => x * r.range(0.3, 3.0),
    _ => r.log_range(20e-6, 2e-3),
  };
  BeamWaist { x: x * M, y: y * M }
}
pub fn waist_str(w: BeamWaist) -> String {
  format!("({:e},{:e})", *(w.x / M), *(w.y / M))
}

/// wire form of a poling: `off x0 0` | `on <period> <neg>`
pub fn pp_wire(pp: &PeriodicPoling) -> String {
  match pp {
    PeriodicPoling::Off => format!("off {} 0", fl(0.0)),
    PeriodicPoling::On { period, sign, .. } => {
      format!("on {} {}", fl(*(*period / M)), if *sign == Sign::NEGATIVE { 1 } else { 0 })
    }
  }
}

pub fn pp_on(period: f64, neg: bool) -> PeriodicPoling {
  PeriodicPoling::On {
    period: period * M,
    sign: if neg { Sign::NEGATIVE } else { Sign::POSITIVE },
    apodization: Apodization::Off,
  }
}

pub fn raw_vec(k: spdcalc::Wavevector) -> Vector3<f64> {
  *(k * M / RAD)
}
pub fn w_of(b: &Beam) -> f64 {
  *(b.frequency() / (RAD / S))
}
pub fn l_of(b: &Beam) -> f64 {
  *(b.vacuum_wavelength() / M)
}
pub fn th_of(b: &Beam) -> f64 {
  *(b.theta_internal() / RAD)
}
pub fn ph_of(b: &Beam) -> f64 {
  *(b.phi() / RAD)
}
pub fn dir_of(b: &Beam) -> Vector3<f64> {
  b.direction().into_inner()
}
fn v3(v: &Vector3<f64>) -> String {
  format!("{} {} {}", fl(v.x), fl(v.y), fl(v.z))
}
pub fn pol_name(p: PolarizationType) -> &'static str {
  match p {
    PolarizationType::Ordinary => "Ordinary",
    PolarizationType::Extraordinary => "Extraordinary",
  }
}

/// relative bound for "dir_i ∥ c": the statement's 1e-9, plus the rounding the code's own radicand
/// `arg = ‖(λs/2π)c‖²` necessarily carries when the poling nearly cancels the closing vector: `arg` is a sum of
/// terms of size (λs|k|/2π)², so its relative error is ~ε(|k|/‖c‖)², and so is that of sin θ_i (negligible —
/// 1e-14 — unless ‖c‖ ≪ |k|; a case with ‖c‖ = 1.6e-4|k| measured 1.2e-9)
pub fn par_tol(k_norm: f64, c_norm: f64) -> f64 {
  let r = k_norm / c_norm;
  1e-9 + 16.0 * f64::EPSILON * r * r
}
/// … and the code obtains the idler's ANGLE as asin(sin θ_i): a relative rounding error δ of sin θ_i is an angle error
/// δ·tan θ_i, so for a closing vector `c` that is nearly perpendicular to the pump (c_z → 0+, the edge of "points
/// forward"; reached when an optimum poling period cancels c_z for a tilted signal) the rounding part of the bound
/// grows with tan θ_c = c_⊥ / c_z (a case with tan θ_c = 2.2e6 measured 1.03e-9; for tan θ_c ≤ 1 nothing changes)
pub fn par_tol_c(k_norm: f64, c: &Vector3<f64>) -> f64 {
  let r = k_norm / c.norm();
  let tan = (c.x.hypot(c.y) / c.z.abs()).max(1.0);
  1e-9 + 16.0 * f64::EPSILON * r * r * tan
}

/// wave vector of a beam computed from first principles: unit direction from the polar angles, index from
/// `index_along` for the beam's polarization, magnitude n ω / c
pub fn indep_k(cs: &CrystalSetup, theta: f64, phi: f64, pol: PolarizationType, omega: f64) -> Vector3<f64> {
  let d = Vector3::new(theta.sin() * phi.cos(), theta.sin() * phi.sin(), theta.cos());
  let lambda = TAU * C / omega;
  let n = *cs.index_along(lambda * M, nalgebra::Unit::new_normalize(d), pol);
  d * (n * omega / C)
}

fn describe(cs: &CrystalSetup, lp: f64, ls: f64, ths: f64, phs: f64, pp: &PeriodicPoling) -> String {
  let (k, per, neg) = match pp {
    PeriodicPoling::Off => ("off", 0.0, 0),
    PeriodicPoling::On { period, sign, .. } => ("on", *(*period / M), if *sign == Sign::NEGATIVE { 1 } else { 0 }),
  };
  format!(
    "crystal={} pm={} ctheta={:e} cphi={:e} T={:e} cp={} lp={:e} ls={:e} theta_s={:e} phi_s={:e} poling={} period={:e} neg={}",
    cs.crystal,
    cs.pm_type,
    *(cs.theta / RAD),
    *(cs.phi / RAD),
    *(cs.temperature / K),
    cs.counter_propagation as u8,
    lp,
    ls,
    ths,
    phs,
    k,
    per,
    neg
  )
}

fn gen_poling(r: &mut Rng) -> PeriodicPoling {
  match r.below(3) {
    0 => PeriodicPoling::Off,
    // periods over many decades (the closing vector points backward for tiny positive periods: then only Δk's
    // definition and the K tie are checked)
    1 => pp_on(r.log_range(3e-8, 1.0), r.coin()),
    _ => pp_on(r.log_range(0.3e-6, 1e-3), r.coin()),
  }
}

/// Build the signal (or the pump) of a case away from its target and move it there with the public setters.
/// Every variant ends in the state `Beam::new(pol, phs, ths, ls, waist)` describes (the getters are read back
/// afterwards, so a setter that rounds differently from the constructor cannot raise an alarm).
#[allow(clippy::too_many_arguments)]
fn build_by_setters(r: &mut Rng, pm: PMType, lp: f64, ls: f64, ths: f64, phs: f64, waist: BeamWaist, wp: BeamWaist, signal: &mut SignalBeam, pump: &mut PumpBeam) -> &'static str {
  let other = |p: PolarizationType| if p == PolarizationType::Ordinary { PolarizationType::Extraordinary } else { PolarizationType::Ordinary };
  let phi0 = r.range(0.0, TAU);
  let th0 = r.range(0.02, 0.3) * if r.coin() { -1.0 } else { 1.0 };
  let l0 = ls * r.range(0.7, 1.4);
  let sp = pm.signal_polarization();
  let mk = |pol, ph: f64, th: f64, l: f64, w: BeamWaist| -> SignalBeam { Beam::new(pol, ph * RAD, th * RAD, l * M, w).into() };
  // another waist to start from (elliptic or circular, and the circular beam of the target's x alone)
  let w0 = match r.below(3) {
    0 => BeamWaist::new(waist.x),
    1 => BeamWaist { x: waist.y, y: waist.x },
    _ => gen_waist(r),
  };
  match r.below(20) {
    14 => {
      // the conversion Beam -> PumpBeam: whatever it does with the angles of a tilted beam, the clauses are checked
      // against the pump's direction as the resulting object reports it (kp along `phi()`, `theta_internal()`)
      let b = Beam::new(pm.pump_polarization(), phi0 * RAD, th0 * RAD, lp * M, wp);
      *pump = if r.coin() { b.into() } else { PumpBeam::from(b) };
      "pump:new-tilted.into()"
    }
    15 => {
      // the documented constructor keeps the wrapped beam's direction: a pump that is NOT along z (|θp| ≤ 0.1)
      let thp = gen_theta(r, 0.1);
      *pump = PumpBeam::new(Beam::new(pm.pump_polarization(), phi0 * RAD, thp * RAD, lp * M, wp));
      "pump:PumpBeam::new(tilted)"
    }
    16 => {
      let thp = gen_theta(r, 0.1);
      match r.below(3) {
        0 => {
          pump.set_angles(phi0 * RAD, thp * RAD);
        }
        1 => {
          pump.set_theta_internal(thp * RAD).set_phi(phi0 * RAD);
        }
        _ => {
          pump.set_phi(phi0 * RAD).set_theta_internal(thp * RAD);
        }
      }
      "pump:tilted-by-setters"
    }
    17 => {
      // the waist given as a plain length (circular) and then replaced by the target through the setter
      *signal = Beam::new(sp, phs * RAD, ths * RAD, ls * M, waist.x).into();
      signal.set_waist(waist);
      "new-circular-x+set_waist"
    }
    18 => {
      *signal = mk(sp, phs, ths, ls, BeamWaist { x: waist.y, y: waist.x });
      signal.set_waist(waist);
      "new-swapped-waist+set_waist"
    }
    19 => {
      *pump = Beam::new(pm.pump_polarization(), 0. * RAD, 0. * RAD, lp * M, w0).into();
      pump.set_waist(wp);
      "pump:new+set_waist"
    }
    0 => {
      *signal = mk(sp, phi0, ths, ls, waist);
      signal.set_phi(phs * RAD);
      "new+set_phi"
    }
    1 => {
      *signal = mk(sp, phs, th0, ls, waist);
      signal.set_theta_internal(ths * RAD);
      "new+set_theta_internal"
    }
    2 => {
      *signal = mk(sp, phi0, th0, ls, waist);
      signal.set_angles(phs * RAD, ths * RAD);
      "new+set_angles"
    }
    3 => {
      *signal = mk(sp, phi0, th0, ls, waist);
      signal.set_phi(phs * RAD);
      signal.set_theta_internal(ths * RAD);
      "new+set_phi+set_theta_internal"
    }
    4 => {
      *signal = mk(sp, phi0, th0, ls, waist);
      signal.set_theta_internal(ths * RAD);
      signal.set_phi(phs * RAD);
      "new+set_theta_internal+set_phi"
    }
    5 => {
      // a collinear beam that is tilted first and turned afterwards
      *signal = mk(sp, phi0, 0.0, ls, waist);
      signal.set_theta_internal(ths * RAD).set_phi(phs * RAD);
      "new-collinear+set_theta_internal+set_phi"
    }
    6 => {
      *signal = mk(sp, phs, ths, l0, waist);
      signal.set_vacuum_wavelength(ls * M);
      "new+set_vacuum_wavelength"
    }
    7 => {
      *signal = mk(sp, phs, ths, l0, waist);
      signal.set_frequency(spdcalc::utils::vacuum_wavelength_to_frequency(ls * M));
      "new+set_frequency"
    }
    8 => {
      *signal = mk(other(sp), phs, ths, ls, waist);
      signal.set_polarization(sp);
      "new+set_polarization"
    }
    9 => {
      *signal = Beam::new(other(sp), phs * RAD, ths * RAD, ls * M, waist).with_polarization(sp).into();
      "new+with_polarization"
    }
    10 => {
      *signal = mk(sp, phs, ths, ls, w0);
      signal.set_waist(waist);
      "new+set_waist"
    }
    11 => {
      // everything at once, azimuth last
      *signal = mk(other(sp), phi0, th0, l0, w0);
      signal.set_polarization(sp).set_waist(waist).set_vacuum_wavelength(ls * M).set_theta_internal(ths * RAD).set_phi(phs * RAD);
      "new+set_all"
    }
    12 => {
      let pp = pm.pump_polarization();
      *pump = Beam::new(other(pp), 0. * RAD, 0. * RAD, lp * r.range(0.8, 1.2) * M, wp).into();
      pump.set_polarization(pp).set_vacuum_wavelength(lp * M);
      "pump:new+set_polarization+set_vacuum_wavelength"
    }
    _ => {
      // a pump that was tilted and turned, then brought back onto the axis
      *pump = Beam::new(pm.pump_polarization(), phi0 * RAD, th0 * RAD, lp * M, wp).into();
      pump.set_phi(0. * RAD).set_theta_internal(0. * RAD).set_frequency(spdcalc::utils::vacuum_wavelength_to_frequency(lp * M));
      "pump:new-tilted+set_phi+set_theta_internal+set_frequency"
    }
  }
}

/// K line `dk_from_angles`: the mismatch reported by the real code against the model's Δk for beams whose directions
/// are `direction_from_polar` of the ANGLES the getters report (indices and frequencies passed in, as for `delta_k`)
#[allow(clippy::too_many_arguments)]
fn k_dk_from_angles(ctx: &mut Ctx, cs: &CrystalSetup, signal: &SignalBeam, idler: &IdlerBeam, pump: &PumpBeam, pp: &PeriodicPoling, ws: f64, wi: f64) {
  let nsw = *signal.refractive_index(ws * RAD / S, cs);
  let niw = *idler.refractive_index(wi * RAD / S, cs);
  let np = *pump.refractive_index(pump.frequency(), cs);
  let dk = guard(|| raw_vec(delta_k(ws * RAD / S, wi * RAD / S, signal, idler, pump, cs, pp)));
  let args = format!(
    "{} {} {} {} {} {} {} {} {} {} {} {} {}",
    fl(ph_of(signal)),
    fl(th_of(signal)),
    fl(ph_of(idler)),
    fl(th_of(idler)),
    fl(ph_of(pump)),
    fl(th_of(pump)),
    fl(nsw),
    fl(niw),
    fl(np),
    fl(ws),
    fl(wi),
    fl(w_of(pump)),
    pp_wire(pp)
  );
  ctx.k("dk_from_angles", &args, &dk.map(|v| v3(&v)).unwrap_or("PANIC".into()));
}

/// one case: K lines for `opt_idler`/`delta_k`, and (when `stmt`) the statement's S predicates
fn case(ctx: &mut Ctx, spdc0: &SPDC, cs: &CrystalSetup, lp: f64, ls: f64, ths: f64, phs: f64, pp: &PeriodicPoling, stmt: bool) {
  let pm = cs.pm_type;
  // waists: circular or ELLIPTIC (x ≠ y), the pump's drawn independently of the signal's
  let waist = gen_waist(&mut ctx.rng);
  let wp = gen_waist(&mut ctx.rng);
  let (mut signal, mut pump) = mk_beams_w(pm, lp, ls, ths, phs, waist, wp);
  // a third of the signals (and some pumps) are built somewhere else and then MOVED to the same target by the public
  // setters: the statement is about the beam as it is, whatever calls produced it
  let built = if ctx.rng.below(3) == 0 { build_by_setters(&mut ctx.rng, pm, lp, ls, ths, phs, waist, wp, &mut signal, &mut pump) } else { "new" };
  ctx.count(if waist.x == waist.y { "idler/signal-waist/circular" } else { "idler/signal-waist/elliptic" });
  // a pump that is not along z (PumpBeam::new of a tilted beam, pump.set_angles): the clause about the reported mismatch
  // holds for ANY beams; the closed-form idler DIRECTION is stated for the usual frame (pump along z) only
  let pump_tilted = dir_of(&pump) != Vector3::new(0., 0., 1.) || th_of(&pump) != 0.0;
  if pump_tilted {
    ctx.count("dk/pump-tilted");
  }
  ctx.count(&format!("idler/signal-built-by/{}", built));
  // hand-built beams whose polarizations need not agree with the phase-matching label
  if ctx.rng.below(4) == 0 {
    let pols = [PolarizationType::Ordinary, PolarizationType::Extraordinary];
    signal.set_polarization(*ctx.rng.pick(&pols));
    pump.set_polarization(*ctx.rng.pick(&pols));
    ctx.count("idler/beam-polarizations/independent-of-pm-type");
  }
  let lsr = l_of(&signal);
  let lpr = l_of(&pump);
  let ns = *signal.refractive_index(signal.frequency(), cs);
  let np = *pump.refractive_index(pump.frequency(), cs);
  let what = format!(
    "{} built={} waist_s={} waist_p={} theta_p={:e} phi_p={:e}",
    describe(cs, lp, ls, ths, phs, pp),
    built,
    waist_str(signal.waist()),
    waist_str(pump.waist()),
    th_of(&pump),
    ph_of(&pump)
  );
  let r = guard(|| IdlerBeam::try_new_optimum(&signal, &pump, cs, pp));
  let args = format!(
    "{} {} {} {} {} {} {} {} {} {} {}",
    pm,
    cs.counter_propagation as u8,
    fl(lsr),
    fl(lpr),
    fl(ns),
    fl(np),
    fl(th_of(&signal)),
    fl(ph_of(&signal)),
    pp_wire(pp),
    fl(*(signal.waist().x / M)),
    fl(*(signal.waist().y / M)),
  );
  let out = match &r {
    None => "PANIC".to_string(),
    Some(Err(_)) => "ERR".to_string(),
    Some(Ok(i)) => format!(
      "OK {} {} {} {} {} {} {} {}",
      pol_name(i.polarization()),
      fl(ph_of(i)),
      fl(th_of(i)),
      fl(w_of(i)),
      fl(l_of(i)),
      v3(&dir_of(i)),
      fl(*(i.waist().x / M)),
      fl(*(i.waist().y / M)),
    ),
  };
  ctx.k("opt_idler", &args, &out);
  ctx.count(&format!("idler/type/{}", pm));
  ctx.count(&format!("idler/crystal/{}", cs.crystal));
  ctx.count(&format!(
    "idler/poling/{}",
    match pp {
      PeriodicPoling::Off => "off",
      PeriodicPoling::On { sign: Sign::POSITIVE, .. } => "positive",
      _ => "negative",
    }
  ));

  // ---- error clause
  if lsr <= lpr {
    ctx.count("idler/outcome/ls<=lp");
    if stmt {
      ctx.s("C03.idler", matches!(r, Some(Err(_))), "idler/error-when-ls-le-lp", &what);
    }
    return;
  }
  let idler = match r {
    Some(Ok(i)) => i,
    _ => {
      if stmt {
        ctx.s("C03.idler", false, "idler/unexpected-error", &what);
      }
      return;
    }
  };
  ctx.count("idler/outcome/ok");

  // ---- delta_k correspondence at the centre and at a detuned pair
  let det = ctx.rng.range(-0.03, 0.03);
  for (ws, wi) in [(w_of(&signal), w_of(&idler)), (w_of(&signal) * (1.0 + det), w_of(&idler) * (1.0 - det))] {
    let nsw = *signal.refractive_index(ws * RAD / S, cs);
    let niw = *idler.refractive_index(wi * RAD / S, cs);
    let dk = guard(|| raw_vec(delta_k(ws * RAD / S, wi * RAD / S, &signal, &idler, &pump, cs, pp)));
    let args = format!(
      "{} {} {} {} {} {} {} {} {} {}",
      v3(&dir_of(&signal)),
      v3(&dir_of(&idler)),
      v3(&dir_of(&pump)),
      fl(nsw),
      fl(niw),
      fl(np),
      fl(ws),
      fl(wi),
      fl(w_of(&pump)),
      pp_wire(pp)
    );
    ctx.k("delta_k", &args, &dk.map(|v| v3(&v)).unwrap_or("PANIC".into()));
  }
  k_dk_from_angles(ctx, cs, &signal, &idler, &pump, pp, w_of(&signal), w_of(&idler));
  ctx.k(
    "dk_wavevector",
    &format!("{} {} {}", v3(&dir_of(&signal)), fl(ns), fl(w_of(&signal))),
    &v3(&raw_vec(signal.wavevector(signal.frequency(), cs))),
  );

  if !stmt {
    return;
  }
  // ================= S: the statement on the real code =================
  // every wave vector with the beam's OWN polarization; the PM table only says what the idler's must be
  let (_, _, pol_i) = pol_of(pm);
  let (pol_p, pol_s) = (pump.polarization(), signal.polarization());
  let ws = w_of(&signal);
  let wi = w_of(&idler);
  let wp = w_of(&pump);
  let k_lambda = match pp {
    PeriodicPoling::Off => 0.0,
    PeriodicPoling::On { period, sign, .. } => TAU / (*(*period / M) * if *sign == Sign::NEGATIVE { -1.0 } else { 1.0 }),
  };
  let zhat = Vector3::new(0., 0., 1.);
  let kp = indep_k(cs, th_of(&pump), ph_of(&pump), pol_p, wp);
  let ks = indep_k(cs, th_of(&signal), ph_of(&signal), pol_s, ws);
  let ki = indep_k(cs, th_of(&idler), ph_of(&idler), idler.polarization(), wi);
  let scale = kp.norm();

  // (1) Δk = kp − ks − ki − kΛ ẑ
  let dk = raw_vec(delta_k(ws * RAD / S, wi * RAD / S, &signal, &idler, &pump, cs, pp));
  record(40, "derived/case", cs, &signal, &pump, &idler, pp, ws, wi, dk);
  let expect = kp - ks - ki - zhat * k_lambda;
  let ok = (dk - expect).amax() <= 1e-9 * scale;
  ctx.s("C03.deltak", ok, "dk/definition", &format!("{} got=({:e},{:e},{:e}) want=({:e},{:e},{:e})", what, dk.x, dk.y, dk.z, expect.x, expect.y, expect.z));
  // the same mismatch as reported by the SPDC object (`SPDC::delta_k` with `SPDC::optimum_idler`)
  if ctx.rng.below(4) == 0 {
    let mut spdc = spdc0.clone();
    spdc.crystal_setup = cs.clone();
    spdc.signal = signal.clone();
    spdc.pump = pump.clone();
    spdc.pp = pp.clone();
    let ok = match guard(|| spdc.optimum_idler()) {
      Some(Ok(i)) => {
        // the idler this route hands out: every scalar clause on it as well
        idler_scalar_clauses(ctx, "idler", "/spdc-object", &i, &signal, &pump, pol_i, &what);
        spdc.idler = i;
        let dk2 = raw_vec(spdc.delta_k(ws * RAD / S, wi * RAD / S));
        (dk2 - expect).amax() <= 1e-9 * scale
      }
      _ => false,
    };
    ctx.count("dk/spdc-object");
    ctx.s("C03.deltak", ok, "dk/definition/spdc-object", &what);
  }
  // (2) energy conservation, polarization, azimuth, waist (x AND y)
  idler_scalar_clauses(ctx, "idler", "", &idler, &signal, &pump, pol_i, &what);
  ctx.s("C03.idler", ph_of(&idler) >= 0.0 && ph_of(&idler) < TAU + 1e-15, "idler/azimuth", &format!("{} phi_i={:e}", what, ph_of(&idler)));
  if pump_tilted {
    return;
  }
  // (3) idler parallel to the closing vector whenever that points forward
  let c = kp - ks - zhat * k_lambda;
  let di = dir_of(&idler);
  let neg = if th_of(&signal) < 0.0 { "/negative-theta" } else { "" };
  if c.z > 0.0 {
    ctx.count("idler/closing/forward");
    let cross = di.cross(&c).norm();
    let ok = cross <= par_tol_c(scale, &c) * c.norm() && di.dot(&c) > 0.0;
    ctx.s("C03.idler", ok, &format!("idler/parallel{}", neg), &format!("{} cross_over_norm={:e} theta_i={:e}", what, cross / c.norm(), th_of(&idler)));
    if th_of(&signal) == 0.0 {
      ctx.count("idler/collinear");
      ctx.s("C03.idler", th_of(&idler).sin().abs() <= 1e-9 && th_of(&idler).cos() > 0.0, "idler/collinear", &format!("{} theta_i={:e}", what, th_of(&idler)));
    }
    // residual mismatch parallel to the idler
    let res = dk.cross(&di).norm();
    ctx.s("C03.idler", res <= par_tol_c(scale, &c) * c.norm(), &format!("idler/residual-parallel{}", neg), &format!("{} resid_cross={:e} c={:e}", what, res, c.norm()));
  } else {
    ctx.count("idler/closing/backward");
  }
}

/// the clauses about the derived idler that do not involve its polar angle: 1/λi = 1/λp − 1/λs, the polarization the
/// phase-matching type dictates, azimuth opposite to the signal's, the signal's waist — BOTH components, bit for bit
/// (signatures `<prefix>/{energy, polarization, azimuth, waist}<suffix>`)
#[allow(clippy::too_many_arguments)]
fn idler_scalar_clauses(ctx: &mut Ctx, prefix: &str, suffix: &str, idler: &IdlerBeam, signal: &SignalBeam, pump: &PumpBeam, pol_i: PolarizationType, what: &str) {
  let (lsr, lpr, li) = (l_of(signal), l_of(pump), l_of(idler));
  let inv = 1.0 / lpr - 1.0 / lsr;
  ctx.s("C03.idler", (1.0 / li - inv).abs() <= 1e-9 * inv.abs(), &format!("{}/energy{}", prefix, suffix), &format!("{} li={:e}", what, li));
  ctx.s(
    "C03.idler",
    idler.polarization() == pol_i,
    &format!("{}/polarization{}", prefix, suffix),
    &format!("{} idler_pol={} want={}", what, pol_name(idler.polarization()), pol_name(pol_i)),
  );
  let dphi = (ph_of(idler) - ph_of(signal) - std::f64::consts::PI).rem_euclid(TAU);
  let dphi = dphi.min(TAU - dphi);
  ctx.s("C03.idler", dphi <= 1e-9, &format!("{}/azimuth{}", prefix, suffix), &format!("{} phi_i={:e}", what, ph_of(idler)));
  let (wi, ws) = (idler.waist(), signal.waist());
  let same = wi.x == ws.x && wi.y == ws.y && wi == ws;
  ctx.s(
    "C03.idler",
    same,
    &format!("{}/waist{}", prefix, suffix),
    &format!("{} waist_i={} want_waist_s={} waist_p={}", what, waist_str(wi), waist_str(ws), waist_str(pump.waist())),
  );
}

// =====================================================================================================================
// history independence: a sample of earlier calls is re-evaluated at the end of the run, in another order
// =====================================================================================================================
struct Call {
  cs: CrystalSetup,
  signal: SignalBeam,
  pump: PumpBeam,
  idler: IdlerBeam,
  pp: PeriodicPoling,
  ws: f64,
  wi: f64,
  dk: Vector3<f64>,
  tag: String,
}
thread_local! {
  static CALLS: std::cell::RefCell<(usize, Vec<Call>)> = const { std::cell::RefCell::new((0, Vec::new())) };
}
/// remember every `stride`-th call (at most 1500 per run)
fn record(stride: usize, tag: &str, cs: &CrystalSetup, signal: &SignalBeam, pump: &PumpBeam, idler: &IdlerBeam, pp: &PeriodicPoling, ws: f64, wi: f64, dk: Vector3<f64>) {
  CALLS.with(|c| {
    let mut c = c.borrow_mut();
    c.0 += 1;
    if c.0 % stride == 0 && c.1.len() < 1500 {
      c.1.push(Call { cs: cs.clone(), signal: signal.clone(), pump: pump.clone(), idler: idler.clone(), pp: pp.clone(), ws, wi, dk, tag: tag.to_string() });
    }
  });
}
fn same_bits(a: &Vector3<f64>, b: &Vector3<f64>) -> bool {
  a.x.to_bits() == b.x.to_bits() && a.y.to_bits() == b.y.to_bits() && a.z.to_bits() == b.z.to_bits()
}
/// the reported Δk and the derived idler are functions of their arguments: evaluating the recorded calls again
/// (reverse order, then a shuffled order) must give bit-identical results
fn replay_history(ctx: &mut Ctx) {
  let calls = CALLS.with(|c| std::mem::take(&mut c.borrow_mut().1));
  let n = calls.len();
  let mut order: Vec<usize> = (0..n).rev().collect();
  let mut shuffled: Vec<usize> = (0..n).collect();
  for i in (1..n).rev() {
    let j = ctx.rng.below(i + 1);
    shuffled.swap(i, j);
  }
  order.extend(shuffled);
  for k in order {
    let c = &calls[k];
    let what = format!(
      "recorded_by={} {} ws={:e} wi={:e}",
      c.tag,
      describe(&c.cs, l_of(&c.pump), l_of(&c.signal), th_of(&c.signal), ph_of(&c.signal), &c.pp),
      c.ws,
      c.wi
    );
    let dk = raw_vec(delta_k(c.ws * RAD / S, c.wi * RAD / S, &c.signal, &c.idler, &c.pump, &c.cs, &c.pp));
    ctx.s(
      "C03.deltak",
      same_bits(&dk, &c.dk),
      if same_bits(&dk, &c.dk) { "history/delta_k-reproducible" } else { "history/delta_k-depends-on-earlier-calls" },
      &format!("{} first=({:e},{:e},{:e}) again=({:e},{:e},{:e})", what, c.dk.x, c.dk.y, c.dk.z, dk.x, dk.y, dk.z),
    );
    if let Ok(i) = IdlerBeam::try_new_optimum(&c.signal, &c.pump, &c.cs, &c.pp) {
      // the recorded idler was derived from exactly these arguments whenever the tag says so
      if c.tag.starts_with("derived") {
        let same = i == c.idler;
        ctx.s("C03.idler", same, if same { "history/idler-reproducible" } else { "history/idler-depends-on-earlier-calls" }, &what);
      }
    }
  }
  ctx.count(&format!("history/replayed={}", n));
}

// =====================================================================================================================
// SPDC-level routes that derive the idler, each after a history of mutations on ONE SPDC object
// =====================================================================================================================

/// K line `opt_idler` for an idler derived (by whatever route) from `(signal, pump, cs, pp)`
fn k_opt_idler(ctx: &mut Ctx, cs: &CrystalSetup, signal: &SignalBeam, pump: &PumpBeam, pp: &PeriodicPoling, out: &str) {
  let ns = *signal.refractive_index(signal.frequency(), cs);
  let np = *pump.refractive_index(pump.frequency(), cs);
  let args = format!(
    "{} {} {} {} {} {} {} {} {} {} {}",
    cs.pm_type,
    cs.counter_propagation as u8,
    fl(l_of(signal)),
    fl(l_of(pump)),
    fl(ns),
    fl(np),
    fl(th_of(signal)),
    fl(ph_of(signal)),
    pp_wire(pp),
    fl(*(signal.waist().x / M)),
    fl(*(signal.waist().y / M)),
  );
  ctx.k("opt_idler", &args, out);
}

fn idler_wire(i: &IdlerBeam) -> String {
  format!(
    "OK {} {} {} {} {} {} {} {}",
    pol_name(i.polarization()),
    fl(ph_of(i)),
    fl(th_of(i)),
    fl(w_of(i)),
    fl(l_of(i)),
    v3(&dir_of(i)),
    fl(*(i.waist().x / M)),
    fl(*(i.waist().y / M)),
  )
}

/// ALL clauses of the statement on the setup held by an SPDC object whose idler was just derived through `route`
fn check_spdc(ctx: &mut Ctx, spdc: &SPDC, route: &str, hist: &str) {
  check_spdc_ex(ctx, spdc, route, hist, true)
}

/// `derived == false`: the idler (or the pump) of the object was moved by hand after the derivation, so only the
/// clause about the reported mismatch (which the statement makes for ANY signal/idler pair) applies
fn check_spdc_ex(ctx: &mut Ctx, spdc: &SPDC, route: &str, hist: &str, derived: bool) {
  let cs = &spdc.crystal_setup;
  let (signal, pump, idler, pp) = (&spdc.signal, &spdc.pump, &spdc.idler, &spdc.pp);
  let pm = cs.pm_type;
  let mut what = format!(
    "route={} history={} {}",
    route,
    hist,
    describe(cs, l_of(pump), l_of(signal), th_of(signal), ph_of(signal), pp)
  );
  if !derived {
    what.push_str(&format!(
      " pol_s={} pol_p={} theta_p={:e} phi_p={:e} li={:e} theta_i={:e} phi_i={:e} pol_i={}",
      pol_name(signal.polarization()),
      pol_name(pump.polarization()),
      th_of(pump),
      ph_of(pump),
      l_of(idler),
      th_of(idler),
      ph_of(idler),
      pol_name(idler.polarization())
    ));
  }
  let sig = |clause: &str| format!("route/{}/{}", route, clause);
  ctx.count(&format!("route/{}", route));
  // K: the idler held by the object is the model's optimum idler for the object's signal/pump/crystal/poling
  if derived {
    k_opt_idler(ctx, cs, signal, pump, pp, &idler_wire(idler));
  }
  // K: the mismatch the object reports is the model's Δk along the directions given by the beams' ANGLES
  k_dk_from_angles(ctx, cs, signal, idler, pump, pp, w_of(signal), w_of(idler));

  let (_, _, pol_i) = pol_of(pm);
  let (pol_p, pol_s) = (pump.polarization(), signal.polarization());
  let (ws, wi, wp) = (w_of(signal), w_of(idler), w_of(pump));
  let k_lambda = match pp {
    PeriodicPoling::Off => 0.0,
    PeriodicPoling::On { period, sign, .. } => TAU / (*(*period / M) * if *sign == Sign::NEGATIVE { -1.0 } else { 1.0 }),
  };
  let zhat = Vector3::new(0., 0., 1.);
  let kp = indep_k(cs, th_of(pump), ph_of(pump), pol_p, wp);
  let ks = indep_k(cs, th_of(signal), ph_of(signal), pol_s, ws);
  let ki = indep_k(cs, th_of(idler), ph_of(idler), idler.polarization(), wi);
  let scale = kp.norm();
  // Δk reported by the object = kp − ks − ki − kΛ ẑ with every k from index_along and the PM table's polarizations
  let dk = raw_vec(spdc.delta_k(ws * RAD / S, wi * RAD / S));
  record(if route.starts_with("scan") { 3 } else { 25 }, &format!("{}/object/{}", if derived { "derived" } else { "moved" }, route), cs, signal, pump, idler, pp, ws, wi, dk);
  let expect = kp - ks - ki - zhat * k_lambda;
  // a detuned pair as well (the definition holds for every frequency pair)
  {
    let det = 1.0 + 0.02 * (((ws.to_bits() >> 7) % 200) as f64 / 100.0 - 1.0);
    let (ws2, wi2) = (ws * det, wi * (2.0 - det));
    let ks2 = indep_k(cs, th_of(signal), ph_of(signal), pol_s, ws2);
    let ki2 = indep_k(cs, th_of(idler), ph_of(idler), idler.polarization(), wi2);
    let dk2 = raw_vec(spdc.delta_k(ws2 * RAD / S, wi2 * RAD / S));
    let e2 = kp - ks2 - ki2 - zhat * k_lambda;
    ctx.s(
      "C03.deltak",
      (dk2 - e2).amax() <= 1e-9 * scale,
      &sig("dk-definition-detuned"),
      &format!("{} ws={:e} wi={:e} got=({:e},{:e},{:e}) want=({:e},{:e},{:e})", what, ws2, wi2, dk2.x, dk2.y, dk2.z, e2.x, e2.y, e2.z),
    );
  }
  ctx.s(
    "C03.deltak",
    (dk - expect).amax() <= 1e-9 * scale,
    &sig("dk-definition"),
    &format!("{} got=({:e},{:e},{:e}) want=({:e},{:e},{:e})", what, dk.x, dk.y, dk.z, expect.x, expect.y, expect.z),
  );
  if !derived {
    return;
  }
  idler_scalar_clauses(ctx, &format!("route/{}", route), "", idler, signal, pump, pol_i, &what);
  ctx.count(if signal.waist().x == signal.waist().y { "route/signal-waist/circular" } else { "route/signal-waist/elliptic" });
  // (the closed-form direction is stated for the usual frame: pump along z)
  if dir_of(pump) != Vector3::new(0., 0., 1.) {
    return;
  }
  let c = kp - ks - zhat * k_lambda;
  let di = dir_of(idler);
  if c.z > 0.0 && th_of(signal).abs() <= 0.3 && !cs.counter_propagation {
    let cross = di.cross(&c).norm();
    ctx.s(
      "C03.idler",
      cross <= par_tol_c(scale, &c) * c.norm() && di.dot(&c) > 0.0,
      &sig("parallel"),
      &format!("{} cross_over_norm={:e} theta_i={:e}", what, cross / c.norm(), th_of(idler)),
    );
    if th_of(signal) == 0.0 {
      ctx.s("C03.idler", th_of(idler).sin().abs() <= 1e-9 && th_of(idler).cos() > 0.0, &sig("collinear"), &format!("{} theta_i={:e}", what, th_of(idler)));
    }
    let res = dk.cross(&di).norm();
    ctx.s("C03.idler", res <= par_tol_c(scale, &c) * c.norm(), &sig("residual-parallel"), &format!("{} resid_cross={:e} c={:e}", what, res, c.norm()));
  }
}

/// one session: build an SPDC object, then repeatedly mutate it and re-derive the idler through one of the routes
fn route_session(ctx: &mut Ctx, spdc0: &SPDC, cr: &[CrystalType]) {
  let mut spdc = spdc0.clone();
  // start from a random in-window setup of a random type, idler derived for it (waists stay equal throughout:
  // assign/with/try_as_optimum deliberately keep the idler's own waist)
  let mut crystal = ctx.rng.pick(cr).clone();
  let (lp0, ls0) = gen_wavelengths(&mut ctx.rng, &crystal);
  let pm0 = *ctx.rng.pick(&PMS);
  spdc.crystal_setup = mk_setup(crystal.clone(), pm0, ctx.rng.range(0.0, std::f64::consts::FRAC_PI_2), ctx.rng.range(0.0, TAU), ctx.rng.range(1e-3, 30e-3), ctx.rng.range(0.0, 100.0), false);
  let (w_s, w_p) = (gen_waist(&mut ctx.rng), gen_waist(&mut ctx.rng));
  let (sg, pu) = mk_beams_w(pm0, lp0, ls0, ctx.rng.range(0.0, 0.3), ctx.rng.range(0.0, TAU), w_s, w_p);
  spdc.signal = sg;
  spdc.pump = pu;
  spdc.pp = PeriodicPoling::Off;
  match IdlerBeam::try_new_optimum(&spdc.signal, &spdc.pump, &spdc.crystal_setup, &spdc.pp) {
    Ok(i) => spdc.idler = i,
    Err(_) => return,
  }
  let mut hist = format!("start:{}:{}", crystal, pm0);
  let steps = ctx.rng.between(2, 7);
  for _ in 0..steps {
    // ---- 1–3 mutations of the object
    for _ in 0..ctx.rng.between(1, 3) {
      match ctx.rng.below(12) {
        0 | 1 => {
          let pm = *ctx.rng.pick(&PMS);
          spdc.crystal_setup.pm_type = pm;
          spdc.signal.set_polarization(pm.signal_polarization());
          spdc.pump.set_polarization(pm.pump_polarization());
          hist.push_str(&format!(">pm:{}", pm));
        }
        10 => {
          // a new (possibly elliptic) signal waist; the idler's is moved along, because assign_/with_optimum_idler and
          // try_as_optimum keep the idler's own waist by design (optimum_idler and the config route take the signal's)
          let w = gen_waist(&mut ctx.rng);
          spdc.signal.set_waist(w);
          spdc.idler.set_waist(w);
          hist.push_str(&format!(">signal+idler-waist:{}", waist_str(w)));
        }
        11 => {
          let w = gen_waist(&mut ctx.rng);
          spdc.pump.set_waist(w);
          hist.push_str(&format!(">pump-waist:{}", waist_str(w)));
        }
        7 => {
          // the label alone: the beams keep their polarizations
          let pm = *ctx.rng.pick(&PMS);
          spdc.crystal_setup.pm_type = pm;
          hist.push_str(&format!(">pm-alone:{}", pm));
        }
        8 => {
          let pol = if ctx.rng.coin() { PolarizationType::Ordinary } else { PolarizationType::Extraordinary };
          spdc.signal.set_polarization(pol);
          hist.push_str(">signal-pol");
        }
        9 => {
          let pol = if ctx.rng.coin() { PolarizationType::Ordinary } else { PolarizationType::Extraordinary };
          spdc.pump.set_polarization(pol);
          hist.push_str(">pump-pol");
        }
        2 => {
          let (lo, hi) = window(&crystal);
          let lp = l_of(&spdc.pump);
          let ls_min = (lp * hi / (hi - lp)).max(lp * 1.0001);
          if lp > lo && lp < hi / 2.0 && ls_min < hi {
            let ls = ctx.rng.range(ls_min, hi);
            spdc.signal.set_vacuum_wavelength(ls * M);
            hist.push_str(">ls");
          }
        }
        3 => {
          let th = match ctx.rng.below(4) {
            0 => 0.0,
            1 => -ctx.rng.range(0.0, 0.3),
            _ => ctx.rng.range(0.0, 0.3),
          };
          let ph = ctx.rng.range(0.0, TAU);
          spdc.signal.set_angles(ph * RAD, th * RAD);
          hist.push_str(">angles");
        }
        4 => {
          spdc.pp = gen_poling(&mut ctx.rng);
          hist.push_str(match &spdc.pp {
            PeriodicPoling::Off => ">pp:off",
            PeriodicPoling::On { sign: Sign::POSITIVE, .. } => ">pp:+",
            _ => ">pp:-",
          });
        }
        5 => {
          spdc.crystal_setup.theta = ctx.rng.range(0.0, std::f64::consts::FRAC_PI_2) * RAD;
          spdc.crystal_setup.phi = ctx.rng.range(0.0, TAU) * RAD;
          hist.push_str(">corient");
        }
        _ => {
          crystal = ctx.rng.pick(cr).clone();
          let (lp, ls) = gen_wavelengths(&mut ctx.rng, &crystal);
          spdc.crystal_setup.crystal = crystal.clone();
          spdc.pump.set_vacuum_wavelength(lp * M);
          spdc.signal.set_vacuum_wavelength(ls * M);
          hist.push_str(&format!(">crystal:{}", crystal));
        }
      }
    }
    // ---- error clause through the object's own methods: signal not longer than the pump
    if ctx.rng.below(8) == 0 {
      let keep = spdc.signal.clone();
      let lp = l_of(&spdc.pump);
      spdc.signal.set_vacuum_wavelength((if ctx.rng.coin() { lp } else { lp * 0.8 }) * M);
      if l_of(&spdc.signal) <= l_of(&spdc.pump) {
        let what = format!("history={}>ls<=lp {}", hist, describe(&spdc.crystal_setup, lp, l_of(&spdc.signal), th_of(&spdc.signal), ph_of(&spdc.signal), &spdc.pp));
        let mut a = spdc.clone();
        ctx.s("C03.idler", matches!(guard(|| a.assign_optimum_idler().map(|_| ())), Some(Err(_))), "route/assign_optimum_idler/error-when-ls-le-lp", &what);
        let b = spdc.clone();
        ctx.s("C03.idler", matches!(guard(|| b.with_optimum_idler().map(|_| ())), Some(Err(_))), "route/with_optimum_idler/error-when-ls-le-lp", &what);
        ctx.s("C03.idler", matches!(guard(|| spdc.optimum_idler().map(|_| ())), Some(Err(_))), "route/optimum_idler/error-when-ls-le-lp", &what);
        ctx.count("route/error-clause");
      }
      spdc.signal = keep;
    }
    // ---- re-derive the idler through one route and check every clause on the resulting object
    match ctx.rng.below(6) {
      0 | 1 => match guard(|| {
        let mut s2 = spdc.clone();
        s2.assign_optimum_idler().map(|_| ()).map(|_| s2)
      }) {
        Some(Ok(s2)) => {
          spdc = s2;
          hist.push_str(">assign_optimum_idler");
          check_spdc(ctx, &spdc, "assign_optimum_idler", &hist);
        }
        _ => ctx.s("C03.idler", false, "route/assign_optimum_idler/unexpected-error", &hist),
      },
      2 => match guard(|| spdc.clone().with_optimum_idler()) {
        Some(Ok(s2)) => {
          spdc = s2;
          hist.push_str(">with_optimum_idler");
          check_spdc(ctx, &spdc, "with_optimum_idler", &hist);
        }
        _ => ctx.s("C03.idler", false, "route/with_optimum_idler/unexpected-error", &hist),
      },
      3 => match guard(|| spdc.optimum_idler()) {
        Some(Ok(i)) => {
          spdc.idler = i;
          hist.push_str(">optimum_idler");
          check_spdc(ctx, &spdc, "optimum_idler", &hist);
        }
        _ => ctx.s("C03.idler", false, "route/optimum_idler/unexpected-error", &hist),
      },
      4 => {
        // try_as_optimum may legitimately fail (no poling period ≤ L) or hit C04's findings; only a success is checked
        if let Some(Ok(s2)) = guard(|| spdc.clone().try_as_optimum()) {
          spdc = s2;
          hist.push_str(">try_as_optimum");
          check_spdc(ctx, &spdc, "try_as_optimum", &hist);
        } else {
          ctx.count("route/try_as_optimum/not-ok");
        }
      }
      _ => {
        // configuration route with `"idler": "auto"` (the config rounds lengths/angles; the clauses are checked on
        // the object it produces)
        let mut cfg = spdc.clone().as_config();
        cfg.idler = AutoCalcParam::Auto("auto".into());
        if let Some(Ok(s2)) = guard(|| cfg.try_as_spdc()) {
          spdc = s2;
          hist.push_str(">config-idler-auto");
          check_spdc(ctx, &spdc, "config-idler-auto", &hist);
        } else {
          ctx.count("route/config-idler-auto/not-ok");
        }
      }
    }
  }
}

// =====================================================================================================================
// setter histories: beams that were MOVED after construction (Beam setters, the sweep setter paths of `SPDCIter`, the
// SPDC-level assign_* / with_* mutators) before the idler / the mismatch is asked for
// =====================================================================================================================

fn gen_phi(r: &mut Rng) -> f64 {
  match r.below(6) {
    0 => *r.pick(&[0.0, std::f64::consts::PI, TAU, -std::f64::consts::PI, 1.5 * std::f64::consts::PI]),
    1 => r.range(-7.0, 13.0),
    _ => r.range(0.0, TAU),
  }
}
fn gen_theta(r: &mut Rng, max: f64) -> f64 {
  match r.below(7) {
    0 => 0.0,
    1 => -r.range(0.0, max),
    2 => r.log_range(1e-9, max),
    3 => *r.pick(&[max, -max, -0.0]),
    _ => r.range(0.0, max),
  }
}
fn flip(p: PolarizationType) -> PolarizationType {
  if p == PolarizationType::Ordinary {
    PolarizationType::Extraordinary
  } else {
    PolarizationType::Ordinary
  }
}
/// a signal wavelength for the given pump with pump, signal and idler inside the window
fn pick_ls(r: &mut Rng, c: &CrystalType, lp: f64) -> Option<f64> {
  let (lo, hi) = window(c);
  let ls_min = (lp * hi / (hi - lp)).max(lp * 1.0001);
  if lp > lo && lp < hi / 2.0 && ls_min * 1.0001 < hi {
    Some(r.range(ls_min * 1.0001, hi * 0.9999))
  } else {
    None
  }
}
/// a pump wavelength for the given signal with pump, signal and idler inside the window
fn pick_lp(r: &mut Rng, c: &CrystalType, ls: f64) -> Option<f64> {
  let (lo, hi) = window(c);
  let lp_max = (ls * hi / (ls + hi)).min(ls / 1.0001);
  if lp_max > lo * 1.0002 {
    Some(r.range(lo * 1.0001, lp_max * 0.9999))
  } else {
    None
  }
}
/// the crate's sweep machinery on a 1×1 grid: both setters applied once to a clone of `spdc`
fn sweep_apply(spdc: &SPDC, p1: &str, v1: f64, p2: &str, v2: f64) -> Option<SPDC> {
  guard(|| SPDCIter::try_new(spdc.clone(), p1, p2, Steps2D((v1, v1, 1), (v2, v2, 1))).ok().and_then(|it| it.into_iter().next())).flatten()
}
/// apply sweep path `path` (value `v`) together with a second path that does not enter C03 (or `other`), in random order
fn sweep_with_neutral(r: &mut Rng, spdc: &mut SPDC, path: &str, v: f64, other: Option<(&str, f64)>) -> Option<String> {
  let (p2, v2) = match other {
    Some(o) => o,
    None => match r.below(5) {
      0 => ("deff_pm_per_volt", r.range(0.5, 5.0)),
      1 => ("pump.average_power_mw", r.range(1.0, 10.0)),
      2 => ("pump.bandwidth_nm", r.range(1.0, 10.0)),
      3 => ("signal.waist_position_um", -r.range(0.0, 1000.0)),
      _ => ("idler.waist_position_um", -r.range(0.0, 1000.0)),
    },
  };
  let first = r.coin();
  let out = if first { sweep_apply(spdc, path, v, p2, v2) } else { sweep_apply(spdc, p2, v2, path, v) }?;
  *spdc = out;
  Some(if first { format!("sweep[{}={:e},{}={:e}]", path, v, p2, v2) } else { format!("sweep[{}={:e},{}={:e}]", p2, v2, path, v) })
}

const N_PRE: usize = 36;
/// one public mutator on the signal / pump / crystal / poling side of the object: `(route name, history token)`
fn mutate_pre(ctx: &mut Ctx, spdc: &mut SPDC, crystal: &CrystalType, which: usize) -> Option<(&'static str, String)> {
  let r = &mut ctx.rng;
  let (ls, lp) = (l_of(&spdc.signal), l_of(&spdc.pump));
  let tok = |name: &'static str, v: String| Some((name, format!("{}({})", name, v)));
  match which {
    0 => {
      let v = gen_phi(r);
      spdc.signal.set_phi(v * RAD);
      tok("signal.set_phi", format!("{:e}", v))
    }
    1 => {
      let v = gen_theta(r, 0.3);
      spdc.signal.set_theta_internal(v * RAD);
      tok("signal.set_theta_internal", format!("{:e}", v))
    }
    2 => {
      let v = if r.below(6) == 0 { 0.0 } else { r.range(-0.3, 0.3) };
      let cs = spdc.crystal_setup.clone();
      spdc.signal.set_theta_external(v * RAD, &cs);
      tok("signal.set_theta_external", format!("{:e}", v))
    }
    3 => {
      let (a, b) = (gen_phi(r), gen_theta(r, 0.3));
      spdc.signal.set_angles(a * RAD, b * RAD);
      tok("signal.set_angles", format!("{:e},{:e}", a, b))
    }
    4 => {
      let v = pick_ls(r, crystal, lp)?;
      spdc.signal.set_vacuum_wavelength(v * M);
      tok("signal.set_vacuum_wavelength", format!("{:e}", v))
    }
    5 => {
      let v = TAU * C / pick_ls(r, crystal, lp)?;
      spdc.signal.set_frequency(v * RAD / S);
      tok("signal.set_frequency", format!("{:e}", v))
    }
    6 => {
      let p = flip(spdc.signal.polarization());
      spdc.signal.set_polarization(p);
      tok("signal.set_polarization", pol_name(p).to_string())
    }
    7 => {
      let p = flip(spdc.signal.polarization());
      spdc.signal = spdc.signal.clone().as_beam().with_polarization(p).into();
      tok("signal.with_polarization", pol_name(p).to_string())
    }
    8 => {
      // (the idler's waist is moved along: assign/with_optimum_idler keep the idler's own waist by design)
      let v = gen_waist(r);
      spdc.signal.set_waist(v);
      spdc.idler.set_waist(v);
      tok("signal.set_waist", waist_str(v))
    }
    9 => {
      let v = pick_lp(r, crystal, ls)?;
      spdc.pump.set_vacuum_wavelength(v * M);
      tok("pump.set_vacuum_wavelength", format!("{:e}", v))
    }
    10 => {
      let v = TAU * C / pick_lp(r, crystal, ls)?;
      spdc.pump.set_frequency(v * RAD / S);
      tok("pump.set_frequency", format!("{:e}", v))
    }
    11 => {
      let p = flip(spdc.pump.polarization());
      spdc.pump.set_polarization(p);
      tok("pump.set_polarization", pol_name(p).to_string())
    }
    12 => {
      let v = gen_waist(r);
      spdc.pump.set_waist(v);
      tok("pump.set_waist", waist_str(v))
    }
    13 => {
      let v = gen_phi(r).to_degrees();
      sweep_with_neutral(r, spdc, "signal.phi_deg", v, None).map(|t| ("sweep:signal.phi_deg", t))
    }
    14 => {
      let v = gen_theta(r, 0.3).to_degrees();
      sweep_with_neutral(r, spdc, "signal.theta_deg", v, None).map(|t| ("sweep:signal.theta_deg", t))
    }
    15 => {
      let v = r.range(-0.3, 0.3).to_degrees();
      sweep_with_neutral(r, spdc, "signal.theta_external_deg", v, None).map(|t| ("sweep:signal.theta_external_deg", t))
    }
    16 => {
      let v = C / pick_ls(r, crystal, lp)? / 1e12;
      sweep_with_neutral(r, spdc, "signal.frequency_thz", v, None).map(|t| ("sweep:signal.frequency_thz", t))
    }
    17 => {
      let v = pick_ls(r, crystal, lp)? * 1e9;
      sweep_with_neutral(r, spdc, "signal.wavelength_nm", v, None).map(|t| ("sweep:signal.wavelength_nm", t))
    }
    18 => {
      let v = r.log_range(20.0, 2000.0);
      sweep_with_neutral(r, spdc, "signal.waist_um", v, Some(("idler.waist_um", v))).map(|t| ("sweep:signal.waist_um", t))
    }
    19 => {
      let v = C / pick_lp(r, crystal, ls)? / 1e12;
      sweep_with_neutral(r, spdc, "pump.frequency_thz", v, None).map(|t| ("sweep:pump.frequency_thz", t))
    }
    20 => {
      let v = pick_lp(r, crystal, ls)? * 1e9;
      sweep_with_neutral(r, spdc, "pump.wavelength_nm", v, None).map(|t| ("sweep:pump.wavelength_nm", t))
    }
    21 => {
      let v = r.log_range(20.0, 2000.0);
      sweep_with_neutral(r, spdc, "pump.waist_um", v, None).map(|t| ("sweep:pump.waist_um", t))
    }
    22 => {
      let v = r.range(0.0, 360.0);
      sweep_with_neutral(r, spdc, "crystal.phi_deg", v, None).map(|t| ("sweep:crystal.phi_deg", t))
    }
    23 => {
      let v = r.range(0.0, 90.0);
      sweep_with_neutral(r, spdc, "crystal.theta_deg", v, None).map(|t| ("sweep:crystal.theta_deg", t))
    }
    24 => {
      let v = r.range(1000.0, 30000.0);
      sweep_with_neutral(r, spdc, "crystal.length_um", v, None).map(|t| ("sweep:crystal.length_um", t))
    }
    25 => {
      let v = r.range(0.0, 100.0);
      sweep_with_neutral(r, spdc, "crystal.temperature_c", v, None).map(|t| ("sweep:crystal.temperature_c", t))
    }
    26 => {
      let v = r.log_range(0.3, 1000.0);
      sweep_with_neutral(r, spdc, "periodic_poling.poling_period_um", v, None).map(|t| ("sweep:periodic_poling.poling_period_um", t))
    }
    27 => {
      let v = r.log_range(0.3e-6, 1e-3) * if r.coin() { -1.0 } else { 1.0 };
      guard(|| {
        spdc.assign_poling_period(v * M);
      })?;
      tok("assign_poling_period", format!("{:e}", v))
    }
    28 => {
      let v = r.log_range(0.3e-6, 1e-3) * if r.coin() { -1.0 } else { 1.0 };
      *spdc = guard(|| spdc.clone().with_poling_period(v * M))?;
      tok("with_poling_period", format!("{:e}", v))
    }
    29 => {
      guard(|| {
        spdc.assign_optimum_crystal_theta();
      })?;
      tok("assign_optimum_crystal_theta", String::new())
    }
    30 => {
      *spdc = guard(|| spdc.clone().with_optimum_crystal_theta())?;
      tok("with_optimum_crystal_theta", String::new())
    }
    31 => {
      let mut s2 = spdc.clone();
      guard(|| s2.assign_optimum_periodic_poling().map(|_| ()))?.ok()?;
      *spdc = s2;
      tok("assign_optimum_periodic_poling", String::new())
    }
    32 => {
      *spdc = guard(|| spdc.clone().with_optimum_periodic_poling())?.ok()?;
      tok("with_optimum_periodic_poling", String::new())
    }
    33 => {
      // the old (derived) idler becomes the signal; only when it is a beam of the statement's domain
      if !(th_of(&spdc.idler).abs() <= 0.3) {
        return None;
      }
      *spdc = spdc.clone().with_swapped_signal_idler();
      tok("with_swapped_signal_idler", String::new())
    }
    34 => {
      *spdc = guard(|| spdc.clone().with_optimal_waist_positions())?;
      tok("with_optimal_waist_positions", String::new())
    }
    _ => {
      guard(|| {
        spdc.assign_optimal_waist_positions();
      })?;
      tok("assign_optimal_waist_positions", String::new())
    }
  }
}

const N_POST: usize = 15;
/// one public mutator on the IDLER of the object (or a tilt of the pump): afterwards only the mismatch clause applies
fn mutate_post(ctx: &mut Ctx, spdc: &mut SPDC, crystal: &CrystalType, which: usize) -> Option<(&'static str, String)> {
  let r = &mut ctx.rng;
  let (lo, hi) = window(crystal);
  let tok = |name: &'static str, v: String| Some((name, format!("{}({})", name, v)));
  match which {
    0 => {
      let v = gen_phi(r);
      spdc.idler.set_phi(v * RAD);
      tok("idler.set_phi", format!("{:e}", v))
    }
    1 => {
      let v = gen_theta(r, 0.3);
      spdc.idler.set_theta_internal(v * RAD);
      tok("idler.set_theta_internal", format!("{:e}", v))
    }
    2 => {
      let v = r.range(-0.3, 0.3);
      let cs = spdc.crystal_setup.clone();
      spdc.idler.set_theta_external(v * RAD, &cs);
      tok("idler.set_theta_external", format!("{:e}", v))
    }
    3 => {
      let (a, b) = (gen_phi(r), gen_theta(r, 0.3));
      spdc.idler.set_angles(a * RAD, b * RAD);
      tok("idler.set_angles", format!("{:e},{:e}", a, b))
    }
    4 => {
      let v = r.range(lo * 1.0001, hi * 0.9999);
      spdc.idler.set_vacuum_wavelength(v * M);
      tok("idler.set_vacuum_wavelength", format!("{:e}", v))
    }
    5 => {
      let v = TAU * C / r.range(lo * 1.0001, hi * 0.9999);
      spdc.idler.set_frequency(v * RAD / S);
      tok("idler.set_frequency", format!("{:e}", v))
    }
    6 => {
      let p = flip(spdc.idler.polarization());
      spdc.idler.set_polarization(p);
      tok("idler.set_polarization", pol_name(p).to_string())
    }
    7 => {
      let v = gen_phi(r).to_degrees();
      sweep_with_neutral(r, spdc, "idler.phi_deg", v, None).map(|t| ("sweep:idler.phi_deg", t))
    }
    8 => {
      let v = gen_theta(r, 0.3).to_degrees();
      sweep_with_neutral(r, spdc, "idler.theta_deg", v, None).map(|t| ("sweep:idler.theta_deg", t))
    }
    9 => {
      let v = r.range(-0.3, 0.3).to_degrees();
      sweep_with_neutral(r, spdc, "idler.theta_external_deg", v, None).map(|t| ("sweep:idler.theta_external_deg", t))
    }
    10 => {
      let v = C / r.range(lo * 1.0001, hi * 0.9999) / 1e12;
      sweep_with_neutral(r, spdc, "idler.frequency_thz", v, None).map(|t| ("sweep:idler.frequency_thz", t))
    }
    11 => {
      let v = r.range(lo * 1.0001, hi * 0.9999) * 1e9;
      sweep_with_neutral(r, spdc, "idler.wavelength_nm", v, None).map(|t| ("sweep:idler.wavelength_nm", t))
    }
    12 => {
      let v = gen_theta(r, 0.1);
      spdc.pump.set_theta_internal(v * RAD);
      tok("pump.set_theta_internal", format!("{:e}", v))
    }
    13 => {
      let v = gen_phi(r);
      spdc.pump.set_phi(v * RAD);
      tok("pump.set_phi", format!("{:e}", v))
    }
    _ => {
      let (a, b) = (gen_phi(r), gen_theta(r, 0.1));
      spdc.pump.set_angles(a * RAD, b * RAD);
      tok("pump.set_angles", format!("{:e},{:e}", a, b))
    }
  }
}

/// the statement's wavelength domain: pump, signal and the idler that energy conservation dictates inside the window
/// (e.g. a swap of signal and idler after the pump was moved can leave it)
fn wavelengths_in_window(spdc: &SPDC, c: &CrystalType) -> bool {
  let (lo, hi) = window(c);
  let (ls, lp) = (l_of(&spdc.signal), l_of(&spdc.pump));
  if !(ls > lp * 1.00005) {
    return false;
  }
  let li = ls * lp / (ls - lp);
  [ls, lp, li].iter().all(|l| *l >= lo && *l <= hi)
}

fn state_is_finite(spdc: &SPDC) -> bool {
  let pp_ok = match &spdc.pp {
    PeriodicPoling::Off => true,
    PeriodicPoling::On { period, .. } => (*(*period / M)).is_finite() && *(*period / M) > 0.0,
  };
  pp_ok
    && [th_of(&spdc.signal), ph_of(&spdc.signal), th_of(&spdc.idler), ph_of(&spdc.idler), th_of(&spdc.pump), ph_of(&spdc.pump)].iter().all(|x| x.is_finite())
    && (*(spdc.crystal_setup.theta / RAD)).is_finite()
    && (*(spdc.crystal_setup.phi / RAD)).is_finite()
}

/// one session on ONE SPDC object: 1–3 public mutators, the idler re-derived, ALL clauses (`route/after-<last
/// mutator>/<clause>`); then, on a copy, 1–3 mutators of the idler / a tilt of the pump and the mismatch clause alone
fn setter_session(ctx: &mut Ctx, spdc0: &SPDC, cr: &[CrystalType]) {
  let crystal = ctx.rng.pick(cr).clone();
  let (lp0, ls0) = gen_wavelengths(&mut ctx.rng, &crystal);
  let pm0 = *ctx.rng.pick(&PMS);
  let mut spdc = spdc0.clone();
  spdc.crystal_setup = mk_setup(crystal.clone(), pm0, ctx.rng.range(0.0, std::f64::consts::FRAC_PI_2), ctx.rng.range(0.0, TAU), ctx.rng.range(1e-3, 30e-3), ctx.rng.range(0.0, 100.0), false);
  let th0 = gen_theta(&mut ctx.rng, 0.3);
  let (w_s, w_p) = (gen_waist(&mut ctx.rng), gen_waist(&mut ctx.rng));
  let (sg, pu) = mk_beams_w(pm0, lp0, ls0, th0, ctx.rng.range(0.0, TAU), w_s, w_p);
  spdc.signal = sg;
  spdc.pump = pu;
  spdc.pp = match ctx.rng.below(3) {
    0 => PeriodicPoling::Off,
    _ => pp_on(ctx.rng.log_range(0.3e-6, 1e-3), ctx.rng.coin()),
  };
  match IdlerBeam::try_new_optimum(&spdc.signal, &spdc.pump, &spdc.crystal_setup, &spdc.pp) {
    Ok(i) => spdc.idler = i,
    Err(_) => return,
  }
  let mut hist = format!("start:{}:{}", crystal, pm0);
  for _ in 0..ctx.rng.between(2, 5) {
    // ---- 1–3 mutators of the signal / pump / crystal / poling side
    let mut last = "";
    for _ in 0..ctx.rng.between(1, 3) {
      let which = ctx.rng.below(N_PRE);
      let keep = spdc.clone();
      match mutate_pre(ctx, &mut spdc, &crystal, which) {
        Some((name, token)) if state_is_finite(&spdc) && wavelengths_in_window(&spdc, &crystal) => {
          last = name;
          hist.push('>');
          hist.push_str(&token);
        }
        _ => {
          spdc = keep;
          ctx.count(&format!("setters/not-applied/{}", which));
        }
      }
    }
    if last.is_empty() {
      continue;
    }
    // ---- the idler re-derived through a route that reads the object as it is
    let (rname, derived) = match ctx.rng.below(4) {
      0 => ("try_new_optimum", guard(|| IdlerBeam::try_new_optimum(&spdc.signal, &spdc.pump, &spdc.crystal_setup, &spdc.pp)).and_then(|x| x.ok()).map(|i| {
        let mut s2 = spdc.clone();
        s2.idler = i;
        s2
      })),
      1 => ("optimum_idler", guard(|| spdc.optimum_idler()).and_then(|x| x.ok()).map(|i| {
        let mut s2 = spdc.clone();
        s2.idler = i;
        s2
      })),
      2 => ("assign_optimum_idler", guard(|| {
        let mut s2 = spdc.clone();
        s2.assign_optimum_idler().map(|_| ()).map(|_| s2)
      })
      .and_then(|x| x.ok())),
      _ => ("with_optimum_idler", guard(|| spdc.clone().with_optimum_idler()).and_then(|x| x.ok())),
    };
    let route = format!("after-{}", last);
    let tail: Vec<&str> = hist.split('>').collect();
    let short = format!("{}>{}", tail[tail.len().saturating_sub(8)..].join(">"), rname);
    match derived {
      Some(s2) => {
        spdc = s2;
        hist.push('>');
        hist.push_str(rname);
        if !state_is_finite(&spdc) {
          // (a closing vector that no idler direction can reach: asin of more than 1) — outside the statement
          ctx.count("setters/idler-angle-not-finite");
          continue;
        }
        check_spdc(ctx, &spdc, &route, &short);
      }
      None => {
        ctx.s("C03.idler", false, &format!("route/{}/unexpected-error", route), &short);
        continue;
      }
    }
    // ---- on a copy: the idler moved by hand / the pump tilted, then the mismatch clause alone
    if ctx.rng.coin() {
      let mut s2 = spdc.clone();
      let mut last2 = "";
      let mut h2 = short.clone();
      for _ in 0..ctx.rng.between(1, 3) {
        let which = ctx.rng.below(N_POST);
        let keep = s2.clone();
        match mutate_post(ctx, &mut s2, &crystal, which) {
          Some((name, token)) if state_is_finite(&s2) => {
            last2 = name;
            h2.push('>');
            h2.push_str(&token);
          }
          _ => {
            s2 = keep;
            ctx.count(&format!("setters/not-applied/post-{}", which));
          }
        }
      }
      if !last2.is_empty() {
        check_spdc_ex(ctx, &s2, &format!("after-{}", last2), &h2, false);
      }
    }
  }
}

/// scans on one thread in which exactly ONE parameter of the setup changes between consecutive calls; after every step
/// the idler is re-derived and every clause is checked on the resulting setup (signatures `route/scan-<param>/<clause>`)
fn scan_session(ctx: &mut Ctx, spdc0: &SPDC, cr: &[CrystalType]) {
  let mut crystal = ctx.rng.pick(cr).clone();
  let (lp0, ls0) = gen_wavelengths(&mut ctx.rng, &crystal);
  let pm0 = *ctx.rng.pick(&PMS);
  let mut spdc = spdc0.clone();
  spdc.crystal_setup = mk_setup(crystal.clone(), pm0, ctx.rng.range(0.0, std::f64::consts::FRAC_PI_2), ctx.rng.range(0.0, TAU), ctx.rng.range(1e-3, 30e-3), ctx.rng.range(0.0, 100.0), false);
  let (w_s, w_p) = (gen_waist(&mut ctx.rng), gen_waist(&mut ctx.rng));
  let (sg, pu) = mk_beams_w(pm0, lp0, ls0, ctx.rng.range(0.0, 0.3), ctx.rng.range(0.0, TAU), w_s, w_p);
  spdc.signal = sg;
  spdc.pump = pu;
  spdc.pp = gen_poling(&mut ctx.rng);
  let params = ["temperature", "crystal-theta", "crystal-phi", "length", "pm-type", "pump-wavelength", "signal-wavelength", "signal-theta", "signal-phi", "poling-period", "poling-sign", "poling-on-off", "counter-propagation", "crystal-kind", "pm-type-alone", "signal-polarization", "pump-polarization", "signal-waist", "pump-waist"];
  let mut hist = format!("start:{}:{}", crystal, pm0);
  let steps = ctx.rng.between(8, 24);
  // a scan usually sweeps ONE parameter repeatedly (as a user's loop would), sometimes hops between parameters
  let mut current = *ctx.rng.pick(&params);
  for step in 0..=steps {
    if step > 0 {
      if ctx.rng.below(3) == 0 {
        current = *ctx.rng.pick(&params);
      }
      let (lo, hi) = window(&crystal);
      match current {
        "temperature" => spdc.crystal_setup.temperature = (ctx.rng.range(0.0, 100.0) + 273.15) * K,
        "crystal-theta" => spdc.crystal_setup.theta = ctx.rng.range(0.0, std::f64::consts::FRAC_PI_2) * RAD,
        "crystal-phi" => spdc.crystal_setup.phi = ctx.rng.range(0.0, TAU) * RAD,
        "length" => spdc.crystal_setup.length = ctx.rng.range(1e-3, 30e-3) * M,
        "pm-type" => {
          let pm = *ctx.rng.pick(&PMS);
          spdc.crystal_setup.pm_type = pm;
          spdc.signal.set_polarization(pm.signal_polarization());
          spdc.pump.set_polarization(pm.pump_polarization());
        }
        "pump-wavelength" => {
          let ls = l_of(&spdc.signal);
          let lp_max = (ls * hi / (ls + hi)).min(ls / 1.0001);
          if lp_max > lo * 1.0002 {
            spdc.pump.set_vacuum_wavelength(ctx.rng.range(lo * 1.0001, lp_max * 0.9999) * M);
          }
        }
        "signal-wavelength" => {
          let lp = l_of(&spdc.pump);
          let ls_min = (lp * hi / (hi - lp)).max(lp * 1.0001);
          if lp < hi / 2.0 && ls_min * 1.0001 < hi {
            spdc.signal.set_vacuum_wavelength(ctx.rng.range(ls_min * 1.0001, hi * 0.9999) * M);
          }
        }
        "signal-theta" => {
          let ph = spdc.signal.phi();
          let th = ctx.rng.range(-0.3, 0.3);
          spdc.signal.set_angles(ph, th * RAD);
        }
        "signal-phi" => {
          let th = spdc.signal.theta_internal();
          spdc.signal.set_angles(ctx.rng.range(0.0, TAU) * RAD, th);
        }
        "poling-period" => {
          let neg = matches!(&spdc.pp, PeriodicPoling::On { sign: Sign::NEGATIVE, .. });
          spdc.pp = pp_on(ctx.rng.log_range(0.3e-6, 1e-3), neg);
        }
        "poling-sign" => {
          if let PeriodicPoling::On { period, sign, .. } = &spdc.pp {
            spdc.pp = pp_on(*(*period / M), *sign == Sign::POSITIVE);
          }
        }
        "poling-on-off" => {
          spdc.pp = match &spdc.pp {
            PeriodicPoling::Off => pp_on(ctx.rng.log_range(0.3e-6, 1e-3), ctx.rng.coin()),
            _ => PeriodicPoling::Off,
          }
        }
        "counter-propagation" => spdc.crystal_setup.counter_propagation = !spdc.crystal_setup.counter_propagation,
        "pm-type-alone" => spdc.crystal_setup.pm_type = *ctx.rng.pick(&PMS),
        "signal-waist" => {
          let w = gen_waist(&mut ctx.rng);
          spdc.signal.set_waist(w);
        }
        "pump-waist" => {
          let w = gen_waist(&mut ctx.rng);
          spdc.pump.set_waist(w);
        }
        "signal-polarization" => {
          let p = spdc.signal.polarization();
          spdc.signal.set_polarization(if p == PolarizationType::Ordinary { PolarizationType::Extraordinary } else { PolarizationType::Ordinary });
        }
        "pump-polarization" => {
          let p = spdc.pump.polarization();
          spdc.pump.set_polarization(if p == PolarizationType::Ordinary { PolarizationType::Extraordinary } else { PolarizationType::Ordinary });
        }
        _ => {
          crystal = ctx.rng.pick(cr).clone();
          let (lp, ls) = gen_wavelengths(&mut ctx.rng, &crystal);
          spdc.crystal_setup.crystal = crystal.clone();
          spdc.pump.set_vacuum_wavelength(lp * M);
          spdc.signal.set_vacuum_wavelength(ls * M);
        }
      }
      hist.push_str(&format!(">{}", current));
    }
    match guard(|| IdlerBeam::try_new_optimum(&spdc.signal, &spdc.pump, &spdc.crystal_setup, &spdc.pp)) {
      Some(Ok(i)) => {
        spdc.idler = i;
        let route = if step == 0 { "scan-start".to_string() } else { format!("scan-{}", current) };
        // keep the detail short: the last 12 steps of the history
        let tail: Vec<&str> = hist.split('>').collect();
        let short = tail[tail.len().saturating_sub(12)..].join(">");
        check_spdc(ctx, &spdc, &route, &short);
      }
      _ => ctx.s("C03.idler", false, "route/scan/unexpected-error", &hist),
    }
  }
}

/// configuration (JSON) route with `"idler": "auto"` combined with an auto crystal angle or an auto poling period and a
/// NON-collinear signal: every clause on the SPDC that `SPDC::from_json` returns
fn config_auto_case(ctx: &mut Ctx, cr: &[CrystalType]) {
  let crystal = ctx.rng.pick(cr).clone();
  let auto_theta = ctx.rng.coin();
  let pms3 = [PMType::Type1_e_oo, PMType::Type2_e_eo, PMType::Type2_e_oe];
  let pm = if auto_theta { *ctx.rng.pick(&pms3) } else { *ctx.rng.pick(&PMS) };
  let (lp, ls) = gen_wavelengths(&mut ctx.rng, &crystal);
  let r4 = |x: f64| (x * 1e4).round() / 1e4;
  let ths_deg = r4(match ctx.rng.below(5) {
    0 => 0.0,
    1 => -ctx.rng.range(0.1, 10.0),
    _ => ctx.rng.range(0.1, 10.0),
  });
  let json = format!(
    r#"{{"crystal":{{"kind":"{}","pm_type":"{}","phi_deg":{},"theta_deg":{},"length_um":{},"temperature_c":{}}},
        "pump":{{"wavelength_nm":{},"waist_um":{},"bandwidth_nm":5,"average_power_mw":1}},
        "signal":{{"wavelength_nm":{},"phi_deg":{},"theta_deg":{},"waist_um":{},"waist_position_um":"auto"}},
        "idler":"auto",{} "deff_pm_per_volt":1}}"#,
    crystal.get_meta().id,
    pm,
    r4(ctx.rng.range(0.0, 360.0)),
    if auto_theta { "\"auto\"".to_string() } else { format!("{}", r4(ctx.rng.range(0.0, 90.0))) },
    r4(ctx.rng.range(1000.0, 30000.0)),
    r4(ctx.rng.range(0.0, 100.0)),
    (lp * 1e12).round() / 1e3,
    r4(ctx.rng.log_range(20.0, 2000.0)),
    (ls * 1e12).round() / 1e3,
    r4(ctx.rng.range(0.0, 360.0)),
    ths_deg,
    r4(ctx.rng.log_range(20.0, 2000.0)),
    if auto_theta { "" } else { r#""periodic_poling":{"poling_period_um":"auto"},"# }
  );
  let route = if auto_theta { "json-idler-auto+theta-auto" } else { "json-idler-auto+poling-auto" };
  match guard(|| SPDC::from_json(&json)) {
    Some(Ok(spdc)) => {
      ctx.count(if th_of(&spdc.signal) == 0.0 { "json/collinear" } else { "json/non-collinear" });
      check_spdc(ctx, &spdc, route, &format!("json:theta_s_deg={}", ths_deg));
    }
    _ => ctx.count(&format!("route/{}/not-ok", route)),
  }
}

pub fn run(ctx: &mut Ctx) {
  let cr = crystals();
  let spdc0 = SPDC::default();
  // ---- pinned examples of the test-suite
  {
    let cs = mk_setup(CrystalType::BBO_1, PMType::Type2_e_eo, (-3.0f64).to_radians(), 1.0f64.to_radians(), 2e-3, 20.0, false);
    case(ctx, &spdc0, &cs, 775e-9, 1550e-9, 15f64.to_radians(), 10f64.to_radians(), &pp_on(0.00004656366863331685, false), true);
    case(ctx, &spdc0, &cs, 775e-9, 1550e-9, 0.0, 0.0, &PeriodicPoling::Off, true);
  }
  for _ in 0..ctx.n {
    let crystal = ctx.rng.pick(&cr).clone();
    let pm = *ctx.rng.pick(&PMS);
    let ctheta = match ctx.rng.below(10) {
      0 => 0.0,
      1 => std::f64::consts::FRAC_PI_2,
      2 => ctx.rng.range(-std::f64::consts::PI, std::f64::consts::PI),
      3 => *ctx.rng.pick(&[std::f64::consts::PI, -std::f64::consts::PI, -0.0, -std::f64::consts::FRAC_PI_2]),
      _ => ctx.rng.range(0.0, std::f64::consts::FRAC_PI_2),
    };
    let cphi = match ctx.rng.below(6) {
      0 => 0.0,
      _ => ctx.rng.range(0.0, TAU),
    };
    let celsius = ctx.rng.range(0.0, 100.0);
    let length = ctx.rng.range(1e-3, 30e-3);
    let (lp, ls) = gen_wavelengths(&mut ctx.rng, &crystal);
    let ths = match ctx.rng.below(8) {
      0 => 0.0,
      1 => ctx.rng.log_range(1e-12, 0.3),
      2 => 0.3,
      _ => ctx.rng.range(0.0, 0.3),
    } * if ctx.rng.below(5) == 0 { -1.0 } else { 1.0 }; // (−0.0 included)
    let phs = match ctx.rng.below(10) {
      0 => 0.0,
      1 => std::f64::consts::PI,
      2 => TAU,
      3 => -std::f64::consts::PI,
      4 => 1.5 * std::f64::consts::PI,
      _ => ctx.rng.range(0.0, TAU),
    };
    let pp = gen_poling(&mut ctx.rng);
    let cs = mk_setup(crystal.clone(), pm, ctheta, cphi, length, celsius, false);
    case(ctx, &spdc0, &cs, lp, ls, ths, phs, &pp, true);

    // correspondence only: other branches of try_new_optimum (counter-propagation, backward and negative
    // signal angles, azimuths outside [0,2π)), and the error stream λs ≤ λp
    if ctx.rng.below(3) == 0 {
      let cp = ctx.rng.coin();
      let ths2 = match ctx.rng.below(4) {
        0 => -ths,
        1 => std::f64::consts::PI - ths,
        2 => ctx.rng.range(-std::f64::consts::PI, std::f64::consts::PI),
        _ => ths,
      };
      let phs2 = ctx.rng.range(-7.0, 13.0);
      let cs2 = mk_setup(crystal.clone(), pm, ctheta, cphi, length, celsius, cp);
      case(ctx, &spdc0, &cs2, lp, ls, ths2, phs2, &pp, false);
    }
    if ctx.rng.below(6) == 0 {
      // λs ≤ λp (equal, swapped, marginally smaller)
      let (a, b) = match ctx.rng.below(3) {
        0 => (lp, lp),
        1 => (ls, lp),
        _ => (lp, lp * (1.0 - 1e-12)),
      };
      case(ctx, &spdc0, &cs, a, b, ths, phs, &pp, true);
    }
  }
  // SPDC-level routes after mutation histories
  for _ in 0..(ctx.n / 12).max(20) {
    route_session(ctx, &spdc0, &cr);
  }
  // one-parameter scans on this thread
  for _ in 0..(ctx.n / 40).max(20) {
    scan_session(ctx, &spdc0, &cr);
  }
  // setter histories: beams moved after construction (Beam setters, sweep setter paths, SPDC-level mutators)
  for _ in 0..(ctx.n / 30).max(40) {
    setter_session(ctx, &spdc0, &cr);
  }
  // JSON configurations with idler auto + (crystal angle auto | poling auto) and a non-collinear signal
  for _ in 0..(ctx.n / 60).max(20) {
    config_auto_case(ctx, &cr);
  }
  // history independence of everything recorded above
  replay_history(ctx);
  // k_eff, including the assertion on non-positive periods
  for p in [1e-5, 46.5e-6, 0.0, -1e-5, f64::NAN, f64::INFINITY] {
    for neg in [false, true] {
      let pp = pp_on(p, neg);
      let r = guard(|| *(pp.k_eff() / (RAD / M)));
      ctx.k("k_eff", &pp_wire(&pp), &r.map(fl).unwrap_or("PANIC".into()));
    }
  }
  ctx.k("k_eff", &pp_wire(&PeriodicPoling::Off), &fl(*(PeriodicPoling::Off.k_eff() / (RAD / M))));
}
