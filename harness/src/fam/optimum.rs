//! C20 — normalised spectra relative to the optimised setup; optimising is idempotent.
//! Also hosts the setup generator shared with the C08 family (`counts.rs`).
use crate::common::*;
use spdcalc::dim::ucum::{DEG, M, RAD, S};
use spdcalc::prelude::*;
use spdcalc::{
  jsa_raw, jsi_normalization, jsi_singles_normalization, jsi_singles_raw, optimum_poling_period, Frequency,
  JsiNorm, JsiSinglesNorm, PeriodicPoling,
};

// ------------------------------------------------------------------------------------------------
// setup generator (shared)
// ------------------------------------------------------------------------------------------------

/// crystal ids with their transparency windows in nm (LiNbO3_1's META window carries the unit slip
/// D1, so the table is spelled out here)
pub const CRYSTALS: &[(&str, f64, f64)] = &[
  ("BBO_1", 189.0, 3500.0),
  ("KTP", 350.0, 3500.0),
  ("BiBO_1", 286.0, 2500.0),
  ("LiNbO3_1", 400.0, 3400.0),
  ("LiNb_MgO", 440.0, 4000.0),
  ("KDP_1", 200.0, 1500.0),
  ("AgGaSe2_1", 1000.0, 13500.0),
  ("AgGaSe2_2", 1000.0, 13500.0),
  ("LiIO3_2", 300.0, 5000.0),
  ("LiIO3_1", 300.0, 5000.0),
  ("AgGaS2_1", 500.0, 13000.0),
];
pub const PM_TYPES: &[&str] = &["Type0_o_oo", "Type0_e_ee", "Type1_e_oo", "Type2_e_eo", "Type2_e_oe"];

#[derive(Clone, Debug)]
pub struct GenOpts {
  /// waists (µm) drawn log-uniformly from this range
  pub waist: (f64, f64),
  /// crystal length (µm) range
  pub length: (f64, f64),
  /// allow an explicit (possibly non-conjugate) idler
  pub explicit_idler: bool,
  /// allow counter-propagation
  pub counter_prop: bool,
  /// allow apodisation
  pub apodization: bool,
  /// force poling on/off (None = random)
  pub poling: Option<bool>,
  /// force collinear (None = random)
  pub collinear: Option<bool>,
}

#[derive(Clone, Debug)]
pub struct Meta {
  pub crystal: String,
  pub pm: String,
  pub poling: bool,
  pub collinear: bool,
  pub idler_explicit: bool,
  pub idler_conj: bool,
  pub cp: bool,
  pub lp_nm: f64,
  pub ls_nm: f64,
  pub length_um: f64,
  pub wp_um: f64,
  pub ws_um: f64,
  pub wi_um: f64,
  pub apod: String,
}

impl Meta {
  pub fn tokens(&self) -> String {
    format!(
      "crystal={} pm={} poling={} collinear={} idler={} idlerconj={} cp={} lp_nm={} ls_nm={} L_um={} wp_um={} ws_um={} wi_um={} apod={}",
      self.crystal,
      self.pm,
      if self.poling { "on" } else { "off" },
      self.collinear as u8,
      if self.idler_explicit { "explicit" } else { "auto" },
      self.idler_conj as u8,
      self.cp as u8,
      self.lp_nm,
      self.ls_nm,
      self.length_um,
      self.wp_um,
      self.ws_um,
      self.wi_um,
      self.apod
    )
  }
}

fn round_to(x: f64, digits: i32) -> f64 {
  let p = 10f64.powi(digits);
  (x * p).round() / p
}

/// a random configuration as JSON (so that every case can be replayed by hand) and its summary
pub fn gen_config(r: &mut Rng, o: &GenOpts) -> (serde_json::Value, Meta) {
  let (cname, lo, hi) = *r.pick(CRYSTALS);
  let pm = *r.pick(PM_TYPES);
  // wavelengths: pump inside the window such that signal and idler stay inside too
  let (lp, ls) = if r.below(3) == 0 {
    // familiar pairs when they fit
    let nice: &[(f64, f64)] = &[(405.0, 810.0), (775.0, 1550.0), (532.0, 1064.0), (532.0, 1550.0), (405.0, 780.0), (1064.0, 2128.0), (1550.0, 3100.0), (2000.0, 4000.0)];
    let fit: Vec<(f64, f64)> = nice
      .iter()
      .cloned()
      .filter(|(p, s)| {
        let i = s * p / (s - p);
        *p > lo * 1.02 && *s < hi * 0.98 && i < hi * 0.98
      })
      .collect();
    if fit.is_empty() {
      let p = r.range(lo * 1.05, hi / 2.8);
      (round_to(p, 1), round_to(p * r.range(1.6, 2.6), 1))
    } else {
      *r.pick(&fit)
    }
  } else {
    let p = r.range(lo * 1.05, hi / 2.8);
    (round_to(p, 1), round_to(p * r.range(1.6, 2.6), 1))
  };
  let li = ls * lp / (ls - lp);
  let poling = o.poling.unwrap_or_else(|| r.coin());
  let collinear = o.collinear.unwrap_or_else(|| r.below(5) < 2);
  let length_um = round_to(r.log_range(o.length.0, o.length.1), 0);
  let cp = o.counter_prop && r.below(4) == 0;
  let wp = round_to(r.log_range(o.waist.0, o.waist.1), 1);
  let ws = round_to(r.log_range(o.waist.0, o.waist.1), 1);
  let mut wi = ws;

  let theta: serde_json::Value = if poling {
    match r.below(4) {
      0 => serde_json::json!(0.0),
      1 => serde_json::json!(round_to(r.range(0.0, 90.0), 2)),
      _ => serde_json::json!(90.0),
    }
  } else if r.below(5) == 0 {
    serde_json::json!(round_to(r.range(5.0, 85.0), 2))
  } else {
    serde_json::json!("auto")
  };
  let cphi = if r.below(3) == 0 { round_to(r.range(0.0, 90.0), 1) } else { 0.0 };
  let temp = if r.below(4) == 0 { round_to(r.range(20.0, 120.0), 1) } else { 20.0 };

  let sphi = match r.below(4) {
    0 => 90.0,
    1 => round_to(r.range(0.0, 360.0), 1),
    _ => 0.0,
  };
  let mut signal = serde_json::json!({
    "wavelength_nm": ls, "phi_deg": sphi, "waist_um": ws,
    "waist_position_um": if r.below(5) < 3 { serde_json::json!("auto") } else { serde_json::json!(round_to(r.range(0.0, length_um), 1)) },
  });
  if collinear {
    signal["theta_deg"] = serde_json::json!(0.0);
  } else if cp && r.coin() {
    signal["theta_deg"] = serde_json::json!(round_to(r.range(177.0, 180.0), 2));
  } else if r.coin() {
    signal["theta_deg"] = serde_json::json!(round_to(r.range(0.05, 3.0), 2));
  } else {
    signal["theta_external_deg"] = serde_json::json!(round_to(r.range(0.1, 5.0), 2));
  }

  let idler_explicit = o.explicit_idler && r.below(10) < 3;
  let mut idler_conj = true;
  let idler: serde_json::Value = if idler_explicit {
    wi = round_to(r.log_range(o.waist.0, o.waist.1), 1);
    let wl = match r.below(3) {
      0 => li, // conjugate to double precision
      1 => {
        idler_conj = false;
        round_to(li, 0)
      }
      _ => {
        idler_conj = false;
        round_to(li * r.range(0.97, 1.03), 1)
      }
    };
    if wl == li {
      idler_conj = true;
    }
    serde_json::json!({
      "wavelength_nm": wl, "phi_deg": (sphi + 180.0) % 360.0, "theta_deg": round_to(r.range(0.0, 3.0), 2), "waist_um": wi,
      "waist_position_um": if r.coin() { serde_json::json!("auto") } else { serde_json::json!(round_to(r.range(0.0, length_um), 1)) },
    })
  } else {
    serde_json::json!("auto")
  };

  let mut apod = "Off".to_string();
  let pp: serde_json::Value = if poling {
    let period = if r.below(4) == 0 { serde_json::json!(round_to(r.log_range(3.0, 200.0), 2)) } else { serde_json::json!("auto") };
    let ap = if o.apodization && r.below(4) == 0 {
      match r.below(8) {
        0 => {
          apod = "Gaussian".into();
          serde_json::json!({"kind": "Gaussian", "parameter": {"fwhm_um": round_to(length_um * r.range(0.3, 1.2), 0)}})
        }
        1 => {
          apod = "Bartlett".into();
          serde_json::json!({"kind": "Bartlett", "parameter": round_to(r.range(1.0, 2.0), 2)})
        }
        2 => {
          apod = "Welch".into();
          serde_json::json!({"kind": "Welch", "parameter": round_to(r.range(1.0, 2.0), 2)})
        }
        3 => {
          apod = "Blackman".into();
          serde_json::json!({"kind": "Blackman", "parameter": round_to(r.range(1.0, 2.0), 2)})
        }
        4 => {
          apod = "Connes".into();
          serde_json::json!({"kind": "Connes", "parameter": round_to(r.range(1.0, 2.0), 2)})
        }
        5 => {
          apod = "Cosine".into();
          serde_json::json!({"kind": "Cosine", "parameter": round_to(r.range(1.0, 2.0), 2)})
        }
        6 => {
          apod = "Interpolate".into();
          let n = r.between(2, 9);
          let v: Vec<f64> = (0..n).map(|_| round_to(r.range(0.1, 1.0), 3)).collect();
          serde_json::json!({"kind": "Interpolate", "parameter": v})
        }
        _ => {
          apod = "Hamming".into();
          serde_json::json!({"kind": "Hamming", "parameter": round_to(r.range(1.0, 2.0), 2)})
        }
      }
    } else {
      serde_json::json!({"kind": "Off"})
    };
    serde_json::json!({"poling_period_um": period, "apodization": ap})
  } else {
    serde_json::Value::Null
  };

  let cfg = serde_json::json!({
    "crystal": {"kind": cname, "pm_type": pm, "phi_deg": cphi, "theta_deg": theta, "length_um": length_um,
                "temperature_c": temp, "counter_propagation": cp},
    "pump": {"wavelength_nm": lp, "waist_um": wp, "bandwidth_nm": round_to(r.log_range(0.1, 10.0), 2),
             "average_power_mw": round_to(r.log_range(1.0, 500.0), 1), "spectrum_threshold": 0.01},
    "signal": signal,
    "idler": idler,
    "periodic_poling": pp,
    "deff_pm_per_volt": round_to(r.range(1.0, 10.0), 1),
  });
  let meta = Meta {
    crystal: cname.into(),
    pm: pm.into(),
    poling,
    collinear,
    idler_explicit,
    idler_conj,
    cp,
    lp_nm: lp,
    ls_nm: ls,
    length_um,
    wp_um: wp,
    ws_um: ws,
    wi_um: wi,
    apod,
  };
  (cfg, meta)
}

/// build the setup with the crate's own config path; `None` when it errs or panics
pub fn build(cfg: &serde_json::Value) -> Option<SPDC> {
  let c = cfg.clone();
  guard(move || {
    let config: SPDCConfig = serde_json::from_value(c).ok()?;
    config.try_as_spdc().ok()
  })
  .flatten()
}

pub fn cfg_str(cfg: &serde_json::Value) -> String {
  serde_json::to_string(cfg).unwrap().replace(' ', "")
}

pub fn fr(f: Frequency) -> f64 {
  *(f / (RAD / S))
}

// ------------------------------------------------------------------------------------------------
// field dumps
// ------------------------------------------------------------------------------------------------

fn pol_tok(p: PolarizationType) -> &'static str {
  match p {
    PolarizationType::Ordinary => "o",
    PolarizationType::Extraordinary => "e",
  }
}

fn beam_tokens(b: &Beam) -> String {
  let d = b.direction().into_inner();
  format!(
    "{} {} {} {} {} {} {} {} {}",
    fl(b.waist().x.value_unsafe),
    fl(b.waist().y.value_unsafe),
    fl(fr(b.frequency())),
    pol_tok(b.polarization()),
    fl(b.theta_internal().value_unsafe),
    fl(b.phi().value_unsafe),
    fl(d.x),
    fl(d.y),
    fl(d.z)
  )
}

fn crystal_index(c: &CrystalType) -> usize {
  let name = format!("{:?}", c);
  CRYSTALS.iter().position(|x| x.0 == name).unwrap_or(99)
}

fn pm_index(p: &PMType) -> usize {
  PM_TYPES.iter().position(|x| *x == p.to_str()).unwrap_or(99)
}

fn pp_tokens(pp: &PeriodicPoling) -> String {
  match pp {
    PeriodicPoling::Off => "off - - -".to_string(),
    PeriodicPoling::On { period, sign, apodization } => format!(
      "on {} {} {}",
      fl(period.value_unsafe),
      if *sign == spdcalc::Sign::NEGATIVE { 1 } else { 0 },
      format!("{:?}", apodization).replace(' ', "")
    ),
  }
}

/// every field of the setup, bit-exact
pub fn setup_tokens(s: &SPDC) -> String {
  let c = &s.crystal_setup;
  format!(
    "{} {} {} {} {} {} {} {} {} {} {} {} {} {} {} {} {}",
    beam_tokens(&s.signal),
    beam_tokens(&s.idler),
    beam_tokens(&s.pump),
    crystal_index(&c.crystal),
    pm_index(&c.pm_type),
    fl(c.phi.value_unsafe),
    fl(c.theta.value_unsafe),
    fl(c.length.value_unsafe),
    fl(c.temperature.value_unsafe),
    c.counter_propagation as u8,
    pp_tokens(&s.pp),
    fl(s.pump_average_power.value_unsafe),
    fl(s.pump_bandwidth.value_unsafe),
    fl(s.pump_spectrum_threshold),
    fl(s.signal_waist_position.value_unsafe),
    fl(s.idler_waist_position.value_unsafe),
    fl(s.deff.value_unsafe)
  )
}

fn angles_tokens(b: &Beam) -> String {
  let d = b.direction().into_inner();
  format!("{} {} {} {} {}", fl(b.phi().value_unsafe), fl(b.theta_internal().value_unsafe), fl(d.x), fl(d.y), fl(d.z))
}

// ------------------------------------------------------------------------------------------------
// K opt : wiring of try_as_optimum, sub-results obtained through the public routines
// ------------------------------------------------------------------------------------------------

fn opt_case(ctx: &mut Ctx, s: &SPDC) {
  let real = {
    let c = s.clone();
    guard(move || c.try_as_optimum())
  };
  let out = match &real {
    None => "PANIC".to_string(),
    Some(Err(_)) => "ERR".to_string(),
    Some(Ok(o)) => setup_tokens(o),
  };
  let deg0 = (0. * DEG).value_unsafe;
  let deg90 = (90. * DEG).value_unsafe;
  let deg180 = (180. * DEG).value_unsafe;
  let mut b0: Beam = s.signal.clone().into();
  b0.set_angles(0. * DEG, 0. * DEG);
  let mut b180: Beam = s.signal.clone().into();
  b180.set_angles(0. * DEG, 180. * DEG);
  let cp = s.crystal_setup.counter_propagation;
  let reset: SignalBeam = if cp && !(s.signal.theta_internal() < 90. * DEG) { b180.clone().into() } else { b0.clone().into() };

  let f_tok = |r: Option<f64>| r.map(fl).unwrap_or("PANIC".into());
  let (theta_sec, period_sec, cs_new, pp_new): (String, String, Option<spdcalc::CrystalSetup>, Option<PeriodicPoling>) = match &s.pp {
    PeriodicPoling::Off => {
      let a = guard(|| s.crystal_setup.optimum_theta(&reset, &s.pump).value_unsafe);
      let b = guard(|| s.crystal_setup.optimum_theta(&s.signal, &s.pump).value_unsafe);
      let cs_new = a.map(|t| {
        let mut c = s.crystal_setup.clone();
        c.theta = t * RAD;
        c
      });
      (format!("{} {}", f_tok(a), f_tok(b)), "- -".into(), cs_new, Some(PeriodicPoling::Off))
    }
    PeriodicPoling::On { apodization, .. } => {
      let p_tok = |r: &Option<Result<f64, ()>>| match r {
        None => "PANIC".to_string(),
        Some(Err(_)) => "ERR".to_string(),
        Some(Ok(v)) => fl(*v),
      };
      let a = guard(|| optimum_poling_period(&reset, &s.pump, &s.crystal_setup).map(|p| p.value_unsafe).map_err(|_| ()));
      let b = guard(|| optimum_poling_period(&s.signal, &s.pump, &s.crystal_setup).map(|p| p.value_unsafe).map_err(|_| ()));
      let pp_new = match &a {
        Some(Ok(p)) => Some(PeriodicPoling::new(*p * M, apodization.clone())),
        _ => None,
      };
      ("- -".into(), format!("{} {}", p_tok(&a), p_tok(&b)), Some(s.crystal_setup.clone()), pp_new)
    }
  };

  // idler: variant A = (new crystal, new poling) as the repaired code calls it; B = the other candidate
  let idler_tok = |r: &Option<Result<IdlerBeam, ()>>| match r {
    None => "PANIC".to_string(),
    Some(Err(_)) => "ERR".to_string(),
    Some(Ok(b)) => beam_tokens(b),
  };
  let mut idler_a: Option<Result<IdlerBeam, ()>> = None;
  let mut idler_sec = "- | -".to_string();
  let mut owp_sec = String::new();
  if let (Some(csn), Some(ppn)) = (&cs_new, &pp_new) {
    idler_a = guard(|| IdlerBeam::try_new_optimum(&reset, &s.pump, csn, ppn).map_err(|_| ()));
    let idler_b = match &s.pp {
      PeriodicPoling::Off => guard(|| IdlerBeam::try_new_optimum(&reset, &s.pump, &s.crystal_setup, &s.pp).map_err(|_| ())),
      _ => guard(|| IdlerBeam::try_new_optimum(&reset, &s.pump, csn, &s.pp).map_err(|_| ())),
    };
    idler_sec = format!("{} | {}", idler_tok(&idler_a), idler_tok(&idler_b));
    // waist-position table: (crystal theta, frequency, polarisation) -> value
    let mut entries: Vec<String> = Vec::new();
    let mut add = |cs: &spdcalc::CrystalSetup, b: &Beam| {
      let v = guard(|| cs.optimal_waist_position(b.vacuum_wavelength(), b.polarization()).value_unsafe);
      entries.push(format!("{} {} {} {}", fl(cs.theta.value_unsafe), fl(fr(b.frequency())), pol_tok(b.polarization()), f_tok(v)));
    };
    add(csn, &reset);
    add(&s.crystal_setup, &reset);
    add(csn, &s.idler);
    add(&s.crystal_setup, &s.idler);
    if let Some(Ok(ia)) = &idler_a {
      add(csn, ia);
      add(&s.crystal_setup, ia);
    }
    owp_sec = entries.join(" ");
  }
  let _ = idler_a;
  let args = format!(
    "{} | {} {} {} | {} {} | {} | {} | {} | {}",
    setup_tokens(s),
    fl(deg0),
    fl(deg90),
    fl(deg180),
    angles_tokens(&b0),
    angles_tokens(&b180),
    theta_sec,
    period_sec,
    idler_sec,
    owp_sec
  );
  ctx.k("opt", &args, &out);
}

// ------------------------------------------------------------------------------------------------
// K idler_opt : the formula of IdlerBeam::try_new_optimum (indices passed in)
// ------------------------------------------------------------------------------------------------

fn idler_opt_case(ctx: &mut Ctx, s: &SPDC) {
  let cs = &s.crystal_setup;
  let ns = *s.signal.refractive_index(s.signal.frequency(), cs);
  let np = *s.pump.refractive_index(s.pump.frequency(), cs);
  let ls = s.signal.vacuum_wavelength().value_unsafe;
  let lp = s.pump.vacuum_wavelength().value_unsafe;
  let r = guard(|| IdlerBeam::try_new_optimum(&s.signal, &s.pump, cs, &s.pp).map_err(|_| ()));
  let out = match &r {
    None => "PANIC".to_string(),
    Some(Err(_)) => "ERR".to_string(),
    Some(Ok(b)) => format!("{} {} {}", fl(b.theta_internal().value_unsafe), fl(b.phi().value_unsafe), fl(b.vacuum_wavelength().value_unsafe)),
  };
  let sp = match &s.pp {
    PeriodicPoling::Off => "off".to_string(),
    _ => fl(s.pp.signed_period().value_unsafe),
  };
  ctx.k(
    "idler_opt",
    &format!(
      "{} {} {} {} {} {} {} {}",
      fl(ns),
      fl(np),
      fl(ls),
      fl(lp),
      fl(s.signal.theta_internal().value_unsafe),
      fl(s.signal.phi().value_unsafe),
      sp,
      cs.counter_propagation as u8
    ),
    &out,
  );
}

// ------------------------------------------------------------------------------------------------
// S predicates and K js_acc
// ------------------------------------------------------------------------------------------------

fn rel_ok(a: f64, b: f64, eps: f64) -> bool {
  if a == b || (a.is_nan() && b.is_nan()) {
    // NaN (from a lower layer: e.g. an index of 0 on an optic axis) is canonicalised: NaN / ref is NaN
    return true;
  }
  if !a.is_finite() || !b.is_finite() {
    return false;
  }
  (a - b).abs() <= eps * a.abs().max(b.abs())
}

fn crel_ok(a: Complex<f64>, b: Complex<f64>, eps: f64) -> bool {
  if a == b || ((a.re.is_nan() || a.im.is_nan()) && (b.re.is_nan() || b.im.is_nan())) {
    return true;
  }
  if !(a.re.is_finite() && a.im.is_finite() && b.re.is_finite() && b.im.is_finite()) {
    return false;
  }
  (a - b).norm() <= eps * a.norm().max(b.norm())
}

fn gen_integrator(r: &mut Rng) -> (Integrator, String) {
  match r.below(5) {
    0 => (Integrator::Simpson { divs: 10 }, "simpson10".into()),
    1 => (Integrator::Simpson { divs: 20 }, "simpson20".into()),
    2 => (Integrator::Simpson { divs: 50 }, "simpson50".into()),
    3 => (Integrator::GaussLegendre { degree: 8 }, "gl8".into()),
    _ => (Integrator::GaussLegendre { degree: 20 }, "gl20".into()),
  }
}

/// raw values of the layer below at one point of one setup
fn raw5(ws: Frequency, wi: Frequency, s: &SPDC, integ: Integrator) -> (Complex<f64>, f64, f64, f64) {
  let a = jsa_raw(ws, wi, s, integ);
  let n = *(jsi_normalization(ws, wi, s) / JsiNorm::new(1.));
  let sr = jsi_singles_raw(ws, wi, s, integ);
  let sn = *(jsi_singles_normalization(ws, wi, s) / JsiSinglesNorm::new(1.));
  (a, n, sr, sn)
}
fn raw5_tok(v: &(Complex<f64>, f64, f64, f64)) -> String {
  format!("{} {} {} {} {}", fl(v.0.re), fl(v.0.im), fl(v.1), fl(v.2), fl(v.3))
}

fn idem_case(ctx: &mut Ctx, s: &SPDC, detail: &str) -> Option<SPDC> {
  let c = s.clone();
  let o1 = match guard(move || c.try_as_optimum()) {
    None => {
      ctx.count("skip/optimum-panic");
      return None;
    }
    Some(Err(_)) => {
      ctx.count("skip/optimum-err");
      return None;
    }
    Some(Ok(o)) => o,
  };
  // "everything else kept": only the signal angles, the crystal angle (no poling) or the poling period and sign
  // (poling), the idler except its waist, and the two waist positions may change; the signal becomes collinear
  {
    let names = field_names();
    let t0: Vec<String> = setup_tokens(s).split(' ').map(|x| x.to_string()).collect();
    let t1: Vec<String> = setup_tokens(&o1).split(' ').map(|x| x.to_string()).collect();
    let poled = !matches!(s.pp, PeriodicPoling::Off);
    let may_change = |n: &str| -> bool {
      matches!(n, "signal.theta" | "signal.phi" | "signal.dx" | "signal.dy" | "signal.dz" | "zs" | "zi")
        || (n.starts_with("idler.") && n != "idler.wx" && n != "idler.wy")
        || (!poled && n == "crystal.theta")
        || (poled && (n == "pp.period" || n == "pp.sign"))
    };
    let changed: Vec<String> = (0..t0.len().min(t1.len()))
      .filter(|i| t0[*i] != t1[*i] && !may_change(&names[*i]))
      .map(|i| names[i].clone())
      .collect();
    let th = o1.signal.theta_internal().value_unsafe;
    let collinear = th == 0.0 || (s.crystal_setup.counter_propagation && th == (180. * DEG).value_unsafe);
    let ok = changed.is_empty() && collinear && t0.len() == t1.len();
    let why = if !collinear { "signal-not-collinear".to_string() } else { format!("changed:{}", changed.join("+")) };
    ctx.s("C20.kept", ok, if ok { "kept/ok" } else { "kept/other-field-changed" }, &format!("{} why={}", detail, if ok { "-" } else { &why }));
  }
  let c1 = o1.clone();
  let o2 = guard(move || c1.try_as_optimum());
  let (ok, why) = match &o2 {
    None => (false, "second-pass-panic".to_string()),
    Some(Err(e)) => (false, format!("second-pass-err:{}", e.0.replace(' ', "_"))),
    Some(Ok(o2)) => {
      let t1 = setup_tokens(&o1);
      let t2 = setup_tokens(o2);
      let j1 = serde_json::to_string(&o1.clone().as_config()).unwrap();
      let j2 = serde_json::to_string(&o2.clone().as_config()).unwrap();
      if t1 != t2 {
        let names = field_names();
        let diff: Vec<String> = t1
          .split(' ')
          .zip(t2.split(' '))
          .enumerate()
          .filter(|(_, (a, b))| a != b)
          .map(|(i, _)| names.get(i).cloned().unwrap_or(format!("f{}", i)))
          .collect();
        (false, format!("fields-differ:{}", diff.join("+")))
      } else if j1 != j2 {
        (false, "config-json-differs".to_string())
      } else if o1 != *o2 {
        (false, "partial-eq-differs".to_string())
      } else {
        (true, String::new())
      }
    }
  };
  let sig = if ok { "idem/ok".to_string() } else { format!("idem/{}", why.split(':').next().unwrap()) };
  ctx.s("C20.idem", ok, &sig, &format!("{} why={}", detail, if why.is_empty() { "-" } else { &why }));
  Some(o1)
}

fn field_names() -> Vec<String> {
  let mut v = Vec::new();
  for b in ["signal", "idler", "pump"] {
    for f in ["wx", "wy", "freq", "pol", "theta", "phi", "dx", "dy", "dz"] {
      v.push(format!("{}.{}", b, f));
    }
  }
  for f in ["kind", "pm", "phi", "theta", "length", "temp", "cp"] {
    v.push(format!("crystal.{}", f));
  }
  for f in ["pp.kind", "pp.period", "pp.sign", "pp.apod", "power", "bandwidth", "threshold", "zs", "zi", "deff"] {
    v.push(f.to_string());
  }
  v
}

fn one_point(ws: Frequency, wi: Frequency) -> SignalIdlerFrequencyArray {
  SignalIdlerFrequencyArray(vec![ws, wi])
}

/// normalised accessors at a few points of one setup
fn norm_case(ctx: &mut Ctx, s: &SPDC, o: &SPDC, meta: &Meta, detail: &str) {
  let (integ, iname) = gen_integrator(&mut ctx.rng);
  let js = {
    let c = s.clone();
    match guard(move || c.joint_spectrum(integ)) {
      Some(j) => j,
      None => {
        ctx.count("skip/joint-spectrum-panic");
        return;
      }
    }
  };
  let (w0s, w0i) = (o.signal.frequency(), o.idler.frequency());
  // references recomputed through public calls on the optimised setup
  let jo = match guard(|| o.joint_spectrum(integ)) {
    Some(j) => j,
    None => {
      ctx.count("skip/joint-spectrum-panic");
      return;
    }
  };
  let ref_a = jo.jsa(w0s, w0i).norm();
  let ref_i = *(jo.jsi(w0s, w0i) / spdcalc::JSIUnits::new(1.));
  let ref_s = *(jo.jsi_singles(w0s, w0i) / spdcalc::JSIUnits::new(1.));
  if !(ref_a.is_finite() && ref_a > 0.0 && ref_s.is_finite() && ref_s > 0.0) {
    // no meaningful reference (optimum not phase matched / outside the pump envelope)
    ctx.count("skip/reference-zero-or-nonfinite");
    return;
  }
  let ref_si = guard(|| *(jo.jsi_singles_idler_range(one_point(w0s, w0i))[0] / spdcalc::JSIUnits::new(1.)));
  // reference of the swapped setup's optimised version (what the idler variants are normalised by)
  let ref_swapped = guard(|| {
    let so = s.clone().with_swapped_signal_idler().try_as_optimum().ok()?;
    let v = *(so.joint_spectrum(integ).jsi_singles(so.signal.frequency(), so.idler.frequency()) / spdcalc::JSIUnits::new(1.));
    if v.is_finite() && v > 0.0 { Some(v) } else { None }
  })
  .flatten();

  // the optimised setup is its own reference: centre = 1
  let cj = jo.jsi_normalized(w0s, w0i);
  let ca = jo.jsa_normalized(w0s, w0i).norm();
  let ok = (cj - 1.0).abs() <= 1e-9 && (ca - 1.0).abs() <= 1e-9;
  ctx.s("C20.centre", ok, if ok { "centre/ok" } else { "centre/not-one" }, &format!("{} integ={} jsi_n={:e} abs_jsa_n={:e}", detail, iname, cj, ca));

  // raw values of the layer below (inputs of the model)
  let centre = raw5(w0s, w0i, o, integ);
  let sw = s.clone().with_swapped_signal_idler();
  let swo = {
    let c = sw.clone();
    guard(move || c.try_as_optimum()).and_then(|r| r.ok())
  };

  let npts = if ctx.thorough { 5 } else { 3 };
  let sigma = fr(s.pump.frequency()) * 2e-4;
  for k in 0..npts {
    let (ws, wi) = if k == 0 {
      (s.signal.frequency(), s.idler.frequency())
    } else if k == 1 {
      (w0s, w0i)
    } else {
      let d = ctx.rng.normal() * sigma;
      let e = ctx.rng.normal() * sigma * 0.05;
      (s.signal.frequency() + (d + e) * RAD / S, s.idler.frequency() + (e - d) * RAD / S)
    };
    let jsa = js.jsa(ws, wi);
    let jsan = js.jsa_normalized(ws, wi);
    let jsi = *(js.jsi(ws, wi) / spdcalc::JSIUnits::new(1.));
    let jsin = js.jsi_normalized(ws, wi);
    let jss = *(js.jsi_singles(ws, wi) / spdcalc::JSIUnits::new(1.));
    let jssn = js.jsi_singles_normalized(ws, wi);
    let pdetail = format!("{} integ={} ws={:e} wi={:e}", detail, iname, fr(ws), fr(wi));

    // S: the statement
    let ok_a = crel_ok(jsan, jsa / ref_a, 1e-12);
    ctx.s("C20.norm", ok_a, if ok_a { "norm/jsa-ok" } else { "norm/jsa" }, &format!("{} got=({:e},{:e}) want=({:e},{:e})", pdetail, jsan.re, jsan.im, (jsa / ref_a).re, (jsa / ref_a).im));
    let ok_i = rel_ok(jsin, jsi / ref_i, 1e-12);
    ctx.s("C20.norm", ok_i, if ok_i { "norm/jsi-ok" } else { "norm/jsi" }, &format!("{} got={:e} want={:e}", pdetail, jsin, jsi / ref_i));
    let ok_s = rel_ok(jssn, jss / ref_s, 1e-12);
    ctx.s("C20.norm", ok_s, if ok_s { "norm/singles-ok" } else { "norm/singles" }, &format!("{} got={:e} want={:e}", pdetail, jssn, jss / ref_s));
    let sq = jsan.norm_sqr();
    // (a normalised intensity below 1e-200 of the optimum is lost to f64 underflow of |jsa_raw|^2: no relative precision)
    let ok_q = rel_ok(jsin, sq, 1e-12) || (jsin - sq).abs() <= 1e-200;
    ctx.s("C20.norm", ok_q, if ok_q { "norm/jsi-is-sq-ok" } else { "norm/jsi-is-not-abs-jsa-squared" }, &format!("{} jsi_n={:e} abs2={:e}", pdetail, jsin, sq));
    // range forms agree with the point forms
    let bits = |x: f64| x.to_bits();
    let ra = js.jsa_normalized_range(one_point(ws, wi))[0];
    let r_ok = bits(ra.re) == bits(jsan.re)
      && bits(ra.im) == bits(jsan.im)
      && bits(js.jsi_normalized_range(one_point(ws, wi))[0]) == bits(jsin)
      && bits(js.jsi_singles_normalized_range(one_point(ws, wi))[0]) == bits(jssn);
    if !(jsa.re.is_finite() && jsa.im.is_finite() && jss.is_finite()) {
      ctx.count("norm/points-with-non-finite-raw-value(lower-layer)");
    }
    ctx.s("C20.norm", r_ok, if r_ok { "norm/range-ok" } else { "norm/range-differs-from-point" }, &pdetail);

    // route: the constructor and the SPDC-level wrapper are the same spectrum
    if k == 0 {
      let j2 = guard(|| spdcalc::JointSpectrum::new(s.clone(), integ));
      if let Some(j2) = j2 {
        let okr = crel_ok(j2.jsa_normalized(ws, wi), jsan, 1e-12) && rel_ok(j2.jsi_normalized(ws, wi), jsin, 1e-12) && rel_ok(j2.jsi_singles_normalized(ws, wi), jssn, 1e-12);
        ctx.s("C20.norm", okr, if okr { "norm/route-ok" } else { "norm/constructor-differs-from-joint_spectrum" }, &pdetail);
      }
    }

    // idler singles (only exposed as range functions).  The code evaluates them as the signal singles of the
    // swapped setup, normalised by the reference of *that* setup's optimised version; where the setup is
    // energy-consistent and forward-propagating this coincides with the idler singles of the setup's own optimised
    // version, and both readings of the statement are checked there.
    let jssi = guard(|| *(js.jsi_singles_idler_range(one_point(ws, wi))[0] / spdcalc::JSIUnits::new(1.)));
    let jssin = guard(|| js.jsi_singles_idler_normalized_range(one_point(ws, wi))[0]);
    if let (Some(v), Some(vn)) = (jssi, jssin) {
      if let Some(rsw) = ref_swapped {
        let want = v / rsw;
        let ok_si = rel_ok(vn, want, 1e-12);
        ctx.s(
          "C20.norm",
          ok_si,
          if ok_si { "norm/idler-singles-ok" } else { "norm/idler-singles" },
          &format!("{} got={:e} want={:e}", pdetail, vn, want),
        );
      }
      if let Some(rsi) = ref_si {
        if rsi.is_finite() && rsi > 0.0 {
          let want = v / rsi;
          let rel = ((vn - want) / want).abs();
          // second reading of the clause: reference = idler singles of the setup's *own* optimised version at its
          // centre.  The two optimisations (signal-as-signal, idler-as-signal) are separate simplex searches that
          // agree only to their termination tolerance (C04's residual), and differ by construction for a
          // non-conjugate explicit idler or counter-propagation: statistics only.
          let class = if meta.cp { "counter-prop" } else if !meta.idler_conj { "non-conjugate-idler" } else { "consistent" };
          let bucket = if !(rel > 1e-12) { "le1e-12" } else if rel <= 1e-9 { "le1e-9" } else if rel <= 1e-6 { "le1e-6" } else if rel <= 1e-3 { "le1e-3" } else { "gt1e-3" };
          ctx.count(&format!("norm/idler-singles-vs-own-optimum/{}/{}", class, bucket));
        }
      }
    }

    // K: the accessors as coded, from the raw values of the layer below
    let point = raw5(ws, wi, s, integ);
    let mut args = format!(
      "{} {} {} {} {} {} | {} | {}",
      fl(fr(s.signal.frequency())),
      fl(fr(s.idler.frequency())),
      fl(fr(w0s)),
      fl(fr(w0i)),
      fl(fr(ws)),
      fl(fr(wi)),
      raw5_tok(&point),
      raw5_tok(&centre)
    );
    let mut outs = format!(
      "{} {} {} {} {} {} {} {}",
      fl(jsa.re),
      fl(jsa.im),
      fl(jsan.re),
      fl(jsan.im),
      fl(jsi),
      fl(jsin),
      fl(jss),
      fl(jssn)
    );
    if let (Some(v), Some(vn), Some(swo)) = (jssi, jssin, &swo) {
      let (x0s, x0i) = (swo.signal.frequency(), swo.idler.frequency());
      let spoint = raw5(wi, ws, &sw, integ);
      let scentre = raw5(x0s, x0i, swo, integ);
      args += &format!(" | {} {} | {} | {}", fl(fr(x0s)), fl(fr(x0i)), raw5_tok(&spoint), raw5_tok(&scentre));
      outs += &format!(" {} {}", fl(v), fl(vn));
    }
    ctx.k("js_acc", &args, &outs);
    ctx.count("norm/points");
  }
}


// ------------------------------------------------------------------------------------------------
// S: sequences on one thread — the normalisation must not depend on what was wrapped before
// ------------------------------------------------------------------------------------------------

fn seq_integrators() -> Vec<(Integrator, &'static str, bool)> {
  // (integrator, name, every accessor deterministic: sequential sums only)
  // every variant and the parameter values where the code branches: odd / even divisions, 128 = first parallel 1-D sum,
  // degree 1 (raised to 2 inside), loose and tight adaptive tolerances, Clenshaw–Curtis.  (GaussKonrod's nested 2-D form
  // is the known time-out D4d and is left out.)
  vec![
    (Integrator::Simpson { divs: 6 }, "simpson6", false),
    (Integrator::Simpson { divs: 7 }, "simpson7", false),
    (Integrator::Simpson { divs: 50 }, "simpson50", false),
    (Integrator::Simpson { divs: 128 }, "simpson128", false),
    (Integrator::Simpson { divs: 200 }, "simpson200", false),
    (Integrator::GaussLegendre { degree: 1 }, "gl1", true),
    (Integrator::GaussLegendre { degree: 4 }, "gl4", true),
    (Integrator::GaussLegendre { degree: 40 }, "gl40", true),
    (Integrator::GaussLegendre { degree: 64 }, "gl64", true),
    (Integrator::AdaptiveSimpson { tolerance: 1e5, max_depth: 5 }, "adaptive", true),
    (Integrator::AdaptiveSimpson { tolerance: 1e-3, max_depth: 3 }, "adaptive-tight", true),
    (Integrator::ClenshawCurtis { tolerance: 1e-2 }, "clenshaw-curtis", true),
  ]
}

/// Simpson's rule sums with rayon (1-D from 128 divisions, 2-D always): with 200 divisions two evaluations of the *same*
/// raw value differ by re-association, up to ~1e-8 where the integrand cancels strongly (C15's residual; not
/// reproducible from run to run).  Comparisons that involve separately evaluated Simpson-200 values therefore use 1e-6;
/// everything else (Simpson ≤ 50, Gauss–Legendre, adaptive) 1e-9.
fn seq_tolerance(integ: &Integrator) -> f64 {
  match integ {
    Integrator::Simpson { divs } if *divs >= 128 => 1e-6,
    _ => 1e-9,
  }
}

/// normalised values of one spectrum at a few pairs (evaluated through the point accessors)
fn normalised_at(js: &spdcalc::JointSpectrum, pts: &[(Frequency, Frequency)]) -> Vec<(Complex<f64>, f64, f64)> {
  pts.iter().map(|(ws, wi)| (js.jsa_normalized(*ws, *wi), js.jsi_normalized(*ws, *wi), js.jsi_singles_normalized(*ws, *wi))).collect()
}

/// One setup wrapped back to back with different integrators (built first, checked afterwards, random order,
/// optionally interleaved with `optimum_range`, which wraps the setup with Simpson-50 internally): every normalised
/// value must equal the raw value ÷ the raw value at the optimised setup's centre *evaluated with the same
/// integrator*, and the optimised setup must read 1 at its centre for every integrator.
fn seq_case(ctx: &mut Ctx, s: &SPDC, o: &SPDC, detail: &str, history: &mut Vec<(SPDC, Integrator, &'static str, bool, Vec<(Frequency, Frequency)>, Vec<(Complex<f64>, f64, f64)>)>) {
  let all = seq_integrators();
  let k = ctx.rng.between(2, 4);
  let mut order: Vec<usize> = (0..k).map(|_| ctx.rng.below(all.len())).collect();
  if order.iter().all(|x| *x == order[0]) {
    order[1] = (order[0] + 1 + ctx.rng.below(all.len() - 1)) % all.len();
  }
  let with_range = ctx.rng.below(3) == 0;
  let range_at = ctx.rng.below(k + 1);
  let (w0s, w0i) = (o.signal.frequency(), o.idler.frequency());
  let sigma = fr(s.pump.frequency()) * 2e-4;
  let d = ctx.rng.normal() * sigma;
  let pts = vec![
    (s.signal.frequency(), s.idler.frequency()),
    (w0s, w0i),
    (s.signal.frequency() + d * RAD / S, s.idler.frequency() - d * RAD / S),
  ];
  let names: Vec<&str> = order.iter().map(|i| all[*i].1).collect();
  let seq_name = format!("{}{}", names.join(">"), if with_range { format!("+optimum_range@{}", range_at) } else { String::new() });

  for (target, label) in [(s, "setup"), (o, "optimised")] {
    // 1. build everything first, back to back, on this thread
    let built = guard(|| {
      let mut v = Vec::new();
      for (pos, i) in order.iter().enumerate() {
        if with_range && pos == range_at {
          let _ = target.optimum_range(4);
        }
        v.push(target.joint_spectrum(all[*i].0));
      }
      if with_range && range_at == order.len() {
        let _ = target.optimum_range(4);
      }
      v
    });
    let built = match built {
      Some(b) => b,
      None => {
        ctx.count("skip/sequence-panic");
        return;
      }
    };
    // 2. read the normalised values
    let vals: Vec<Vec<(Complex<f64>, f64, f64)>> = match guard(|| built.iter().map(|js| normalised_at(js, &pts)).collect()) {
      Some(v) => v,
      None => {
        ctx.count("skip/sequence-panic");
        return;
      }
    };
    // 3. only now the references, each with its own integrator, through public calls on the optimised setup
    for (pos, i) in order.iter().enumerate() {
      let (integ, iname, _) = all[*i];
      let r = guard(|| {
        let jo = o.joint_spectrum(integ);
        let ra = jo.jsa(w0s, w0i).norm();
        let ri = *(jo.jsi(w0s, w0i) / spdcalc::JSIUnits::new(1.));
        let rs = *(jo.jsi_singles(w0s, w0i) / spdcalc::JSIUnits::new(1.));
        (ra, ri, rs)
      });
      let (ra, ri, rs) = match r {
        // (the reference must be representable: the crate divides intensities by the SQUARE of the centre amplitude,
        // which underflows to 0 for |jsa| below ~1e-154 — e.g. a one-point Gauss-Legendre rule on a far side lobe —
        // and then no normalised value is defined at all)
        Some(x) if x.0.is_finite() && x.0 > 0.0 && (x.0 * x.0).is_normal() && x.1.is_normal() && x.2.is_finite() && x.2 > 0.0 => x,
        _ => {
          ctx.count("skip/reference-zero-or-nonfinite");
          continue;
        }
      };
      let js = &built[pos];
      let mut ok = true;
      let mut why = String::new();
      for (q, (ws, wi)) in pts.iter().enumerate() {
        let (an, inn, sn) = vals[pos][q];
        let a = js.jsa(*ws, *wi);
        let iv = *(js.jsi(*ws, *wi) / spdcalc::JSIUnits::new(1.));
        let sv = *(js.jsi_singles(*ws, *wi) / spdcalc::JSIUnits::new(1.));
        let ta = seq_tolerance(&integ);
        let ts = ta;
        if !crel_ok(an, a / ra, ta) {
          ok = false;
          why = format!("jsa_normalized@{}: got |.|={:e} want {:e}", q, an.norm(), (a / ra).norm());
        } else if !(rel_ok(inn, iv / ri, ta) || (inn - iv / ri).abs() <= 1e-200) {
          ok = false;
          why = format!("jsi_normalized@{}: got {:e} want {:e}", q, inn, iv / ri);
        } else if !(rel_ok(sn, sv / rs, ts) || (matches!(integ, Integrator::Simpson { divs } if divs >= 128) && (sn - sv / rs).abs() <= 1e-13)) {
          // (the 2-D Simpson sum with divs >= 128 is a rayon reduction whose order is not fixed: where the singles
          // integrand cancels to 1e-15 of the centre value two evaluations of the SAME function differ by ~1e-19 on the
          // normalised scale (centre = 1); an absolute floor of 1e-13 on that scale is below anything the statement is about)
          ok = false;
          why = format!("jsi_singles_normalized@{}: got {:e} want {:e}", q, sn, sv / rs);
        }
      }
      ctx.s(
        "C20.sequence",
        ok,
        if ok { "sequence/norm-ok" } else { "sequence/normalised-value-depends-on-history" },
        &format!("{} which={} seq={} pos={} integ={} why={}", detail, label, seq_name, pos, iname, if ok { "-".to_string() } else { why.replace(' ', "_") }),
      );
      if label == "optimised" {
        // pts[1] is the optimised setup's centre
        let (an, inn, sn) = vals[pos][1];
        let ta = seq_tolerance(&integ);
        let ts = ta;
        let okc = (inn - 1.0).abs() <= ta && (an.norm() - 1.0).abs() <= ta && (sn - 1.0).abs() <= ts;
        ctx.s(
          "C20.sequence",
          okc,
          if okc { "sequence/centre-ok" } else { "sequence/centre-not-one" },
          &format!("{} seq={} pos={} integ={} jsi_n={:e} abs_jsa_n={:e} singles_n={:e}", detail, seq_name, pos, iname, inn, an.norm(), sn),
        );
      }
    }
    // remember a sample for the history-independence pass at the end of the run
    if history.len() < 40 && ctx.rng.below(3) == 0 {
      let pos = ctx.rng.below(order.len());
      let (integ, iname, det) = all[order[pos]];
      history.push((target.clone(), integ, iname, det, pts.clone(), vals[pos].clone()));
    }
  }
  ctx.count("sequence/setups");
}

/// history independence: spectra built much earlier in the run, re-built at the very end (after many other setups and
/// integrators went through the same thread), must give the same normalised values — bit-identical where every sum
/// is sequential, 1e-9 where rayon re-associates
fn history_pass(ctx: &mut Ctx, history: &[(SPDC, Integrator, &'static str, bool, Vec<(Frequency, Frequency)>, Vec<(Complex<f64>, f64, f64)>)]) {
  for (k, (setup, integ, iname, det, pts, old)) in history.iter().enumerate() {
    let newv = match guard(|| normalised_at(&setup.joint_spectrum(*integ), pts)) {
      Some(v) => v,
      None => continue,
    };
    let mut ok = true;
    for (a, b) in old.iter().zip(newv.iter()) {
      let same_bits = a.0.re.to_bits() == b.0.re.to_bits() && a.0.im.to_bits() == b.0.im.to_bits() && a.1.to_bits() == b.1.to_bits();
      let ta = seq_tolerance(integ);
      let ts = ta;
      let close = crel_ok(a.0, b.0, ta) && (rel_ok(a.1, b.1, ta) || (a.1 - b.1).abs() <= 1e-200) && rel_ok(a.2, b.2, ts);
      if !(if *det { same_bits && close } else { close }) {
        ok = false;
      }
    }
    ctx.s(
      "C20.sequence",
      ok,
      if ok { "sequence/history-ok" } else { "sequence/rebuilt-spectrum-differs" },
      &format!("sample={} integ={} deterministic={} cfg={}", k, iname, *det as u8, cfg_str(&serde_json::to_value(setup.clone().as_config()).unwrap())),
    );
  }
}

const SWEEP_PROPS: &[(&str, f64, f64)] = &[
  ("crystal.theta_deg", 0.0, 90.0),
  ("crystal.phi_deg", 0.0, 90.0),
  ("crystal.length_um", 500.0, 20000.0),
  ("crystal.temperature_c", 20.0, 120.0),
  ("signal.theta_deg", 0.0, 3.0),
  ("signal.phi_deg", 0.0, 360.0),
  ("signal.waist_um", 20.0, 300.0),
  ("signal.waist_position_um", -5000.0, 0.0),
  ("idler.theta_deg", 0.0, 3.0),
  ("idler.waist_um", 20.0, 300.0),
  ("idler.waist_position_um", -5000.0, 0.0),
  ("pump.waist_um", 20.0, 300.0),
  ("pump.average_power_mw", 1.0, 500.0),
  ("pump.bandwidth_nm", 0.1, 10.0),
  ("periodic_poling.poling_period_um", 3.0, 200.0),
  ("deff_pm_per_volt", 1.0, 10.0),
];

fn sweep_case(ctx: &mut Ctx, base: &SPDC, o: &SPDC, detail: &str) {
  let (integ, iname) = gen_integrator(&mut ctx.rng);
  let p1 = *ctx.rng.pick(SWEEP_PROPS);
  let p2 = *ctx.rng.pick(SWEEP_PROPS);
  let rng1 = {
    let a = ctx.rng.range(p1.1, p1.2);
    let b = ctx.rng.range(p1.1, p1.2);
    (a, b)
  };
  let rng2 = {
    let a = ctx.rng.range(p2.1, p2.2);
    let b = ctx.rng.range(p2.1, p2.2);
    (a, b)
  };
  let (n1, n2) = (ctx.rng.between(1, 3), ctx.rng.between(1, 3));
  let steps = Steps2D((rng1.0, rng1.1, n1), (rng2.0, rng2.1, n2));
  let mk = || SPDCIter::try_new(base.clone(), p1.0, p2.0, steps).unwrap();
  let raw = guard(|| mk().jsi_values(integ));
  let norm = guard(|| mk().jsi_values_normalized(integ));
  let setups: Option<Vec<SPDC>> = guard(|| mk().into_iter().collect());
  let (raw, norm, setups) = match (raw, norm, setups) {
    (Some(a), Some(b), Some(c)) => (a, b, c),
    _ => {
      ctx.count("skip/sweep-panic");
      return;
    }
  };
  let (w0s, w0i) = (o.signal.frequency(), o.idler.frequency());
  let reference = match guard(|| *(o.joint_spectrum(integ).jsi(w0s, w0i) / spdcalc::JSIUnits::new(1.))) {
    Some(r) if r.is_finite() && r > 0.0 => r,
    _ => {
      ctx.count("skip/reference-zero-or-nonfinite");
      return;
    }
  };
  let mut ok = raw.len() == norm.len() && raw.len() == n1 * n2;
  let mut worst = 0.0f64;
  if ok {
    for (a, b) in raw.iter().zip(norm.iter()) {
      let want = a / reference;
      // |jsa_raw|^2 of a badly mismatched swept setup can be subnormal (1e-320): a normalised intensity below
      // 1e-200 of the optimum carries no relative precision
      if !rel_ok(*b, want, 1e-12) && !((b - want).abs() <= 1e-200) {
        ok = false;
      }
      if want.abs() > 1e-200 && want.is_finite() {
        worst = worst.max(((b - want) / want).abs());
      }
    }
  }
  let d = format!("{} integ={} prop1={} prop2={} r1=({:e},{:e},{}) r2=({:e},{:e},{}) worst={:e}", detail, iname, p1.0, p2.0, rng1.0, rng1.1, n1, rng2.0, rng2.1, n2, worst);
  ctx.s("C20.sweep", ok, if ok { "sweep/ok" } else { "sweep/not-raw-over-reference" }, &d);
  ctx.count(&format!("sweep/{}", p1.0));

  // K: as coded from the raw values of the layer below
  let ca = jsa_raw(w0s, w0i, o, integ);
  let cn = *(jsi_normalization(w0s, w0i, o) / JsiNorm::new(1.));
  let mut args = format!("{} {} {} {} {}", fl(fr(w0s)), fl(fr(w0i)), fl(ca.re), fl(ca.im), fl(cn));
  for st in setups.iter() {
    let (ws, wi) = (st.signal.frequency(), st.idler.frequency());
    let a = jsa_raw(ws, wi, st, integ);
    let n = *(jsi_normalization(ws, wi, st) / JsiNorm::new(1.));
    args += &format!(" | {} {} {} {} {}", fl(fr(ws)), fl(fr(wi)), fl(a.re), fl(a.im), fl(n));
  }
  let outs = format!("{} {}", fls(&raw), fls(&norm));
  ctx.k("sweep", &args, outs.trim());
}


// ------------------------------------------------------------------------------------------------
// S/K: setups that are NOT in the state a configuration produces — edited in place through the public fields and
// mutators (interaction type switched, a beam's polarization flipped, beams retuned / re-aimed, poling switched,
// signal and idler swapped, an optimum edited and optimised again) — as inputs of try_as_optimum
// ------------------------------------------------------------------------------------------------

fn flip(p: PolarizationType) -> PolarizationType {
  match p {
    PolarizationType::Ordinary => PolarizationType::Extraordinary,
    PolarizationType::Extraordinary => PolarizationType::Ordinary,
  }
}

fn pm_from_index(i: usize) -> PMType {
  match i % PM_TYPES.len() {
    0 => PMType::Type0_o_oo,
    1 => PMType::Type0_e_ee,
    2 => PMType::Type1_e_oo,
    3 => PMType::Type2_e_eo,
    _ => PMType::Type2_e_oe,
  }
}

/// one edit of a copy of `e` (a panic inside a mutator = no edit); the run's random state moves on either way
fn try_edit(ctx: &mut Ctx, e: &SPDC, class: usize) -> Option<(SPDC, String)> {
  let mut rr = Rng(ctx.rng.0);
  let res = guard(|| {
    let mut c = e.clone();
    let n = edit_setup(&mut rr, &mut c, class);
    (c, n)
  });
  ctx.rng = Rng(rr.0);
  ctx.rng.next();
  res
}

/// in-place edits of an existing setup through the public API; `class` 0 = interaction type / polarizations (beams
/// inconsistent with pm_type afterwards), 1 = the other public mutators.  Returns the edit's name (replayable).
fn edit_setup(r: &mut Rng, s: &mut SPDC, class: usize) -> String {
  if class == 0 {
    match r.below(6) {
      0 | 1 | 2 => {
        // another interaction type, the beams keep their polarizations
        let cur = pm_index(&s.crystal_setup.pm_type);
        let k = (cur + 1 + r.below(PM_TYPES.len() - 1)) % PM_TYPES.len();
        s.crystal_setup.pm_type = pm_from_index(k);
        format!("pm_type={}", PM_TYPES[k])
      }
      3 => {
        let p = flip(s.idler.polarization());
        s.idler.set_polarization(p);
        format!("idler.set_polarization({})", pol_tok(p))
      }
      4 => {
        let p = flip(s.signal.polarization());
        s.signal.set_polarization(p);
        format!("signal.set_polarization({})", pol_tok(p))
      }
      _ => {
        let p = flip(s.pump.polarization());
        s.pump.set_polarization(p);
        format!("pump.set_polarization({})", pol_tok(p))
      }
    }
  } else {
    match r.below(10) {
      0 => {
        let f = round_to(r.range(0.97, 1.03), 4);
        let l = s.idler.vacuum_wavelength() * f;
        s.idler.set_vacuum_wavelength(l);
        format!("idler.wavelength*={}", f)
      }
      1 => {
        let (ph, th) = (round_to(r.range(0.0, 360.0), 1), round_to(r.range(0.0, 4.0), 2));
        s.idler.set_angles(ph * DEG, th * DEG);
        format!("idler.set_angles({},{})", ph, th)
      }
      2 => {
        let te = round_to(r.range(0.2, 5.0), 2);
        let cs = s.crystal_setup.clone();
        s.signal.set_theta_external(te * DEG, &cs);
        format!("signal.set_theta_external({})", te)
      }
      3 => {
        let t = round_to(r.range(0.0, 90.0), 2);
        s.crystal_setup.theta = t * DEG;
        format!("crystal.theta={}", t)
      }
      4 => {
        let (ph, t) = (round_to(r.range(0.0, 90.0), 1), round_to(r.range(20.0, 150.0), 1));
        s.crystal_setup.phi = ph * DEG;
        s.crystal_setup.temperature = spdcalc::utils::from_celsius_to_kelvin(t);
        format!("crystal.phi={},temperature_c={}", ph, t)
      }
      5 => match &s.pp {
        PeriodicPoling::Off => {
          let p = round_to(r.log_range(3.0, 200.0), 2);
          s.pp = PeriodicPoling::new(p * 1e-6 * M, Apodization::Off);
          format!("pp=on({})", p)
        }
        _ => {
          s.pp = PeriodicPoling::Off;
          "pp=off".to_string()
        }
      },
      6 => {
        *s = s.clone().with_swapped_signal_idler();
        "with_swapped_signal_idler".to_string()
      }
      7 => {
        let (a, b) = (round_to(r.range(-8000.0, 0.0), 1), round_to(r.range(-8000.0, 0.0), 1));
        s.signal_waist_position = a * 1e-6 * M;
        s.idler_waist_position = b * 1e-6 * M;
        format!("waist_positions_um=({},{})", a, b)
      }
      8 => {
        let f = round_to(r.range(0.98, 1.02), 4);
        let l = s.signal.vacuum_wavelength() * f;
        s.signal.set_vacuum_wavelength(l);
        format!("signal.wavelength*={}", f)
      }
      _ => {
        if !matches!(s.pp, PeriodicPoling::Off) {
          let p = round_to(r.log_range(3.0, 200.0), 2);
          s.assign_poling_period(p * 1e-6 * M);
          format!("assign_poling_period({})", p)
        } else {
          let w = round_to(r.log_range(20.0, 500.0), 1);
          s.idler.set_waist(w * 1e-6 * M);
          format!("idler.set_waist({})", w)
        }
      }
    }
  }
}

/// "optimum idler, auto-calculated crystal angle or poling period, automatic waist positions": the optimised setup
/// carries the automatic quantities OF ITS OWN beams, crystal and poling (each recomputed through the public
/// single-purpose routines on the result itself)
fn auto_case(ctx: &mut Ctx, o: &SPDC, detail: &str) {
  let r = guard(|| {
    let mut bad: Vec<String> = Vec::new();
    let b = |x: f64| x.to_bits();
    let auto = o.clone().with_optimal_waist_positions();
    if b(auto.signal_waist_position.value_unsafe) != b(o.signal_waist_position.value_unsafe) {
      bad.push(format!("signal_waist_position:{:e}!={:e}", o.signal_waist_position.value_unsafe, auto.signal_waist_position.value_unsafe));
    }
    if b(auto.idler_waist_position.value_unsafe) != b(o.idler_waist_position.value_unsafe) {
      bad.push(format!("idler_waist_position:{:e}!={:e}", o.idler_waist_position.value_unsafe, auto.idler_waist_position.value_unsafe));
    }
    let zs = o.crystal_setup.optimal_waist_position(o.signal.vacuum_wavelength(), o.signal.polarization());
    let zi = o.crystal_setup.optimal_waist_position(o.idler.vacuum_wavelength(), o.idler.polarization());
    if b(zs.value_unsafe) != b(o.signal_waist_position.value_unsafe) || b(zi.value_unsafe) != b(o.idler_waist_position.value_unsafe) {
      bad.push("optimal_waist_position-of-own-beams".to_string());
    }
    match o.optimum_idler() {
      Ok(mut i) => {
        i.set_waist(o.idler.waist());
        if beam_tokens(&i) != beam_tokens(&o.idler) {
          bad.push("idler-is-not-optimum_idler".to_string());
        }
      }
      Err(_) => bad.push("optimum_idler-err".to_string()),
    }
    if o.idler.polarization() != o.crystal_setup.pm_type.idler_polarization() {
      bad.push("idler-polarization-not-that-of-pm_type".to_string());
    }
    match &o.pp {
      PeriodicPoling::Off => {
        let t = o.optimum_crystal_theta();
        if b(t.value_unsafe) != b(o.crystal_setup.theta.value_unsafe) {
          bad.push(format!("crystal.theta:{:e}!={:e}", o.crystal_setup.theta.value_unsafe, t.value_unsafe));
        }
      }
      _ => match o.optimum_periodic_poling() {
        Ok(pp) => {
          if pp_tokens(&pp) != pp_tokens(&o.pp) {
            bad.push("pp-is-not-optimum_periodic_poling".to_string());
          }
        }
        Err(_) => bad.push("optimum_periodic_poling-err".to_string()),
      },
    }
    bad
  });
  let (ok, why) = match r {
    None => (false, "panic".to_string()),
    Some(b) if b.is_empty() => (true, "-".to_string()),
    Some(b) => (false, b.join("+")),
  };
  let sig = if ok {
    "auto/ok".to_string()
  } else {
    format!("auto/{}", why.split('+').next().unwrap().split(':').next().unwrap())
  };
  ctx.s("C20.auto", ok, &sig, &format!("{} why={}", detail, why));
}

/// centre = 1 of an optimised setup (one integrator, no other accessor): cheap enough for every edited setup
fn centre_case(ctx: &mut Ctx, o: &SPDC, detail: &str) {
  let (integ, iname) = gen_integrator(&mut ctx.rng);
  let (w0s, w0i) = (o.signal.frequency(), o.idler.frequency());
  let r = guard(|| {
    let jo = o.joint_spectrum(integ);
    let ra = jo.jsa(w0s, w0i).norm();
    let rs = *(jo.jsi_singles(w0s, w0i) / spdcalc::JSIUnits::new(1.));
    (ra, rs, jo.jsi_normalized(w0s, w0i), jo.jsa_normalized(w0s, w0i).norm(), jo.jsi_singles_normalized(w0s, w0i))
  });
  match r {
    None => ctx.count("skip/joint-spectrum-panic"),
    Some((ra, rs, cj, ca, csn)) => {
      if !(ra.is_finite() && ra > 0.0 && (ra * ra).is_normal() && rs.is_finite() && rs > 0.0) {
        ctx.count("skip/reference-zero-or-nonfinite");
        return;
      }
      let ok = (cj - 1.0).abs() <= 1e-9 && (ca - 1.0).abs() <= 1e-9 && (csn - 1.0).abs() <= 1e-9;
      ctx.s(
        "C20.centre",
        ok,
        if ok { "centre/ok" } else { "centre/not-one" },
        &format!("{} integ={} jsi_n={:e} abs_jsa_n={:e} singles_n={:e}", detail, iname, cj, ca, csn),
      );
    }
  }
}

/// one edited setup through the wiring case, idempotence / kept, automatic quantities and centre = 1
fn edited_case(ctx: &mut Ctx, base: &SPDC, o_base: &SPDC, detail: &str) {
  // (a) the setup itself edited; (b) its OPTIMUM edited and optimised again; class 0 (polarizations / type) always,
  // class 1 (other mutators) on top of it half of the time
  for which in 0..2 {
    let mut e = if which == 0 { base.clone() } else { o_base.clone() };
    let mut names: Vec<String> = Vec::new();
    let class = if which == 0 { 0 } else { ctx.rng.below(2) };
    match try_edit(ctx, &e, class) {
      Some((c, n)) => {
        e = c;
        names.push(n);
      }
      None => {
        ctx.count("skip/edit-panic");
        continue;
      }
    }
    if ctx.rng.coin() {
      let class = ctx.rng.below(2);
      match try_edit(ctx, &e, class) {
        Some((c, n)) => {
          e = c;
          names.push(n);
        }
        None => ctx.count("skip/edit-panic"),
      }
    }
    if e.crystal_setup.counter_propagation && matches!(e.pp, PeriodicPoling::Off) {
      ctx.count("skip/counter-propagation-without-poling");
      continue;
    }
    let incons = e.signal.polarization() != e.crystal_setup.pm_type.signal_polarization()
      || e.idler.polarization() != e.crystal_setup.pm_type.idler_polarization()
      || e.pump.polarization() != e.crystal_setup.pm_type.pump_polarization();
    ctx.count(&format!("edited/{}/{}", if which == 0 { "setup" } else { "optimum" }, if incons { "polarizations-inconsistent-with-pm_type" } else { "consistent" }));
    if e.idler.polarization() != e.crystal_setup.pm_type.idler_polarization() {
      ctx.count("edited/idler-polarization-differs-from-pm_type");
    }
    let d = format!("{} start={} edits={}", detail, if which == 0 { "setup" } else { "optimum" }, names.join(";").replace(' ', ""));
    opt_case(ctx, &e);
    if let Some(o) = idem_case(ctx, &e, &d) {
      auto_case(ctx, &o, &d);
      centre_case(ctx, &o, &d);
    }
  }
}

// ------------------------------------------------------------------------------------------------
// S/K: sweeps over INTERACTING property pairs (a setter that reads what the other axis sweeps), both orders, and
// sweeps built from user closures (absolute and relative): each cell against raw / reference, against a 1x1 sweep
// of that cell, and against a setup built individually from a fresh clone of the base
// ------------------------------------------------------------------------------------------------

#[derive(Clone, Copy, Debug, PartialEq)]
enum Axis {
  /// a named path of SPDCIter::try_new
  Path(&'static str),
  /// user closures for SPDCIter::new that read the setup they are given (relative steps)
  RelCrystalTheta,
  RelSignalWavelength,
  RelSignalWaist,
  RelLength,
}

impl Axis {
  fn name(&self) -> String {
    match self {
      Axis::Path(p) => p.to_string(),
      Axis::RelCrystalTheta => "closure:crystal.theta+=v_deg".into(),
      Axis::RelSignalWavelength => "closure:signal.wavelength*=1+v".into(),
      Axis::RelSignalWaist => "closure:signal.waist*=v".into(),
      Axis::RelLength => "closure:crystal.length*=v".into(),
    }
  }
}

/// what each named path means, written out against the public fields and mutators (the harness's own reading of the
/// configuration paths; units as in the JSON configuration)
fn apply_axis(a: Axis, s: &mut SPDC, v: f64) {
  let um = 1e-6 * M;
  let nm = 1e-9 * M;
  let thz = |v: f64| spdcalc::TWO_PI * v * 1e12 * RAD / S;
  match a {
    Axis::RelCrystalTheta => s.crystal_setup.theta = s.crystal_setup.theta + v * DEG,
    Axis::RelSignalWavelength => {
      let l = s.signal.vacuum_wavelength() * (1.0 + v);
      s.signal.set_vacuum_wavelength(l);
    }
    Axis::RelSignalWaist => {
      let w = s.signal.waist().x * v;
      s.signal.set_waist(w);
    }
    Axis::RelLength => s.crystal_setup.length = s.crystal_setup.length * v,
    Axis::Path(p) => match p {
      "crystal.phi_deg" => s.crystal_setup.phi = v * DEG,
      "crystal.theta_deg" => s.crystal_setup.theta = v * DEG,
      "crystal.length_um" => s.crystal_setup.length = v * um,
      "crystal.temperature_c" => s.crystal_setup.temperature = spdcalc::utils::from_celsius_to_kelvin(v),
      "signal.theta_deg" => {
        s.signal.set_theta_internal(v * DEG);
      }
      "signal.theta_external_deg" => {
        let cs = s.crystal_setup.clone();
        s.signal.set_theta_external(v * DEG, &cs);
      }
      "signal.phi_deg" => {
        s.signal.set_phi(v * DEG);
      }
      "signal.frequency_thz" => {
        s.signal.set_frequency(thz(v));
      }
      "signal.wavelength_nm" => {
        s.signal.set_vacuum_wavelength(v * nm);
      }
      "signal.waist_um" => {
        s.signal.set_waist(v * um);
      }
      "signal.waist_position_um" => s.signal_waist_position = v * um,
      "idler.theta_deg" => {
        s.idler.set_theta_internal(v * DEG);
      }
      "idler.theta_external_deg" => {
        let cs = s.crystal_setup.clone();
        s.idler.set_theta_external(v * DEG, &cs);
      }
      "idler.phi_deg" => {
        s.idler.set_phi(v * DEG);
      }
      "idler.frequency_thz" => {
        s.idler.set_frequency(thz(v));
      }
      "idler.wavelength_nm" => {
        s.idler.set_vacuum_wavelength(v * nm);
      }
      "idler.waist_um" => {
        s.idler.set_waist(v * um);
      }
      "idler.waist_position_um" => s.idler_waist_position = v * um,
      "pump.frequency_thz" => {
        s.pump.set_frequency(thz(v));
      }
      "pump.wavelength_nm" => {
        s.pump.set_vacuum_wavelength(v * nm);
      }
      "pump.waist_um" => {
        s.pump.set_waist(v * um);
      }
      "pump.average_power_mw" => s.pump_average_power = v * 1e-3 * spdcalc::dim::ucum::W,
      "pump.bandwidth_nm" => s.pump_bandwidth = v * nm,
      "periodic_poling.poling_period_um" => {
        s.assign_poling_period(v * um);
      }
      "deff_pm_per_volt" => s.deff = v * 1e-12 * M / spdcalc::dim::ucum::V,
      _ => panic!("unknown path {}", p),
    },
  }
}

const ALL_PATHS: &[&str] = &[
  "crystal.phi_deg",
  "crystal.theta_deg",
  "crystal.length_um",
  "crystal.temperature_c",
  "signal.theta_deg",
  "signal.theta_external_deg",
  "signal.phi_deg",
  "signal.frequency_thz",
  "signal.wavelength_nm",
  "signal.waist_um",
  "signal.waist_position_um",
  "idler.theta_deg",
  "idler.theta_external_deg",
  "idler.phi_deg",
  "idler.frequency_thz",
  "idler.wavelength_nm",
  "idler.waist_um",
  "idler.waist_position_um",
  "pump.frequency_thz",
  "pump.wavelength_nm",
  "pump.waist_um",
  "pump.average_power_mw",
  "pump.bandwidth_nm",
  "periodic_poling.poling_period_um",
  "deff_pm_per_volt",
];

/// (reader, what its setter reads)
fn reads(reader: &str) -> Vec<&'static str> {
  match reader {
    "signal.theta_external_deg" => vec!["crystal.theta_deg", "crystal.phi_deg", "crystal.temperature_c", "signal.wavelength_nm", "signal.frequency_thz", "signal.phi_deg"],
    "idler.theta_external_deg" => vec!["crystal.theta_deg", "crystal.phi_deg", "crystal.temperature_c", "idler.wavelength_nm", "idler.frequency_thz", "idler.phi_deg"],
    _ => vec![
      "crystal.theta_deg",
      "crystal.phi_deg",
      "crystal.temperature_c",
      "signal.wavelength_nm",
      "signal.frequency_thz",
      "signal.theta_deg",
      "signal.theta_external_deg",
      "signal.phi_deg",
      "pump.wavelength_nm",
      "pump.frequency_thz",
    ],
  }
}

/// a range (lo, hi) for one axis: near the base setup's own value (so that the swept cells keep a non-negligible
/// intensity), `wide` = anywhere in the property's domain
fn axis_range(r: &mut Rng, a: Axis, s: &SPDC, wide: bool) -> (f64, f64) {
  let two = |r: &mut Rng, lo: f64, hi: f64| (r.range(lo, hi), r.range(lo, hi));
  let around = |r: &mut Rng, c: f64, d: f64| (c - d * r.range(0.1, 1.0), c + d * r.range(0.1, 1.0));
  let scaled = |r: &mut Rng, c: f64, lo: f64, hi: f64| (c * r.range(lo, 1.0), c * r.range(1.0, hi));
  let lp = s.pump.vacuum_wavelength().value_unsafe;
  // relative spectral width of the pump (the centre frequencies may move by a fraction of it)
  let bw = (s.pump_bandwidth.value_unsafe / lp).abs().min(0.02);
  let thz_of = |f: Frequency| fr(f) / (2.0 * std::f64::consts::PI) / 1e12;
  match a {
    Axis::RelCrystalTheta => two(r, -1.0, 1.0),
    Axis::RelSignalWavelength => two(r, -bw, bw),
    Axis::RelSignalWaist => two(r, 0.5, 2.0),
    Axis::RelLength => two(r, 0.5, 1.5),
    Axis::Path(p) => {
      let field = p.split('.').last().unwrap();
      let beam: Option<&Beam> = if p.starts_with("signal.") {
        Some(&s.signal)
      } else if p.starts_with("idler.") {
        Some(&s.idler)
      } else if p.starts_with("pump.") {
        Some(&s.pump)
      } else {
        None
      };
      match (p, field) {
        ("crystal.theta_deg", _) => {
          if wide { two(r, 0.0, 90.0) } else { around(r, *(s.crystal_setup.theta / DEG), 1.5) }
        }
        ("crystal.phi_deg", _) => {
          if wide { two(r, 0.0, 90.0) } else { around(r, *(s.crystal_setup.phi / DEG), 10.0) }
        }
        ("crystal.length_um", _) => scaled(r, s.crystal_setup.length.value_unsafe * 1e6, 0.6, 1.5),
        ("crystal.temperature_c", _) => {
          let c = s.crystal_setup.temperature.value_unsafe - 273.15;
          if wide { two(r, 20.0, 150.0) } else { (c + r.range(0.0, 10.0), c + r.range(10.0, 60.0)) }
        }
        (_, "theta_deg") => two(r, 0.1, 3.0),
        // never 0: at normal incidence Snell's law does not see the crystal
        (_, "theta_external_deg") => two(r, 0.2, 5.0),
        (_, "phi_deg") => two(r, 0.0, 360.0),
        (_, "frequency_thz") => {
          let c = thz_of(beam.unwrap().frequency());
          let d = if wide { 0.05 } else { bw * 0.5 };
          around(r, c, c * d)
        }
        (_, "wavelength_nm") => {
          let c = beam.unwrap().vacuum_wavelength().value_unsafe * 1e9;
          let d = if wide { 0.05 } else { bw * 0.5 };
          around(r, c, c * d)
        }
        (_, "waist_um") => scaled(r, beam.unwrap().waist().x.value_unsafe * 1e6, 0.5, 2.0),
        ("signal.waist_position_um", _) => around(r, s.signal_waist_position.value_unsafe * 1e6, 1500.0),
        ("idler.waist_position_um", _) => around(r, s.idler_waist_position.value_unsafe * 1e6, 1500.0),
        ("pump.average_power_mw", _) => two(r, 1.0, 500.0),
        ("pump.bandwidth_nm", _) => scaled(r, s.pump_bandwidth.value_unsafe * 1e9, 0.6, 1.6),
        ("periodic_poling.poling_period_um", _) => match &s.pp {
          PeriodicPoling::On { period, .. } if !wide => scaled(r, period.value_unsafe.abs() * 1e6, 0.98, 1.02),
          _ => {
            let (a, b) = (r.log_range(3.0, 200.0), r.log_range(3.0, 200.0));
            (a, b)
          }
        },
        _ => two(r, 1.0, 10.0),
      }
    }
  }
}

fn jsi_of(s: &SPDC, integ: Integrator) -> f64 {
  let (ws, wi) = (s.signal.frequency(), s.idler.frequency());
  let a = jsa_raw(ws, wi, s, integ).norm_sqr();
  if a == 0.0 {
    0.0
  } else {
    a * *(jsi_normalization(ws, wi, s) / JsiNorm::new(1.))
  }
}

fn sweep2_case(ctx: &mut Ctx, base: &SPDC, o: &SPDC, detail: &str) {
  let (integ, iname) = gen_integrator(&mut ctx.rng);
  let poled = !matches!(base.pp, PeriodicPoling::Off);
  // the pair
  let readers: Vec<&'static str> = if poled {
    vec!["signal.theta_external_deg", "idler.theta_external_deg", "signal.theta_external_deg", "periodic_poling.poling_period_um"]
  } else {
    vec!["signal.theta_external_deg", "idler.theta_external_deg"]
  };
  let mode = ctx.rng.below(8);
  let (a1, a2): (Axis, Axis) = if mode < 5 {
    // reader / what it reads, both orders
    let rd = *ctx.rng.pick(&readers);
    let other = *ctx.rng.pick(&reads(rd));
    if mode < 3 { (Axis::Path(rd), Axis::Path(other)) } else { (Axis::Path(other), Axis::Path(rd)) }
  } else if mode == 5 {
    // any two named paths
    let paths: Vec<&'static str> = ALL_PATHS.iter().cloned().filter(|p| poled || *p != "periodic_poling.poling_period_um").collect();
    (Axis::Path(*ctx.rng.pick(&paths)), Axis::Path(*ctx.rng.pick(&paths)))
  } else {
    // user closures: a reader or a relative step on either axis
    let rel = [Axis::RelCrystalTheta, Axis::RelSignalWavelength, Axis::RelSignalWaist, Axis::RelLength];
    let x = *ctx.rng.pick(&rel);
    let y = if ctx.rng.coin() { Axis::Path(*ctx.rng.pick(&readers)) } else { *ctx.rng.pick(&rel) };
    if ctx.rng.coin() { (x, y) } else { (y, x) }
  };
  let wide = ctx.rng.below(5) == 0;
  let r1 = axis_range(&mut ctx.rng, a1, base, false);
  let r2 = axis_range(&mut ctx.rng, a2, base, wide);
  let (n1, n2) = (ctx.rng.between(2, 3), ctx.rng.between(2, 3));
  let steps = Steps2D((r1.0, r1.1, n1), (r2.0, r2.1, n2));
  let named = matches!((a1, a2), (Axis::Path(_), Axis::Path(_)));
  let mk = |st: Steps2D<f64>| -> SPDCIter {
    if named {
      SPDCIter::try_new(base.clone(), a1.name(), a2.name(), st).unwrap()
    } else {
      SPDCIter::new(base.clone(), (Box::new(move |s: &mut SPDC, v: f64| apply_axis(a1, s, v)), Box::new(move |s: &mut SPDC, v: f64| apply_axis(a2, s, v))), st)
    }
  };
  let d0 = format!(
    "{} integ={} route={} prop1={} prop2={} r1=({:e},{:e},{}) r2=({:e},{:e},{})",
    detail,
    iname,
    if named { "try_new" } else { "new(closures)" },
    a1.name(),
    a2.name(),
    r1.0,
    r1.1,
    n1,
    r2.0,
    r2.1,
    n2
  );
  ctx.count(&format!("sweep2/pair/{}>{}", a1.name(), a2.name()));
  // normalised first (a working copy left behind by the raw sweep must not matter either way)
  let norm_first = ctx.rng.coin();
  let (raw, norm) = if norm_first {
    let n = guard(|| mk(steps).jsi_values_normalized(integ));
    let r = guard(|| mk(steps).jsi_values(integ));
    (r, n)
  } else {
    let r = guard(|| mk(steps).jsi_values(integ));
    let n = guard(|| mk(steps).jsi_values_normalized(integ));
    (r, n)
  };
  let setups: Option<Vec<SPDC>> = guard(|| mk(steps).into_iter().collect());
  let cells: Vec<(f64, f64)> = steps.into_iter().collect();
  let (raw, norm, setups) = match (raw, norm, setups) {
    (Some(a), Some(b), Some(c)) => (a, b, c),
    _ => {
      ctx.count("skip/sweep-panic");
      return;
    }
  };
  let (w0s, w0i) = (o.signal.frequency(), o.idler.frequency());
  let reference = match guard(|| *(o.joint_spectrum(integ).jsi(w0s, w0i) / spdcalc::JSIUnits::new(1.))) {
    Some(r) if r.is_normal() && r > 0.0 => r,
    _ => {
      ctx.count("skip/reference-zero-or-nonfinite");
      return;
    }
  };
  let close = |got: f64, want: f64, eps: f64| rel_ok(got, want, eps) || (got - want).abs() <= 1e-200;
  let len_ok = raw.len() == norm.len() && raw.len() == n1 * n2 && cells.len() == raw.len();
  // 1. normalised = raw / reference, cell by cell
  let mut bad: Option<String> = None;
  if !len_ok {
    bad = Some(format!("lengths raw={} normalised={} steps={}", raw.len(), norm.len(), n1 * n2));
  } else {
    for k in 0..raw.len() {
      let want = raw[k] / reference;
      if !close(norm[k], want, 1e-12) && bad.is_none() {
        bad = Some(format!("cell={} v1={:e} v2={:e} got={:e} want={:e}", k, cells[k].0, cells[k].1, norm[k], want));
      }
      if want.abs() > 1e-30 {
        ctx.count("sweep2/cells-above-1e-30-of-the-optimum");
      } else {
        ctx.count("sweep2/cells-negligible");
      }
    }
  }
  let ok = bad.is_none();
  ctx.s("C20.sweep", ok, if ok { "sweep2/ok" } else { "sweep2/not-raw-over-reference" }, &format!("{} {}", d0, bad.unwrap_or("-".into())));
  if !len_ok {
    return;
  }
  // 2. each cell is the setup built individually from a fresh clone of the base (property 1 applied first, then 2)
  let mut bad: Option<String> = None;
  for k in 0..raw.len() {
    let built = guard(|| {
      let mut f = base.clone();
      apply_axis(a1, &mut f, cells[k].0);
      apply_axis(a2, &mut f, cells[k].1);
      jsi_of(&f, integ)
    });
    if let Some(v) = built {
      let want = v / reference;
      if !close(norm[k], want, 1e-9) && bad.is_none() {
        bad = Some(format!("cell={} v1={:e} v2={:e} got={:e} want={:e}", k, cells[k].0, cells[k].1, norm[k], want));
      }
      if !close(raw[k], v, 1e-9) && bad.is_none() {
        bad = Some(format!("raw cell={} v1={:e} v2={:e} got={:e} want={:e}", k, cells[k].0, cells[k].1, raw[k], v));
      }
    }
  }
  let ok = bad.is_none();
  ctx.s("C20.sweep", ok, if ok { "sweep2/cell-ok" } else { "sweep2/cell-differs-from-individually-built-setup" }, &format!("{} {}", d0, bad.unwrap_or("-".into())));
  // 3. a one-cell sweep of the last and of one other cell gives that cell's value (no dependence on the cells before)
  let mut bad: Option<String> = None;
  for k in [raw.len() - 1, ctx.rng.below(raw.len())] {
    let one = Steps2D((cells[k].0, cells[k].0, 1), (cells[k].1, cells[k].1, 1));
    if let Some(v) = guard(|| mk(one).jsi_values_normalized(integ)) {
      if !(v.len() == 1 && close(v[0], norm[k], 1e-12)) && bad.is_none() {
        bad = Some(format!("cell={} v1={:e} v2={:e} in-sweep={:e} alone={:e}", k, cells[k].0, cells[k].1, norm[k], v.get(0).cloned().unwrap_or(f64::NAN)));
      }
    }
  }
  let ok = bad.is_none();
  ctx.s("C20.sweep", ok, if ok { "sweep2/alone-ok" } else { "sweep2/cell-depends-on-the-cells-before" }, &format!("{} {}", d0, bad.unwrap_or("-".into())));

  // K: as coded from the raw values of the layer below at the swept setups (fresh clone per cell)
  let ca = jsa_raw(w0s, w0i, o, integ);
  let cn = *(jsi_normalization(w0s, w0i, o) / JsiNorm::new(1.));
  let mut args = format!("{} {} {} {} {}", fl(fr(w0s)), fl(fr(w0i)), fl(ca.re), fl(ca.im), fl(cn));
  let mut finite = ca.re.is_finite() && ca.im.is_finite() && cn.is_finite();
  for st in setups.iter() {
    let (ws, wi) = (st.signal.frequency(), st.idler.frequency());
    let a = jsa_raw(ws, wi, st, integ);
    let n = *(jsi_normalization(ws, wi, st) / JsiNorm::new(1.));
    finite = finite && a.re.is_finite() && a.im.is_finite() && n.is_finite();
    args += &format!(" | {} {} {} {} {}", fl(fr(ws)), fl(fr(wi)), fl(a.re), fl(a.im), fl(n));
  }
  if finite {
    let outs = format!("{} {}", fls(&raw), fls(&norm));
    ctx.k("sweep", &args, outs.trim());
  }
}

pub fn run(ctx: &mut Ctx) {
  let opts = GenOpts {
    waist: (20.0, 1000.0),
    length: (500.0, 20000.0),
    explicit_idler: true,
    counter_prop: true,
    apodization: true,
    poling: None,
    collinear: None,
  };
  let mut done = 0usize;
  let mut tries = 0usize;
  let mut history = Vec::new();
  // a fixed familiar setup first
  let mut fixed = vec![SPDC::default()];
  // exact boundary values: signal angle −0.0 / 180° / azimuth 360°, crystal angle exactly 0 and 90°, an explicit idler
  // that is the energy-conserving one to the last bit, a threshold of exactly 0 and 1, equal signal/idler wavelengths
  for (cp, th, ph, cth, poled) in [(false, -0.0, 360.0, 90.0, true), (false, 0.0, 0.0, 0.0, true), (true, 180.0, 0.0, 90.0, true), (true, 0.0, 360.0, 90.0, true), (false, 0.0, 180.0, 45.0, false)] {
    let cfg = serde_json::json!({
      "crystal": {"kind": "KTP", "pm_type": "Type2_e_eo", "phi_deg": 0.0, "theta_deg": cth, "length_um": 5000.0, "temperature_c": 20.0, "counter_propagation": cp},
      "pump": {"wavelength_nm": 775.0, "waist_um": 80.0, "bandwidth_nm": 1.0, "average_power_mw": 10.0, "spectrum_threshold": 0.01},
      "signal": {"wavelength_nm": 1550.0, "phi_deg": ph, "theta_deg": th, "waist_um": 60.0, "waist_position_um": "auto"},
      "idler": "auto",
      "periodic_poling": if poled { serde_json::json!({"poling_period_um": "auto"}) } else { serde_json::Value::Null },
      "deff_pm_per_volt": 1.0
    });
    if let Some(sb) = build(&cfg) {
      // the optimum fed back in with its idler made explicit, bit for bit
      if let Some(Ok(ob)) = guard(|| sb.clone().try_as_optimum()) {
        fixed.push(ob);
      }
      fixed.push(sb);
      ctx.count("boundary-setups");
    }
  }
  while done < ctx.n && tries < ctx.n * 20 {
    tries += 1;
    let (s, meta, cfg) = if let Some(s) = fixed.pop() {
      let m = Meta {
        crystal: "KTP".into(),
        pm: "Type2_e_eo".into(),
        poling: !matches!(s.pp, PeriodicPoling::Off),
        collinear: s.signal.theta_internal().value_unsafe == 0.0,
        idler_explicit: false,
        idler_conj: true,
        cp: s.crystal_setup.counter_propagation,
        lp_nm: 775.0,
        ls_nm: 1550.0,
        length_um: (s.crystal_setup.length.value_unsafe * 1e6).round(),
        wp_um: 100.0,
        ws_um: 100.0,
        wi_um: 100.0,
        apod: "Off".into(),
      };
      let c = cfg_str(&serde_json::to_value(s.clone().as_config()).unwrap());
      (s, m, format!("fixed:{}", c))
    } else {
      let (cfg, meta) = gen_config(&mut ctx.rng, &opts);
      match build(&cfg) {
        Some(s) => (s, meta, cfg_str(&cfg)),
        None => {
          ctx.count("skip/config-err-or-panic");
          continue;
        }
      }
    };
    if meta.cp && !meta.poling {
      // counter-propagation is only phase-matchable with (sub-micron) poling: without it no optimised version exists
      ctx.count("skip/counter-propagation-without-poling");
      continue;
    }
    done += 1;
    ctx.count(&format!("crystal/{}", meta.crystal));
    ctx.count(&format!("pm/{}", meta.pm));
    ctx.count(&format!("poling/{}", if meta.poling { "on" } else { "off" }));
    ctx.count(&format!("signal/{}", if meta.collinear { "collinear" } else { "non-collinear" }));
    ctx.count(&format!("idler/{}", if !meta.idler_explicit { "auto" } else if meta.idler_conj { "explicit-conjugate" } else { "explicit-non-conjugate" }));
    ctx.count(&format!("counter-propagation/{}", meta.cp as u8));
    let detail = format!("{} cfg={}", meta.tokens(), cfg);

    opt_case(ctx, &s);
    idler_opt_case(ctx, &s);
    let o = match idem_case(ctx, &s, &detail) {
      Some(o) => o,
      None => continue,
    };
    idler_opt_case(ctx, &o);
    norm_case(ctx, &s, &o, &meta, &detail);
    if done % 3 == 0 {
      sweep_case(ctx, &s, &o, &detail);
    }
    if done % 3 == 1 {
      sweep2_case(ctx, &s, &o, &detail);
    }
    if done % 2 == 1 {
      edited_case(ctx, &s, &o, &detail);
    }
    if done % 2 == 0 || done <= 3 {
      seq_case(ctx, &s, &o, &detail, &mut history);
    }
  }
  history_pass(ctx, &history);
}
