//! C09 — HOM rate (array level + setup level); C10 — two-source HOM
//! extra[0] selects the part: "array" | "setup" | "two" (default: all)
use crate::common::*;
use spdcalc::dim::ucum::{RAD, S};
use spdcalc::jsa::{FrequencySpace, JointSpectrum, SumDiffFrequencySpace, WavelengthSpace};
use spdcalc::prelude::*;
use spdcalc::utils::Steps2D;
use spdcalc::{hom_rate, hom_rate_series, hom_two_source_rate_series, hom_two_source_time_delays, hom_two_source_visibilities, jsi_norm};
use spdcalc::{Frequency, Time};

type C = Complex<f64>;

/// slack on the closed ranges of the statement for quantities that are rounded sums (DESIGN §7)
const EDGE: f64 = 1e-12;

pub fn cxs(v: &[C]) -> String {
  let mut s = String::with_capacity(v.len() * 36 + 8);
  s.push_str(&v.len().to_string());
  for z in v {
    s.push(' ');
    s.push_str(&fl(z.re));
    s.push(' ');
    s.push_str(&fl(z.im));
  }
  s
}

fn fspace(ax: f64, bx: f64, nx: usize, ay: f64, by: f64, ny: usize) -> FrequencySpace {
  FrequencySpace::new((ax * RAD / S, bx * RAD / S, nx), (ay * RAD / S, by * RAD / S, ny))
}

/// every argument type the setup-level calls accept for their range (`R: Into<FrequencySpace>`):
/// `FrequencySpace`, `Steps2D<Frequency>`, `WavelengthSpace`, `SumDiffFrequencySpace`
#[derive(Clone, Copy)]
pub enum RangeArg {
  Freq(FrequencySpace),
  Steps(Steps2D<Frequency>),
  Wl(WavelengthSpace),
  SumDiff(SumDiffFrequencySpace),
}
impl RangeArg {
  pub fn pick(k: usize, fs: FrequencySpace) -> Self {
    match k % 4 {
      0 => RangeArg::Freq(fs),
      1 => RangeArg::Steps(*fs.steps()),
      2 => RangeArg::Wl(fs.as_wavelength_space()),
      _ => RangeArg::SumDiff(fs.as_sum_diff_space()),
    }
  }
  /// the signal × idler frequency grid the argument stands for (the crate's own `From` conversions)
  pub fn frequency_space(&self) -> FrequencySpace {
    match *self {
      RangeArg::Freq(f) => f,
      RangeArg::Steps(s) => FrequencySpace::from(s),
      RangeArg::Wl(w) => FrequencySpace::from(w),
      RangeArg::SumDiff(sd) => FrequencySpace::from(sd),
    }
  }
  pub fn name(&self) -> &'static str {
    match self {
      RangeArg::Freq(_) => "FrequencySpace",
      RangeArg::Steps(_) => "Steps2D<Frequency>",
      RangeArg::Wl(_) => "WavelengthSpace",
      RangeArg::SumDiff(_) => "SumDiffFrequencySpace",
    }
  }
}
/// call `$body` with `$r` bound to the concrete range value
#[macro_export]
macro_rules! with_range {
  ($arg:expr, $r:ident => $body:expr) => {
    match $arg {
      $crate::fam::hom::RangeArg::Freq($r) => $body,
      $crate::fam::hom::RangeArg::Steps($r) => $body,
      $crate::fam::hom::RangeArg::Wl($r) => $body,
      $crate::fam::hom::RangeArg::SumDiff($r) => $body,
    }
  };
}

fn raw(fs: &FrequencySpace) -> (f64, f64, usize, f64, f64, usize) {
  let s: &Steps2D<Frequency> = fs.steps();
  (*(s.0 .0 / (RAD / S)), *(s.0 .1 / (RAD / S)), s.0 .2, *(s.1 .0 / (RAD / S)), *(s.1 .1 / (RAD / S)), s.1 .2)
}

fn grid_str(fs: &FrequencySpace) -> String {
  let (ax, bx, nx, ay, by, ny) = raw(fs);
  format!("{} {} {} {} {} {}", fl(ax), fl(bx), nx, fl(ay), fl(by), ny)
}

fn grid_txt(fs: &FrequencySpace) -> String {
  let (ax, bx, nx, ay, by, ny) = raw(fs);
  format!("x=({:e},{:e},{}) y=({:e},{:e},{})", ax, bx, nx, ay, by, ny)
}

/// Σ|f|² computed here (the predicates' notion of a non-zero spectrum must not depend on the code under test)
pub fn own_norm(v: &[C]) -> f64 {
  v.iter().map(|z| z.re * z.re + z.im * z.im).sum()
}

fn close(a: f64, b: f64, rel: f64, floor: f64) -> bool {
  a == b || (a - b).abs() <= rel * a.abs().max(b.abs()) + floor
}

fn out_fl(r: Option<f64>) -> String {
  r.map(fl).unwrap_or_else(|| "PANIC".into())
}
fn out_fls(r: &Option<Vec<f64>>) -> String {
  r.as_ref().map(|v| fls(v)).unwrap_or_else(|| "PANIC".into())
}

pub fn run(ctx: &mut Ctx) {
  let part = ctx.extra.first().cloned().unwrap_or_else(|| "all".into());
  if part == "array" || part == "all" {
    array_part(ctx);
  }
  if part == "setup" || part == "all" {
    setup_part(ctx);
  }
  if part == "history" || part == "all" {
    history_part(ctx);
  }
  if part == "two" || part == "all" {
    two_part(ctx);
  }
  if part == "twoloop" || part == "all" {
    two_loop_part(ctx);
  }
  if part == "twowin" || part == "all" {
    two_window_part(ctx);
  }
  if part == "twobig" || part == "all" {
    two_big_part(ctx);
  }
}

// ------------------------------------------------------------------------------------------------
// array level
// ------------------------------------------------------------------------------------------------

fn rand_c(r: &mut Rng) -> C {
  C::new(r.normal(), r.normal())
}

/// `g_k = f_{σ k}` : the array read at exchanged positions of an n×n grid
fn swap_arr(f: &[C], n: usize) -> Vec<C> {
  (0..n * n).map(|k| f[(k % n) * n + k / n]).collect()
}

fn gen_axis(r: &mut Rng) -> (f64, f64) {
  match r.below(5) {
    0 => {
      // optical angular frequencies around 1.2e15 rad/s
      let c = r.range(1.0e15, 2.5e15);
      let h = r.log_range(1e11, 5e13);
      (c - h, c + h)
    }
    1 => (r.range(-3.0, 0.0), r.range(0.0, 3.0)),
    2 => {
      let a = r.range(-10.0, 10.0);
      (a, a + r.log_range(1e-3, 10.0))
    }
    3 => {
      // descending
      let a = r.range(-5.0, 5.0);
      (a + r.range(0.1, 4.0), a)
    }
    _ => (r.range(-1.0, 1.0), r.range(-1.0, 1.0)),
  }
}

fn gen_delay(r: &mut Rng, span: f64) -> f64 {
  // delays on the scale of 1/span
  let s = if span > 0.0 { 1.0 / span } else { 1.0 };
  match r.below(6) {
    0 => 0.0,
    1 => s * r.range(-1.0, 1.0),
    2 => s * r.range(-30.0, 30.0),
    3 => -s * r.log_range(1e-3, 1e2),
    4 => s * r.log_range(1e-3, 1e2),
    _ => s * r.normal() * 5.0,
  }
}

/// delay lists as they occur in practice, and the edge cases of "a list": scans of a dip with coarse wings and a
/// fine centre (symmetric about `centre`), palindromic gap sequences, equal first and last gaps around an irregular
/// interior, evenly spaced scans (ascending / descending), one displaced point in an even scan, two segments of
/// different step, geometric spacing, repeated values, single delays and pairs.  `unit` is the natural delay scale.
pub fn structured_delays(r: &mut Rng, centre: f64, unit: f64) -> (&'static str, Vec<f64>) {
  let dip = [-4.0, -2.0, -1.0, -0.5, -0.25, 0.0, 0.25, 0.5, 1.0, 2.0, 4.0];
  let from_gaps = |start: f64, gaps: &[f64]| -> Vec<f64> {
    let mut v = vec![start];
    let mut t = start;
    for g in gaps {
      t += g;
      v.push(t);
    }
    v
  };
  match r.below(14) {
    0 => ("dip-scan", dip.iter().map(|x| centre + x * unit).collect()),
    1 => ("dip-scan-descending", dip.iter().rev().map(|x| centre + x * unit).collect()),
    2 => {
      // palindromic gaps g1 … gm [mid] gm … g1
      let m = r.between(1, 4);
      let half: Vec<f64> = (0..m).map(|_| unit * r.log_range(0.05, 3.0)).collect();
      let mut gaps = half.clone();
      if r.coin() {
        gaps.push(unit * r.log_range(0.05, 3.0));
      }
      gaps.extend(half.iter().rev());
      let total: f64 = gaps.iter().sum();
      ("palindromic-gaps", from_gaps(centre - 0.5 * total, &gaps))
    }
    3 => {
      // equal first and last gap, irregular interior
      let g = unit * r.log_range(0.05, 2.0);
      let m = r.between(1, 6);
      let mut gaps = vec![g];
      for _ in 0..m {
        gaps.push(unit * r.log_range(0.01, 3.0));
      }
      gaps.push(g);
      let sign = if r.coin() { 1.0 } else { -1.0 };
      let gaps: Vec<f64> = gaps.iter().map(|x| sign * x).collect();
      ("equal-end-gaps", from_gaps(centre - sign * unit * r.range(0.0, 3.0), &gaps))
    }
    4 | 5 => {
      // evenly spaced, as `Steps` produces it
      let n = r.between(3, 12);
      let a = centre - unit * r.range(0.5, 5.0);
      let b = centre + unit * r.range(0.5, 5.0);
      let v: Vec<f64> = (0..n).map(|k| a + (k as f64) * (b - a) / ((n - 1) as f64)).collect();
      if r.coin() {
        ("even-ascending", v)
      } else {
        ("even-descending", v.into_iter().rev().collect())
      }
    }
    6 => {
      // an even scan with one interior point displaced
      let n = r.between(4, 10);
      let a = centre - unit * r.range(0.5, 5.0);
      let step = unit * r.log_range(0.05, 2.0);
      let mut v: Vec<f64> = (0..n).map(|k| a + (k as f64) * step).collect();
      let j = r.between(1, n - 2);
      v[j] += step * r.range(-0.9, 0.9);
      ("even-one-displaced", v)
    }
    7 => {
      // coarse steps, then fine steps, then coarse again with the same coarse step
      let c = unit * r.log_range(0.5, 3.0);
      let f = c / (r.between(2, 8) as f64);
      let (nc, nf) = (r.between(1, 3), r.between(1, 6));
      let mut gaps = vec![c; nc];
      gaps.extend(vec![f; nf]);
      gaps.extend(vec![c; r.between(1, 3)]);
      let total: f64 = gaps.iter().sum();
      ("coarse-fine-coarse", from_gaps(centre - 0.5 * total, &gaps))
    }
    8 => {
      // geometric spacing on one side of the centre
      let n = r.between(3, 9);
      let sign = if r.coin() { 1.0 } else { -1.0 };
      ("geometric", (0..n).map(|k| centre + sign * unit * 0.1 * 2f64.powi(k as i32)).collect())
    }
    9 => {
      // repeated values
      let a = centre + unit * r.range(-3.0, 3.0);
      let b = centre + unit * r.range(-3.0, 3.0);
      let v = match r.below(5) {
        0 => vec![a, a, a],
        1 => vec![a, b, a, b],
        2 => vec![a, a, b, b],
        3 => vec![a, b, b, a],
        _ => vec![a, b, a],
      };
      ("repeated-values", v)
    }
    10 => ("single", vec![if r.coin() { centre } else { centre + unit * r.range(-3.0, 3.0) }]),
    11 => {
      let a = centre + unit * r.range(-3.0, 3.0);
      ("pair", if r.below(3) == 0 { vec![a, a] } else { vec![a, centre + unit * r.range(-3.0, 3.0)] })
    }
    12 => {
      // symmetric about the centre without containing it, unequal gaps
      let m = r.between(2, 5);
      let mut off: Vec<f64> = (0..m).map(|_| unit * r.log_range(0.05, 5.0)).collect();
      off.sort_by(|x, y| x.partial_cmp(y).unwrap());
      let mut v: Vec<f64> = off.iter().rev().map(|x| centre - x).collect();
      v.extend(off.iter().map(|x| centre + x));
      ("symmetric-no-centre", v)
    }
    _ => {
      // unordered
      let n = r.between(3, 8);
      ("unordered", (0..n).map(|_| centre + unit * r.range(-5.0, 5.0)).collect())
    }
  }
}

/// "a delay series equals the individually computed rates" on structured delay lists (array level)
fn series_case(ctx: &mut Ctx, n: usize, related: bool) {
  let (a, b) = gen_axis(&mut ctx.rng);
  let fs = if related {
    fspace(a, b, n, a, b, n)
  } else {
    let (a2, b2) = gen_axis(&mut ctx.rng);
    fspace(a, b, n, a2, b2, n)
  };
  let f: Vec<C> = (0..n * n).map(|_| rand_c(&mut ctx.rng)).collect();
  let g: Vec<C> = if related { swap_arr(&f, n) } else { (0..n * n).map(|_| rand_c(&mut ctx.rng)).collect() };
  let span = (b - a).abs();
  let unit = if span > 0.0 { ctx.rng.log_range(0.05, 5.0) / span } else { 1.0 };
  let centre = if ctx.rng.below(3) == 0 { 0.0 } else { unit * ctx.rng.range(-5.0, 5.0) };
  let (lname, delays) = structured_delays(&mut ctx.rng, centre, unit);
  ctx.count(&format!("series/list/{}", lname));
  series_check(ctx, fs, &f, &g, &delays, &format!("list={} related={} n={} {} seedcase={}", lname, related as u8, n, grid_txt(&fs), ctx.seed), "hom/series-eq-individual/structured");
}

/// K line of the series + S: every entry equals `hom_rate` at that delay (rel 1e-12)
fn series_check(ctx: &mut Ctx, fs: FrequencySpace, f: &[C], g: &[C], delays: &[f64], det: &str, sig: &str) {
  let ser = guard(|| hom_rate_series(fs, f, g, delays.iter().map(|t| *t * S).collect::<Vec<Time>>()));
  ctx.k(
    "hom_rate_series",
    &format!("{} {} {} {} {}", grid_str(&fs), delays.len(), fls(delays), cxs(f), cxs(g)),
    &out_fls(&ser),
  );
  if own_norm(f) > 0.0 {
    let singles: Vec<Option<f64>> = delays.iter().map(|t| guard(|| hom_rate(fs, f, g, *t * S, None))).collect();
    let mut why = String::new();
    let ok = match &ser {
      Some(v) if v.len() == delays.len() => {
        let mut ok = true;
        for (j, (x, y)) in v.iter().zip(singles.iter()).enumerate() {
          let good = matches!(y, Some(y) if close(*x, *y, 1e-12, 1e-13) || (x.is_nan() && y.is_nan()));
          if !good && ok {
            ok = false;
            why = format!("entry={} tau={:e} in_series={:e} single={:?}", j, delays[j], x, y);
          }
        }
        ok
      }
      Some(v) => {
        why = format!("series_len={}", v.len());
        false
      }
      None => {
        why = "series-panicked".into();
        false
      }
    };
    ctx.s("C09.series", ok, sig, &format!("{} delays={:?} {}", det, delays, why).replace(", ", ","));
  }
}

fn array_part(ctx: &mut Ctx) {
  let maxn = if ctx.thorough { 40 } else { 12 };

  // exhaustive small sides × all kinds
  for n in 0..=4usize {
    for kind in 0..5 {
      array_case(ctx, n, kind);
    }
  }
  for _ in 0..ctx.n {
    let n = match ctx.rng.below(8) {
      0 => ctx.rng.below(4),
      _ => ctx.rng.between(1, maxn),
    };
    let kind = ctx.rng.below(5);
    array_case(ctx, n, kind);
  }
  // larger sides: more than 1024 grid points, counts that are not multiples of powers of two
  for _ in 0..(if ctx.thorough { 40 } else { 6 }) {
    let n = ctx.rng.between(33, 70);
    let kind = ctx.rng.below(5);
    array_case(ctx, n, kind);
  }
  // rectangular grids / arbitrary pairs of arrays / length mismatches (panic path)
  for _ in 0..ctx.n / 3 {
    general_case(ctx, maxn);
  }
  // structured delay lists: series = individually computed rates
  for j in 0..(ctx.n / 4).max(28) {
    let n = match j % 4 {
      0 => ctx.rng.between(1, 4),
      3 if j % 8 == 3 => ctx.rng.between(33, 50),
      _ => ctx.rng.between(2, maxn),
    };
    series_case(ctx, n, j % 5 != 4);
  }
  // Gaussian closed form: fine grids (64, 96), a spread of sides incl. N² > 1024 not a multiple of
  // 1024, and small sides (coarse grids: tolerance = the actual discretisation error)
  let ng = if ctx.thorough { 60 } else { 14 };
  for j in 0..ng {
    let side = match j % 7 {
      0 => 64,
      1 => if ctx.thorough { 96 } else { 48 },
      2 | 3 => ctx.rng.between(33, 100),
      4 => ctx.rng.between(2, 12),
      5 => ctx.rng.between(13, 32),
      _ => *ctx.rng.pick(&[33usize, 40, 45, 50, 63, 65, 70, 95, 97, 100]),
    };
    gaussian_case(ctx, side);
  }
  // a round resolution a user types: 128² = 2·8192 points (block-size multiples)
  gaussian_case(ctx, 128);
}

/// square grid with identical axes; `g` is the exchanged-argument counterpart of `f`
fn array_case(ctx: &mut Ctx, n: usize, kind: usize) {
  let (a, b) = gen_axis(&mut ctx.rng);
  let fs = fspace(a, b, n, a, b, n);
  let base: Vec<C> = (0..n * n).map(|_| rand_c(&mut ctx.rng)).collect();
  let bsw = swap_arr(&base, n);
  let (name, f): (&str, Vec<C>) = match kind {
    0 => ("random", base.clone()),
    1 => ("symmetric", base.iter().zip(bsw.iter()).map(|(x, y)| (x + y) * 0.5).collect()),
    2 => ("antisymmetric", base.iter().zip(bsw.iter()).map(|(x, y)| x - y).collect()),
    3 => {
      // separable (outer product) with a linear spectral phase
      let u: Vec<C> = (0..n).map(|_| rand_c(&mut ctx.rng)).collect();
      ("separable", (0..n * n).map(|k| u[k % n] * u[k / n].conj()).collect())
    }
    _ => {
      // sparse: most entries zero
      ("sparse", base.iter().map(|z| if z.re > 1.0 { *z } else { C::new(0.0, 0.0) }).collect())
    }
  };
  let g = swap_arr(&f, n);
  ctx.count(&format!("array/{}", name));
  ctx.count(&format!("array/side={}", if n <= 2 { n.to_string() } else if n <= 12 { "3-12".into() } else if n <= 32 { "13-32".into() } else { "33+".into() }));
  let span = (b - a).abs();
  let gs = grid_str(&fs);
  let gt = grid_txt(&fs);

  // K: swap_arr (the model's index permutation) and jsi_norm
  ctx.k("swap_arr", &format!("{} {}", n, cxs(&f)), &fls(&g.iter().flat_map(|z| [z.re, z.im]).collect::<Vec<_>>()));
  let norm_impl = jsi_norm(&f);
  ctx.k("jsi_norm", &cxs(&f), &fl(norm_impl));
  let norm = own_norm(&f);

  let mut delays = vec![0.0, gen_delay(&mut ctx.rng, span), gen_delay(&mut ctx.rng, span)];
  if ctx.rng.coin() {
    delays.push(gen_delay(&mut ctx.rng, span));
  }
  let mut singles = vec![];
  for (j, &tau) in delays.iter().enumerate() {
    let r = guard(|| hom_rate(fs, &f, &g, tau * S, None));
    ctx.k("hom_rate", &format!("{} {} N {} {}", gs, fl(tau), cxs(&f), cxs(&g)), &out_fl(r));
    if j == 1 {
      // explicit normalisation argument
      let nn = ctx.rng.range(0.5, 2.0) * if norm > 0.0 { norm } else { 1.0 };
      let r2 = guard(|| hom_rate(fs, &f, &g, tau * S, Some(nn)));
      ctx.k("hom_rate", &format!("{} {} S {} {} {}", gs, fl(tau), fl(nn), cxs(&f), cxs(&g)), &out_fl(r2));
    }
    singles.push(r);
    // S: the statement's bounds (non-zero spectrum on a grid with identical axes)
    if norm > 0.0 && n >= 1 {
      let ok = match r {
        Some(x) => x >= -EDGE && x <= 1.0 + EDGE,
        None => false,
      };
      let vis = r.map(|x| (0.5 - x) / 0.5);
      let okv = match vis {
        Some(v) => v >= -1.0 - 2.0 * EDGE && v <= 1.0 + 2.0 * EDGE,
        None => false,
      };
      let det = format!("kind={} n={} tau={:e} {} rate={:?} seedcase={}", name, n, tau, gt, r, ctx.seed);
      ctx.s("C09.bounds", ok, "hom/rate-in-unit", &det);
      ctx.s("C09.bounds", okv, "hom/visibility-in-unit", &det);
      if tau == 0.0 && kind == 1 {
        let ok0 = matches!(r, Some(x) if x.abs() <= 1e-12);
        ctx.s("C09.symmetric", ok0, "hom/symmetric-zero", &det);
      }
    }
  }
  // series = individually computed rates
  let ser = guard(|| hom_rate_series(fs, &f, &g, delays.iter().map(|t| *t * S).collect::<Vec<Time>>()));
  ctx.k(
    "hom_rate_series",
    &format!("{} {} {} {} {}", gs, delays.len(), fls(&delays), cxs(&f), cxs(&g)),
    &out_fls(&ser),
  );
  if norm > 0.0 {
    let ok = match &ser {
      Some(v) => v.len() == delays.len() && v.iter().zip(singles.iter()).all(|(x, y)| matches!(y, Some(y) if close(*x, *y, 1e-12, 1e-13))),
      None => false,
    };
    ctx.s("C09.series", ok, "hom/series-eq-individual", &format!("kind={} n={} {} delays={:?}", name, n, gt, delays));
  }
}

/// arbitrary grids and unrelated arrays: correspondence only
fn general_case(ctx: &mut Ctx, maxn: usize) {
  let nx = ctx.rng.between(0, maxn.min(16));
  let ny = ctx.rng.between(0, maxn.min(16));
  let (ax, bx) = gen_axis(&mut ctx.rng);
  let (ay, by) = gen_axis(&mut ctx.rng);
  let fs = fspace(ax, bx, nx, ay, by, ny);
  let len = nx * ny;
  // lengths: mostly exact, sometimes longer, sometimes too short (panic)
  let lf = match ctx.rng.below(8) {
    0 => len + ctx.rng.between(1, 3),
    1 => len.saturating_sub(ctx.rng.between(1, 2)),
    _ => len,
  };
  let lg = match ctx.rng.below(8) {
    0 => len + ctx.rng.between(1, 3),
    1 => len.saturating_sub(ctx.rng.between(1, 2)),
    _ => len,
  };
  let f: Vec<C> = (0..lf).map(|_| rand_c(&mut ctx.rng)).collect();
  let g: Vec<C> = (0..lg).map(|_| rand_c(&mut ctx.rng)).collect();
  let span = (bx - ax).abs().max((by - ay).abs());
  let tau = gen_delay(&mut ctx.rng, span);
  ctx.count(if lf < len || lg < len { "general/short-array" } else { "general/ok" });
  let gs = grid_str(&fs);
  let r = guard(|| hom_rate(fs, &f, &g, tau * S, None));
  ctx.k("hom_rate", &format!("{} {} N {} {}", gs, fl(tau), cxs(&f), cxs(&g)), &out_fl(r));
  let delays = [tau, -tau];
  let ser = guard(|| hom_rate_series(fs, &f, &g, delays.iter().map(|t| *t * S).collect::<Vec<Time>>()));
  ctx.k("hom_rate_series", &format!("{} 2 {} {} {}", gs, fls(&delays), cxs(&f), cxs(&g)), &out_fls(&ser));
  // S: a delay series equals the individually computed rates — also for unrelated arrays
  if lf >= len && lg >= len && len > 0 && own_norm(&f) > 0.0 {
    let ind: Vec<Option<f64>> = delays.iter().map(|t| guard(|| hom_rate(fs, &f, &g, *t * S, None))).collect();
    let ok = match &ser {
      Some(v) => v.len() == 2 && v.iter().zip(ind.iter()).all(|(x, y)| matches!(y, Some(y) if close(*x, *y, 1e-12, 1e-13))),
      None => false,
    };
    ctx.s("C09.series", ok, "hom/series-eq-individual-general", &format!("nx={} ny={} {} lf={} lg={} delays={:?} seedcase={}", nx, ny, grid_txt(&fs), lf, lg, delays, ctx.seed));
  }
  // empty delay list never touches the arrays
  let ser0 = guard(|| hom_rate_series(fs, &f, &g, Vec::<Time>::new()));
  ctx.k("hom_rate_series", &format!("{} 0 {} {}", gs, cxs(&f), cxs(&g)), &out_fls(&ser0));
}

/// separable Gaussian of r.m.s. amplitude width σ with the phase exp(i t0 (ωi − ωs)/2) on a grid
/// spanning ±5σ.  "Equals ½(1 − exp(−σ²(τ−t0)²/2)) to discretisation accuracy": the discretisation
/// error of the grid is computed here independently of the code (the exact discrete sum
/// Σ a²a² cos(Δ(τ−t0)) / Σ a²a² of theorem `gaussian_reduction`, evaluated in plain Rust from the
/// envelope), and the implementation must be as close to the closed form as that error allows
/// (factor 2) plus 1e-9 for rounding.
fn gaussian_case(ctx: &mut Ctx, side: usize) {
  let w0 = ctx.rng.range(1.0e15, 2.0e15);
  let sigma = ctx.rng.log_range(1e11, 1e13);
  let t0 = match ctx.rng.below(4) {
    0 => 0.0,
    _ => ctx.rng.range(-6.0, 6.0) / sigma,
  };
  let (a, b) = (w0 - 5.0 * sigma, w0 + 5.0 * sigma);
  let fs = fspace(a, b, side, a, b, side);
  let pts: Vec<(Frequency, Frequency)> = fs.as_steps().into_iter().collect();
  let amp = |w: f64| (-(w - w0) * (w - w0) / (2.0 * sigma * sigma)).exp();
  let val = |ws: f64, wi: f64| C::from_polar(amp(ws) * amp(wi), t0 * (wi - ws) / 2.0);
  let raw_pts: Vec<(f64, f64)> = pts.iter().map(|(s, i)| (*(*s / (RAD / S)), *(*i / (RAD / S)))).collect();
  let f: Vec<C> = raw_pts.iter().map(|(s, i)| val(*s, *i)).collect();
  // exchanged-argument counterpart, evaluated (not permuted)
  let g: Vec<C> = raw_pts.iter().map(|(s, i)| val(*i, *s)).collect();
  ctx.count(&format!("gaussian/side={}", if side < 13 { "2-12" } else if side <= 32 { "13-32" } else if side * side % 1024 == 0 { "33+/multiple-of-1024" } else { "33+" }));
  let gs = grid_str(&fs);
  // delays: the dip, zero, the far wings |τ − t0|σ = 8, and random ones with |τ − t0|σ ≤ 4
  let mut delays = vec![t0, 0.0, t0 + 8.0 / sigma, t0 - 8.0 / sigma];
  for _ in 0..4 {
    delays.push(t0 + ctx.rng.range(-4.0, 4.0) / sigma);
  }
  let wsum: f64 = raw_pts.iter().map(|(s, i)| (amp(*s) * amp(*i)).powi(2)).sum();
  for &tau in &delays {
    let r = guard(|| hom_rate(fs, &f, &g, tau * S, None));
    let x = sigma * (tau - t0);
    let expect = 0.5 * (1.0 - (-x * x / 2.0).exp());
    // exact discrete sum on this grid (oracle for the discretisation error only)
    let isum: f64 = raw_pts.iter().map(|(s, i)| (amp(*s) * amp(*i)).powi(2) * ((i - s) * (tau - t0)).cos()).sum();
    let discrete = 0.5 * (1.0 - isum / wsum);
    let disc_err = (discrete - expect).abs();
    let tol = 2.0 * disc_err + 1e-9;
    let ok = matches!(r, Some(v) if (v - expect).abs() <= tol);
    ctx.s(
      "C09.gaussian",
      ok,
      "hom/gaussian-closed-form",
      &format!(
        "side={} w0={:e} sigma={:e} t0={:e} tau={:e} rate={:?} expect={:e} discretisation_error={:e} tol={:e}",
        side, w0, sigma, t0, tau, r, expect, disc_err, tol
      ),
    );
  }
  // the Gaussian scanned with a structured delay list around the dip: series = individual rates
  {
    let (lname, scan) = structured_delays(&mut ctx.rng, t0, 1.0 / sigma);
    ctx.count(&format!("series/list/{}", lname));
    series_check(ctx, fs, &f, &g, &scan, &format!("gaussian=1 list={} side={} w0={:e} sigma={:e} t0={:e}", lname, side, w0, sigma, t0), "hom/series-eq-individual/structured");
  }
  // correspondence on this grid at two non-zero delays
  for &tau in &[delays[4], delays[2]] {
    let r = guard(|| hom_rate(fs, &f, &g, tau * S, None));
    ctx.k("hom_rate", &format!("{} {} N {} {}", gs, fl(tau), cxs(&f), cxs(&g)), &out_fl(r));
  }
}

// ------------------------------------------------------------------------------------------------
// setups
// ------------------------------------------------------------------------------------------------

pub struct Setup {
  pub name: String,
  pub spdc: SPDC,
  pub degenerate: bool,
  /// the JSON config the setup was built from, when `spdc` is exactly that build
  pub json: Option<String>,
}

/// a small zoo of phase-matched setups with randomised lengths, waists and bandwidths
pub fn gen_setup(r: &mut Rng, want_degenerate: Option<bool>) -> Setup {
  for _ in 0..50 {
    let kind = r.below(6);
    let len_um = r.log_range(500.0, 20000.0);
    let wp = r.log_range(40.0, 400.0);
    let ws = r.log_range(30.0, 300.0);
    let bw = r.log_range(0.05, 12.0);
    let degenerate = match want_degenerate {
      Some(d) => d,
      None => r.below(3) != 0,
    };
    let (json, name) = match kind {
      0 | 1 => {
        // KTP type II, periodically poled
        let lp = 775.0 + r.range(-10.0, 10.0);
        let ls = if degenerate { 2.0 * lp } else { 2.0 * lp + r.range(-60.0, 60.0) };
        (
          format!(
            r#"{{"crystal":{{"kind":"KTP","pm_type":"e->eo","phi_deg":0,"theta_deg":90,"length_um":{len_um},"temperature_c":20}},
"pump":{{"wavelength_nm":{lp},"waist_um":{wp},"bandwidth_nm":{bw},"average_power_mw":300}},
"signal":{{"wavelength_nm":{ls},"phi_deg":0,"theta_external_deg":0,"waist_um":{ws},"waist_position_um":"auto"}},
"idler":"auto","periodic_poling":{{"poling_period_um":"auto"}},"deff_pm_per_volt":7.6}}"#
          ),
          "KTP-II-pp",
        )
      }
      2 => {
        // BBO type I, angle tuned
        let lp = 405.0 + r.range(-5.0, 5.0);
        let ls = if degenerate { 2.0 * lp } else { 2.0 * lp + r.range(-40.0, 40.0) };
        let len_um = len_um.min(5000.0);
        (
          format!(
            r#"{{"crystal":{{"kind":"BBO_1","pm_type":"e->oo","phi_deg":0,"theta_deg":"auto","length_um":{len_um},"temperature_c":20}},
"pump":{{"wavelength_nm":{lp},"waist_um":{wp},"bandwidth_nm":{bw},"average_power_mw":100}},
"signal":{{"wavelength_nm":{ls},"phi_deg":0,"theta_external_deg":0,"waist_um":{ws},"waist_position_um":"auto"}},
"idler":"auto","deff_pm_per_volt":1.0}}"#,
            bw = bw.min(3.0)
          ),
          "BBO-I-angle",
        )
      }
      3 => {
        // LiNbO3 type 0, periodically poled
        let lp = 775.0 + r.range(-10.0, 10.0);
        let ls = if degenerate { 2.0 * lp } else { 2.0 * lp + r.range(-80.0, 80.0) };
        (
          format!(
            r#"{{"crystal":{{"kind":"LiNbO3_1","pm_type":"e->ee","phi_deg":0,"theta_deg":90,"length_um":{len_um},"temperature_c":20}},
"pump":{{"wavelength_nm":{lp},"waist_um":{wp},"bandwidth_nm":{bw},"average_power_mw":50}},
"signal":{{"wavelength_nm":{ls},"phi_deg":0,"theta_external_deg":0,"waist_um":{ws},"waist_position_um":"auto"}},
"idler":"auto","periodic_poling":{{"poling_period_um":"auto"}},"deff_pm_per_volt":20.0}}"#
          ),
          "LN-0-pp",
        )
      }
      5 => {
        // BBO type I, angle tuned, non-collinear signal
        let lp = 405.0 + r.range(-5.0, 5.0);
        let ls = if degenerate { 2.0 * lp } else { 2.0 * lp + r.range(-40.0, 40.0) };
        let len_um = len_um.min(3000.0);
        let th = r.range(0.5, 3.0);
        (
          format!(
            r#"{{"crystal":{{"kind":"BBO_1","pm_type":"e->oo","phi_deg":0,"theta_deg":"auto","length_um":{len_um},"temperature_c":20}},
"pump":{{"wavelength_nm":{lp},"waist_um":{wp},"bandwidth_nm":{bw},"average_power_mw":100}},
"signal":{{"wavelength_nm":{ls},"phi_deg":0,"theta_external_deg":{th},"waist_um":{ws},"waist_position_um":"auto"}},
"idler":"auto","deff_pm_per_volt":1.0}}"#,
            bw = bw.min(3.0)
          ),
          "BBO-I-angle-noncollinear",
        )
      }
      _ => {
        // KTP type II with a slightly non-collinear signal
        let lp = 775.0;
        let ls = if degenerate { 1550.0 } else { 1550.0 + r.range(-40.0, 40.0) };
        let th = r.range(0.0, 0.6);
        (
          format!(
            r#"{{"crystal":{{"kind":"KTP","pm_type":"e->eo","phi_deg":0,"theta_deg":90,"length_um":{len_um},"temperature_c":{t}}},
"pump":{{"wavelength_nm":{lp},"waist_um":{wp},"bandwidth_nm":{bw},"average_power_mw":300}},
"signal":{{"wavelength_nm":{ls},"phi_deg":0,"theta_external_deg":{th},"waist_um":{ws},"waist_position_um":"auto"}},
"idler":"auto","periodic_poling":{{"poling_period_um":"auto"}},"deff_pm_per_volt":7.6}}"#,
            t = r.range(20.0, 80.0)
          ),
          "KTP-II-pp-noncollinear",
        )
      }
    };
    let js = json.clone();
    if let Some(Ok(spdc)) = guard(move || SPDC::from_json(js)) {
      // the joint spectrum constructor unwraps `try_as_optimum`
      let sp = spdc.clone();
      if guard(move || sp.joint_spectrum(Integrator::default())).is_some() {
        return Setup {
          name: format!(
            "{}{} L={:.4e}um wp={:.4e}um ws={:.4e}um bw={:.4e}nm lp={:.6}nm ls={:.6}nm",
            name,
            if degenerate { "/deg" } else { "/nondeg" },
            len_um,
            wp,
            ws,
            bw,
            *(spdc.pump.vacuum_wavelength() / (NANO * M)),
            *(spdc.signal.vacuum_wavelength() / (NANO * M))
          )
          .replace(' ', ","),
          spdc,
          degenerate,
          json: Some(json),
        };
      }
    }
  }
  Setup { name: "default".into(), spdc: SPDC::default(), degenerate: true, json: None }
}

/// `gen_setup` plus everything that is varied rarely: the pm-type family is drawn uniformly (type 0, I, II,
/// collinear or not), collection modes are made unequal one field at a time (idler waist, idler / signal waist
/// position — fields that break the exchange symmetry of the JSA), and the source brightness spans many
/// decades (pump power 1e-9 … 1e3 mW, deff 1e-3 … 1e2 pm/V).
pub fn gen_setup_x(r: &mut Rng, want_degenerate: Option<bool>) -> Setup {
  let family = *r.pick(&["LN-0-pp", "BBO-I-angle/", "BBO-I-angle-noncollinear", "KTP-II-pp/", "KTP-II-pp-noncollinear"]);
  let mut st = gen_setup(r, want_degenerate);
  for _ in 0..60 {
    if st.name.starts_with(family) {
      break;
    }
    st = gen_setup(r, want_degenerate);
  }
  let mut spdc = st.spdc.clone();
  let mut tags: Vec<String> = vec![];
  let w_um = *(spdc.signal.waist().x / (MICRO * M));
  let asym = r.below(7);
  if asym == 1 || asym == 5 {
    let f = *r.pick(&[0.3, 0.5, 0.999, 1.001, 2.0, 3.0]);
    spdc.idler.set_waist(w_um * f * MICRO * M);
    tags.push(format!("idler_waist_um={:.6e}", w_um * f));
  }
  if asym == 2 || asym == 4 || asym == 5 || asym == 6 {
    let l_um = *(spdc.crystal_setup.length / (MICRO * M));
    let z = -r.range(0.0, 1.0) * l_um;
    spdc.idler_waist_position = z * MICRO * M;
    tags.push(format!("idler_waist_position_um={:.6e}", z));
  }
  if asym == 3 || asym == 4 || asym == 5 {
    let l_um = *(spdc.crystal_setup.length / (MICRO * M));
    let z = -r.range(0.0, 1.0) * l_um;
    spdc.signal_waist_position = z * MICRO * M;
    tags.push(format!("signal_waist_position_um={:.6e}", z));
  }
  if asym == 6 {
    // equal waists and an explicitly collinear idler, only the waist positions differ
    let w = spdc.signal.waist();
    spdc.idler.set_waist(w);
  }
  let stratum = r.below(4);
  if stratum != 0 {
    // 1: anywhere in the twelve / five decades; 2: the weak corner; 3: the bright corner
    let (p, d) = match stratum {
      1 => (r.log_range(1e-9, 1e3), r.log_range(1e-3, 1e2)),
      2 => (r.log_range(1e-9, 1e-5), r.log_range(1e-3, 1e-1)),
      _ => (r.log_range(1e1, 1e3), r.log_range(1e1, 1e2)),
    };
    spdc.pump_average_power = p * MILLIW;
    spdc.deff = d * PICO * M / V;
    tags.push(format!("power_mw={:.4e}", p));
    tags.push(format!("deff_pm_per_volt={:.4e}", d));
  }
  let s2 = spdc.clone();
  if guard(move || s2.joint_spectrum(Integrator::default())).is_none() {
    return st;
  }
  let name = if tags.is_empty() { st.name.clone() } else { format!("{},{}", st.name, tags.join(",")) };
  let json = if tags.is_empty() { st.json.clone() } else { None };
  Setup { name, spdc, degenerate: st.degenerate, json }
}

/// square grid with identical signal and idler axes around the degenerate frequency
fn symmetric_range(r: &mut Rng, s: &SPDC, n: usize) -> FrequencySpace {
  let o = raw(&s.optimum_range(n));
  let c = 0.25 * (o.0 + o.1 + o.3 + o.4);
  let h = 0.5 * (o.1 - o.0).abs().max((o.4 - o.3).abs()) * r.range(0.6, 1.4);
  fspace(c - h, c + h, n, c - h, c + h, n)
}

/// windows whose signal and idler axes are related without being identical: a shared first or last frequency,
/// the same end points with different step counts, the same points in opposite order, one axis shifted by one
/// step, unrelated windows, and windows that reach above the pump frequency (aligned so that the grid still
/// meets the energy-conserving line).  Outside the identical-axes clause of C09, inside its last sentence.
fn window_variant(r: &mut Rng, s: &SPDC, n: usize) -> (&'static str, FrequencySpace) {
  let o = raw(&s.optimum_range(n));
  let c = 0.25 * (o.0 + o.1 + o.3 + o.4);
  let h = 0.5 * (o.1 - o.0).abs().max((o.4 - o.3).abs()) * r.range(0.6, 1.4);
  let h2 = h * *r.pick(&[0.5, 0.75, 0.9, 0.999, 1.001, 1.25, 2.0]);
  match r.below(10) {
    0 => ("shared-start", fspace(c - h, c + h, n, c - h, c + h2, n)),
    1 => ("shared-end", fspace(c - h, c + h, n, c - h2, c + h, n)),
    2 => ("shared-start-descending", fspace(c + h, c - h, n, c + h, c - h2, n)),
    3 => ("shared-end-descending", fspace(c + h, c - h, n, c + h2, c - h, n)),
    4 => ("same-ends-different-counts", fspace(c - h, c + h, n, c - h, c + h, n + r.between(1, 2))),
    5 => ("opposite-order", fspace(c - h, c + h, n, c + h, c - h, n)),
    6 => {
      let step = if n > 1 { 2.0 * h / ((n - 1) as f64) } else { h };
      ("shifted-one-step", fspace(c - h, c + h, n, c - h + step, c + h + step, n))
    }
    7 => ("unrelated", fspace(c - h * r.range(0.3, 1.5), c + h * r.range(0.3, 1.5), n, c - h * r.range(0.3, 1.5), c + h * r.range(0.3, 1.5), n)),
    8 => ("shared-start-only-signal-wider", fspace(c - h, c + h2, n, c - h, c + h, n)),
    _ => {
      let w = r.below(3);
      above_pump_window(r, s, n, w)
    }
  }
}

/// a window whose axes (both, the signal's or the idler's only) end above the pump frequency, with a step chosen so
/// that grid points still lie on ω_s + ω_i = ω_p (a generous window around a source; nothing can be emitted above ω_p)
fn above_pump_window(r: &mut Rng, s: &SPDC, n: usize, which: usize) -> (&'static str, FrequencySpace) {
  let wp = *(s.pump.frequency() / (RAD / S));
  let cx = *(s.signal.frequency() / (RAD / S));
  let cy = wp - cx;
  if n < 4 {
    let top = wp * (1.0 + r.log_range(1e-6, 0.2));
    return ("above-pump/coarse", fspace(cx.min(cy) * 0.9, top, n, cx.min(cy) * 0.9, top, n));
  }
  // p points below the centre, the last point at ω_p (1 + ε)
  let p = r.between(1, (n - 2) / 2);
  let eps = match r.below(4) {
    0 => 0.0,
    1 => r.log_range(1e-12, 1e-6),
    _ => r.log_range(1e-4, 0.3),
  };
  let hi = cx.max(cy);
  let step = (wp * (1.0 + eps) - hi) / ((n - 1 - p) as f64);
  let (ax, ay) = (cx - (p as f64) * step, cy - (p as f64) * step);
  let (bx, by) = (ax + ((n - 1) as f64) * step, ay + ((n - 1) as f64) * step);
  let o = raw(&s.optimum_range(n));
  let tag = if eps == 0.0 { "above-pump/ends-at-pump" } else { "above-pump" };
  match which {
    0 => (tag, fspace(ax, bx, n, ay, by, n)),
    1 => (tag, fspace(ax, bx, n, o.3, o.4, n)),
    _ => {
      if r.coin() {
        (tag, fspace(o.0, o.1, n, ay, by, n))
      } else {
        // descending axes starting above the pump
        (tag, fspace(bx, ax, n, by, ay, n))
      }
    }
  }
}

fn swapped_of(sp: &JointSpectrum, fs: FrequencySpace) -> Vec<C> {
  fs.as_steps().into_iter().map(|(ws, wi)| sp.jsa(wi, ws)).collect()
}

/// every integrator variant the API offers, with a few parameter choices each.
/// GaussKonrod panics on (nearly) constant integrands after ≈ 2 s per evaluation (finding D40 of C12),
/// so it is only offered when `with_gk` is set and callers guard it.
pub fn integrator_zoo(r: &mut Rng, with_gk: bool) -> Vec<(String, Integrator)> {
  let mut v: Vec<Integrator> = vec![
    Integrator::Simpson { divs: 50 },
    Integrator::Simpson { divs: 6 },
    Integrator::GaussLegendre { degree: 40 },
    Integrator::GaussLegendre { degree: 4 },
    Integrator::Simpson { divs: *r.pick(&[10usize, 20, 30, 100]) },
    Integrator::GaussLegendre { degree: *r.pick(&[2usize, 7, 10, 20]) },
    // adaptive rules: loose tolerances / shallow depths only — tight ones cost minutes per spectrum on long crystals
    Integrator::AdaptiveSimpson { tolerance: *r.pick(&[1e-1, 1e-2, 1e-3]), max_depth: *r.pick(&[3usize, 5, 7]) },
    Integrator::ClenshawCurtis { tolerance: *r.pick(&[1e-1, 1e-2, 1e-3]) },
  ];
  if with_gk {
    v.push(Integrator::GaussKonrod { tolerance: 1e-3, max_depth: 1000 });
  }
  v.into_iter().map(|i| (format!("{:?}", i).replace(' ', ""), i)).collect()
}

/// C09 — setup-level calls as a function of their arguments only: sequences of calls on one setup and
/// grid with different integrators back to back, two setups alternating on one grid, one setup on two
/// grids; every call is compared with the array-level function fed with amplitudes the harness samples
/// itself through `JointSpectrum::jsa_range` / `jsa` with that call's integrator.
fn history_part(ctx: &mut Ctx) {
  let rounds = ctx.n;
  for round in 0..rounds {
    let st = [gen_setup_x(&mut ctx.rng, Some(true)), gen_setup_x(&mut ctx.rng, Some(true))];
    let n = *ctx.rng.pick(if ctx.thorough { &[3usize, 4, 6, 8][..] } else { &[3usize, 4, 5][..] });
    let grids = [symmetric_range(&mut ctx.rng, &st[0].spdc, n), symmetric_range(&mut ctx.rng, &st[0].spdc, n)];
    let zoo = integrator_zoo(&mut ctx.rng, false);
    // script of (setup, grid, integrator) triples
    let mut script: Vec<(usize, usize, usize)> = vec![];
    // 1. one setup, one grid, integrators back to back (fixed order first, then shuffled, with repeats)
    for k in 0..zoo.len() {
      script.push((0, 0, k));
    }
    for _ in 0..zoo.len() {
      script.push((0, 0, ctx.rng.below(zoo.len())));
    }
    // 2. two setups alternating on the same grid
    for _ in 0..4 {
      script.push((ctx.rng.below(2), 0, ctx.rng.below(4)));
    }
    // 3. the same setup on two grids
    for _ in 0..4 {
      script.push((0, ctx.rng.below(2), ctx.rng.below(4)));
    }
    // 4. anything
    for _ in 0..4 {
      script.push((ctx.rng.below(2), ctx.rng.below(2), ctx.rng.below(zoo.len())));
    }
    let mut sampled: std::collections::BTreeMap<(usize, usize, usize), (Vec<C>, Vec<C>)> = Default::default();
    let mut first_series: std::collections::BTreeMap<(usize, usize, usize), Vec<f64>> = Default::default();
    let mut first_vis: std::collections::BTreeMap<(usize, usize, usize), f64> = Default::default();
    let mut prev = "none".to_string();
    for (pos, &(si, gi, ii)) in script.iter().enumerate() {
      let spdc = st[si].spdc.clone();
      let fs = grids[gi];
      let (iname, integ) = (&zoo[ii].0, zoo[ii].1);
      let key = (si, gi, ii);
      if !sampled.contains_key(&key) {
        let sp = spdc.joint_spectrum(integ);
        sampled.insert(key, (sp.jsa_range(fs), swapped_of(&sp, fs)));
      }
      let (f, g) = sampled.get(&key).unwrap().clone();
      let t_dip = *(spdcalc::hom_time_delay(&spdc) / S);
      let (ax, bx, _, _, _, _) = raw(&fs);
      let delays = vec![0.0, t_dip, t_dip + 2.0 / (bx - ax).abs()];
      let times: Vec<Time> = delays.iter().map(|t| *t * S).collect();
      let here = format!("setup#{}/grid#{}/{}", si, gi, iname);
      let det = format!(
        "round={} pos={} call={} previous_call={} setup={} n={} {} seedcase={}",
        round, pos, here, prev, st[si].name, n, grid_txt(&fs), ctx.seed
      );
      ctx.count(&format!("history/{}", iname.split('{').next().unwrap_or("?")));
      let use_vis = ctx.rng.below(3) == 0;
      if use_vis {
        let sp3 = spdc.clone();
        let vis = guard(move || sp3.hom_visibility(fs, integ));
        let r = guard(|| hom_rate(fs, &f, &g, t_dip * S, None));
        match (vis, r) {
          (Some((t, v)), Some(r)) => {
            ctx.k("hom_vis", &format!("{} {} {} {}", grid_str(&fs), fl(*(t / S)), cxs(&f), cxs(&g)), &fl(v));
            let ok = close((0.5 - r) / 0.5, v, 1e-12, 1e-13) || (r.is_nan() && v.is_nan());
            ctx.s("C09.wrapper", ok, "hom/setup-visibility-eq-array/sequence", &format!("{} visibility={:e} array_level={:e}", det, v, (0.5 - r) / 0.5));
            if let Some(v0) = first_vis.get(&key) {
              ctx.s("C09.wrapper", close(*v0, v, 1e-12, 1e-13) || (v0.is_nan() && v.is_nan()), "hom/setup-call-history-independent", &format!("{} first={:e} now={:e}", det, v0, v));
            } else {
              first_vis.insert(key, v);
            }
          }
          _ => ctx.s("C09.wrapper", false, "hom/setup-visibility-panic", &det),
        }
      } else {
        let sp2 = spdc.clone();
        let tt = times.clone();
        let ser = guard(move || sp2.hom_rate_series(tt, fs, integ));
        ctx.k("hom_rate_series", &format!("{} {} {} {} {}", grid_str(&fs), delays.len(), fls(&delays), cxs(&f), cxs(&g)), &out_fls(&ser));
        let arr = guard(|| hom_rate_series(fs, &f, &g, times.clone()));
        let same = |a: &Vec<f64>, b: &Vec<f64>| a.len() == b.len() && a.iter().zip(b.iter()).all(|(x, y)| close(*x, *y, 1e-12, 1e-13) || (x.is_nan() && y.is_nan()));
        match (&ser, &arr) {
          (Some(a), Some(b)) => {
            ctx.s("C09.wrapper", same(a, b), "hom/setup-series-eq-array/sequence", &format!("{} series={:?} array_level={:?}", det, a, b));
            if let Some(a0) = first_series.get(&key) {
              ctx.s("C09.wrapper", same(a0, a), "hom/setup-call-history-independent", &format!("{} first={:?} now={:?}", det, a0, a));
            } else {
              first_series.insert(key, a.clone());
            }
          }
          _ => ctx.s("C09.wrapper", false, "hom/setup-series-panic", &det),
        }
      }
      prev = here;
    }
  }
}

fn setup_part(ctx: &mut Ctx) {
  let sides: &[usize] = if ctx.thorough { &[1, 2, 3, 5, 8, 13, 16, 24] } else { &[1, 2, 4, 6, 8] };
  for c in 0..ctx.n {
    let st = if c % 3 == 0 { gen_setup(&mut ctx.rng, Some(true)) } else { gen_setup_x(&mut ctx.rng, Some(true)) };
    let n = *ctx.rng.pick(sides);
    let spdc = st.spdc.clone();
    let integ = Integrator::default();
    let sp = spdc.joint_spectrum(integ);
    // identical axes (the statement's grids); every third case uses the setup's own optimum range
    let fs0 = if c % 3 == 2 { spdc.optimum_range(n) } else { symmetric_range(&mut ctx.rng, &spdc, n) };
    // one case in three: axes that are related without being identical (shared edges, opposite order, …)
    let (wk, fs0) = if c % 3 == 1 && n >= 2 { window_variant(&mut ctx.rng, &spdc, n) } else { (if c % 3 == 2 { "optimum" } else { "identical" }, fs0) };
    ctx.count(&format!("setup/window/{}", wk));
    // the range is handed over as each of the accepted argument types in turn; the reference grid is the
    // signal × idler frequency grid that argument converts to
    let arg = RangeArg::pick(if c % 2 == 0 { 0 } else { c / 2 }, fs0);
    let fs = arg.frequency_space();
    ctx.count(&format!("setup/range-arg/{}", arg.name()));
    let (ax, bx, _, ay, by, _) = raw(&fs);
    let identical = ax == ay && bx == by && raw(&fs).2 == raw(&fs).5;
    ctx.count(&format!("setup/{}", st.name.split(',').next().unwrap_or("?")));
    ctx.count(if identical { "setup/identical-axes" } else { "setup/optimum-range" });
    let f = sp.jsa_range(fs);
    let g = swapped_of(&sp, fs);
    let gs = grid_str(&fs);
    let gt = grid_txt(&fs);
    let span = (bx - ax).abs();
    let norm = own_norm(&f);
    ctx.k("jsi_norm", &cxs(&f), &fl(jsi_norm(&f)));
    if identical && f.len() == n * n {
      // the exchanged-argument array on identical axes is the array read at exchanged positions
      ctx.k("swap_arr", &format!("{} {}", n, cxs(&f)), &fls(&g.iter().flat_map(|z| [z.re, z.im]).collect::<Vec<_>>()));
    }
    let t_dip = *(spdcalc::hom_time_delay(&spdc) / S);
    let mut delays = vec![0.0, t_dip, t_dip + gen_delay(&mut ctx.rng, span), gen_delay(&mut ctx.rng, span)];
    let mut list = "dip-zero-random";
    if c % 2 == 1 {
      // a scan of the dip as a user would set it up (see `structured_delays`)
      let unit = if span > 0.0 { ctx.rng.log_range(0.3, 10.0) / span } else { 1e-12 };
      let (lname, v) = structured_delays(&mut ctx.rng, t_dip, unit);
      list = lname;
      delays = v;
    }
    ctx.count(&format!("setup/list/{}", list));
    let times: Vec<Time> = delays.iter().map(|t| *t * S).collect();
    let sp2 = spdc.clone();
    let tt = times.clone();
    let ser = guard(move || with_range!(arg, r => sp2.hom_rate_series(tt, r, integ)));
    // K: setup-level call vs the array-level model fed with the implementation's own jsa arrays
    ctx.k(
      "hom_rate_series",
      &format!("{} {} {} {} {}", gs, delays.len(), fls(&delays), cxs(&f), cxs(&g)),
      &out_fls(&ser),
    );
    // S: setup-level = array-level function fed with the sampled amplitudes and their exchanged counterpart
    let arr = guard(|| hom_rate_series(fs, &f, &g, times.clone()));
    let okw = match (&ser, &arr) {
      (Some(a), Some(b)) => a.len() == b.len() && a.iter().zip(b.iter()).all(|(x, y)| close(*x, *y, 1e-12, 1e-13) || (x.is_nan() && y.is_nan())),
      _ => false,
    };
    let det = format!("setup={} range_arg={} window={} list={} n={} {} delays={:?}", st.name, arg.name(), wk, list, n, gt, delays).replace(", ", ",");
    ctx.s("C09.wrapper", okw, "hom/setup-series-eq-array", &det);
    // S: every entry of the setup-level series is the individually computed rate at that delay
    if norm > 0.0 {
      let singles: Vec<Option<f64>> = delays.iter().map(|t| guard(|| hom_rate(fs, &f, &g, *t * S, None))).collect();
      let oks = match &ser {
        Some(a) => a.len() == singles.len() && a.iter().zip(singles.iter()).all(|(x, y)| matches!(y, Some(y) if close(*x, *y, 1e-12, 1e-13) || (x.is_nan() && y.is_nan()))),
        None => false,
      };
      ctx.s("C09.series", oks, "hom/setup-series-eq-individual", &format!("{} series={:?} individual={:?}", det, ser, singles).replace(", ", ","));
    }
    // visibility wrapper
    let sp3 = spdc.clone();
    let vis = guard(move || with_range!(arg, r => sp3.hom_visibility(r, integ)));
    let (vt, vv) = match vis {
      Some((t, v)) => (Some(*(t / S)), Some(v)),
      None => (None, None),
    };
    if let Some(t) = vt {
      ctx.k("hom_vis", &format!("{} {} {} {}", gs, fl(t), cxs(&f), cxs(&g)), &out_fl(vv));
      let r = guard(|| hom_rate(fs, &f, &g, t * S, None));
      let okv = match (r, vv) {
        (Some(r), Some(v)) => close((0.5 - r) / 0.5, v, 1e-12, 1e-13) || (r.is_nan() && v.is_nan()),
        _ => false,
      };
      ctx.s("C09.wrapper", okv && t == t_dip, "hom/setup-visibility-eq-array", &det);
    } else {
      ctx.s("C09.wrapper", false, "hom/setup-visibility-panic", &det);
    }
    // S: bounds on grids with identical axes, non-zero spectrum
    if identical && norm > 0.0 {
      if let Some(v) = &ser {
        for (x, tau) in v.iter().zip(delays.iter()) {
          let ok = *x >= -EDGE && *x <= 1.0 + EDGE;
          ctx.s("C09.bounds", ok, "hom/setup-rate-in-unit", &format!("{} tau={:e} rate={:e}", det, tau, x));
        }
      }
      if let Some(v) = vv {
        ctx.s("C09.bounds", v >= -1.0 - 2.0 * EDGE && v <= 1.0 + 2.0 * EDGE, "hom/setup-visibility-in-unit", &format!("{} vis={:e}", det, v));
      }
    }
  }
}

// ------------------------------------------------------------------------------------------------
// two-source HOM (C10)
// ------------------------------------------------------------------------------------------------

fn axis_pair(fs: &FrequencySpace) -> ((Frequency, Frequency, usize), (Frequency, Frequency, usize)) {
  let s = fs.steps();
  (s.0, s.1)
}

/// the eight grids, re-evaluated through the public `jsa_range`, in the model's field order
fn eight(js1: &JointSpectrum, js2: &JointSpectrum, r1: &FrequencySpace, r2: &FrequencySpace) -> Vec<Vec<C>> {
  let (ls1, li1) = axis_pair(r1);
  let (ls2, li2) = axis_pair(r2);
  let get = |s: &JointSpectrum, x, y| s.jsa_range(FrequencySpace::new(x, y));
  vec![
    get(js1, ls1, li1),
    get(js2, ls2, li2),
    get(js1, ls2, li1),
    get(js2, ls1, li2),
    get(js1, ls1, li2),
    get(js2, ls2, li1),
    get(js1, li2, li1),
    get(js2, ls2, ls1),
  ]
}

fn eight_str(e: &[Vec<C>]) -> String {
  e.iter().map(|v| cxs(v)).collect::<Vec<_>>().join(" ")
}

/// Σσ⁴/(Σσ²)² of the complex matrix (nalgebra SVD)
fn purity(f: &[C], n: usize) -> Option<f64> {
  let m = nalgebra::DMatrix::<C>::from_row_slice(n, n, f);
  let svd = m.try_svd(false, false, f64::EPSILON, 100_000)?;
  let s2: f64 = svd.singular_values.iter().map(|s| s * s).sum();
  let s4: f64 = svd.singular_values.iter().map(|s| s * s * s * s).sum();
  Some(s4 / (s2 * s2))
}

/// ranges for the two-source case: (kind, FrequencySpace)
fn two_range(r: &mut Rng, s: &SPDC, n: usize) -> (&'static str, FrequencySpace) {
  let o = raw(&s.optimum_range(n));
  let cx = 0.5 * (o.0 + o.1);
  let cy = 0.5 * (o.3 + o.4);
  let hx = 0.5 * (o.1 - o.0).abs();
  let hy = 0.5 * (o.4 - o.3).abs();
  match r.below(8) {
    6 => {
      // both axes start at the same frequency and end differently (or the other way round)
      let c = 0.5 * (cx + cy);
      let h = hx.max(hy) * r.range(0.5, 1.3);
      let h2 = h * *r.pick(&[0.5, 0.75, 0.999, 1.25, 2.0]);
      if r.coin() {
        ("shared-start", fspace(c - h, c + h, n, c - h, c + h2, n))
      } else {
        ("shared-end", fspace(c - h, c + h, n, c - h2, c + h, n))
      }
    }
    7 => {
      let w = r.below(3);
      above_pump_window(r, s, n, w)
    }
    0 => ("optimum", s.optimum_range(n)),
    1 => {
      // identical axes
      let c = 0.5 * (cx + cy);
      let h = hx.max(hy) * r.range(0.5, 1.3);
      ("identical-axes", fspace(c - h, c + h, n, c - h, c + h, n))
    }
    2 => {
      // unequal widths
      let fx = r.range(0.3, 1.5);
      let fy = r.range(0.3, 1.5);
      ("unequal-widths", fspace(cx - fx * hx, cx + fx * hx, n, cy - fy * hy, cy + fy * hy, n))
    }
    3 => {
      // axes displaced in opposite directions along the energy-conserving line
      let d = r.range(0.2, 2.0) * hx;
      ("offset-anti", fspace(cx + d - hx, cx + d + hx, n, cy - d - hy, cy - d + hy, n))
    }
    4 => {
      // axes displaced in the same direction
      let d = r.range(-1.0, 1.0) * hx;
      ("offset-same", fspace(cx + d - hx, cx + d + hx, n, cy + d - hy, cy + d + hy, n))
    }
    _ => {
      // narrow axes far apart: the signal×idler grid sits on the wings
      let d = r.range(1.0, 4.0) * hx;
      let w = r.range(0.1, 0.5);
      ("narrow-far", fspace(cx + d - w * hx, cx + d + w * hx, n, cy - d - w * hy, cy - d + w * hy, n))
    }
  }
}

// ------------------------------------------------------------------------------------------------
// every public way a `HomTwoSourceResult<T>` leaves the crate: the struct fields, `HashMap::from(result)`
// (channels by name), the way back `HomTwoSourceResult::from(map)`, and the derived serde representation
// (a map with the field names as keys) and its `Deserialize`.  The statement's predicates are evaluated on
// the channel values read through each of them.
// ------------------------------------------------------------------------------------------------
type TwoRes<T> = spdcalc::HomTwoSourceResult<T>;

/// a channel value flattened to floats (`(Time, f64)` → `[seconds, value]`), plus the serde routes on the concrete type
trait Chan: Clone + Default {
  fn flat(&self) -> Vec<f64>;
  fn unflat(v: &[f64]) -> Self;
  fn to_json(r: &TwoRes<Self>) -> Option<serde_json::Value>;
  fn from_json(v: serde_json::Value) -> Result<TwoRes<Self>, String>;
}
impl Chan for Vec<f64> {
  fn flat(&self) -> Vec<f64> {
    self.clone()
  }
  fn unflat(v: &[f64]) -> Self {
    v.to_vec()
  }
  fn to_json(r: &TwoRes<Self>) -> Option<serde_json::Value> {
    serde_json::to_value(r).ok()
  }
  fn from_json(v: serde_json::Value) -> Result<TwoRes<Self>, String> {
    // from a `Value`, not from text: serde_json's text parser is not exactly rounded without `float_roundtrip`
    serde_json::from_value(v).map_err(|e| e.to_string())
  }
}
impl Chan for (Time, f64) {
  fn flat(&self) -> Vec<f64> {
    vec![*(self.0 / S), self.1]
  }
  fn unflat(v: &[f64]) -> Self {
    (v.first().copied().unwrap_or(0.0) * S, v.get(1).copied().unwrap_or(0.0))
  }
  fn to_json(r: &TwoRes<Self>) -> Option<serde_json::Value> {
    serde_json::to_value(r).ok()
  }
  fn from_json(v: serde_json::Value) -> Result<TwoRes<Self>, String> {
    // from a `Value`, not from text: serde_json's text parser is not exactly rounded without `float_roundtrip`
    serde_json::from_value(v).map_err(|e| e.to_string())
  }
}

/// numbers of a JSON value in document order (`null` = a non-finite float)
fn json_numbers(v: &serde_json::Value, out: &mut Vec<f64>) {
  match v {
    serde_json::Value::Number(x) => out.push(x.as_f64().unwrap_or(f64::NAN)),
    serde_json::Value::Null => out.push(f64::NAN),
    serde_json::Value::Array(a) => a.iter().for_each(|x| json_numbers(x, out)),
    serde_json::Value::Object(m) => m.values().for_each(|x| json_numbers(x, out)),
    _ => out.push(f64::NAN),
  }
}

/// a by-name view as sorted `(name, flattened value)` entries
type Named = Vec<(String, Vec<f64>)>;

fn named_str(m: &Named) -> String {
  let mut s = format!("{}", m.len());
  for (k, v) in m.iter() {
    s.push_str(&format!(" {} {}", k, count_fls(v)));
  }
  s
}
fn count_fls(v: &[f64]) -> String {
  if v.is_empty() {
    "0".into()
  } else {
    format!("{} {}", v.len(), fls(v))
  }
}
fn three_str(t: &[Vec<f64>; 3]) -> String {
  format!("{} {} {}", count_fls(&t[0]), count_fls(&t[1]), count_fls(&t[2]))
}
fn same_bits(a: &[Vec<f64>; 3], b: &[Vec<f64>; 3]) -> bool {
  (0..3).all(|c| a[c].len() == b[c].len() && a[c].iter().zip(b[c].iter()).all(|(x, y)| x.to_bits() == y.to_bits()))
}
fn lookup3(m: &Named) -> Option<[Vec<f64>; 3]> {
  let get = |k: &str| m.iter().find(|e| e.0 == k).map(|e| e.1.clone());
  if m.len() != 3 {
    return None;
  }
  Some([get("ss")?, get("ii")?, get("si")?])
}

/// `[ss, ii, si]` (flattened) as read through every route; `None` = the route does not deliver the three channels.
/// Emits the K lines of the conversions (model: `TwoRes.toNamed` / `ofNamed` / `ofNamedStrict`).
fn views<T: Chan>(ctx: &mut Ctx, r: &TwoRes<T>) -> Vec<(&'static str, Option<[Vec<f64>; 3]>)> {
  use std::collections::HashMap;
  let fields = [r.ss.flat(), r.ii.flat(), r.si.flat()];
  let mut out: Vec<(&'static str, Option<[Vec<f64>; 3]>)> = vec![("fields", Some(fields.clone()))];
  // struct -> HashMap<String, T>
  let rc = r.clone();
  let map: Option<HashMap<String, T>> = guard(move || HashMap::from(rc));
  let named: Option<Named> = map.as_ref().map(|m| {
    let mut v: Named = m.iter().map(|(k, x)| (k.clone(), x.flat())).collect();
    v.sort_by(|a, b| a.0.cmp(&b.0));
    v
  });
  ctx.k("hom2_named", &format!("into-hashmap {}", three_str(&fields)), &named.as_ref().map(named_str).unwrap_or("PANIC".into()));
  out.push(("into-hashmap", named.as_ref().and_then(lookup3)));
  // ... and back
  let back: Option<TwoRes<T>> = map.and_then(|m| guard(move || TwoRes::<T>::from(m)));
  out.push(("hashmap-roundtrip", back.map(|b| [b.ss.flat(), b.ii.flat(), b.si.flat()])));
  // serde: the struct as a JSON map (serde_json keeps f64 exactly; non-finite values become null)
  let finite = fields.iter().all(|c| c.iter().all(|x| x.is_finite()));
  let js = T::to_json(r);
  let jnamed: Option<Named> = js.as_ref().and_then(|v| v.as_object()).map(|o| {
    let mut v: Named = o
      .iter()
      .map(|(k, x)| {
        let mut f = vec![];
        json_numbers(x, &mut f);
        (k.clone(), f)
      })
      .collect();
    v.sort_by(|a, b| a.0.cmp(&b.0));
    v
  });
  if finite {
    ctx.k("hom2_named", &format!("serde-json {}", three_str(&fields)), &jnamed.as_ref().map(named_str).unwrap_or("ERR:not-a-map".into()));
  }
  out.push(("serde-json", jnamed.as_ref().and_then(lookup3)));
  if finite {
    // serde_json's map is key-ordered (ii, si, ss): not the declaration order of the fields
    let back = js.and_then(|v| T::from_json(v).ok());
    out.push(("serde-roundtrip", back.map(|b| [b.ss.flat(), b.ii.flat(), b.si.flat()])));
  }
  out
}

/// `HomTwoSourceResult::from(map)` and serde `Deserialize` on complete, partial, permuted and over-complete maps
/// built from the channel values of a real result (K only: model `TwoRes.ofNamed` / `ofNamedStrict`)
fn unnamed_cases<T: Chan>(ctx: &mut Ctx, r: &TwoRes<T>) {
  use std::collections::HashMap;
  let fields = [("ss", r.ss.flat()), ("ii", r.ii.flat()), ("si", r.si.flat())];
  if !fields.iter().all(|c| c.1.iter().all(|x| x.is_finite())) {
    return;
  }
  let dflt = T::default().flat();
  for variant in 0..4 {
    let mut entries: Named = fields.iter().map(|(k, v)| (k.to_string(), v.clone())).collect();
    // random order of insertion / of the JSON document
    for i in (1..entries.len()).rev() {
      let j = ctx.rng.below(i + 1);
      entries.swap(i, j);
    }
    let tag = match variant {
      0 => "complete",
      1 => {
        let drop = ctx.rng.below(entries.len());
        entries.remove(drop);
        "one-missing"
      }
      2 => {
        let keep = ctx.rng.below(entries.len());
        entries = vec![entries[keep].clone()];
        "one-only"
      }
      _ => {
        // keys that are not channels: the crossed name, another case, a longer name
        let v = entries[ctx.rng.below(3)].1.clone();
        let at = ctx.rng.below(entries.len() + 1);
        entries.insert(at, (ctx.rng.pick(&["is", "SS", "ssi", "s", "i_i", "idler-idler"]).to_string(), v));
        "extra-key"
      }
    };
    ctx.count(&format!("two/unnamed/{}", tag));
    let body = format!("{} {}", count_fls(&dflt), named_str(&entries));
    let m: HashMap<String, T> = entries.iter().map(|(k, v)| (k.clone(), T::unflat(v))).collect();
    let res = guard(move || TwoRes::<T>::from(m));
    ctx.k(
      "hom2_unnamed",
      &format!("default {}", body),
      &res.map(|b| three_str(&[b.ss.flat(), b.ii.flat(), b.si.flat()])).unwrap_or("PANIC".into()),
    );
    // serde `Deserialize` from a JSON map with these entries (every field required, unknown keys ignored)
    let chan_json = |v: &[f64]| -> Option<serde_json::Value> {
      let probe = TwoRes { ss: T::unflat(v), ii: T::default(), si: T::default() };
      T::to_json(&probe).and_then(|j| j.get("ss").cloned())
    };
    let parts: Option<serde_json::Map<String, serde_json::Value>> = entries.iter().map(|(k, v)| chan_json(v).map(|j| (k.clone(), j))).collect();
    if let Some(parts) = parts {
      let got = match guard(move || T::from_json(serde_json::Value::Object(parts))) {
        Some(Ok(b)) => three_str(&[b.ss.flat(), b.ii.flat(), b.si.flat()]),
        Some(Err(e)) => match e.find("missing field `") {
          Some(at) => format!("ERR:missing-field-{}", e[at + 15..].split('`').next().unwrap_or("?")),
          None => format!("ERR:{}", e.replace(' ', "-")),
        },
        None => "PANIC".into(),
      };
      ctx.k("hom2_unnamed", &format!("strict {}", body), &got);
    }
  }
}

/// the statement's zero-delay identities on the visibilities `[seconds, V]` of the three channels as read through
/// one view of the result of the real code
fn vis_preds(ctx: &mut Ctx, view: &str, t: &Option<[Vec<f64>; 3]>, pur: Option<f64>, det: &str, zero_delays: bool) {
  let det = format!("{} view={}", det, view);
  ctx.count(&format!("two/view/{}", view));
  let t = match t {
    Some(t) if t.iter().all(|c| c.len() == 2) => t,
    _ => {
      ctx.s("C10.purity", false, "hom2/view-without-three-channels", &det);
      return;
    }
  };
  let (vss, vii) = (t[0][1], t[1][1]);
  ctx.s("C10.purity", (vss - vii).abs() <= 1e-9, "hom2/vss-eq-vii", &format!("{} vss={:e} vii={:e}", det, vss, vii));
  if let Some(p) = pur {
    ctx.s("C10.purity", (vss - p).abs() <= 1e-9, "hom2/vss-eq-purity", &format!("{} vss={:e} purity={:e}", det, vss, p));
    ctx.s("C10.purity", (vii - p).abs() <= 1e-9, "hom2/vii-eq-purity", &format!("{} vii={:e} purity={:e}", det, vii, p));
  }
  if zero_delays {
    ctx.s("C10.purity", t[0][0] == 0.0 && t[1][0] == 0.0 && t[2][0] == 0.0, "hom2/identical-zero-delay", &det);
  }
}

/// the zero entry of a rate series read through one view: `(½ − rate)/½` of ss and ii equal the purity
fn series_zero_pred(ctx: &mut Ctx, view: &str, t: &[Vec<f64>; 3], zero_at: usize, p: f64, det: &str) {
  let vss = (0.5 - t[0][zero_at]) / 0.5;
  let vii = (0.5 - t[1][zero_at]) / 0.5;
  ctx.s(
    "C10.purity",
    (vss - p).abs() <= 1e-9 && (vii - p).abs() <= 1e-9 && (vss - vii).abs() <= 1e-9,
    "hom2/series-zero-delay-eq-purity",
    &format!("{} view={} zero_at={} vss={:e} vii={:e} purity={:e}", det, view, zero_at, vss, vii, p),
  );
}

fn two_part(ctx: &mut Ctx) {
  let sides: &[usize] = if ctx.thorough { &[4, 5, 8, 12, 16, 24] } else { &[4, 5, 6, 8] };
  for c in 0..ctx.n {
    // the caller's integrator: default in one case of three, otherwise another fixed-step rule
    let integ = match c % 3 {
      0 => Integrator::default(),
      1 => *ctx.rng.pick(&[Integrator::Simpson { divs: 200 }, Integrator::Simpson { divs: 10 }, Integrator::Simpson { divs: 100 }]),
      _ => *ctx.rng.pick(&[Integrator::GaussLegendre { degree: 40 }, Integrator::GaussLegendre { degree: 6 }, Integrator::GaussLegendre { degree: 16 }]),
    };
    ctx.count(&format!("two/integrator/{}", format!("{:?}", integ).split(' ').next().unwrap_or("?")));
    let st1 = if c % 3 == 0 { gen_setup(&mut ctx.rng, None) } else { gen_setup_x(&mut ctx.rng, None) };
    let n = *ctx.rng.pick(sides);
    let s1 = st1.spdc.clone();
    let js1 = s1.joint_spectrum(integ);
    let (rk, r1) = two_range(&mut ctx.rng, &s1, n);
    // handed to the SPDC-level methods as each accepted argument type in turn
    let arg1 = RangeArg::pick(if c % 2 == 0 { 0 } else { c / 2 }, r1);
    let r1 = arg1.frequency_space();
    ctx.count(&format!("two/range-arg/{}", arg1.name()));
    let (ax, bx, _, ay, by, _) = raw(&r1);
    let span = (bx - ax).abs().max((by - ay).abs());
    let t = ctx.rng.log_range(0.05, 20.0) / span.max(1.0);
    // non-uniform, unsorted delay list with the zero entry in any position
    let mut delays = vec![0.0, t, -t, gen_delay(&mut ctx.rng, span)];
    if ctx.rng.coin() {
      delays.push(ctx.rng.range(-3.0, 3.0) * t);
    }
    for i in (1..delays.len()).rev() {
      let j = ctx.rng.below(i + 1);
      delays.swap(i, j);
    }
    if c % 3 == 2 && n <= 12 {
      // a scan around zero delay with structure (coarse wings / fine centre, even steps, repeated values, …);
      // zero is added where the list does not contain it
      let (_, mut v) = structured_delays(&mut ctx.rng, 0.0, t);
      v.truncate(7);
      if !v.iter().any(|x| *x == 0.0) {
        let at = ctx.rng.below(v.len() + 1);
        v.insert(at, 0.0);
      }
      delays = v;
      ctx.count("two/structured-delay-list");
    }
    let zero_at = delays.iter().position(|x| *x == 0.0).unwrap_or(0);
    ctx.count(&format!("two/zero-delay-at={}", if zero_at == 0 { "first" } else if zero_at + 1 == delays.len() { "last" } else { "middle" }));
    let times: Vec<Time> = delays.iter().map(|x| *x * S).collect();
    ctx.count(&format!("two/range={}", rk));
    ctx.count(&format!("two/{}", st1.name.split(',').next().unwrap_or("?")));

    // ---- identical sources on one range (SPDC-level wrappers)
    {
      let e = eight(&js1, &js1, &r1, &r1);
      let es = eight_str(&e);
      let gs = grid_str(&r1);
      let sp = s1.clone();
      let tt = times.clone();
      let res = guard(move || with_range!(arg1, r => sp.hom_two_source_rate_series(tt, r, integ)));
      let out = res.as_ref().map(|r| fls(&[r.ss.clone(), r.ii.clone(), r.si.clone()].concat())).unwrap_or("PANIC".into());
      ctx.k("hom2", &format!("{} {} {} {} {}", gs, gs, delays.len(), fls(&delays), es), &out);
      let sp = s1.clone();
      let vis = guard(move || with_range!(arg1, r => sp.hom_two_source_visibilities(r, integ)));
      let det = format!("setup={} range_arg={} integrator={} n={} range={} {}", st1.name, arg1.name(), format!("{:?}", integ).replace(' ', ""), n, rk, grid_txt(&r1));
      if let Some(v) = &vis {
        let z = fl(0.0);
        ctx.k(
          "hom2_vis",
          &format!("1 {} {} {} {} {} {}", gs, gs, z, z, z, es),
          &fls(&[v.ss.1, v.ii.1, v.si.1]),
        );
        let norm = own_norm(&e[0]);
        // S: V_ss = V_ii = purity (1e-9), zero delays — on the struct fields and on every by-name / serde view
        let vw = views(ctx, v);
        unnamed_cases(ctx, v);
        if norm > 0.0 {
          let pur = purity(&e[0], n);
          if pur.is_none() {
            ctx.count("two/svd-no-convergence");
          }
          for (view, t) in vw.iter() {
            vis_preds(ctx, view, t, pur, &det, true);
          }
        }
      } else {
        ctx.s("C10.purity", false, "hom2/visibilities-panic", &det);
      }
      // "two identical sources" through the free function: the same reference, an equal but distinct object
      // (clone), and a second build of the same config
      let mut routes: Vec<(&str, SPDC)> = vec![("same-reference", s1.clone()), ("clone", s1.clone())];
      if let Some(js) = &st1.json {
        if let Ok(b) = SPDC::from_json(js.clone()) {
          if b == s1 {
            routes.push(("second-build", b));
          } else {
            ctx.count("two/second-build-not-equal");
          }
        }
      }
      if own_norm(&e[0]) > 0.0 {
        let pur = purity(&e[0], n);
        for (route, other) in routes.iter() {
          let a = s1.clone();
          let v = if *route == "same-reference" {
            guard(move || hom_two_source_visibilities(&a, &a, r1, r1, integ))
          } else {
            let b = other.clone();
            guard(move || hom_two_source_visibilities(&a, &b, r1, r1, integ))
          };
          ctx.count(&format!("two/identical-route/{}", route));
          let detr = format!("{} route={} signal_waist_position_um={:e} idler_waist_position_um={:e}", det, route, *(s1.signal_waist_position / (MICRO * M)), *(s1.idler_waist_position / (MICRO * M)));
          match v {
            Some(v) => {
              let z = fl(0.0);
              ctx.k("hom2_vis", &format!("1 {} {} {} {} {} {}", gs, gs, z, z, z, es), &fls(&[v.ss.1, v.ii.1, v.si.1]));
              for (view, t) in views(ctx, &v).iter() {
                vis_preds(ctx, view, t, pur, &detr, false);
              }
            }
            None => ctx.s("C10.purity", false, "hom2/visibilities-panic", &detr),
          }
        }
      }
      if let Some(r) = &res {
        let ident = { let q = raw(&r1); q.0 == q.3 && q.1 == q.4 };
        let norms = [own_norm(&e[0]), own_norm(&e[1]), own_norm(&e[6]), own_norm(&e[7])];
        let vw = views(ctx, r);
        unnamed_cases(ctx, r);
        let fields = vw[0].1.clone().unwrap_or_default();
        let pur = if own_norm(&e[0]) > 0.0 { purity(&e[0], n) } else { None };
        for (view, t) in vw.iter() {
          let detv = format!("{} view={}", det, view);
          ctx.count(&format!("two/series-view/{}", view));
          match t {
            Some(t) if t.iter().all(|c| c.len() == delays.len()) => {
              if *view != "fields" && same_bits(t, &fields) {
                // bit-identical to the struct fields: every predicate has the outcome already reported for them
                ctx.count(&format!("two/series-view/{}/identical-to-fields", view));
                continue;
              }
              rate_bounds(ctx, &t[0], &t[1], &t[2], &delays, &detv, "same", rk, norms, ident);
              // the zero-delay identities read from the zero entry of the multi-delay series, wherever it sits
              if let Some(p) = pur {
                series_zero_pred(ctx, view, t, zero_at, p, &format!("{} delays={:?}", det, delays));
              }
            }
            _ => ctx.s("C10.bounds", false, "hom2/view-without-three-channels", &format!("{} delays={}", detv, delays.len())),
          }
        }
        if own_norm(&e[0]) > 0.0 && r.ss.len() == delays.len() {
          // the rate at a delay does not depend on the other delays of the list: entry = single-delay call
          let mut ok = true;
          let mut why = String::new();
          for (j, tau) in delays.iter().enumerate() {
            let sp = s1.clone();
            let tj = vec![*tau * S];
            match guard(move || sp.hom_two_source_rate_series(tj, r1, integ)) {
              Some(one) => {
                for (name, a, b) in [("ss", r.ss[j], one.ss[0]), ("ii", r.ii[j], one.ii[0]), ("si", r.si[j], one.si[0])] {
                  if !(close(a, b, 1e-10, 1e-13) || (a.is_nan() && b.is_nan())) {
                    ok = false;
                    why = format!("entry={} channel={} tau={:e} in_series={:e} single={:e}", j, name, tau, a, b);
                  }
                }
              }
              None => {
                ok = false;
                why = format!("entry={} single-delay call panicked", j);
              }
            }
          }
          ctx.s("C10.bounds", ok, "hom2/series-entry-eq-single-delay", &format!("{} delays={:?} {}", det, delays, why));
        }
      } else {
        ctx.s("C10.bounds", false, "hom2/rate-series-panic", &det);
      }
    }

    // ---- two different sources, two ranges (array-level function and its visibility wrapper)
    if c % 2 == 0 {
      let st2 = gen_setup(&mut ctx.rng, None);
      let s2 = st2.spdc.clone();
      let js2 = s2.joint_spectrum(integ);
      let (rk2, r2) = if ctx.rng.coin() { (rk, r1) } else { two_range(&mut ctx.rng, &s2, n) };
      let e = eight(&js1, &js2, &r1, &r2);
      let es = eight_str(&e);
      let tt = times.clone();
      let res = guard(|| hom_two_source_rate_series(&js1, &js2, r1, r2, tt));
      let out = res.as_ref().map(|r| fls(&[r.ss.clone(), r.ii.clone(), r.si.clone()].concat())).unwrap_or("PANIC".into());
      ctx.k("hom2", &format!("{} {} {} {} {}", grid_str(&r1), grid_str(&r2), delays.len(), fls(&delays), es), &out);
      ctx.count("two/different-sources");
      let det = format!("setup1={} setup2={} n={} range1={} {} range2={} {}", st1.name, st2.name, n, rk, grid_txt(&r1), rk2, grid_txt(&r2));
      let td = hom_two_source_time_delays(&s1, &s2);
      let (a1, a2) = (s1.clone(), s2.clone());
      let vis = guard(move || hom_two_source_visibilities(&a1, &a2, r1, r2, integ));
      if let Some(v) = &vis {
        let same = s1 == s2;
        ctx.k(
          "hom2_vis",
          &format!(
            "{} {} {} {} {} {} {}",
            if same { 1 } else { 0 },
            grid_str(&r1),
            grid_str(&r2),
            fl(*(td.ss / S)),
            fl(*(td.ii / S)),
            fl(*(td.si / S)),
            es
          ),
          &fls(&[v.ss.1, v.ii.1, v.si.1]),
        );
      }
      // the statement's rate bounds are claimed for every setup; two different sources on two
      // ranges are outside its wording ("two identical sources" / "every setup"), so only the
      // correspondence is checked here
      let _ = det;
    }
    // ---- mismatched step counts: the three assert_eq!
    if c % 5 == 0 {
      let (ax, bx, nn, ay, by, _) = raw(&r1);
      let bad = [
        (fspace(ax, bx, nn, ay, by, nn + 1), r1),
        (r1, fspace(ax, bx, nn + 1, ay, by, nn)),
        (r1, fspace(ax, bx, nn + 1, ay, by, nn + 1)),
      ];
      for (q1, q2) in bad.iter() {
        let tt = vec![0.0 * S];
        let (q1, q2) = (*q1, *q2);
        let res = guard(|| hom_two_source_rate_series(&js1, &js1, q1, q2, tt));
        let out = res.as_ref().map(|r| fls(&[r.ss.clone(), r.ii.clone(), r.si.clone()].concat())).unwrap_or("PANIC".into());
        // the eight arrays are never read before the asserts: pass empty ones
        let empty = vec![Vec::<C>::new(); 8];
        ctx.k("hom2", &format!("{} {} 1 {} {}", grid_str(&q1), grid_str(&q2), fl(0.0), eight_str(&empty)), &out);
        ctx.count("two/assert-mismatch");
      }
    }
  }
}

/// a thin, broadband source: a generous window around it can reach past the pump wavelength
fn broadband_setup(r: &mut Rng) -> Setup {
  let lp = 775.0 + r.range(-10.0, 10.0);
  let len_um = r.log_range(100.0, 600.0);
  let bw = r.range(10.0, 40.0);
  let wp_um = r.log_range(40.0, 400.0);
  let ws_um = r.log_range(30.0, 300.0);
  let ls = 2.0 * lp;
  let json = format!(
    r#"{{"crystal":{{"kind":"BBO_1","pm_type":"e->oo","phi_deg":0,"theta_deg":"auto","length_um":{len_um},"temperature_c":20}},
"pump":{{"wavelength_nm":{lp},"waist_um":{wp_um},"bandwidth_nm":{bw},"average_power_mw":100}},
"signal":{{"wavelength_nm":{ls},"phi_deg":0,"theta_external_deg":0,"waist_um":{ws_um},"waist_position_um":"auto"}},
"idler":"auto","deff_pm_per_volt":1.0}}"#
  );
  let js = json.clone();
  if let Some(Ok(spdc)) = guard(move || SPDC::from_json(js)) {
    let sp = spdc.clone();
    if guard(move || sp.joint_spectrum(Integrator::default())).is_some() {
      return Setup {
        name: format!("BBO-I-thin-broadband/deg L={:.4e}um wp={:.4e}um ws={:.4e}um bw={:.4e}nm lp={:.6}nm ls={:.6}nm", len_um, wp_um, ws_um, bw, lp, ls).replace(' ', ","),
        spdc,
        degenerate: true,
        json: Some(json),
      };
    }
  }
  gen_setup(r, Some(true))
}

fn all_finite(v: &[C]) -> bool {
  v.iter().all(|z| z.re.is_finite() && z.im.is_finite())
}

/// C10 — "this setup against itself" through the method, the free function and the zero-delay entry of the rate
/// series on windows that reach above the pump frequency (wavelengths shorter than the pump's), end exactly at
/// it, or share an edge between the axes: all three are the purity of the JSA matrix sampled on the caller's grid.
fn two_window_part(ctx: &mut Ctx) {
  let sides: &[usize] = if ctx.thorough { &[4, 5, 6, 8, 12, 16, 24] } else { &[4, 5, 6, 8, 16] };
  for c in 0..ctx.n {
    let integ = *ctx.rng.pick(&[Integrator::default(), Integrator::Simpson { divs: 10 }, Integrator::GaussLegendre { degree: 6 }]);
    let st = match c % 3 {
      0 => broadband_setup(&mut ctx.rng),
      1 => gen_setup_x(&mut ctx.rng, None),
      _ => gen_setup(&mut ctx.rng, Some(true)),
    };
    let n = *ctx.rng.pick(sides);
    let s1 = st.spdc.clone();
    let lp_nm = *(s1.pump.vacuum_wavelength() / (NANO * M));
    let (wk, r0) = match c % 4 {
      0 => {
        // wavelength window [x, L]² with x shorter than (or equal to) the pump wavelength
        let x = lp_nm * *ctx.rng.pick(&[1.0, 0.999, 0.99, 0.98, 0.95, 0.9]);
        let l = lp_nm * ctx.rng.range(3.0, 4.0);
        let w = WavelengthSpace::new((x * NANO * M, l * NANO * M, n), (x * NANO * M, l * NANO * M, n));
        ("wavelength-window-past-pump", FrequencySpace::from(w))
      }
      1 => above_pump_window(&mut ctx.rng, &s1, n, 0),
      2 => {
        let w = 1 + ctx.rng.below(2);
        above_pump_window(&mut ctx.rng, &s1, n, w)
      }
      _ => two_range(&mut ctx.rng, &s1, n),
    };
    let arg = RangeArg::pick(if c % 2 == 0 { 0 } else { c / 2 }, r0);
    let r1 = arg.frequency_space();
    ctx.count(&format!("twowin/window/{}", wk));
    ctx.count(&format!("twowin/range-arg/{}", arg.name()));
    let js1 = s1.joint_spectrum(integ);
    let e = eight(&js1, &js1, &r1, &r1);
    let es = eight_str(&e);
    let gs = grid_str(&r1);
    let wp = *(s1.pump.frequency() / (RAD / S));
    let q = raw(&r1);
    let above = q.0 > wp || q.1 > wp || q.3 > wp || q.4 > wp;
    ctx.count(if above { "twowin/reaches-above-pump" } else { "twowin/below-pump" });
    let norm = own_norm(&e[0]);
    let usable = all_finite(&e[0]) && norm > 0.0;
    ctx.count(if usable { "twowin/non-zero-spectrum" } else { "twowin/zero-or-nan-spectrum" });
    let pur = if usable { purity(&e[0], n) } else { None };
    let det = format!(
      "setup={} range_arg={} integrator={} n={} window={} above_pump={} pump_frequency={:e} {}",
      st.name, arg.name(), format!("{:?}", integ).replace(' ', ""), n, wk, above as u8, wp, grid_txt(&r1)
    );
    let z = fl(0.0);
    // method
    let sp = s1.clone();
    let vm = guard(move || with_range!(arg, r => sp.hom_two_source_visibilities(r, integ)));
    // free function, same reference
    let a = s1.clone();
    let vf = guard(move || hom_two_source_visibilities(&a, &a, r1, r1, integ));
    // rate series with the zero entry last
    let span = (q.1 - q.0).abs().max((q.4 - q.3).abs());
    let t = ctx.rng.log_range(0.05, 20.0) / span.max(1.0);
    let delays = vec![t, 0.0];
    let sp = s1.clone();
    let tt: Vec<Time> = delays.iter().map(|x| *x * S).collect();
    let ser = guard(move || with_range!(arg, r => sp.hom_two_source_rate_series(tt, r, integ)));
    for (route, v) in [("method", &vm), ("free-function", &vf)] {
      match v {
        Some(v) => {
          ctx.k("hom2_vis", &format!("1 {} {} {} {} {} {}", gs, gs, z, z, z, es), &fls(&[v.ss.1, v.ii.1, v.si.1]));
          if usable {
            let t3 = Some([v.ss.flat(), v.ii.flat(), v.si.flat()]);
            vis_preds(ctx, "fields", &t3, pur, &format!("{} route={}", det, route), true);
          }
        }
        None => ctx.s("C10.purity", false, "hom2/visibilities-panic", &format!("{} route={}", det, route)),
      }
    }
    if let (Some(m), Some(f), true) = (&vm, &vf, usable) {
      // one statement, two routes: the same three numbers
      let same = [(m.ss.1, f.ss.1), (m.ii.1, f.ii.1), (m.si.1, f.si.1)].iter().all(|(x, y)| (x - y).abs() <= 1e-9 || (x.is_nan() && y.is_nan()));
      ctx.s(
        "C10.purity",
        same,
        "hom2/method-eq-free-function",
        &format!("{} method=({:e},{:e},{:e}) free=({:e},{:e},{:e})", det, m.ss.1, m.ii.1, m.si.1, f.ss.1, f.ii.1, f.si.1),
      );
    }
    match &ser {
      Some(r) => {
        ctx.k("hom2", &format!("{} {} {} {} {}", gs, gs, delays.len(), fls(&delays), es), &fls(&[r.ss.clone(), r.ii.clone(), r.si.clone()].concat()));
        if let (Some(p), true) = (pur, r.ss.len() == 2 && r.ii.len() == 2 && r.si.len() == 2) {
          series_zero_pred(ctx, "fields", &[r.ss.clone(), r.ii.clone(), r.si.clone()], 1, p, &format!("{} delays={:?}", det, delays).replace(", ", ","));
          if let Some(m) = &vm {
            // the method's visibilities are (½ − rate)/½ of the zero-delay entry of the method's own series
            let ok = [(m.ss.1, r.ss[1]), (m.ii.1, r.ii[1]), (m.si.1, r.si[1])].iter().all(|(v, x)| (v - (0.5 - x) / 0.5).abs() <= 1e-9);
            ctx.s("C10.purity", ok, "hom2/visibilities-eq-zero-delay-series", &format!("{} vis=({:e},{:e},{:e}) series_zero=({:e},{:e},{:e})", det, m.ss.1, m.ii.1, m.si.1, r.ss[1], r.ii[1], r.si[1]));
          }
        }
      }
      None => ctx.s("C10.bounds", false, "hom2/rate-series-panic", &det),
    }
  }
}

/// C10 — sides beyond the usual 4–24 (more than 4096 grid points; side⁴ terms per delay): V_ss = V_ii = purity
/// on windows narrower than the optimum range, so that the first and last rows of the JSA matrix are non-zero.
/// S only (the model's four-index sum on these sides would take minutes).
fn two_big_part(ctx: &mut Ctx) {
  for c in 0..ctx.n {
    let n = match c % 4 {
      0 => ctx.rng.between(65, 68),
      1 => ctx.rng.between(69, 84),
      2 => 64,
      _ => *ctx.rng.pick(&[90usize, 91, 96]),
    };
    let integ = Integrator::Simpson { divs: 10 };
    let st = if c % 2 == 0 { Setup { name: "default".into(), spdc: SPDC::default(), degenerate: true, json: None } } else { gen_setup(&mut ctx.rng, Some(true)) };
    let s1 = st.spdc.clone();
    let o = raw(&s1.optimum_range(n));
    let (cx, cy) = (0.5 * (o.0 + o.1), 0.5 * (o.3 + o.4));
    let (hx, hy) = (0.5 * (o.1 - o.0).abs(), 0.5 * (o.4 - o.3).abs());
    let k = ctx.rng.range(0.3, 0.6);
    let r1 = fspace(cx - k * hx, cx + k * hx, n, cy - k * hy, cy + k * hy, n);
    let js1 = s1.joint_spectrum(integ);
    let f = js1.jsa_range(r1);
    let usable = all_finite(&f) && own_norm(&f) > 0.0;
    ctx.count(&format!("twobig/side={}", n));
    let rim: f64 = (0..n).map(|j| f[j].norm_sqr() + f[(n - 1) * n + j].norm_sqr()).sum();
    ctx.count(if rim > 0.0 { "twobig/non-zero-first-and-last-row" } else { "twobig/zero-rim" });
    if !usable {
      continue;
    }
    let pur = purity(&f, n);
    let det = format!("setup={} integrator=Simpson{{divs:10}} n={} window=optimum*{:.4} {}", st.name, n, k, grid_txt(&r1));
    let sp = s1.clone();
    let vm = guard(move || sp.hom_two_source_visibilities(r1, integ));
    match &vm {
      Some(v) => {
        let t3 = Some([v.ss.flat(), v.ii.flat(), v.si.flat()]);
        vis_preds(ctx, "fields", &t3, pur, &det, true);
      }
      None => ctx.s("C10.purity", false, "hom2/visibilities-panic", &det),
    }
    if c % 2 == 1 || ctx.thorough {
      // the zero entry of a two-delay scan, and the bounds of the statement at the other delay
      let t = ctx.rng.log_range(0.05, 20.0) / (2.0 * k * hx.max(hy)).max(1.0);
      let delays = vec![t, 0.0];
      let tt: Vec<Time> = delays.iter().map(|x| *x * S).collect();
      let sp = s1.clone();
      match guard(move || sp.hom_two_source_rate_series(tt, r1, integ)) {
        Some(r) if r.ss.len() == 2 && r.ii.len() == 2 && r.si.len() == 2 => {
          if let Some(p) = pur {
            series_zero_pred(ctx, "fields", &[r.ss.clone(), r.ii.clone(), r.si.clone()], 1, p, &format!("{} delays={:?}", det, delays).replace(", ", ","));
          }
          for (name, v) in [("ss", r.ss[0]), ("ii", r.ii[0])] {
            ctx.s("C10.bounds", v >= -EDGE && v <= 1.0 + EDGE, &format!("hom2/rate-{}-in-unit", name), &format!("{} who=big channel={} tau={:e} rate={:e}", det, name, t, v));
          }
        }
        _ => ctx.s("C10.bounds", false, "hom2/rate-series-panic", &det),
      }
    }
  }
}

// single call sites for the setup-level two-source calls (so that consecutive calls for different setups run
// with the same stack layout, as a user's loop over sources would)
#[inline(never)]
fn call_two_vis(spdc: &SPDC, r: FrequencySpace, integ: Integrator) -> Option<spdcalc::HomTwoSourceResult<(Time, f64)>> {
  let sp = spdc.clone();
  guard(move || sp.hom_two_source_visibilities(r, integ))
}
#[inline(never)]
fn call_two_series(spdc: &SPDC, times: Vec<Time>, r: FrequencySpace, integ: Integrator) -> Option<spdcalc::HomTwoSourceResult<Vec<f64>>> {
  let sp = spdc.clone();
  guard(move || sp.hom_two_source_rate_series(times, r, integ))
}

/// C10 — several different setups on ONE common grid, called in a loop from one call site: visibilities for
/// all, delay scans for all, then reversed and interleaved orders; non-default integrators.  Every result is
/// compared with that setup's own purity (nalgebra SVD of its own `jsa_range` sampled with the same
/// integrator) and with the model fed with its own eight grids.
fn two_loop_part(ctx: &mut Ctx) {
  for round in 0..ctx.n {
    let st0 = if round % 2 == 0 { gen_setup(&mut ctx.rng, Some(true)) } else { gen_setup_x(&mut ctx.rng, Some(true)) };
    let n = *ctx.rng.pick(if ctx.thorough { &[4usize, 6, 8, 11][..] } else { &[4usize, 5, 6][..] });
    // variants of the setup that share its wavelengths, so that one grid suits all of them
    let mut setups: Vec<(String, SPDC)> = vec![(st0.name.clone(), st0.spdc.clone())];
    for (tag, fl_, fb) in [("L*0.5,bw*2", 0.5, 2.0), ("L*2,bw*0.5", 2.0, 0.5), ("L*1,bw*3", 1.0, 3.0)] {
      let mut s = st0.spdc.clone();
      s.crystal_setup.length = s.crystal_setup.length * fl_;
      s.pump_bandwidth = s.pump_bandwidth * fb;
      let s2 = s.clone();
      if guard(move || s2.joint_spectrum(Integrator::default())).is_some() {
        setups.push((format!("{},variant={}", st0.name, tag), s));
      }
    }
    let grid = match ctx.rng.below(3) {
      0 => st0.spdc.optimum_range(n),
      1 => symmetric_range(&mut ctx.rng, &st0.spdc, n),
      _ => two_range(&mut ctx.rng, &st0.spdc, n).1,
    };
    // integrator: mostly non-default, fixed-step ones (fast)
    let integ = *ctx.rng.pick(&[
      Integrator::Simpson { divs: 200 },
      Integrator::GaussLegendre { degree: 40 },
      Integrator::Simpson { divs: 20 },
      Integrator::GaussLegendre { degree: 8 },
      Integrator::Simpson { divs: 50 },
      Integrator::AdaptiveSimpson { tolerance: 1e-4, max_depth: 8 },
    ]);
    let iname = format!("{:?}", integ).replace(' ', "");
    ctx.count(&format!("twoloop/integrator/{}", iname.split('{').next().unwrap_or("?")));
    let (ax, bx, _, ay, by, _) = raw(&grid);
    let span = (bx - ax).abs().max((by - ay).abs());
    let t = ctx.rng.log_range(0.05, 20.0) / span.max(1.0);
    let delays = vec![0.0, t, -t];
    let times: Vec<Time> = delays.iter().map(|x| *x * S).collect();
    let gs = grid_str(&grid);
    let ident = ax == ay && bx == by;
    // each setup's own eight grids and purity, sampled by the harness with the same integrator
    let own: Vec<(Vec<Vec<C>>, Option<f64>)> = setups
      .iter()
      .map(|(_, s)| {
        let js = s.joint_spectrum(integ);
        let e = eight(&js, &js, &grid, &grid);
        let p = purity(&e[0], n);
        (e, p)
      })
      .collect();
    // orders: visibilities for all, scans for all, reversed, interleaved
    let m = setups.len();
    let mut script: Vec<(usize, bool)> = vec![];
    for j in 0..m {
      script.push((j, true));
    }
    for j in 0..m {
      script.push((j, false));
    }
    for j in (0..m).rev() {
      script.push((j, true));
    }
    for _ in 0..m {
      script.push((ctx.rng.below(m), ctx.rng.coin()));
    }
    let mut prev = "none".to_string();
    for (pos, &(j, want_vis)) in script.iter().enumerate() {
      let (name, spdc) = &setups[j];
      let (e, pur) = &own[j];
      let es = eight_str(e);
      let norm = own_norm(&e[0]);
      let here = format!("setup#{}/{}", j, if want_vis { "visibilities" } else { "rate_series" });
      let det = format!(
        "round={} pos={} call={} previous_call={} setup={} integrator={} n={} {} seedcase={}",
        round, pos, here, prev, name, iname, n, grid_txt(&grid), ctx.seed
      );
      ctx.count(if want_vis { "twoloop/visibilities" } else { "twoloop/rate_series" });
      if want_vis {
        match call_two_vis(spdc, grid, integ) {
          Some(v) => {
            let z = fl(0.0);
            ctx.k("hom2_vis", &format!("1 {} {} {} {} {} {}", gs, gs, z, z, z, es), &fls(&[v.ss.1, v.ii.1, v.si.1]));
            let vw = views(ctx, &v);
            if norm > 0.0 {
              for (view, t) in vw.iter() {
                vis_preds(ctx, view, t, *pur, &det, false);
              }
            }
          }
          None => ctx.s("C10.purity", false, "hom2/visibilities-panic", &det),
        }
      } else {
        match call_two_series(spdc, times.clone(), grid, integ) {
          Some(r) => {
            ctx.k("hom2", &format!("{} {} {} {} {}", gs, gs, delays.len(), fls(&delays), es), &fls(&[r.ss.clone(), r.ii.clone(), r.si.clone()].concat()));
            let vw = views(ctx, &r);
            if norm > 0.0 {
              let fields = vw[0].1.clone().unwrap_or_default();
              for (view, t) in vw.iter() {
                let detv = format!("{} view={}", det, view);
                match t {
                  Some(t) if t.iter().all(|c| c.len() == delays.len()) => {
                    if *view != "fields" && same_bits(t, &fields) {
                      ctx.count(&format!("twoloop/series-view/{}/identical-to-fields", view));
                      continue;
                    }
                    // zero delay: the visibilities (½ − rate)/½ of the series are the purity as well
                    if let Some(p) = pur {
                      series_zero_pred(ctx, view, t, 0, *p, &det);
                    }
                    rate_bounds(ctx, &t[0], &t[1], &t[2], &delays, &detv, "same", "loop", [norm, own_norm(&e[1]), own_norm(&e[6]), own_norm(&e[7])], ident);
                  }
                  _ => ctx.s("C10.bounds", false, "hom2/view-without-three-channels", &detv),
                }
              }
            }
          }
          None => ctx.s("C10.bounds", false, "hom2/rate-series-panic", &det),
        }
      }
      prev = here;
    }
  }
}

#[allow(clippy::too_many_arguments)]
fn rate_bounds(ctx: &mut Ctx, ss: &[f64], ii: &[f64], si: &[f64], delays: &[f64], det: &str, who: &str, rk: &str, norms: [f64; 4], identical_axes: bool) {
  let (n1, n2) = (norms[0], norms[1]);
  if !(n1 > 0.0 && n2 > 0.0) {
    return;
  }
  // N1'·N2' (norms of the idler×idler and signal×signal grids) against N1·N2: the quantity the
  // signal–idler bound of theorem `si_mem_unit_partial` depends on
  let ratio = norms[2] * norms[3] / (n1 * n2);
  let axes = if identical_axes { "identical" } else { "unequal" };
  for (j, tau) in delays.iter().enumerate() {
    for (name, v) in [("ss", ss[j]), ("ii", ii[j]), ("si", si[j])] {
      let ok = v >= -EDGE && v <= 1.0 + EDGE;
      let sig = if ok {
        format!("hom2/rate-{}-in-unit", name)
      } else if v > 1.0 {
        format!("hom2/rate-{}-above-one", name)
      } else {
        format!("hom2/rate-{}-not-in-unit", name)
      };
      ctx.s(
        "C10.bounds",
        ok,
        &sig,
        &format!(
          "{} who={} rangekind={} axes={} nprime_gt={} nprime_ratio={:e} channel={} tau={:e} rate={:e}",
          det, who, rk, axes, if ratio > 1.0 { 1 } else { 0 }, ratio, name, tau, v
        ),
      );
    }
  }
}
